#!/usr/bin/env python3
"""Regenerate the generated parts of DESIGN.md section 11 (between BEGIN/END markers):
the status table (tools/status.py) and the list of seeded changes (seeded/*/meta.json)."""
import json, glob, os, re, subprocess
V = os.path.dirname(os.path.dirname(os.path.abspath(__file__)))
status = subprocess.run(["python3", os.path.join(V, "tools/status.py")], stdout=subprocess.PIPE).stdout.decode()
rows = []
for d in sorted(glob.glob(os.path.join(V, "seeded", "*"))):
    try: m = json.load(open(os.path.join(d, "meta.json")))
    except Exception: continue
    short = lambda s, n: (s[:n].rsplit(" ", 1)[0] + " …") if len(s) > n else s
    rows.append("| `%s` | %s | %s | %s |" % (os.path.basename(d), m.get("property", "?"),
                short(" ".join(str(m.get("needs_to_manifest", "")).split()), 260).replace("|", "/"),
                " ".join(str(m.get("caught_by", "?")).split()).replace("|", "/")))
seeds = "| seeded change | property | needs, in order to manifest | caught by |\n|---|---|---|---|\n" + "\n".join(rows) + "\n"
p = os.path.join(V, "DESIGN.md"); s = open(p).read()
def put(s, tag, body):
    a, b = "<!-- BEGIN %s -->" % tag, "<!-- END %s -->" % tag
    if a not in s: raise SystemExit("marker %s missing" % tag)
    return s[:s.index(a) + len(a)] + "\n" + body + s[s.index(b):]
s = put(s, "status", status); s = put(s, "seeds", seeds)
open(p, "w").write(s)
print("DESIGN.md updated: %d seeded changes" % len(rows))
