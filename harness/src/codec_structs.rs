//! Generated structures (service_types/): descriptors, byte-level generator and the round trip
//! through the real decode / byte_len / encode.  The tables come from
//! tools/translate/c01_service_types.py (codec_structs_gen.rs).
#![allow(dead_code)]
use crate::cc::*;
use crate::util::*;
use opcua::types::*;
use std::io::Cursor;

#[derive(Clone, Debug)]
pub enum D { S(u8), Var, DV, Arr(Box<D>), Struct(Vec<D>), Enum(u8, Vec<i64>, bool), Flags(u8, i64) }

include!("codec_structs_gen.rs");

pub fn count() -> usize { NAMES.len() }
pub fn index_of(name: &str) -> Option<usize> { NAMES.iter().position(|n| *n == name) }

/// decode, re-encode, decode the re-encoding followed by the unread rest: the form of Model.run (CBytes)
fn rt<T: BinaryEncoder<T>>(o: &HOpts, bs: &[u8]) -> Vec<i128> {
    let ro = o.real();
    let first = guarded(|| { let mut s = Cursor::new(bs); let v = T::decode(&mut s, &ro); (v, s.position() as usize) });
    let (v, pos) = match first { Err(_) => return vec![-2], Ok((Err(_), _)) => return vec![-1], Ok((Ok(v), p)) => (v, p) };
    let mut out: Vec<i128> = vec![0, pos as i128, 0];
    let enc = guarded(|| { let bl = v.byte_len(); let mut c = Cursor::new(Vec::new()); let r = v.encode(&mut c); (bl, r.is_ok(), c.into_inner()) });
    let (bl, ok, b) = match enc { Err(_) => { out.push(-2); return out } Ok(x) => x };
    if !ok { out.push(-1); return out }
    out.push(bl as i128); out.push(b.len() as i128); out.extend(b.iter().map(|x| *x as i128));
    let mut input = b.clone(); input.extend(&bs[pos..]);
    let ro = o.real();
    let second = guarded(|| { let mut s = Cursor::new(&input[..]); let v = T::decode(&mut s, &ro); (v, s.position() as usize) });
    match second {
        Err(_) => out.push(-2),
        Ok((Err(_), _)) => out.push(-1),
        Ok((Ok(v2), p2)) => {
            out.push(0); out.push(p2 as i128); out.push(0);
            match guarded(|| { let mut c = Cursor::new(Vec::new()); let r = v2.encode(&mut c); (r.is_ok(), c.into_inner()) }) {
                Ok((true, b3)) => { out.push(b3.len() as i128); out.extend(b3.iter().map(|x| *x as i128)); }
                Ok((false, _)) => out.push(-1),
                Err(_) => out.push(-2),
            }
        }
    }
    out
}
/// decode only (C02)
fn obs<T: BinaryEncoder<T>>(ro: &DecodingOptions, mut s: &mut dyn std::io::Read) -> bool { T::decode(&mut s, ro).is_ok() }

pub fn gen_bytes(d: &D, r: &mut Rng, out: &mut Vec<u8>) {
    match d {
        D::S(k) => { let v = g_scalar(r, *k, 1, 4); let _ = enc_scalar(&v, out); }
        D::Var => { let v = g_variant(r, 1, 4); let _ = enc_uval(&UVal::V(v), out); }
        D::DV => { let v = g_datavalue(r, 0, 4); let _ = enc_uval(&UVal::D(v), out); }
        D::Arr(e) => {
            let n: i32 = match r.below(8) { 0 => -1, 1 | 2 => 0, 3 => 2, _ => 1 };
            out.extend(n.to_le_bytes());
            for _ in 0..n.max(0) { gen_bytes(e, r, out) }
        }
        D::Struct(fs) => for f in fs { gen_bytes(f, r, out) },
        D::Enum(w, vals, _) => {
            let v: i64 = if r.chance(1, 12) { r.range(-2, 70) } else { *r.pick(vals) };
            out.extend(&v.to_le_bytes()[..*w as usize]);
        }
        D::Flags(w, bits) => {
            let v: i64 = match r.below(4) { 0 => 0, 1 => *bits, 2 => -1, _ => r.next() as i64 };
            out.extend(&v.to_le_bytes()[..*w as usize]);
        }
    }
}
pub fn gen_case(r: &mut Rng) -> (usize, Vec<u8>) {
    let idx = r.below(count() as u64) as usize;
    let mut bs = Vec::new();
    gen_bytes(&desc(idx), r, &mut bs);
    match r.below(10) { 0 => { let k = r.below(bs.len() as u64 + 1) as usize; bs.truncate(k); } 1 => bs.extend(r.bytes(3)), _ => {} }
    (idx, bs)
}
pub const SAMPLE: [&str; 30] = ["ReadRequest", "ReadResponse", "WriteRequest", "WriteResponse", "CreateSessionRequest", "CreateSessionResponse",
    "ActivateSessionRequest", "ActivateSessionResponse", "BrowseRequest", "BrowseResponse", "BrowseNextRequest", "PublishRequest", "PublishResponse",
    "CreateSubscriptionRequest", "CreateMonitoredItemsRequest", "CreateMonitoredItemsResponse", "CallRequest", "CallResponse",
    "OpenSecureChannelRequest", "OpenSecureChannelResponse", "GetEndpointsResponse", "TranslateBrowsePathsToNodeIdsRequest",
    "RequestHeader", "ResponseHeader", "ServiceFault", "EndpointDescription", "DataChangeNotification", "EventFilter", "AddNodesRequest", "RegisterServer2Request"];
pub fn fixed_cases() -> Vec<(usize, Vec<u8>)> {
    let mut r = Rng::new(4242);
    let mut v = Vec::new();
    for name in SAMPLE {
        if let Some(idx) = index_of(name) {
            for _ in 0..2 { let mut bs = Vec::new(); gen_bytes(&desc(idx), &mut r, &mut bs); v.push((idx, bs)); }
        }
    }
    v
}
pub fn exec_bytes(idx: usize, o: &HOpts, bs: &[u8]) -> Out {
    let out = roundtrip(idx, o, bs);
    let tag = format!("struct-{}{}", if SAMPLE.contains(&NAMES[idx]) { NAMES[idx] } else { "other" }, if out[0] == 0 { "" } else { "-rejected" });
    Out { tag, term: format!("(CBytes T_{} {} {})", NAMES[idx], o.term(), zbytes(bs)), out }
}
