(* C29 — Deleting a node terminates and leaves no dangling references.  Statements only. *)
From Coq Require Import List ZArith.
From OV Require Import C28.Refs C29.Model C29.Proofs.
Open Scope Z_scope.

Theorem C29_cycle_example : valid cycle2 /\ oracle cycle2 (run cycle2) = true.
Proof. exact cycle2_ok. Qed.
Print Assumptions C29_cycle_example.
