(* security policies that derive symmetric keys, and the two PRF hashes *)
Inductive policy := Basic128Rsa15 | Basic256 | Basic256Sha256 | Aes128Sha256RsaOaep | Aes256Sha256RsaPss.
Inductive hash_alg := HSha1 | HSha256.
Definition all_policies := (cons Basic128Rsa15 (cons Basic256 (cons Basic256Sha256 (cons Aes128Sha256RsaOaep (cons Aes256Sha256RsaPss nil))))).
