From Coq Require Import List ZArith Bool Lia.
From OV Require Import C32.Model.
Import ListNotations.
Open Scope Z_scope.

(* ---- lists ---- *)
Lemma len_nonneg {A} (l : list A) : 0 <= len l. Proof. unfold len. lia. Qed.

Lemma znth_Some_range {A} (l : list A) i x : znth l i = Some x -> 0 <= i < len l.
Proof.
  unfold znth. destruct ((i <? 0) || (len l <=? i)) eqn:E; [discriminate|].
  apply orb_false_iff in E as [E1 E2]. apply Z.ltb_ge in E1. apply Z.leb_gt in E2. lia.
Qed.
Lemma znth_None_iff {A} (l : list A) i : znth l i = None <-> i < 0 \/ len l <= i.
Proof.
  unfold znth. destruct ((i <? 0) || (len l <=? i)) eqn:E.
  - apply orb_true_iff in E as [E|E]; [apply Z.ltb_lt in E | apply Z.leb_le in E]; split; auto; lia.
  - apply orb_false_iff in E as [E1 E2]. apply Z.ltb_ge in E1. apply Z.leb_gt in E2. split; [|lia].
    intro H. apply nth_error_None in H. unfold len in *. lia.
Qed.

(* ---- overwrite = its specification ---- *)
Lemma overwrite_spec_from : forall dst p src lo hi,
  overwrite dst (Z.of_nat p) src lo hi = map (spec_elem src lo hi) (combine (seq p (length dst)) dst).
Proof.
  induction dst as [|d dst IH]; intros p src lo hi; cbn [overwrite length seq combine map]; [reflexivity|].
  f_equal.
  - unfold spec_elem. cbn [fst snd].
    destruct ((lo <=? Z.of_nat p) && (Z.of_nat p <=? hi)) eqn:W; cbn [andb].
    + destruct (znth src (Z.of_nat p - lo)) eqn:Z1.
      * apply znth_Some_range in Z1 as R. rewrite (proj2 (Z.ltb_lt _ _)) by lia. reflexivity.
      * destruct (Z.of_nat p - lo <? len src); reflexivity.
    + reflexivity.
  - replace (Z.of_nat p + 1) with (Z.of_nat (S p)) by lia. apply IH.
Qed.
Lemma overwrite_spec : forall dst src lo hi, overwrite dst 0 src lo hi = spec_overwrite dst src lo hi.
Proof. intros. apply (overwrite_spec_from dst 0%nat). Qed.

(* ---- index ranges produced by the parser are well formed ---- *)
Definition wf_range (r : nrange) : Prop :=
  match r with NIndex i => 0 <= i | NRange lo hi => 0 <= lo < hi | _ => True end.

Lemma digits_val_nonneg : forall l acc n, 0 <= acc -> digits_val l acc = Some n -> 0 <= n.
Proof.
  induction l as [|b l IH]; intros acc n Ha H; cbn in H; [inversion H; lia|].
  destruct (is_digit b) eqn:D; [|discriminate]. unfold is_digit in D. apply andb_true_iff in D as [D1 D2].
  apply Z.leb_le in D1. apply (IH (acc * 10 + (b - 48))); [lia | exact H].
Qed.
Lemma number_nonneg : forall l n, number l = Some n -> 0 <= n.
Proof.
  intros l n H. unfold number in H. destruct l; [discriminate|].
  destruct (10 <? _); [discriminate|]. eapply digits_val_nonneg; [|exact H]. lia.
Qed.
Lemma parse_one_wf : forall l r, parse_one l = Some r -> wf_range r.
Proof.
  intros l r H. unfold parse_one in H. destruct (split_on 58 l []) as [|a [|b [|c rest]]]; try discriminate.
  - destruct (number a) eqn:N; [|discriminate]. destruct (z <=? U32MAX); [|discriminate]. inversion H; subst. cbn.
    eapply number_nonneg; exact N.
  - destruct (number a) eqn:Na; [|discriminate]. destruct (number b) eqn:Nb; [|discriminate].
    destruct ((z0 <=? z) || (U32MAX <? z0)) eqn:E; [discriminate|]. inversion H; subst. cbn.
    apply orb_false_iff in E as [E _]. apply Z.leb_gt in E. apply number_nonneg in Na. lia.
Qed.
Lemma parse_range_wf : forall s r, parse_range s = Some r -> wf_range r.
Proof.
  intros s r H. unfold parse_range in H. destruct s as [|b s]; [inversion H; exact I|].
  destruct (split_on 44 (b :: s) []) as [|p [|q rest]] eqn:E.
  - destruct (Z.of_nat (length (@nil (list Z))) <=? MAX_INDICES); [|discriminate].
    cbn in H. inversion H. exact I.
  - apply parse_one_wf in H. exact H.
  - destruct (Z.of_nat (length (p :: q :: rest)) <=? MAX_INDICES); [|discriminate].
    destruct (parse_all (p :: q :: rest)); inversion H. exact I.
Qed.

(* ---- reads ---- *)
Lemma min_clamp : forall hi n, (if n <=? hi then n - 1 else hi) = Z.min hi (n - 1).
Proof. intros. destruct (n <=? hi) eqn:E; [apply Z.leb_le in E | apply Z.leb_gt in E]; lia. Qed.

Lemma range_of_spec : forall v r v', wf_range r -> range_of false v r = Ok v' -> spec_read v r = Some v'.
Proof.
  intros v r v' Hwf H. unfold range_of, substring, str_substring, bs_substring in H.
  destruct r as [|i|lo hi|l]; cbn [spec_read wf_range] in *.
  - inversion H. reflexivity.
  - destruct v as [|t n|s|s|t vs]; try discriminate.
    + destruct s as [l|]; [|discriminate].
      destruct (len l <=? i) eqn:E; [discriminate|]. apply Z.leb_gt in E.
      destruct (is_boundary l i && is_boundary l (i + 1)); [|discriminate]. inversion H.
      rewrite (proj2 (Z.ltb_lt _ _) E). reflexivity.
    + destruct s as [l|]; [|discriminate].
      destruct (len l <=? i) eqn:E; [discriminate|]. apply Z.leb_gt in E.
      destruct (i <? i); [discriminate|]. inversion H. rewrite (proj2 (Z.ltb_lt _ _) E). reflexivity.
    + destruct (znth vs i); inversion H. reflexivity.
  - destruct v as [|t n|s|s|t vs]; try discriminate.
    + destruct s as [l|]; [|discriminate].
      destruct (len l <=? lo) eqn:E; [discriminate|]. apply Z.leb_gt in E.
      rewrite min_clamp in H.
      destruct (is_boundary l lo && is_boundary l (Z.min hi (len l - 1) + 1)); [|discriminate]. inversion H.
      rewrite (proj2 (Z.ltb_lt _ _) E). reflexivity.
    + destruct s as [l|]; [|discriminate].
      destruct (len l <=? lo) eqn:E; [discriminate|]. apply Z.leb_gt in E. rewrite min_clamp in H.
      destruct (Z.min hi (len l - 1) <? lo); [discriminate|]. inversion H. rewrite (proj2 (Z.ltb_lt _ _) E). reflexivity.
    + destruct (len vs <=? lo) eqn:E; [discriminate|]. apply Z.leb_gt in E. rewrite min_clamp in H.
      destruct (Z.min hi (len vs - 1) <? lo); [discriminate|]. inversion H. rewrite (proj2 (Z.ltb_lt _ _) E). reflexivity.
  - discriminate.
Qed.

Lemma range_of_no_panic : forall v r, wf_range r -> range_of false v r <> Panic.
Proof.
  intros v r Hwf. unfold range_of, substring, str_substring, bs_substring.
  destruct r as [|i|lo hi|l]; cbn [wf_range] in *; try discriminate.
  - destruct v as [|t n|s|s|t vs]; try discriminate.
    + destruct s as [l|]; [|discriminate]. destruct (len l <=? i); [discriminate|].
      destruct (is_boundary l i && is_boundary l (i + 1)); discriminate.
    + destruct s as [l|]; [|discriminate]. destruct (len l <=? i) eqn:E; [discriminate|].
      rewrite Z.ltb_irrefl. discriminate.
    + destruct (znth vs i); discriminate.
  - destruct v as [|t n|s|s|t vs]; try discriminate.
    + destruct s as [l|]; [|discriminate]. destruct (len l <=? lo); [discriminate|].
      destruct (is_boundary l lo && _); discriminate.
    + destruct s as [l|]; [|discriminate]. destruct (len l <=? lo) eqn:E; [discriminate|]. apply Z.leb_gt in E.
      rewrite min_clamp. rewrite (proj2 (Z.ltb_ge _ _)) by lia. discriminate.
    + destruct (len vs <=? lo) eqn:E; [discriminate|]. apply Z.leb_gt in E.
      rewrite min_clamp. rewrite (proj2 (Z.ltb_ge _ _)) by lia. discriminate.
Qed.

(* ---- writes ---- *)
Lemma set_range_of_spec : forall full r other nv, wf_range r ->
  set_range_of full r other = Ok nv ->
  match r, full, other with
  | NIndex i, VArr t vs, VArr _ (o :: _) => i < len vs /\ nv = VArr t (spec_overwrite vs [o] i i)
  | NRange lo hi, VArr t vs, VArr _ src => lo < len vs /\ nv = VArr t (spec_overwrite vs src lo hi)
  | _, _, _ => False
  end.
Proof.
  intros full r other nv Hwf H. unfold set_range_of in H.
  destruct (negb (opt_eqb (array_type full) (array_type other))); [discriminate|].
  destruct other as [| | | |ot ovs]; try discriminate.
  destruct full as [| | | |t vs]; try discriminate.
  destruct r as [|i|lo hi|l]; try discriminate.
  - destruct (len vs <=? i) eqn:E; [discriminate|]. apply Z.leb_gt in E.
    destruct ovs as [|o ovs]; [discriminate|]. inversion H. rewrite overwrite_spec. split; [exact E | reflexivity].
  - destruct (len vs <=? lo) eqn:E; [discriminate|]. apply Z.leb_gt in E.
    inversion H. rewrite overwrite_spec. split; [exact E | reflexivity].
Qed.

Lemma set_value_spec : forall x r v nv, wf_range r -> set_value x r v = Ok nv -> spec_written x (v_value x) r v = Some nv.
Proof.
  intros x r v nv Hwf H. unfold set_value in H. unfold spec_written.
  set (v' := to_stored (v_rank x) (v_dtype x) v) in *.
  destruct r as [|i|lo hi|l].
  - inversion H. reflexivity.
  - apply set_range_of_spec in H; [|exact Hwf]. destruct (v_value x) as [| | | |t vs]; try contradiction.
    destruct v' as [| | | |ot [|o ovs]]; try contradiction. destruct H as [Hi ->].
    rewrite (proj2 (Z.ltb_lt _ _) Hi). reflexivity.
  - apply set_range_of_spec in H; [|exact Hwf]. destruct (v_value x) as [| | | |t vs]; try contradiction.
    destruct v' as [| | | |ot ovs]; try contradiction. destruct H as [Hi ->].
    rewrite (proj2 (Z.ltb_lt _ _) Hi). reflexivity.
  - apply set_range_of_spec in H; [|exact Hwf]. contradiction.
Qed.

Lemma set_value_no_panic : forall x r v, set_value x r v <> Panic.
Proof.
  intros x r v. unfold set_value.
  set (v' := to_stored (v_rank x) (v_dtype x) v).
  destruct r; try discriminate; unfold set_range_of;
    destruct (negb (opt_eqb (array_type (v_value x)) (array_type v'))); try discriminate;
    destruct v'; try discriminate; destruct (v_value x); try discriminate.
  - destruct (len vs0 <=? i); [discriminate|]. destruct vs; discriminate.
  - destruct (len vs0 <=? lo); discriminate.
Qed.

Lemma set_value_err : forall x r v c, set_value x r v = Err c -> 0 < c.
Proof.
  intros x r v c S. unfold set_value in S. destruct r; try discriminate; unfold set_range_of in S;
    repeat match type of S with
           | (if ?b then _ else _) = _ => destruct b
           | match ?v with _ => _ end = _ => destruct v
           end; inversion S; lia.
Qed.

(* a write of the model: what a Good status means, and that nothing else changes the variable *)
Theorem write_good : forall subs x node attr range v x',
  write subs x node attr range v = Ok (0, x') ->
  node = 1 /\
  ((attr = 13 /\ user_can_write x = true /\
    exists r w, parse_range (range_str range) = Some r /\ v = Some w /\ type_compatible subs x w = true /\
                spec_written x (v_value x) r w = Some (v_value x') /\ x' = with_value x (v_value x')) \/
   (attr <> 13 /\ mask_allows x attr = true /\ range = None /\
    exists w, v = Some w /\ set_attr x attr w = (0, x'))).
Proof.
  intros subs x node attr range v x' H. unfold write in H.
  destruct (negb ((node =? 1) || (node =? 2))); [inversion H|].
  destruct (negb (valid_attr attr)); [inversion H|].
  destruct (attr =? 13) eqn:A.
  - apply Z.eqb_eq in A. subst attr.
    destruct ((node =? 1) && user_can_write x) eqn:G; cbn [negb] in H; [|inversion H].
    apply andb_true_iff in G as [Hn Hw]. apply Z.eqb_eq in Hn.
    destruct (parse_range (range_str range)) as [r|] eqn:P; [|inversion H].
    destruct v as [w|]; [|inversion H].
    destruct (type_compatible subs x w) eqn:T; cbn [negb] in H; [|inversion H].
    destruct (set_value x r w) as [nv|c|] eqn:S; [|apply set_value_err in S; inversion H; lia|inversion H].
    inversion H; subst x'. clear H.
    split; [exact Hn|]. left. split; [reflexivity|]. split; [exact Hw|]. exists r, w. repeat split; auto.
    cbn. apply set_value_spec; [eapply parse_range_wf; exact P | exact S].
  - apply Z.eqb_neq in A.
    destruct ((node =? 1) && mask_allows x attr) eqn:G; cbn [negb] in H; [|inversion H].
    apply andb_true_iff in G as [Hn Hm]. apply Z.eqb_eq in Hn.
    destruct range as [rg|]; [inversion H|]. destruct v as [w|]; [|inversion H].
    split; [exact Hn|]. right. repeat split; auto. exists w. split; [reflexivity|].
    destruct (set_attr x attr w) as [st y] eqn:E. inversion H; subst. reflexivity.
Qed.

Lemma set_attr_status : forall x a w, 0 <= fst (set_attr x a w).
Proof.
  intros x a w. unfold set_attr.
  repeat match goal with
         | |- context [match ?v with _ => _ end] => destruct v
         end; cbn; lia.
Qed.
Lemma set_attr_bad : forall x a w, fst (set_attr x a w) <> 0 -> snd (set_attr x a w) = x.
Proof.
  intros x a w. unfold set_attr.
  repeat match goal with
         | |- context [match ?v with _ => _ end] => destruct v
         end; cbn; intros H; try reflexivity; congruence.
Qed.

Theorem write_total : forall subs x node attr range v, exists st x', write subs x node attr range v = Ok (st, x') /\ 0 <= st.
Proof.
  intros subs x node attr range v. unfold write.
  destruct (negb ((node =? 1) || (node =? 2))); [eexists _, _; split; [reflexivity | lia]|].
  destruct (negb (valid_attr attr)); [eexists _, _; split; [reflexivity | lia]|].
  destruct (attr =? 13).
  - destruct (negb _); [eexists _, _; split; [reflexivity | lia]|].
    destruct (parse_range (range_str range)) as [r|]; [|eexists _, _; split; [reflexivity | lia]].
    destruct v as [w|]; [|eexists _, _; split; [reflexivity | lia]].
    destruct (negb (type_compatible subs x w)); [eexists _, _; split; [reflexivity | lia]|].
    destruct (set_value x r w) as [nv|c|] eqn:S.
    + eexists _, _; split; [reflexivity | lia].
    + exists c, x. split; [reflexivity|]. apply set_value_err in S. lia.
    + exfalso. eapply set_value_no_panic. exact S.
  - destruct (negb _); [eexists _, _; split; [reflexivity | lia]|].
    destruct range; [eexists _, _; split; [reflexivity | lia]|].
    destruct v as [w|]; [|eexists _, _; split; [reflexivity | lia]].
    pose proof (set_attr_status x attr w). destruct (set_attr x attr w) as [st y]. eexists _, _; split; [reflexivity | exact H].
Qed.

Theorem write_rejected_unchanged : forall subs x node attr range v st x',
  write subs x node attr range v = Ok (st, x') -> st <> 0 -> x' = x.
Proof.
  intros subs x node attr range v st x' H Hst. unfold write in H.
  destruct (negb ((node =? 1) || (node =? 2))); [inversion H; reflexivity|].
  destruct (negb (valid_attr attr)); [inversion H; reflexivity|].
  destruct (attr =? 13).
  - repeat match type of H with
           | (if ?b then _ else _) = _ => destruct b
           | match ?o with _ => _ end = _ => destruct o eqn:?
           end; inversion H; subst; try reflexivity; congruence.
  - destruct (negb _); [inversion H; reflexivity|]. destruct range; [inversion H; reflexivity|].
    destruct v as [w|]; [|inversion H; reflexivity].
    pose proof (set_attr_bad x attr w) as B. destruct (set_attr x attr w) as [s0 y]. inversion H; subst. apply B. exact Hst.
Qed.

Lemma range_of_err : forall v r c, range_of false v r = Err c -> c = 5.
Proof.
  intros v r c H. unfold range_of, substring, str_substring, bs_substring in H.
  destruct r as [|i|lo hi|l]; try discriminate.
  - destruct v as [|t n|s|s|t vs]; try (inversion H; reflexivity).
    + destruct s as [l|]; [|inversion H; reflexivity]. destruct (len l <=? i); [inversion H; reflexivity|].
      destruct (is_boundary l i && is_boundary l (i + 1)); inversion H; reflexivity.
    + destruct s as [l|]; [|inversion H; reflexivity]. destruct (len l <=? i); [inversion H; reflexivity|].
      destruct (i <? i); inversion H.
    + destruct (znth vs i); inversion H; reflexivity.
  - destruct v as [|t n|s|s|t vs]; try (inversion H; reflexivity).
    + destruct s as [l|]; [|inversion H; reflexivity]. destruct (len l <=? lo); [inversion H; reflexivity|].
      destruct (is_boundary l lo && _); inversion H; reflexivity.
    + destruct s as [l|]; [|inversion H; reflexivity]. destruct (len l <=? lo); [inversion H; reflexivity|].
      destruct (_ <? lo); inversion H.
    + destruct (len vs <=? lo); [inversion H; reflexivity|]. destruct (_ <? lo); inversion H.
  - inversion H; reflexivity.
Qed.

(* reads *)
Theorem read_total : forall x node attr range enc, exists rr, read false x node attr range enc = Ok rr /\ 0 <= rr_status rr.
Proof.
  intros x node attr range enc. unfold read.
  destruct (negb ((node =? 1) || (node =? 2))); [eexists; split; [reflexivity | cbn; lia]|].
  destruct (negb (valid_attr attr)); [eexists; split; [reflexivity | cbn; lia]|].
  destruct (parse_range (range_str range)) as [r|] eqn:P; [|eexists; split; [reflexivity | cbn; lia]].
  destruct ((node =? 1) && negb (user_can_read x)); [eexists; split; [reflexivity | cbn; lia]|].
  destruct (negb (attr =? 13) && _); [eexists; split; [reflexivity | cbn; lia]|].
  destruct (negb (enc_supported enc)); [eexists; split; [reflexivity | cbn; lia]|].
  destruct (node =? 1).
  - destruct (attr =? 13).
    + destruct (range_of false (v_value x) r) as [v|c|] eqn:R.
      * eexists; split; [reflexivity | cbn; lia].
      * eexists; split; [reflexivity|]. cbn. apply range_of_err in R. lia.
      * exfalso. eapply range_of_no_panic; [eapply parse_range_wf; exact P | exact R].
    + destruct (mem attr (var_attrs x)); eexists; split; try reflexivity; cbn; lia.
  - destruct (mem attr obj_attrs); eexists; split; try reflexivity; cbn; lia.
Qed.

Theorem read_good_value : forall x node range enc rr,
  read false x node 13 range enc = Ok rr -> rr_status rr = 0 ->
  node = 1 /\ user_can_read x = true /\
  exists r, parse_range (range_str range) = Some r /\ spec_read (v_value x) r = rr_value rr /\ rr_value rr <> None.
Proof.
  intros x node range enc rr H Hst. unfold read in H.
  destruct (negb ((node =? 1) || (node =? 2))); [inversion H; subst; discriminate|].
  destruct (negb (valid_attr 13)); [inversion H; subst; discriminate|].
  destruct (parse_range (range_str range)) as [r|] eqn:P; [|inversion H; subst; discriminate].
  destruct ((node =? 1) && negb (user_can_read x)) eqn:G; [inversion H; subst; discriminate|].
  cbn [Z.eqb Pos.eqb negb andb] in H.
  destruct (negb (enc_supported enc)); [inversion H; subst; discriminate|].
  destruct (node =? 1) eqn:N.
  - apply Z.eqb_eq in N. cbn in G. apply negb_false_iff in G.
    destruct (range_of false (v_value x) r) as [v|c|] eqn:R; inversion H; subst; cbn in Hst; try discriminate.
    + split; [reflexivity|]. split; [exact G|]. exists r. split; [reflexivity|]. cbn. split; [|discriminate].
      apply range_of_spec; [eapply parse_range_wf; exact P | exact R].
    + (* a Bad code of range_of is never 0 *)
      apply range_of_err in R. lia.
  - cbn in H. inversion H; subst; discriminate.
Qed.

Theorem read_bad_no_value : forall x node attr range enc rr,
  read false x node attr range enc = Ok rr -> rr_status rr <> 0 -> rr_value rr = None.
Proof.
  intros x node attr range enc rr H Hst. unfold read in H.
  repeat match type of H with
         | (if ?b then _ else _) = _ => destruct b
         | match ?o with _ => _ end = _ => destruct o eqn:?
         end; inversion H; subst; cbn in *; try reflexivity; congruence.
Qed.

Theorem read_unreadable_not_good : forall x attr range enc rr,
  read false x 1 attr range enc = Ok rr -> user_can_read x = false -> rr_status rr <> 0.
Proof.
  intros x attr range enc rr H Hr. unfold read in H. rewrite Hr in H. cbn [Z.eqb Pos.eqb orb negb andb] in H.
  destruct (negb (valid_attr attr)); [inversion H; cbn; lia|].
  destruct (parse_range (range_str range)); inversion H; cbn; lia.
Qed.

(* ---- sequences of operations: the oracle replays the model ---- *)
Lemma is_prefix_app : forall e rest, is_prefix e (e ++ rest) = true.
Proof. induction e as [|a e IH]; intros rest; cbn; [reflexivity|]. rewrite Z.eqb_refl. apply IH. Qed.
Lemma skipn_app_exact {A} : forall (e rest : list A), skipn (length e) (e ++ rest) = rest.
Proof. induction e as [|a e IH]; intros rest; cbn; [reflexivity | apply IH]. Qed.
Theorem oracle_ops_ok : forall ops subs x, oracle_ops subs x ops (run_ops false subs x ops) = true.
Proof.
  induction ops as [|o ops IH]; intros subs x; [reflexivity|].
  destruct o as [node attr range enc | node attr range v]; cbn [run_ops oracle_ops].
  - destruct (read_total x node attr range enc) as [rr [Hr H0]]. rewrite Hr.
    cbn [app]. rewrite (proj2 (Z.ltb_ge _ _) H0).
    destruct (attr =? 13) eqn:A.
    + apply Z.eqb_eq in A. subst attr.
      destruct (rr_status rr =? 0) eqn:S.
      * apply Z.eqb_eq in S. destruct (read_good_value x node range enc rr Hr S) as [Hn [Hc [r [P [Hs Hv]]]]].
        subst node. rewrite Hc, P, Hs. cbn [Z.eqb Pos.eqb andb].
        destruct (rr_value rr) as [v|]; [|congruence].
        rewrite is_prefix_app, skipn_app_exact. cbn [andb]. apply IH.
      * apply Z.eqb_neq in S. rewrite (read_bad_no_value x node 13 range enc rr Hr S). cbn [app]. apply IH.
    + cbn [app]. rewrite IH, andb_true_r. apply negb_true_iff.
      destruct (node =? 1) eqn:N; [|reflexivity]. apply Z.eqb_eq in N. subst node.
      destruct (user_can_read x) eqn:C; [reflexivity|]. cbn [negb andb].
      apply Z.eqb_neq. eapply read_unreadable_not_good; eassumption.
  - destruct (write_total subs x node attr range v) as [st [x' [Hw H0]]]. rewrite Hw.
    rewrite (proj2 (Z.ltb_ge _ _) H0).
    destruct (st =? 0) eqn:S.
    + apply Z.eqb_eq in S. subst st.
      destruct (write_good subs x node attr range v x' Hw) as [Hn [[Ha [Hc [r [w [P [Hv [T [Hs Hx]]]]]]]] | [Ha [Hm [Hr [w [Hv Hs]]]]]]].
      * subst node attr v. rewrite Hc, P, T, Hs. cbn [Z.eqb Pos.eqb andb]. rewrite <- Hx. apply IH.
      * subst node v. rewrite (proj2 (Z.eqb_neq _ _) Ha), Hm, Hs. cbn [Z.eqb Pos.eqb andb snd]. apply IH.
    + apply Z.eqb_neq in S. rewrite (write_rejected_unchanged subs x node attr range v st x' Hw S). apply IH.
Qed.

Theorem oracle_holds : forall c, valid c -> known c = 0 -> oracle c (run c) = true.
Proof. intros c _ _. unfold oracle, run, run_with. apply oracle_ops_ok. Qed.


(* ---- read after write, stated directly ---- *)
Definition stored (x : var) (w : value) : value := to_stored (v_rank x) (v_dtype x) w.

Lemma read_whole : forall x range enc, user_can_read x = true -> enc_supported enc = true ->
  parse_range (range_str range) = Some NNone ->
  read false x 1 13 range enc = Ok (mk_rres 0 (Some (v_value x))).
Proof. intros x range enc Hr He P. unfold read. rewrite P, Hr, He. reflexivity. Qed.

(* a successful write of the whole value is what a following read of the whole value returns *)
Theorem read_after_write_whole : forall subs x range w x' range2 enc,
  write subs x 1 13 range (Some w) = Ok (0, x') ->
  parse_range (range_str range) = Some NNone ->
  user_can_read x = true -> enc_supported enc = true -> parse_range (range_str range2) = Some NNone ->
  read false x' 1 13 range2 enc = Ok (mk_rres 0 (Some (stored x w))).
Proof.
  intros subs x range w x' range2 enc Hw P Hr He P2.
  destruct (write_good subs x 1 13 range (Some w) x' Hw) as [_ [[_ [_ [r [w' [P' [Hv [_ [Hs Hx]]]]]]]] | [Ha _]]]; [|congruence].
  rewrite P in P'. inversion P'; subst r. inversion Hv; subst w'. cbn in Hs. inversion Hs as [Hs'].
  rewrite (read_whole x' range2 enc); [rewrite <- Hs'; reflexivity | | exact He | exact P2].
  rewrite Hx. unfold user_can_read in *. cbn. exact Hr.
Qed.

(* positions of a list *)
Lemma nth_error_map_combine_seq {B} (f : nat * value -> B) : forall dst p j d,
  nth_error dst j = Some d -> nth_error (map f (combine (seq p (length dst)) dst)) j = Some (f ((p + j)%nat, d)).
Proof.
  induction dst as [|a dst IH]; intros p j d H; [destruct j; discriminate|].
  destruct j as [|j]; cbn in *.
  - inversion H. rewrite Nat.add_0_r. reflexivity.
  - rewrite (IH (S p) j d H). f_equal. f_equal. f_equal. lia.
Qed.
Lemma spec_overwrite_nth : forall dst src lo hi j d,
  nth_error dst j = Some d -> nth_error (spec_overwrite dst src lo hi) j = Some (spec_elem src lo hi (j, d)).
Proof. intros. unfold spec_overwrite. rewrite (nth_error_map_combine_seq _ dst 0 j d H). reflexivity. Qed.
Lemma spec_overwrite_length : forall dst src lo hi, length (spec_overwrite dst src lo hi) = length dst.
Proof. intros. unfold spec_overwrite. rewrite map_length, combine_length, seq_length. lia. Qed.
Lemma nth_error_skipn' {A} : forall (l : list A) a k, nth_error (skipn a l) k = nth_error l (a + k).
Proof.
  induction l as [|x l IH]; intros a k.
  - destruct a; cbn; destruct k; reflexivity.
  - destruct a; cbn; [reflexivity | apply IH].
Qed.
Lemma nth_error_firstn' {A} : forall (l : list A) m k, (k < m)%nat -> nth_error (firstn m l) k = nth_error l k.
Proof.
  induction l as [|x l IH]; intros m k H.
  - destruct m; cbn; destruct k; reflexivity.
  - destruct m; [lia|]. destruct k; cbn; [reflexivity | apply IH; lia].
Qed.

(* a successful write of [src] at the index range lo:hi of an array, then a read of the same range:
   element k of what is read is src[k], for every k that the range, the written array and the
   stored array cover *)
Theorem read_after_write_range : forall subs x range lo hi ot src t vs x' enc,
  write subs x 1 13 range (Some (VArr ot src)) = Ok (0, x') ->
  parse_range (range_str range) = Some (NRange lo hi) -> v_value x = VArr t vs ->
  user_can_read x = true -> enc_supported enc = true ->
  exists l, read false x' 1 13 range enc = Ok (mk_rres 0 (Some (VArr t l))) /\
            forall k e, (k < length src)%nat -> lo + Z.of_nat k <= hi -> lo + Z.of_nat k < len vs ->
                        nth_error src k = Some e -> nth_error l k = Some e.
Proof.
  intros subs x range lo hi ot src t vs x' enc Hw P Hv Hr He.
  destruct (write_good subs x 1 13 range _ x' Hw) as [_ [[_ [_ [r [w' [P' [Hw' [_ [Hs Hx]]]]]]]] | [Ha _]]]; [|congruence].
  rewrite P in P'. inversion P'; subst r. inversion Hw'; subst w'. clear P' Hw'.
  assert (E1 : v_ual x' = v_ual x) by (rewrite Hx; reflexivity).
  pose proof (parse_range_wf _ _ P) as Hwf. cbn in Hwf.
  unfold spec_written in Hs. cbn [to_stored] in Hs. rewrite Hv in Hs.
  destruct (lo <? len vs) eqn:L; [|discriminate]. apply Z.ltb_lt in L. inversion Hs as [Hx']. clear Hs.
  set (ov := spec_overwrite vs src lo hi) in *.
  assert (Hlen : len ov = len vs) by (unfold len, ov; rewrite spec_overwrite_length; reflexivity).
  exists (vslice ov lo (Z.min hi (len ov - 1))). split.
  - unfold read. rewrite P. cbn [Z.eqb Pos.eqb orb negb andb valid_attr Z.leb Z.compare Pos.compare Pos.compare_cont].
    assert (Hr' : user_can_read x' = true) by (unfold user_can_read in *; rewrite E1; exact Hr).
    rewrite Hr', He. cbn [negb andb]. rewrite <- Hx'. cbn [range_of].
    rewrite (proj2 (Z.leb_gt _ _)) by lia. rewrite min_clamp.
    rewrite (proj2 (Z.ltb_ge _ _)) by lia. reflexivity.
  - intros k e Hk Hhi Hvs Hsrc. unfold vslice.
    rewrite nth_error_firstn' by lia. rewrite nth_error_skipn'.
    assert (Hd : exists d, nth_error vs (Z.to_nat lo + k) = Some d).
    { destruct (nth_error vs (Z.to_nat lo + k)) eqn:N; [eauto|]. apply nth_error_None in N. unfold len in *. lia. }
    destruct Hd as [d Hd]. unfold ov. rewrite (spec_overwrite_nth vs src lo hi _ d Hd). f_equal.
    unfold spec_elem. cbn [fst snd].
    replace (Z.of_nat (Z.to_nat lo + k)) with (lo + Z.of_nat k) by lia.
    rewrite (proj2 (Z.leb_le _ _)) by lia. rewrite (proj2 (Z.leb_le _ _)) by lia.
    replace (lo + Z.of_nat k - lo) with (Z.of_nat k) by lia.
    rewrite (proj2 (Z.ltb_lt _ _)) by (unfold len; lia). cbn [andb].
    unfold znth. rewrite (proj2 (Z.ltb_ge _ _)) by lia. rewrite (proj2 (Z.leb_gt _ _)) by (unfold len; lia).
    cbn [orb]. rewrite Nat2Z.id, Hsrc. reflexivity.
Qed.

(* a successful write of the UserAccessLevel attribute takes effect for the following value
   reads and writes *)
Theorem ual_write_effective : forall subs x n x',
  write subs x 1 18 None (Some (VNum 3 n)) = Ok (0, x') ->
  mask_allows x 18 = true /\ user_can_read x' = Z.testbit n 0 /\ user_can_write x' = Z.testbit n 1 /\ v_value x' = v_value x.
Proof.
  intros subs x n x' H. destruct (write_good subs x 1 18 None _ x' H) as [_ [[A _] | [_ [Hm [_ [w [Hv Hs]]]]]]]; [discriminate|].
  inversion Hv; subst w. cbn in Hs. inversion Hs; subst x'. repeat split; auto.
Qed.

(* the code before the fix panics on a range that splits a character *)
Definition w_utf8 : case := mk_case [] 3 3 12 (-1) (-1) (VStr (Some [97; 195; 169])) [Read 1 13 (Some [48; 58; 49]) 0].
Theorem legacy_refuted : exists c, valid c /\ In (-2) (run_with true c) /\ oracle c (run_with true c) = false.
Proof. exists w_utf8. split; [split; reflexivity|]. split; [left; reflexivity | vm_compute; reflexivity]. Qed.
Example w_utf8_fixed : run w_utf8 = [5; -1].
Proof. vm_compute. reflexivity. Qed.

(* the hypotheses of the theorems are satisfiable by non-trivial cases *)
Definition ex_var : var := mk_var 3 6 1 (VArr 6 [VNum 6 10; VNum 6 11; VNum 6 12; VNum 6 13]) (2 ^ 16) true.
Definition ex_subs : list (Z * Z) := [(24, 26); (26, 27); (27, 6)].
Example ex_write_range :
  exists x', write ex_subs ex_var 1 13 (Some [49; 58; 50]) (Some (VArr 6 [VNum 6 21; VNum 6 22; VNum 6 23])) = Ok (0, x') /\
             v_value x' = VArr 6 [VNum 6 10; VNum 6 21; VNum 6 22; VNum 6 13].
Proof. eexists. split; vm_compute; reflexivity. Qed.
Example ex_write_rejected : write ex_subs ex_var 1 13 None (Some (VStr (Some [120]))) = Ok (9, ex_var).
Proof. vm_compute. reflexivity. Qed.
Example ex_ual_write :
  exists x', write ex_subs ex_var 1 18 None (Some (VNum 3 1)) = Ok (0, x') /\
             write ex_subs x' 1 13 None (Some (VNum 6 1)) = Ok (7, x').
Proof. eexists. split; vm_compute; reflexivity. Qed.
Example ex_read_utf8 : read false (mk_var 1 12 (-1) (VStr (Some [226; 130; 172; 120])) (-1) false) 1 13 (Some [48; 58; 50]) 0
                       = Ok (mk_rres 0 (Some (VStr (Some [226; 130; 172])))).
Proof. vm_compute. reflexivity. Qed.
