(* Basic facts about the model of `References` (C28/Refs.v): association lists, buckets,
   remove_node_from_referenced_nodes. *)
From Coq Require Import List ZArith Bool Lia.
Import ListNotations.
From OV Require Import C28.Refs.
Open Scope Z_scope.

(* ---- booleans and membership ------------------------------------------------------------ *)
Lemma ref_eqb_eq (a b : ref) : ref_eqb a b = true <-> a = b.
Proof.
  destruct a as [a1 a2], b as [b1 b2]. unfold ref_eqb; cbn. rewrite andb_true_iff, !Z.eqb_eq.
  split; [intros [-> ->]; reflexivity | intros H; inversion H; auto].
Qed.

Lemma mem_ref_In r l : mem_ref r l = true <-> In r l.
Proof.
  unfold mem_ref. rewrite existsb_exists. split.
  - intros (x & Hx & He). apply ref_eqb_eq in He. subst. exact Hx.
  - intros H. exists r. split; [exact H | apply ref_eqb_eq; reflexivity].
Qed.

Lemma memZ_In x l : memZ x l = true <-> In x l.
Proof.
  unfold memZ. rewrite existsb_exists. split.
  - intros (y & Hy & He). apply Z.eqb_eq in He. subst. exact Hy.
  - intros H. exists x. split; [exact H | apply Z.eqb_refl].
Qed.

Lemma memZ_false x l : memZ x l = false <-> ~ In x l.
Proof. rewrite <- memZ_In. destruct (memZ x l); split; intros; congruence. Qed.

Lemma mem_ref_false r l : mem_ref r l = false <-> ~ In r l.
Proof. rewrite <- mem_ref_In. destruct (mem_ref r l); split; intros; congruence. Qed.

Lemma filter_idem {A} (p : A -> bool) l : filter p (filter p l) = filter p l.
Proof.
  induction l as [|x l IH]; cbn; [reflexivity|].
  destruct (p x) eqn:E; cbn; [rewrite E|]; rewrite ?IH; reflexivity.
Qed.

Lemma filter_all {A} (p : A -> bool) l : (forall x, In x l -> p x = true) -> filter p l = l.
Proof.
  induction l as [|x l IH]; cbn; intros H; [reflexivity|].
  rewrite (H x (or_introl eq_refl)). f_equal. apply IH. intros y Hy. apply H. right. exact Hy.
Qed.

Lemma NoDup_snoc {A} (l : list A) x : NoDup l -> ~ In x l -> NoDup (l ++ [x]).
Proof.
  induction l as [|y l IH]; cbn; intros Hn Hx.
  - constructor; [intros []|constructor].
  - inversion Hn as [|? ? Hy Hl]; subst. constructor.
    + rewrite in_app_iff. cbn. intros [H|[H|[]]]; [contradiction|subst; apply Hx; left; reflexivity].
    + apply IH; [exact Hl|]. intros H; apply Hx; right; exact H.
Qed.

Lemma NoDup_filter' {A} (p : A -> bool) l : NoDup l -> NoDup (filter p l).
Proof.
  induction 1 as [|x l Hx Hl IH]; cbn; [constructor|].
  destruct (p x); [constructor|]; auto. rewrite filter_In. intros [H _]. contradiction.
Qed.

(* ---- association lists ------------------------------------------------------------------- *)
Section AListFacts.
  Context {V : Type}.
  Lemma get_del (k k' : Z) (m : list (Z * V)) :
    get k' (del k m) = if k' =? k then None else get k' m.
  Proof.
    unfold del. induction m as [|[a v] m IH]; cbn [filter get fst].
    - destruct (k' =? k); reflexivity.
    - destruct (Z.eqb_spec a k) as [->|Hak]; cbn [negb get].
      + rewrite IH. destruct (Z.eqb_spec k' k); reflexivity.
      + rewrite IH. destruct (Z.eqb_spec k' a) as [->|]; [|reflexivity].
        destruct (Z.eqb_spec a k); [contradiction|reflexivity].
  Qed.
  Lemma get_put (k k' : Z) (v : V) (m : list (Z * V)) :
    get k' (put k v m) = if k' =? k then Some v else get k' m.
  Proof.
    unfold put. cbn. destruct (Z.eqb_spec k' k); [reflexivity|].
    rewrite get_del. destruct (Z.eqb_spec k' k); [contradiction|reflexivity].
  Qed.
End AListFacts.

Section BucketFacts.
  Context {A : Type}.
  Implicit Types m : list (Z * list A).

  (* no entry with an empty bucket *)
  Definition wfm m : Prop := forall k, get k m <> Some [].

  Lemma bucket_del k k' m : bucket k' (del k m) = if k' =? k then [] else bucket k' m.
  Proof. unfold bucket. rewrite get_del. destruct (k' =? k); reflexivity. Qed.
  Lemma bucket_put k k' b m : bucket k' (put k b m) = if k' =? k then b else bucket k' m.
  Proof. unfold bucket. rewrite get_put. destruct (k' =? k); reflexivity. Qed.
  Lemma bucket_set k k' b m : bucket k' (set_bucket k b m) = if k' =? k then b else bucket k' m.
  Proof.
    unfold set_bucket. destruct b as [|x b]; [rewrite bucket_del | rewrite bucket_put]; reflexivity.
  Qed.

  Lemma wfm_del k m : wfm m -> wfm (del k m).
  Proof. intros H k'. rewrite get_del. destruct (k' =? k); [discriminate|apply H]. Qed.
  Lemma wfm_put k b m : b <> [] -> wfm m -> wfm (put k b m).
  Proof.
    intros Hb H k'. rewrite get_put. destruct (k' =? k); [|apply H]. intros E. inversion E. auto.
  Qed.
  Lemma wfm_set k b m : wfm m -> wfm (set_bucket k b m).
  Proof.
    intros H. unfold set_bucket. destruct b as [|x b]; [apply wfm_del; exact H|].
    apply wfm_put; [discriminate|exact H].
  Qed.

  Lemma get_none_bucket k m : get k m = None -> bucket k m = [].
  Proof. unfold bucket. intros ->. reflexivity. Qed.
  Lemma get_some_bucket k m b : get k m = Some b -> bucket k m = b.
  Proof. unfold bucket. intros ->. reflexivity. Qed.
  Lemma bucket_nil_get k m : wfm m -> bucket k m = [] -> get k m = None.
  Proof.
    unfold bucket. intros H. specialize (H k). destruct (get k m) as [b|]; [|reflexivity].
    intros ->. contradiction H. reflexivity.
  Qed.

  (* "retain p on the bucket of x, drop the entry when it became empty" *)
  Definition retain (p : A -> bool) (x : Z) m :=
    match get x m with Some b => set_bucket x (filter p b) m | None => m end.

  Lemma bucket_retain p x y m :
    bucket y (retain p x m) = if y =? x then filter p (bucket x m) else bucket y m.
  Proof.
    unfold retain. destruct (get x m) as [b|] eqn:E.
    - rewrite bucket_set. rewrite (get_some_bucket _ _ _ E). reflexivity.
    - destruct (Z.eqb_spec y x) as [->|]; [|reflexivity].
      rewrite (get_none_bucket _ _ E). reflexivity.
  Qed.
  Lemma wfm_retain p x m : wfm m -> wfm (retain p x m).
  Proof. intros H. unfold retain. destruct (get x m); [apply wfm_set|]; exact H. Qed.

  Lemma bucket_fold_retain p xs : forall y m,
    bucket y (fold_left (fun m x => retain p x m) xs m)
    = if memZ y xs then filter p (bucket y m) else bucket y m.
  Proof.
    induction xs as [|a xs IH]; intros y m; cbn [fold_left]; [reflexivity|].
    rewrite IH, bucket_retain. unfold memZ. cbn [existsb]. fold (memZ y xs).
    destruct (Z.eqb_spec y a) as [->|]; cbn [orb]; [|reflexivity].
    destruct (memZ a xs); [apply filter_idem|reflexivity].
  Qed.
  Lemma wfm_fold_retain p xs : forall m, wfm m -> wfm (fold_left (fun m x => retain p x m) xs m).
  Proof. induction xs as [|a xs IH]; intros m H; cbn; [exact H|]. apply IH, wfm_retain, H. Qed.
End BucketFacts.

(* ---- the two views of a state ----------------------------------------------------------- *)
Definition F (st : refs) (s : Z) : list ref := bucket s (fwd st).
Definition R (st : refs) (t : Z) : list Z := bucket t (rb st).

Definition keep_tgt (n : Z) (r : ref) : bool := negb (snd r =? n).
Definition keep_id (n : Z) (y : Z) : bool := negb (y =? n).

Lemma fwd_retain_eq x n f : fwd_retain x n f = retain (keep_tgt n) x f.
Proof. reflexivity. Qed.
Lemma rb_remove_eq x n r : rb_remove x n r = retain (keep_id n) x r.
Proof. reflexivity. Qed.

Lemma rnfrn_split xs n : forall st,
  remove_node_from_referenced_nodes xs n st
  = mk_refs (fold_left (fun f x => retain (keep_tgt n) x f) xs (fwd st))
            (fold_left (fun r x => retain (keep_id n) x r) xs (rb st)).
Proof.
  unfold remove_node_from_referenced_nodes.
  induction xs as [|a xs IH]; intros [f r]; cbn [fold_left fwd rb]; [reflexivity|].
  rewrite IH. reflexivity.
Qed.

Lemma F_rnfrn xs n st y :
  F (remove_node_from_referenced_nodes xs n st) y
  = if memZ y xs then filter (keep_tgt n) (F st y) else F st y.
Proof. rewrite rnfrn_split. unfold F; cbn [fwd]. apply bucket_fold_retain. Qed.
Lemma R_rnfrn xs n st y :
  R (remove_node_from_referenced_nodes xs n st) y
  = if memZ y xs then filter (keep_id n) (R st y) else R st y.
Proof. rewrite rnfrn_split. unfold R; cbn [rb]. apply bucket_fold_retain. Qed.
Lemma wf_rnfrn xs n st :
  wfm (fwd st) -> wfm (rb st) ->
  wfm (fwd (remove_node_from_referenced_nodes xs n st)) /\
  wfm (rb (remove_node_from_referenced_nodes xs n st)).
Proof. intros H1 H2. rewrite rnfrn_split. cbn [fwd rb]. split; apply wfm_fold_retain; assumption. Qed.

