//! C35: every client request completes exactly once.
//!
//! Drives the REAL client `TransportState` (hook `VerifTransport`: call-throughs to
//! `wait_for_outgoing_message`, `handle_incoming_message`, `close`) and the REAL `SendBuffer`,
//! security policy None, playing the part of `TcpTransport::poll` / `poll_inner` (the socket) and
//! of the server: responses are real chunks made by `MessageChunk::new` from the real encoding of
//! a `ReadResponse`, single and multi-chunk, for known, unknown and timed-out request ids, out of
//! order, duplicated, aborted, truncated.  Every request is submitted through the REAL
//! `Request::send` (hook `VerifTransport::request`) in its own task; what that call returns is the
//! completion that is observed.  Time: the hook `backdate` moves the stored deadlines into the
//! past instead of sleeping; one unit of model time is 1000 s of real deadline, so the few
//! milliseconds (seconds, on a loaded machine) the run itself takes never change a class.
//! The wake-up instant: the operations Scan and Sleep call the REAL `next_timeout` (hook
//! `VerifTransport::next_timeout`, a call-through), report what it returns as the distance from
//! now in units (-1: None), and Sleep then lets exactly that much time pass (or less, when the
//! case says something else ends the sleep earlier): the harness plays `select!` on
//! `sleep_until(wake-up)` in `wait_for_outgoing_message`.
#[path = "../util.rs"]
mod util;
use util::*;

use futures::FutureExt;
use opcua::client::transport::buffer::SendBuffer;
use opcua::client::transport::core::VerifTransport;
use opcua::core::comms::message_chunk::{MessageChunk, MessageChunkType, MessageIsFinalType};
use opcua::core::comms::secure_channel::{Role, SecureChannel};
use opcua::core::comms::tcp_codec::Message;
use opcua::core::comms::tcp_types::{AcknowledgeMessage, ErrorMessage, MessageHeader, MessageType};
use opcua::core::supported_message::SupportedMessage;
use opcua::crypto::CertificateStore;
use opcua::sync::RwLock;
use opcua::types::*;
use std::sync::Arc;
use std::time::{Duration, Instant};

const PART: usize = 64; // body bytes per response chunk
const UNIT: u64 = 1000; // seconds of real deadline per unit of model time
const BUF: usize = 8196;
const MAX_MESSAGE_SIZE: usize = 20000;

#[derive(Clone, Debug)]
pub enum Op {
    Submit(u32, u32),                      // timeout (units), kind: 0 ordinary, 1 no callback, 2 too large
    Pump,
    Chunk(u32, u32, u32, u32, u32, u32),   // request id, sequence number, kind (0 C, 1 F, else A), message, part, parts
    AckMsg,
    ErrMsg(u32),                           // status class
    Advance(u32),
    Close(u32),                            // status class
    Scan,                                  // next_timeout
    Sleep(i32),                            // next_timeout, then sleep until the wake-up returned (at most lim units if lim >= 0)
}
#[derive(Clone, Debug)]
pub struct Case { maxinfl: u32, maxpend: u32, ops: Vec<Op> }
pub struct P;

fn channel() -> SecureChannel {
    let store = Arc::new(RwLock::new(CertificateStore::new(std::path::Path::new("/tmp/verif-c35-pki"))));
    let mut c = SecureChannel::new(store, Role::Client, DecodingOptions::default());
    c.set_secure_channel_id(7);
    c
}

const CLASSES: [(i128, StatusCode); 12] = [
    (0, StatusCode::Good),
    (1, StatusCode::BadConnectionClosed), (2, StatusCode::BadTimeout), (3, StatusCode::BadCommunicationError),
    (4, StatusCode::BadEncodingLimitsExceeded), (5, StatusCode::BadSequenceNumberInvalid),
    (6, StatusCode::BadSecureChannelIdInvalid), (7, StatusCode::BadSecurityChecksFailed),
    (8, StatusCode::BadDecodingError), (9, StatusCode::BadServiceUnsupported),
    (10, StatusCode::BadUnexpectedError), (11, StatusCode::BadRequestTooLarge),
];
fn class_of(s: StatusCode) -> i128 {
    for (c, x) in CLASSES.iter() { if *x == s { return *c; } }
    1000 + (s.bits() >> 16) as i128
}
fn status_of(cls: u32) -> StatusCode {
    for (c, x) in CLASSES.iter() { if *c == cls as i128 { return *x; } }
    StatusCode::BadInternalError
}
/// a u32 that is not a status code, if there is one
fn not_a_status() -> Option<u32> {
    for b in 0..32u32 { let v = 1u32 << b; if StatusCode::from_u32(v).is_none() { return Some(v); } }
    None
}

fn request(kind: u32, handle: u32) -> SupportedMessage {
    let pad = if kind == 2 { 30000 } else { 0 };
    ReadRequest {
        request_header: RequestHeader { request_handle: handle, audit_entry_id: UAString::from("x".repeat(pad)), ..RequestHeader::dummy() },
        max_age: 0.0,
        timestamps_to_return: TimestampsToReturn::Neither,
        nodes_to_read: None,
    }.into()
}

/// the encoding (node id + body) of response message `mid`, exactly n * PART bytes: everything
/// behind the header is one byte string of 0xFF
fn response_bytes(mid: u32, n: usize) -> Vec<u8> {
    let mk = |len: usize| -> SupportedMessage {
        ReadResponse {
            response_header: ResponseHeader { request_handle: mid, ..ResponseHeader::null() },
            results: Some(vec![DataValue { value: Some(Variant::ByteString(ByteString::from(vec![0xFFu8; len]))), status: None, source_timestamp: None, source_picoseconds: None, server_timestamp: None, server_picoseconds: None }]),
            diagnostic_infos: None,
        }.into()
    };
    let size = |m: &SupportedMessage| m.byte_len() + m.node_id().byte_len();
    let base = size(&mk(0));
    let m = mk(n * PART - base);
    let mut stream = std::io::Cursor::new(Vec::new());
    m.node_id().encode(&mut stream).unwrap();
    m.encode(&mut stream).unwrap();
    let v = stream.into_inner();
    assert_eq!(v.len(), n * PART);
    v
}
fn part_bytes(mid: u32, part: u32, n: u32) -> Vec<u8> {
    if part == 0 { response_bytes(mid, n.max(1) as usize)[..PART].to_vec() } else { vec![0xFFu8; PART] }
}

/// an instant as the distance from now in units, rounded to the nearest unit (deadlines are whole
/// units plus the few milliseconds between the start of the case and the submission)
fn units_from_now(t: Instant) -> i128 {
    let now = Instant::now();
    let half = UNIT as f64 / 2.0;
    if t >= now { ((t - now).as_secs_f64() + half) as i128 / UNIT as i128 }
    else { -(((now - t).as_secs_f64() + half) as i128 / UNIT as i128) }
}

async fn settle() { for _ in 0..16 { tokio::task::yield_now().await; } }

type Handle = tokio::task::JoinHandle<Result<SupportedMessage, StatusCode>>;

async fn collect(outstanding: &mut Vec<(u32, Handle)>, out: &mut Vec<i128>) {
    settle().await;
    let mut evs: Vec<i128> = Vec::new();
    let mut n = 0;
    let mut i = 0;
    while i < outstanding.len() {
        if outstanding[i].1.is_finished() {
            let (k, h) = outstanding.remove(i);
            n += 1;
            match h.await {
                Ok(Ok(SupportedMessage::ReadResponse(r))) => evs.extend([k as i128, 0, r.response_header.request_handle as i128]),
                Ok(Ok(_)) => evs.extend([k as i128, 0, -9]),
                Ok(Err(s)) => evs.extend([k as i128, 1, class_of(s)]),
                Err(_) => evs.extend([k as i128, 1, -2]), // the task panicked
            }
        } else { i += 1; }
    }
    out.push(n);
    out.extend(evs);
}

async fn exec_async(c: &Case) -> Vec<i128> {
    let ch = Arc::new(RwLock::new(channel()));
    let mut vt = VerifTransport::new(ch.clone(), c.maxpend as usize, c.maxinfl as usize, 64);
    let mut sb = SendBuffer::new(BUF, MAX_MESSAGE_SIZE, 0);
    let mut out: Vec<i128> = Vec::new();
    let mut outstanding: Vec<(u32, Handle)> = Vec::new();
    let mut k = 0u32;
    let mut closed = false;
    for op in &c.ops {
        let mut wake: Option<i128> = None;
        match op {
            Op::Submit(t, kind) => {
                let timeout = Duration::from_secs(*t as u64 * UNIT);
                if *kind == 1 {
                    let fut = vt.request_no_response(request(*kind, k), timeout);
                    tokio::spawn(fut);
                } else {
                    let fut = vt.request(request(*kind, k), timeout);
                    outstanding.push((k, tokio::spawn(fut)));
                }
                k += 1;
            }
            Op::Pump => {
                let mut id: i128 = -1;
                if !closed {
                    // TcpTransport::poll_inner, send buffer empty: wait_for_outgoing_message, then write
                    settle().await;
                    let r = vt.wait_for_outgoing_message(&mut sb).now_or_never();
                    match r {
                        Some(Some((msg, rid))) => {
                            id = rid as i128;
                            let w = { let sc = ch.read(); sb.write(rid, msg, &sc) };
                            match w {
                                Err(e) => { vt.close(e).await; closed = true; }
                                Ok(_) => {
                                    // drain the send buffer as poll_inner does on its next turns
                                    let mut wire: Vec<u8> = Vec::new();
                                    loop {
                                        if sb.should_encode_chunks() { let sc = ch.read(); sb.encode_next_chunk(&sc).unwrap(); }
                                        if !sb.can_read() { break; }
                                        sb.read_into_async(&mut wire).await.unwrap();
                                    }
                                    // the request id on the wire is the one the callback is filed under
                                    let on_wire = u32::from_le_bytes([wire[20], wire[21], wire[22], wire[23]]);
                                    if on_wire != rid { id = -8; }
                                }
                            }
                        }
                        Some(None) => { id = -6; }
                        None => {}
                    }
                }
                out.push(id);
            }
            Op::Chunk(rid, sq, kind, mid, part, n) => {
                if !closed {
                    let fin = match kind { 0 => MessageIsFinalType::Intermediate, 1 => MessageIsFinalType::Final, _ => MessageIsFinalType::FinalError };
                    let chunk = { let sc = ch.read(); MessageChunk::new(*sq, *rid, MessageChunkType::Message, fin, &sc, &part_bytes(*mid, *part, *n)).unwrap() };
                    // TcpTransport::handle_incoming_message + poll: an error closes the transport
                    if let Err(e) = vt.handle_incoming_message(Message::Chunk(chunk)) { vt.close(e).await; closed = true; }
                }
            }
            Op::AckMsg => {
                if !closed {
                    let ack = AcknowledgeMessage { message_header: MessageHeader::new(MessageType::Acknowledge), protocol_version: 0, receive_buffer_size: 8196, send_buffer_size: 8196, max_message_size: 0, max_chunk_count: 0 };
                    if let Err(e) = vt.handle_incoming_message(Message::Acknowledge(ack)) { vt.close(e).await; closed = true; }
                }
            }
            Op::ErrMsg(cls) => {
                if !closed {
                    let mut m = ErrorMessage::from_status_code(status_of(*cls));
                    if *cls == 98 { m.error = not_a_status().unwrap_or(StatusCode::BadUnexpectedError.bits()); }
                    if let Err(e) = vt.handle_incoming_message(Message::Error(m)) { vt.close(e).await; closed = true; }
                }
            }
            Op::Advance(t) => { vt.backdate(Duration::from_secs(*t as u64 * UNIT)); }
            Op::Close(cls) => { if !closed { vt.close(status_of(*cls)).await; closed = true; } }
            Op::Scan | Op::Sleep(_) => {
                settle().await;
                // the loop of wait_for_outgoing_message: next_timeout(), then sleep_until(what it returned)
                let w = vt.next_timeout().map(units_from_now);
                // a wake-up that is not in the future reads 0 (the model never has one)
                wake = Some(match w { Some(o) => o.max(0), None => -1 });
                if let Op::Sleep(lim) = op {
                    let lim = *lim as i128;
                    let adv = match w {
                        Some(o) => if lim < 0 { o } else { o.min(lim) },
                        None => if lim < 0 { 0 } else { lim },
                    };
                    if adv > 0 { vt.backdate(Duration::from_secs(adv as u64 * UNIT)); }
                }
            }
        }
        collect(&mut outstanding, &mut out).await;
        if let Some(w) = wake { out.push(w); }
        out.push(closed as i128);
    }
    out
}

fn term(c: &Case) -> String {
    let ops = coq_list(&c.ops, |o| match o {
        Op::Submit(t, k) => format!("Submit {} {}", t, k),
        Op::Pump => "Pump".to_string(),
        Op::Chunk(a, b, c, d, e, f) => format!("Chunk {} {} {} {} {} {}", a, b, c, d, e, f),
        Op::AckMsg => "AckMsg".to_string(),
        Op::ErrMsg(c) => format!("ErrMsg {}", c),
        Op::Advance(t) => format!("Advance {}", t),
        Op::Close(s) => format!("Close {}", s),
        Op::Scan => "Scan".to_string(),
        Op::Sleep(l) => format!("Sleep {}", z(*l as i128)),
    });
    format!("mk_case {} {} {}", c.maxinfl, c.maxpend, ops)
}

fn case(ops: Vec<Op>) -> Case { Case { maxinfl: 8, maxpend: 5, ops } }

impl Property for P {
    type Case = Case;
    fn fixed(_tier: &str) -> Vec<Case> {
        use Op::*;
        vec![
            // one request, one single-chunk response
            case(vec![Submit(5, 0), Pump, Chunk(1001, 1, 1, 70, 0, 1), Close(0)]),
            // three-chunk response in order; then a duplicate response for the same id is ignored
            case(vec![Submit(5, 0), Pump, Chunk(1001, 1, 0, 71, 0, 3), Chunk(1001, 2, 0, 71, 1, 3), Chunk(1001, 3, 1, 71, 2, 3), Chunk(1001, 4, 1, 71, 0, 1), Close(0)]),
            // two requests, responses in the opposite order, interleaved chunks
            case(vec![Submit(5, 0), Submit(5, 0), Pump, Pump, Chunk(1002, 1, 0, 82, 0, 2), Chunk(1001, 2, 1, 81, 0, 1), Chunk(1002, 3, 1, 82, 1, 2), Close(0)]),
            // timeout, then the late response is ignored; the other request is answered
            case(vec![Submit(1, 0), Submit(9, 0), Pump, Pump, Advance(1), Pump, Chunk(1001, 1, 1, 70, 0, 1), Chunk(1002, 2, 1, 71, 0, 1), Close(0)]),
            // deadline passed but the response arrives before the reaper runs: delivered
            case(vec![Submit(1, 0), Pump, Advance(3), Chunk(1001, 1, 1, 70, 0, 1), Pump, Close(0)]),
            // close with pending, queued and not yet pumped requests; submit after close
            case(vec![Submit(5, 0), Submit(5, 0), Submit(5, 1), Submit(5, 0), Pump, Close(3), Submit(5, 0), Pump, Chunk(1001, 1, 1, 70, 0, 1)]),
            case(vec![Submit(5, 0), Pump, Submit(5, 0), Close(0), Close(3)]),
            // abort chunk; too many intermediate chunks
            case(vec![Submit(5, 0), Submit(5, 0), Pump, Pump, Chunk(1001, 1, 0, 70, 0, 3), Chunk(1001, 2, 2, 70, 1, 3), Chunk(1002, 3, 1, 71, 0, 1), Close(0)]),
            Case { maxpend: 2, ..case(vec![Submit(5, 0), Pump, Chunk(1001, 1, 0, 70, 0, 4), Chunk(1001, 2, 0, 70, 1, 4), Chunk(1001, 3, 0, 70, 2, 4), Chunk(1001, 4, 1, 70, 3, 4), Close(0)]) },
            // unknown request ids
            case(vec![Chunk(1001, 1, 1, 70, 0, 1), Submit(5, 0), Chunk(1001, 1, 1, 70, 0, 1), Pump, Chunk(1002, 1, 1, 70, 0, 1), Chunk(5, 2, 0, 70, 0, 1), Chunk(1001, 3, 1, 77, 0, 1)]),
            // a response that does not decode (truncated): the callback is dropped, the transport closes
            case(vec![Submit(5, 0), Submit(5, 0), Submit(5, 0), Pump, Pump, Chunk(1002, 1, 1, 70, 0, 2), Submit(1, 0)]),
            // sequence number not greater than the last accepted one
            case(vec![Submit(5, 0), Submit(5, 0), Pump, Pump, Chunk(1001, 5, 1, 70, 0, 1), Chunk(1002, 5, 1, 71, 0, 1)]),
            // chunks out of order and duplicated are sorted and de-duplicated by merge_chunks
            case(vec![Submit(5, 0), Pump, Chunk(1001, 3, 0, 70, 2, 3), Chunk(1001, 1, 0, 70, 0, 3), Chunk(1001, 1, 0, 70, 0, 3), Chunk(1001, 2, 1, 70, 1, 3)]),
            case(vec![Submit(5, 0), Pump, Chunk(1001, 2, 0, 70, 1, 2), Chunk(1001, 1, 1, 70, 0, 2), Close(0)]),
            // inflight limit: the third request waits in the queue until one completes
            Case { maxinfl: 2, ..case(vec![Submit(5, 0), Submit(5, 0), Submit(5, 0), Pump, Pump, Pump, Chunk(1001, 1, 1, 70, 0, 1), Pump, Chunk(1003, 2, 1, 72, 0, 1), Close(0)]) },
            // a request larger than the maximum message size: write fails, everything is closed
            case(vec![Submit(5, 0), Pump, Submit(5, 2), Submit(5, 0), Pump, Submit(5, 0)]),
            // acknowledge / error messages from the server
            case(vec![Submit(5, 0), Pump, Submit(5, 0), AckMsg]),
            case(vec![Submit(5, 0), Pump, ErrMsg(0), Submit(5, 0), ErrMsg(2), Submit(5, 0)]),
            case(vec![Submit(5, 0), Pump, ErrMsg(98)]),
            // zero timeout: expires at the next turn
            case(vec![Submit(0, 0), Pump, Pump, Chunk(1001, 1, 1, 70, 0, 1), Close(0)]),
            // a pump turn that reaps a timed-out request and then fails to write the next one
            // (completions are listed in label order: regression of a model ordering error)
            case(vec![Submit(5, 0), Submit(1, 0), Pump, Pump, Submit(5, 2), Submit(5, 0), Advance(1), Pump]),
            case(vec![Chunk(1682, 1, 1, 71, 0, 1), Chunk(1001, 2, 0, 72, 0, 4), Pump, Submit(1, 0), Advance(0), Pump, Advance(1), Pump, Submit(3, 0), Pump,
                      Submit(2, 0), Submit(0, 0), Submit(2, 2), Chunk(1001, 3, 0, 72, 1, 4), Submit(2, 0), Pump, Chunk(1001, 4, 1, 73, 0, 1), Pump, Submit(1, 0), Pump, Pump]),
            // sequence numbers at the u32 boundary (witness of the merge_chunks overflow)
            case(vec![Submit(5, 0), Pump, Chunk(1001, 4294967294, 0, 70, 0, 2), Chunk(1001, 4294967295, 1, 70, 1, 2), Close(0)]),
            case(vec![Submit(5, 0), Submit(5, 0), Pump, Pump, Chunk(1001, 4294967295, 1, 70, 0, 1), Chunk(1002, 1, 1, 71, 0, 1)]),
            // ---- the wake-up instant of next_timeout, and an idle transport that sleeps until it ----
            // nothing pending: no wake-up; one request: its deadline
            case(vec![Scan, Sleep(-1), Submit(4, 0), Scan, Pump, Scan, Sleep(-1), Scan, Close(0)]),
            // a long request (a Publish) and a short one (a Read) on an idle transport: the wake-up is
            // the deadline of the short one; it gets BadTimeout at the first scan after the sleep, its
            // late response is dropped, the long one is still answered
            case(vec![Submit(9, 0), Submit(2, 0), Pump, Pump, Sleep(-1), Scan, Chunk(1002, 1, 1, 70, 0, 1), Chunk(1001, 2, 1, 71, 0, 1), Scan, Close(0)]),
            // three different deadlines, submitted in neither order; the transport sleeps from one to the next
            case(vec![Submit(5, 0), Submit(2, 0), Submit(3, 0), Pump, Pump, Pump, Sleep(-1), Sleep(-1), Chunk(1002, 1, 1, 70, 0, 1),
                      Chunk(1003, 2, 1, 71, 0, 1), Sleep(-1), Chunk(1003, 3, 1, 72, 0, 1), Sleep(-1), Sleep(-1), Chunk(1001, 4, 1, 73, 0, 1), Close(0)]),
            // equal deadlines; the earliest one answered before the scan: the wake-up moves to the next
            case(vec![Submit(3, 0), Submit(3, 0), Submit(1, 0), Submit(6, 0), Pump, Pump, Pump, Pump, Scan, Chunk(1003, 1, 1, 70, 0, 1), Scan, Sleep(-1), Sleep(-1), Sleep(-1), Sleep(-1), Sleep(-1)]),
            // a sleep cut short by a submission: the new request's deadline may be the next wake-up
            case(vec![Submit(6, 0), Pump, Sleep(2), Submit(1, 0), Pump, Sleep(-1), Pump, Sleep(9), Pump, Scan]),
            // the response arrives at the very instant of the deadline, before the scan: delivered
            case(vec![Submit(2, 0), Submit(4, 0), Pump, Pump, Sleep(-1), Chunk(1001, 1, 1, 70, 0, 1), Sleep(-1), Sleep(-1), Chunk(1002, 2, 1, 71, 0, 1)]),
            // a multi-chunk response interrupted by the deadline: the rest is dropped, the next response is not confused
            case(vec![Submit(2, 0), Submit(7, 0), Pump, Pump, Chunk(1001, 1, 0, 70, 0, 2), Sleep(-1), Sleep(0), Chunk(1001, 2, 1, 70, 1, 2), Chunk(1002, 3, 1, 71, 0, 1)]),
            // inflight limit reached: the queue is not looked at but the wake-up is still the earliest deadline
            Case { maxinfl: 2, ..case(vec![Submit(5, 0), Submit(3, 0), Submit(2, 0), Pump, Pump, Pump, Sleep(-1), Pump, Pump, Sleep(-1), Sleep(-1), Sleep(-1), Scan]) },
            // time passing unnoticed (Advance) and then sleeping; zero timeouts; sleeping when closed
            case(vec![Submit(0, 0), Submit(4, 0), Submit(2, 0), Pump, Pump, Pump, Advance(3), Sleep(-1), Sleep(-1), Close(0), Sleep(-1), Scan, Sleep(3)]),
        ]
    }
    fn gen(r: &mut Rng) -> Case {
        let mut c = case(vec![]);
        if r.chance(1, 4) { c.maxinfl = 1 + r.below(3) as u32; }
        if r.chance(1, 4) { c.maxpend = r.below(4) as u32; }
        let nops = 4 + r.below(22);
        // generator's own picture of the transport, to aim mostly at meaningful operations
        let mut queued: Vec<u32> = Vec::new(); // kinds
        let mut inflight: Vec<(u32, u32)> = Vec::new(); // (request id, chunks delivered so far)
        let mut next_id = 1001u32;
        let mut seq = 1u32;
        let mut mid = 70u32;
        let boundary = r.chance(1, 25);
        if boundary { seq = 0xFFFF_FFFF - r.below(4) as u32; }
        // a multi-chunk response in progress: (request id, message, parts, next part)
        let mut prog: Vec<(u32, u32, u32, u32)> = Vec::new();
        // an idle transport with several pending requests of different deadlines: from there on time
        // passes mostly by sleeping until the wake-up that next_timeout returned
        let idle = r.chance(2, 5);
        if idle {
            let m = 2 + r.below(4) as usize;
            let mut ts: Vec<u32> = Vec::new();
            while ts.len() < m { let t = 1 + r.below(9) as u32; if r.chance(1, 6) || !ts.contains(&t) { ts.push(t); } }
            for t in &ts { c.ops.push(Op::Submit(*t, 0)); }
            for _ in 0..m { c.ops.push(Op::Pump); if (inflight.len() as u32) < c.maxinfl { inflight.push((next_id, 0)); next_id += 1; } else { queued.push(0); } }
        }
        for _ in 0..nops {
            let x = r.below(100);
            if idle && x < 30 || x >= 97 {
                c.ops.push(match r.below(8) { 0 => Op::Scan, 1 => Op::Sleep(r.below(4) as i32), _ => Op::Sleep(-1) });
            } else if x < 22 {
                let kind = if r.chance(1, 12) { 1 } else if r.chance(1, 12) { 2 } else { 0 };
                c.ops.push(Op::Submit(r.below(if idle { 7 } else { 4 }) as u32, kind)); queued.push(kind);
            } else if x < 44 {
                c.ops.push(Op::Pump);
                if !queued.is_empty() && (inflight.len() as u32) < c.maxinfl { let k = queued.remove(0); if k != 1 { inflight.push((next_id, 0)); } next_id += 1; }
            } else if x < 80 {
                // a response chunk
                let y = r.below(100);
                if !prog.is_empty() && y < 55 {
                    // continue a response in progress
                    let i = r.below(prog.len() as u64) as usize;
                    let (rid, m, n, p) = prog[i];
                    let last = p + 1 >= n;
                    let kind = if last { if r.chance(1, 12) { 0 } else { 1 } } else if r.chance(1, 15) { 1 } else if r.chance(1, 20) { 2 } else { 0 };
                    let part = if r.chance(1, 12) { r.below(n as u64) as u32 } else { p };
                    let s = if r.chance(1, 10) { seq.wrapping_sub(1 + r.below(3) as u32) } else { let s = seq; seq = seq.wrapping_add(1); s };
                    c.ops.push(Op::Chunk(rid, s, kind, m, part, n));
                    if kind != 0 { prog.remove(i); } else { prog[i].3 = p + 1; }
                } else {
                    // start a response: mostly for a request in flight, sometimes unknown / old ids
                    let rid = if !inflight.is_empty() && y < 90 { inflight[r.below(inflight.len() as u64) as usize].0 } else if r.chance(1, 2) { 1001 + r.below((next_id - 1000) as u64) as u32 } else { r.below(2000) as u32 };
                    let n = if r.chance(1, 2) { 1 } else { 1 + r.below(4) as u32 };
                    mid += 1;
                    let s = if r.chance(1, 12) { seq.wrapping_sub(1 + r.below(3) as u32) } else { let s = seq; seq = seq.wrapping_add(1); s };
                    if n == 1 {
                        let kind = if r.chance(1, 15) { 2 } else if r.chance(1, 15) { 0 } else { 1 };
                        c.ops.push(Op::Chunk(rid, s, kind, mid, if r.chance(1, 15) { 1 } else { 0 }, 1));
                    } else {
                        c.ops.push(Op::Chunk(rid, s, 0, mid, 0, n));
                        prog.push((rid, mid, n, 1));
                    }
                }
            } else if x < 90 {
                if idle && r.chance(4, 5) { c.ops.push(Op::Sleep(if r.chance(1, 3) { r.below(3) as i32 } else { -1 })); }
                else { c.ops.push(Op::Advance(r.below(3) as u32)); }
            } else if idle && r.chance(2, 3) {
                // keep most idle transports open: a response for a request id of the past instead
                mid += 1;
                let s = seq; seq = seq.wrapping_add(1);
                c.ops.push(Op::Chunk(1001 + r.below((next_id - 1000) as u64) as u32, s, 1, mid, 0, 1));
            } else if x < 93 {
                c.ops.push(Op::ErrMsg(*r.pick(&[0u32, 0, 2, 3, 10, 98])));
            } else if x < 94 {
                c.ops.push(Op::AckMsg);
            } else {
                c.ops.push(Op::Close(*r.pick(&[0u32, 0, 1, 2, 3])));
            }
        }
        if r.chance(3, 4) { c.ops.push(Op::Close(*r.pick(&[0u32, 3]))); }
        c
    }
    fn exec(c: &Case) -> Out {
        let rt = tokio::runtime::Builder::new_current_thread().enable_all().build().unwrap();
        let out = match guarded(|| rt.block_on(exec_async(c))) { Ok(o) => o, Err(_) => vec![-2] };
        let closes = c.ops.iter().any(|o| matches!(o, Op::Close(_) | Op::AckMsg | Op::ErrMsg(_)));
        let multi = c.ops.iter().any(|o| matches!(o, Op::Chunk(_, _, _, _, _, n) if *n > 1));
        let adv = c.ops.iter().any(|o| matches!(o, Op::Advance(t) if *t > 0));
        let sleeps = c.ops.iter().any(|o| matches!(o, Op::Sleep(_) | Op::Scan));
        let tag = format!("{}-{}-{}{}", if multi { "multichunk" } else { "singlechunk" }, if adv { "timeouts" } else { "notimeouts" }, if closes { "close" } else { "noclose" }, if sleeps { "-sleeps" } else { "" });
        Out { tag, term: term(c), out }
    }
}
fn main() { run_main::<P>() }
