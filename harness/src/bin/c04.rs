//! C04: textual identifiers (NodeId, ExpandedNodeId, Identifier, Guid, NumericRange, ByteString
//! base64, DateTime) print -> parse on the real code, plus every parser on arbitrary strings.
#[path = "../util.rs"]
mod util;
use util::*;
use opcua::types::node_id::Identifier;
use opcua::types::{ByteString, DateTime, ExpandedNodeId, Guid, NodeId, NumericRange, UAString};
use std::str::FromStr;

#[derive(Clone, Debug)]
pub enum Id { Num(u32), Str(Option<String>), Guid([u8; 16]), Bytes(Option<Vec<u8>>) }
#[derive(Clone, Debug)]
pub enum R1 { Idx(u32), Rng(u32, u32) }
#[derive(Clone, Debug)]
pub enum NR { None, One(R1), Multi(Vec<R1>) }
#[derive(Clone, Debug)]
pub enum Case {
    Node { ns: u16, id: Id },
    Exp { svr: u32, uri: Option<String>, ns: u16, id: Id },
    Guid([u8; 16]),
    Range(NR),
    Date(i64),
    /// which: 0 NodeId, 1 ExpandedNodeId, 2 Identifier, 3 Guid, 4 NumericRange, 5 base64,
    /// 6 DateTime::from_str, 7 DateTime::parse_from_rfc3339
    Parse(u8, String),
}
pub struct P;

// ---- canonical encodings (must match coq/C04/Model.v) -------------------------------------
fn cps(s: &str) -> Vec<i128> { s.chars().map(|c| c as u32 as i128).collect() }
fn enc_str(s: &str, out: &mut Vec<i128>) { let v = cps(s); out.push(v.len() as i128); out.extend(v); }
fn enc_uastr(s: &UAString, out: &mut Vec<i128>) {
    match s.value() { None => out.push(-1), Some(v) => enc_str(v, out) }
}
fn enc_bytes(b: &ByteString, out: &mut Vec<i128>) {
    match &b.value { None => out.push(-1), Some(v) => { out.push(v.len() as i128); out.extend(v.iter().map(|x| *x as i128)); } }
}
fn enc_ident(id: &Identifier, out: &mut Vec<i128>) {
    match id {
        Identifier::Numeric(v) => { out.push(0); out.push(*v as i128); }
        Identifier::String(s) => { out.push(1); enc_uastr(s, out); }
        Identifier::Guid(g) => { out.push(2); out.extend(g.as_bytes().iter().map(|x| *x as i128)); }
        Identifier::ByteString(b) => { out.push(3); enc_bytes(b, out); }
    }
}
fn enc_node(n: &NodeId, out: &mut Vec<i128>) { out.push(n.namespace as i128); enc_ident(&n.identifier, out); }
fn enc_exp(e: &ExpandedNodeId, out: &mut Vec<i128>) {
    out.push(e.server_index as i128); enc_uastr(&e.namespace_uri, out); enc_node(&e.node_id, out);
}
fn enc_r1(r: &NumericRange, out: &mut Vec<i128>) {
    match r {
        NumericRange::Index(i) => { out.push(1); out.push(*i as i128); }
        NumericRange::Range(a, b) => { out.push(2); out.push(*a as i128); out.push(*b as i128); }
        NumericRange::None => out.push(0),
        NumericRange::MultipleRanges(_) => out.push(9), // never produced by the parser inside a list
    }
}
fn enc_range(r: &NumericRange, out: &mut Vec<i128>) {
    match r {
        NumericRange::MultipleRanges(v) => { out.push(3); out.push(v.len() as i128); for x in v { enc_r1(x, out); } }
        x => enc_r1(x, out),
    }
}
/// the chrono value: unix timestamp and nanosecond field
fn enc_date(d: &DateTime, out: &mut Vec<i128>) {
    out.push(d.as_chrono().timestamp() as i128);
    out.push(d.as_chrono().timestamp_subsec_nanos() as i128);
}
/// Ok -> 1 :: enc, Err -> [-1], panic -> [-2]
fn res<T, E, F: FnOnce() -> Result<T, E>>(f: F, enc: impl Fn(&T, &mut Vec<i128>), out: &mut Vec<i128>) {
    match guarded(f) {
        Ok(Ok(v)) => { out.push(1); enc(&v, out); }
        Ok(Err(_)) => out.push(-1),
        Err(_) => out.push(-2),
    }
}

// ---- building real values -----------------------------------------------------------------
fn ident(id: &Id) -> Identifier {
    match id {
        Id::Num(v) => Identifier::Numeric(*v),
        Id::Str(None) => Identifier::String(UAString::null()),
        Id::Str(Some(s)) => Identifier::String(UAString::from(s.as_str())),
        Id::Guid(b) => Identifier::Guid(Guid::from_bytes(*b)),
        Id::Bytes(None) => Identifier::ByteString(ByteString::null()),
        Id::Bytes(Some(v)) => Identifier::ByteString(ByteString::from(v.clone())),
    }
}
fn nr1(r: &R1) -> NumericRange { match r { R1::Idx(i) => NumericRange::Index(*i), R1::Rng(a, b) => NumericRange::Range(*a, *b) } }
fn nr(r: &NR) -> NumericRange {
    match r { NR::None => NumericRange::None, NR::One(x) => nr1(x), NR::Multi(v) => NumericRange::MultipleRanges(v.iter().map(nr1).collect()) }
}

// ---- Coq terms ------------------------------------------------------------------------------
fn t_str(s: &str) -> String { zlist(cps(s)) }
fn t_ostr(s: &Option<String>) -> String { coq_opt(s, |v| t_str(v)) }
fn t_id(id: &Id) -> String {
    match id {
        Id::Num(v) => format!("(INum {})", v),
        Id::Str(s) => format!("(IStr {})", t_ostr(s)),
        Id::Guid(b) => format!("(IGuid {})", zbytes(b)),
        Id::Bytes(b) => format!("(IBytes {})", coq_opt(b, |v| zbytes(v))),
    }
}
fn t_r1(r: &R1) -> String { match r { R1::Idx(i) => format!("(Idx {})", i), R1::Rng(a, b) => format!("(Rng {} {})", a, b) } }
fn t_nr(r: &NR) -> String {
    match r { NR::None => "NRNone".into(), NR::One(x) => format!("(NROne {})", t_r1(x)), NR::Multi(v) => format!("(NRMulti {})", coq_list(v, t_r1)) }
}

// ---- generators -----------------------------------------------------------------------------
const ALPHA: &[&str] = &[";", "%", "=", "\n", "\r", " ", "a", "b", "Z", "0", "9", "ns=", "nsu=", "svr=", "i=", "s=", "g=", "b=",
    "%25", "%3b", "%3B", "%2", "5", "3b", "é", "ß", "€", "中", "𝄞", "\u{10FFFF}", "\u{7f}", "\u{80}", "\u{7ff}", "\u{800}", "\u{ffff}", "\u{10000}",
    "+", "-", ":", ",", "/", "[null]", "\u{0}", "\t", "x", "=="];
fn pa(r: &mut Rng) -> &'static str { let i = r.below(ALPHA.len() as u64) as usize; ALPHA[i] }
fn rstr(r: &mut Rng, max: u64) -> String {
    let n = r.below(max + 1);
    let mut s = String::new();
    for _ in 0..n {
        if r.chance(1, 6) { s.push(char::from_u32(r.below(0x250) as u32).unwrap_or('?')); } else { s.push_str(pa(r)); }
    }
    s
}
fn rne_str(r: &mut Rng, max: u64) -> String { let mut s = rstr(r, max); if s.is_empty() { s.push_str(pa(r)); } s }
fn ru32(r: &mut Rng) -> u32 {
    match r.below(8) {
        0 => *r.pick(&[0u32, 1, 9, 10, 99, 100, 255, 256, 65535, 65536, u32::MAX, u32::MAX - 1, 999_999_999, 1_000_000_000, 4_294_967_290]),
        1 => r.below(300) as u32,
        2 => 65530 + r.below(12) as u32,
        _ => (r.next() >> r.below(64)) as u32,
    }
}
fn rns(r: &mut Rng) -> u16 {
    match r.below(4) { 0 => 0, 1 => *r.pick(&[1u16, 2, 9, 10, 255, 256, 9999, 10000, 65534, 65535]), 2 => r.below(12) as u16, _ => r.next() as u16 }
}
fn rguid(r: &mut Rng) -> [u8; 16] {
    let mut b = [0u8; 16];
    match r.below(6) {
        0 => {}
        1 => b = [0xff; 16],
        2 => { for x in b.iter_mut() { *x = *r.pick(&[0u8, 0x0a, 0xa0, 0x9f, 0xf9, 0x10, 0x01, 0xaf, 0xfa]); } }
        _ => { for x in b.iter_mut() { *x = r.next() as u8; } }
    }
    b
}
fn rbytes(r: &mut Rng, max: u64) -> Vec<u8> {
    let n = r.below(max + 1) as usize;
    match r.below(4) { 0 => vec![0xff; n], 1 => vec![0; n], _ => r.bytes(n) }
}
fn rid(r: &mut Rng) -> Id {
    match r.below(10) {
        0 | 1 | 2 => Id::Num(ru32(r)),
        3 | 4 | 5 => Id::Str(Some(rne_str(r, 6))),
        6 => Id::Guid(rguid(r)),
        7 | 8 => { let mut b = rbytes(r, 14); if b.is_empty() { b.push(r.next() as u8); } Id::Bytes(Some(b)) }
        _ => match r.below(4) { 0 => Id::Str(None), 1 => Id::Str(Some(String::new())), 2 => Id::Bytes(None), _ => Id::Bytes(Some(vec![])) },
    }
}
fn rr1(r: &mut Rng) -> R1 {
    if r.chance(1, 2) { R1::Idx(ru32(r)) } else {
        let a = ru32(r); let b = ru32(r);
        if r.chance(1, 8) { R1::Rng(a, b) } else if a < b { R1::Rng(a, b) } else if b < a { R1::Rng(b, a) } else if a < u32::MAX { R1::Rng(a, a + 1) } else { R1::Rng(a - 1, a) }
    }
}
fn rnr(r: &mut Rng) -> NR {
    match r.below(8) {
        0 => NR::None,
        1 | 2 | 3 => NR::One(rr1(r)),
        4 => { let n = *r.pick(&[0u64, 1, 11, 12]); NR::Multi((0..n).map(|_| rr1(r)).collect()) }
        _ => { let n = 2 + r.below(9); NR::Multi((0..n).map(|_| rr1(r)).collect()) }
    }
}
const END_TICKS: i64 = 2_650_467_743_990_000_000; // 9999-12-31T23:59:59 in 100 ns ticks since 1601
fn rticks(r: &mut Rng) -> i64 {
    match r.below(10) {
        0 => *r.pick(&[0i64, 1, 9_999_999, 10_000_000, END_TICKS, END_TICKS - 1, END_TICKS + 1, END_TICKS + 9_999_999, i64::MAX, -1, -10_000_000,
                       116_444_736_000_000_000, 116_444_736_000_000_000 - 1, 125_911_584_000_000_000 /* 2000-01-01 */]),
        1 => (r.below(END_TICKS as u64 / 10_000_000) as i64) * 10_000_000,                    // whole seconds
        2 => (r.below(END_TICKS as u64 / 10_000) as i64) * 10_000,                            // whole milliseconds
        3 => (r.below(END_TICKS as u64 / 10) as i64) * 10,                                    // whole microseconds
        4 => { // around a day / month / year / leap-day border
            let y = 1601 + r.below(8399) as u16; let (m, d) = *r.pick(&[(1u16, 1u16), (2, 28), (3, 1), (12, 31), (2, 29), (7, 31), (6, 30)]);
            let d = if m == 2 && d == 29 && !(y % 4 == 0 && (y % 100 != 0 || y % 400 == 0)) { 28 } else { d };
            DateTime::ymd(y, m, d).ticks() + r.range(-20_000_000, 20_000_000)
        }
        5 => if r.chance(1, 2) { -(r.below(1_000_000_000_000) as i64) } else {
            // inside the first / last second, minute, hour, day, year of the range
            let span = *r.pick(&[10_000_000i64, 600_000_000, 36_000_000_000, 864_000_000_000, 315_360_000_000_000]);
            let d = r.below(span as u64) as i64;
            if r.chance(1, 2) { END_TICKS - d } else { d }
        },
        _ => r.below(END_TICKS as u64 + 1) as i64,
    }
}
/// a date-time text with 0..12 fractional digits at the borders of tick / millisecond truncation,
/// second / day / year borders, leap seconds and offsets that cross the epoch or the end time
fn date_text(r: &mut Rng) -> String {
    let (y, mo, d) = *r.pick(&[(1601u32, 1u32, 1u32), (1600, 12, 31), (9999, 12, 31), (2000, 2, 29), (1999, 12, 31), (2015, 6, 30), (1970, 1, 1), (2038, 1, 19), (9999, 1, 1), (1601, 12, 31)]);
    let (h, mi, se) = *r.pick(&[(0u32, 0u32, 0u32), (23, 59, 59), (23, 59, 60), (12, 0, 0), (0, 0, 1), (23, 59, 58)]);
    let nd = r.below(13) as usize;
    let frac: String = match r.below(6) {
        0 => "9".repeat(nd),
        1 => "0".repeat(nd),
        2 => { let mut f = "9".repeat(nd.saturating_sub(1)); if nd > 0 { f.push(*r.pick(&['4', '5', '6'])); } f }
        3 => { let mut f = "0".repeat(nd.saturating_sub(1)); if nd > 0 { f.push(*r.pick(&['1', '5', '9'])); } f }
        _ => (0..nd).map(|_| char::from(b'0' + r.below(10) as u8)).collect(),
    };
    let off = *r.pick(&["Z", "Z", "+00:00", "-00:00", "+00:01", "-00:01", "+23:59", "-23:59", "+01:00", "z", ""]);
    let sep = *r.pick(&["T", "T", "T", " ", "t"]);
    format!("{:04}-{:02}-{:02}{}{:02}:{:02}:{:02}{}{}{}", y, mo, d, sep, h, mi, se, if nd > 0 { "." } else { "" }, frac, off)
}
fn mutate(r: &mut Rng, s: &str) -> String {
    let mut v: Vec<char> = s.chars().collect();
    let k = 1 + r.below(3);
    for _ in 0..k {
        let n = v.len();
        match r.below(6) {
            0 if n > 0 => { v.remove(r.below(n as u64) as usize); }
            1 => { let c = pa(r).chars().next().unwrap_or('x'); v.insert(r.below(n as u64 + 1) as usize, c); }
            2 if n > 0 => { let i = r.below(n as u64) as usize; v[i] = pa(r).chars().next().unwrap_or('x'); }
            3 if n > 1 => { let i = r.below(n as u64 - 1) as usize; v.swap(i, i + 1); }
            4 if n > 0 => { let i = r.below(n as u64) as usize; v.truncate(i); }
            _ => { for c in pa(r).chars() { v.push(c); } }
        }
    }
    v.into_iter().collect()
}
fn printed(r: &mut Rng, which: u8) -> String {
    match which {
        0 => NodeId::new(rns(r), ident(&rid(r))).to_string(),
        1 => {
            let uri = if r.chance(1, 2) { UAString::from(rne_str(r, 4)) } else { UAString::null() };
            let ns = if uri.is_null() { rns(r) } else { 0 };
            ExpandedNodeId { node_id: NodeId::new(ns, ident(&rid(r))), namespace_uri: uri, server_index: ru32(r) }.to_string()
        }
        2 => ident(&rid(r)).to_string(),
        3 => { let g = Guid::from_bytes(rguid(r)); match r.below(4) { 0 => format!("{{{}}}", g), 1 => format!("urn:uuid:{}", g), 2 => g.to_string().replace('-', ""), _ => g.to_string().to_uppercase() } }
        4 => nr(&rnr(r)).as_string(),
        5 => ByteString::from(rbytes(r, 20)).as_base64(),
        6 => DateTime::from(rticks(r)).to_string(),
        _ => DateTime::from(rticks(r)).to_rfc3339(),
    }
}

// ---- history: the printers and parsers are meant to be pure functions, but they sit on process-wide
// state (lazy_static regexes today; a cache tomorrow).  Every case therefore first runs the same
// operations on values / strings that are NEIGHBOURS of the observed one (same identifier under another
// namespace, same namespace with another identifier, a string with one character more or less, ...),
// then the observed operation, then the observed operation a second time; the output is that of the
// first observed run, followed by the marker -3 if the second run differs.  The neighbours are derived
// from the case alone, so a replay of one case reproduces the history.
fn nb_id(id: &Id) -> Vec<Id> {
    match id {
        Id::Num(v) => vec![Id::Num(v ^ 1), Id::Num(v.wrapping_add(65536)), Id::Num(v / 10), Id::Str(Some(v.to_string()))],
        Id::Str(None) => vec![Id::Str(Some("x".into()))],
        Id::Str(Some(s)) => {
            let mut a = s.clone(); a.push('x');
            let b: String = { let mut c: Vec<char> = s.chars().collect(); c.pop(); c.into_iter().collect() };
            let c: String = s.chars().rev().collect();
            vec![Id::Str(Some(a)), Id::Str(Some(b)), Id::Str(Some(c)), Id::Bytes(Some(s.as_bytes().to_vec()))]
        }
        Id::Guid(b) => { let mut x = *b; x[15] ^= 1; let mut y = *b; y[0] ^= 0x80; let mut z = *b; z.reverse(); vec![Id::Guid(x), Id::Guid(y), Id::Guid(z)] }
        Id::Bytes(None) => vec![Id::Bytes(Some(vec![0]))],
        Id::Bytes(Some(v)) => {
            let mut a = v.clone(); a.push(0);
            let mut b = v.clone(); b.pop();
            let mut c = v.clone(); if let Some(x) = c.last_mut() { *x ^= 1; }
            vec![Id::Bytes(Some(a)), Id::Bytes(Some(b)), Id::Bytes(Some(c))]
        }
    }
}
fn nb_ns(ns: u16) -> Vec<u16> { vec![ns ^ 1, ns.wrapping_add(256), if ns == 0 { 65535 } else { 0 }] }
fn nb_nodes(ns: u16, id: &Id) -> Vec<NodeId> {
    let mut v: Vec<NodeId> = nb_ns(ns).into_iter().map(|n| NodeId::new(n, ident(id))).collect();
    v.extend(nb_id(id).iter().map(|i| NodeId::new(ns, ident(i))));
    v
}
fn mk_exp(svr: u32, uri: &Option<String>, ns: u16, id: &Id) -> ExpandedNodeId {
    ExpandedNodeId { node_id: NodeId::new(ns, ident(id)), namespace_uri: match uri { None => UAString::null(), Some(u) => UAString::from(u.as_str()) }, server_index: svr }
}
fn nb_exps(svr: u32, uri: &Option<String>, ns: u16, id: &Id) -> Vec<ExpandedNodeId> {
    let mut v = Vec::new();
    for s in [svr ^ 1, svr.wrapping_add(1 << 16), if svr == 0 { u32::MAX } else { 0 }] { v.push(mk_exp(s, uri, ns, id)); }
    let uris: Vec<Option<String>> = match uri {
        None => vec![Some("u".into()), Some(";".into())],
        Some(u) => { let mut a = u.clone(); a.push('%'); let mut b = u.clone(); b.pop(); let c = u.replace('%', "%25").replace(';', "%3b"); vec![None, Some(a), Some(b), Some(c), Some(u.to_uppercase())] }
    };
    for u in &uris { v.push(mk_exp(svr, u, if u.is_some() { 0 } else { ns }, id)); }
    for n in nb_ns(ns) { v.push(mk_exp(svr, uri, n, id)); }
    for i in nb_id(id) { v.push(mk_exp(svr, uri, ns, &i)); }
    v
}
fn nb_r1(r: &R1) -> Vec<R1> {
    match r {
        R1::Idx(i) => vec![R1::Idx(i ^ 1), R1::Idx(i / 10), R1::Rng(*i, i.saturating_add(1)), R1::Rng(0, *i)],
        R1::Rng(a, b) => vec![R1::Rng(*a, b.saturating_add(1)), R1::Rng(a ^ 1, *b), R1::Rng(*b, *a), R1::Idx(*a), R1::Idx(*b)],
    }
}
fn nb_nr(r: &NR) -> Vec<NR> {
    match r {
        NR::None => vec![NR::One(R1::Idx(0))],
        NR::One(x) => { let mut v: Vec<NR> = nb_r1(x).into_iter().map(NR::One).collect(); v.push(NR::Multi(vec![x.clone(), x.clone()])); v.push(NR::None); v }
        NR::Multi(l) => {
            let mut v = Vec::new();
            let mut a = l.clone(); a.push(R1::Idx(7)); v.push(NR::Multi(a));
            let mut b = l.clone(); b.pop(); v.push(NR::Multi(b));
            let mut c = l.clone(); c.reverse(); v.push(NR::Multi(c));
            if let Some(x) = l.first() { v.push(NR::One(x.clone())); for y in nb_r1(x) { let mut d = l.clone(); d[0] = y; v.push(NR::Multi(d)); } }
            v
        }
    }
}
fn nb_ticks(t: i64) -> Vec<i64> {
    vec![t.saturating_add(1), t.saturating_sub(1), t.saturating_add(10_000), t.saturating_sub(10_000), t.saturating_add(10_000_000), t.saturating_sub(10_000_000),
         t / 10_000_000 * 10_000_000, t.saturating_add(864_000_000_000), t ^ 0x5555]
}
/// strings next to `s`: one character more / less at either end, a changed digit, another prefix
fn nb_strings(s: &str) -> Vec<String> {
    let c: Vec<char> = s.chars().collect();
    let mut v: Vec<String> = Vec::new();
    v.push(format!("{}0", s));
    v.push(format!("ns=7;{}", s));
    v.push(format!("svr=1;{}", s));
    if !c.is_empty() {
        v.push(c[..c.len() - 1].iter().collect());
        v.push(c[1..].iter().collect());
        let mut d = c.clone();
        if let Some(i) = d.iter().position(|x| x.is_ascii_digit()) { d[i] = if d[i] == '9' { '0' } else { ((d[i] as u8) + 1) as char }; }
        v.push(d.into_iter().collect());
        let mut e = c.clone();
        if let Some(i) = e.iter().rposition(|x| x.is_ascii_alphanumeric()) { e[i] = if e[i] == 'A' { 'B' } else { 'A' }; }
        v.push(e.into_iter().collect());
        v.push(s.to_uppercase());
    }
    v
}
fn parse_any(w: u8, s: &str) {
    let _ = guarded(|| match w {
        0 => { let _ = NodeId::from_str(s); }
        1 => { let _ = ExpandedNodeId::from_str(s); }
        2 => { let _ = Identifier::from_str(s); }
        3 => { let _ = Guid::from_str(s); }
        4 => { let _ = NumericRange::from_str(s); }
        5 => { let _ = ByteString::from_base64(s); }
        6 => { let _ = DateTime::from_str(s); }
        _ => { let _ = DateTime::parse_from_rfc3339(s); }
    });
}
/// run `f` twice; the output is the first run's, with -3 appended if the second differs
fn twice<F: Fn(&mut Vec<i128>)>(f: F, out: &mut Vec<i128>) {
    let mut a = Vec::new(); f(&mut a);
    let mut b = Vec::new(); f(&mut b);
    out.extend(a.iter().cloned());
    if a != b { out.push(-3); }
}

impl Property for P {
    type Case = Case;
    fn fixed(tier: &str) -> Vec<Case> {
        let s = |x: &str| Some(x.to_string());
        let mut v = vec![
            // ExpandedNodeId without namespace: printed `svr=0;i=5`, rejected by the parser before the fix
            Case::Exp { svr: 0, uri: None, ns: 0, id: Id::Num(5) },
            Case::Exp { svr: 7, uri: None, ns: 0, id: Id::Str(s("x;y")) },
            // newline in a string identifier: `.+` stopped at it before the fix
            Case::Node { ns: 2, id: Id::Str(s("a\nb")) },
            Case::Node { ns: 0, id: Id::Str(s("\n")) },
            Case::Exp { svr: 0, uri: s("urn:x"), ns: 0, id: Id::Str(s("a\nb")) },
            // Identifier::from_str sliced `&s[..2]` inside a multi-byte character before the fix
            Case::Parse(2, "a\u{e9}".into()),
            Case::Parse(2, "\u{20ac}".into()),
            Case::Parse(2, "\u{1d11e}x".into()),
            Case::Parse(2, "\u{e9}".into()),
            Case::Parse(2, "i".into()),
            Case::Parse(2, "".into()),
            Case::Node { ns: 0, id: Id::Num(0) },
            Case::Node { ns: 0, id: Id::Num(255) },
            Case::Node { ns: 0, id: Id::Num(256) },
            Case::Node { ns: 255, id: Id::Num(65535) },
            Case::Node { ns: 256, id: Id::Num(65536) },
            Case::Node { ns: 65535, id: Id::Num(u32::MAX) },
            Case::Node { ns: 1, id: Id::Str(s("ns=3;i=4")) },
            Case::Node { ns: 0, id: Id::Str(s("[null]")) },
            Case::Node { ns: 0, id: Id::Str(None) },
            Case::Node { ns: 0, id: Id::Str(s("")) },
            Case::Node { ns: 5, id: Id::Bytes(Some(vec![])) },
            Case::Node { ns: 5, id: Id::Bytes(None) },
            Case::Node { ns: 5, id: Id::Bytes(Some(vec![0xff])) },
            Case::Node { ns: 5, id: Id::Bytes(Some(vec![0xfb, 0xff])) },
            Case::Node { ns: 5, id: Id::Bytes(Some(vec![0xfb, 0xff, 0xbe])) },
            Case::Node { ns: 9, id: Id::Guid([0x72, 0x96, 0x2b, 0x91, 0xfa, 0x75, 0x4a, 0xe6, 0x8d, 0x28, 0xb4, 0x04, 0xdc, 0x7d, 0xaf, 0x63]) },
            Case::Exp { svr: 0, uri: None, ns: 2, id: Id::Num(5) },
            Case::Exp { svr: 1, uri: s("http://x/;a%b;%3b%25"), ns: 0, id: Id::Num(5) },
            Case::Exp { svr: u32::MAX, uri: s("%"), ns: 0, id: Id::Str(s(";")) },
            Case::Exp { svr: 3, uri: s("%3b"), ns: 0, id: Id::Bytes(Some(vec![1, 2, 3, 4])) },
            Case::Exp { svr: 3, uri: s("%253b;25"), ns: 0, id: Id::Guid([0; 16]) },
            // escape sequences of the uri inside the identifier stay as they are
            Case::Exp { svr: 3, uri: s("u"), ns: 0, id: Id::Str(s("a%3bb%25c;d%")) },
            Case::Exp { svr: 0, uri: None, ns: 4, id: Id::Str(s("%3b%25")) },
            Case::Node { ns: 4, id: Id::Str(s("%3b%25;nsu=x;")) },
            // the last day and the last year of the range, the first day
            Case::Date(END_TICKS - 10_000_000), Case::Date(END_TICKS - 864_000_000_000 + 10_000_000), Case::Date(END_TICKS - 863_999_999_999), Case::Date(END_TICKS - 315_360_000_000_000),
            Case::Date(864_000_000_000 - 1), Case::Date(9_999_999), Case::Date(10_000_001),
            Case::Exp { svr: 3, uri: s("u"), ns: 7, id: Id::Num(1) },   // URI and namespace index: index is not printed
            Case::Exp { svr: 3, uri: s(""), ns: 7, id: Id::Num(1) },    // empty non-null URI parses back as null
            Case::Guid([0; 16]), Case::Guid([0xff; 16]),
            Case::Range(NR::None), Case::Range(NR::One(R1::Idx(0))), Case::Range(NR::One(R1::Idx(u32::MAX))),
            Case::Range(NR::One(R1::Rng(0, u32::MAX))), Case::Range(NR::One(R1::Rng(5, 5))), Case::Range(NR::One(R1::Rng(6, 5))),
            Case::Range(NR::Multi(vec![R1::Idx(1), R1::Rng(2, 3)])),
            Case::Range(NR::Multi((0..10).map(R1::Idx).collect())),
            // known class 1: is_valid() accepts these, the text form does not lead back to them
            Case::Range(NR::Multi(vec![])), Case::Range(NR::Multi(vec![R1::Idx(1)])), Case::Range(NR::Multi((0..11).map(R1::Idx).collect())),
            Case::Date(0), Case::Date(1), Case::Date(END_TICKS), Case::Date(END_TICKS + 1), Case::Date(i64::MAX), Case::Date(-1),
            Case::Date(125_911_584_000_000_000), Case::Date(125_911_584_001_230_000), Case::Date(125_911_584_001_234_560), Case::Date(125_911_584_001_234_567),
        ];
        for (w, xs) in [
            (0u8, vec!["", "i=", "i=1", "i=+1", "i=-1", "i=01", "i=4294967295", "i=4294967296", "ns=1;i=1", "ns=65535;i=1", "ns=65536;i=1", "ns=;i=1", "ns=1;", "ns=1;x=1",
                       "ns=1i=1", "s=", "s=a", " s=a", "s=a\n", "\ns=a", "ns=01;s=;", "g=72962B91-FA75-4AE6-8D28-B404DC7DAF63", "g=72962B91FA754AE68D28B404DC7DAF63",
                       "g={72962B91-FA75-4AE6-8D28-B404DC7DAF63}", "g=urn:uuid:72962B91-FA75-4AE6-8D28-B404DC7DAF63", "g=72962B91-FA75-4AE6-8D28-B404DC7DAF6",
                       "g=72962B91-FA75-4AE6-8D28-B404DC7DAF6\u{e9}", "b=", "b=QQ==", "b=QR==", "b=QQ=", "b=QQ", "b=QUI=", "b=QUJD", "b=QUJDRA==", "b=QUJD\nRA==", "b=Q=Q=", "b=====", "b=QUJDRUZHSA==",
                       "b=QUJDRUZHSElKS0xNTk9QUVJTVFVWV1hZWmFiY2RlZmdoaWprbG1ub3BxcnN0dXZ3eHl6MDEyMzQ1Njc4OSsv", "i=１", "ns=１;i=1", "i=1 ", "ns=1;ns=2;i=3"]),
            (1u8, vec!["", "svr=0;i=5", "svr=0;ns=0;i=5", "svr=;i=5", "svr=4294967296;i=5", "svr=1;nsu=;i=5", "svr=1;nsu=a;i=5", "svr=1;nsu=a;b;i=5", "svr=1;nsu=%3b%25%3B;s=%3b",
                       "svr=1;nsu=%253b;s=x", "svr=1;nsu=%3%3bb;s=x", "svr=1;ns=65536;i=5", "svr=1;ns=2;nsu=a;i=5", "svr=1;nsu=a;ns=2;i=5", "svr=1;nsu=a\nb;s=c\nd", "svr=+1;i=5", "svr=1;s=nsu=x;i=3", "i=5", "ns=1;i=5",
                       "svr=1;n=5", "svr=1;ns=2;", "svr=1;ns=2;i=", "svr=00000000001;ns=00002;i=0005"]),
            (3u8, vec!["", "72962b91-fa75-4ae6-8d28-b404dc7daf63", "72962B91-FA75-4AE6-8D28-B404DC7DAF63", "72962b91fa754ae68d28b404dc7daf63", "{72962b91-fa75-4ae6-8d28-b404dc7daf63}",
                       "urn:uuid:72962b91-fa75-4ae6-8d28-b404dc7daf63", "{72962b91fa754ae68d28b404dc7daf63}", "72962b91-fa75-4ae6-8d28-b404dc7daf6g", "72962b91-fa75-4ae6-8d28b-404dc7daf63",
                       "72962b91-fa75-4ae6-8d28-b404dc7daf6\u{e9}", "\u{e9}2962b91fa754ae68d28b404dc7daf63", "72962b91-fa75-4ae6-8d28-b404dc7daf633", "{72962b91-fa75-4ae6-8d28-b404dc7daf63",
                       "--------------------------------", "------------------------------------", "{}", "{", "urn:uuid:", "7-2-9-6-2", "72962b91-fa75-4ae6-8d28-", "72962b91-fa75-4ae6-8d28-b404dc7daf63-", "é", "中中中中中中中中中中中中"]),
            (4u8, vec!["", " ", "0", "0000000000", "00000000000", "4294967295", "4294967296", "9999999999", "1:2", "2:1", "1:1", "0:4294967295", "0:4294967296", "0:9999999999", "4294967295:4294967296",
                       "1,2", "1,", ",1", ",", "1:2,3:4", "1,2,3,4,5,6,7,8,9,10", "1,2,3,4,5,6,7,8,9,10,11", "1:2:3", "1:", ":1", "+1", "1\n", "１", "1,2:1", "1:2,4294967296"]),
            (5u8, vec!["", "Q", "QQ", "QQ=", "QQ==", "QR==", "QUI=", "QUJ=", "QUJD", "QUJDR", "QUJDRA==", "QUJDRA=", "QUJDRA", "====", "Q===", "QQ==QQ==", "QUJD====", "QUJDRUZHSA==", "QUJDRUZH", "QUJDRUZHS", "QUJDRUZ=",
                       "QUJD RUZH", "QUJD\n", "-_-_", "+/+/", "é", "QUJé", "QUJDRUZHSElKS0xNTk9QUVJTVFVWV1hZWmFiY2RlZmdoaWprbG1ub3BxcnN0dXZ3eHl6MDEyMzQ1Njc4OSsv", "QUJDRUZHSElKS0xNTk9QUVJTVFVWV1hZ=mFi", "=QUJ", "Q=UJ", "QU=J"]),
            (6u8, vec!["", "2000-01-01T00:00:00+00:00", "2000-01-01T00:00:00Z", "2000-01-01 00:00:00Z", "2000-01-01T00:00:00.1234567Z", "2000-01-01T00:00:00.123456789+01:00", "1600-12-31T23:59:59Z",
                       "2000-01-01T00:00:00.99999994Z", "2000-01-01T00:00:00.99999995Z", "2000-01-01T00:00:00.999999999Z", "2000-01-01T23:59:59.99999999Z", "2000-01-01T00:00:00.00000005Z",
                       "9999-12-31T23:59:59.999999999Z", "9999-12-31T23:59:60.5Z", "1600-12-31T23:59:59.999999999Z", "1601-01-01T00:00:00.000000001Z", "2015-06-30T23:59:60.99999999Z",
                       "9999-12-31T23:59:59.9999999Z", "2015-06-30T23:59:60Z", "2000-02-30T00:00:00Z", "2000-01-01", "x", "2000-01-01T00:00:00UTC", "2000-01-01T00:00:00é", "é", "+10000-01-01T00:00:00Z", "0000-01-01T00:00:00Z", "-0001-01-01T00:00:00Z"]),
            (7u8, vec!["", "2000-01-01T00:00:00+00:00", "2000-01-01T00:00:00Z", "2000-01-01 00:00:00Z", "2000-01-01T00:00:00.1234567Z", "2000-01-01T00:00:00.123456789+01:00", "1600-12-31T23:59:59Z", "1601-01-01T00:00:00+00:01",
                       "2000-01-01T00:00:00.99999995Z", "2000-01-01T00:00:00.999999999Z", "9999-12-31T23:59:59.999999999Z", "9999-12-31T23:59:59.000000001Z", "1600-12-31T23:59:59.999999999Z", "2015-06-30T23:59:60.99999999Z",
                       "9999-12-31T23:59:59.9999999Z", "9999-12-31T23:59:59-00:01", "2015-06-30T23:59:60Z", "2000-02-30T00:00:00Z", "2000-01-01", "x", "é", "0000-01-01T00:00:00Z"]),
        ] {
            for x in xs { v.push(Case::Parse(w, x.to_string())); }
        }
        if tier == "thorough" {
            for ns in [0u16, 1, 255, 256, 65535] { for id in [0u32, 1, 255, 256, 65535, 65536, u32::MAX] {
                v.push(Case::Node { ns, id: Id::Num(id) });
                v.push(Case::Exp { svr: id, uri: None, ns, id: Id::Num(id) });
            } }
            for n in 0..40usize { v.push(Case::Node { ns: 1, id: Id::Bytes(Some((0..n).map(|i| (i * 37 + n) as u8).collect())) }); }
        }
        v
    }
    fn gen(r: &mut Rng) -> Case {
        match r.below(20) {
            0..=4 => Case::Node { ns: rns(r), id: rid(r) },
            5..=8 => {
                let uri = match r.below(8) { 0 | 1 | 2 => None, 3 => Some(String::new()), _ => Some(rne_str(r, 5)) };
                let ns = if uri.is_none() || r.chance(1, 10) { rns(r) } else { 0 };
                let id = if r.chance(1, 4) {
                    // what is special in a uri (escapes, the separators, the keywords) inside the identifier
                    let n = 1 + r.below(4);
                    Id::Str(Some((0..n).map(|_| *r.pick(&["%3b", "%25", ";", "%", "%3B", "nsu=", "ns=", "svr=", "x", "=", "3b", "25"])).collect()))
                } else { rid(r) };
                Case::Exp { svr: if r.chance(1, 3) { 0 } else { ru32(r) }, uri, ns, id }
            }
            9 => Case::Guid(rguid(r)),
            10 | 11 => Case::Range(rnr(r)),
            12 | 13 => Case::Date(rticks(r)),
            _ => {
                let which = r.below(8) as u8;
                let s = if which >= 6 && r.chance(1, 2) { date_text(r) } else { match r.below(5) { 0 => rstr(r, 8), 1 => printed(r, which), _ => { let p = printed(r, which); mutate(r, &p) } } };
                Case::Parse(which, s)
            }
        }
    }
    fn exec(c: &Case) -> Out {
        let mut out: Vec<i128> = Vec::new();
        let (tag, term);
        match c {
            Case::Node { ns, id } => {
                let v = NodeId::new(*ns, ident(id));
                for n in nb_nodes(*ns, id) { let _ = guarded(|| { let s = n.to_string(); let _ = NodeId::from_str(&s); let _ = ExpandedNodeId::from_str(&s); }); }
                if let Ok(s) = guarded(|| v.to_string()) { for x in nb_strings(&s) { parse_any(0, &x); } }
                twice(|o| match guarded(|| v.to_string()) {
                    Ok(s) => { enc_str(&s, o); res(|| NodeId::from_str(&s), enc_node, o); }
                    Err(_) => o.push(-2),
                }, &mut out);
                tag = if out == vec![-2] { "node-printpanic".to_string() } else {
                    format!("node-{}{}", match id { Id::Num(_) => "num", Id::Str(Some(x)) if !x.is_empty() => "str", Id::Guid(_) => "guid", Id::Bytes(Some(x)) if !x.is_empty() => "bytes", _ => "emptyid" },
                              if *ns == 0 { "-ns0" } else { "" }) };
                term = format!("(CNode {} {})", ns, t_id(id));
            }
            Case::Exp { svr, uri, ns, id } => {
                let v = mk_exp(*svr, uri, *ns, id);
                for n in nb_exps(*svr, uri, *ns, id) { let _ = guarded(|| { let s = n.to_string(); let _ = ExpandedNodeId::from_str(&s); }); }
                // the plain NodeId of the same value goes through Identifier / NodeId code shared with this one
                let _ = guarded(|| { let s = v.node_id.to_string(); let _ = NodeId::from_str(&s); });
                if let Ok(s) = guarded(|| v.to_string()) { for x in nb_strings(&s) { parse_any(1, &x); } }
                twice(|o| {
                    let s = match guarded(|| v.to_string()) { Ok(s) => s, Err(_) => String::from("\u{0}PANIC") };
                    enc_str(&s, o);
                    res(|| ExpandedNodeId::from_str(&s), enc_exp, o);
                }, &mut out);
                tag = format!("exp-{}-{}", match uri { None => "nouri", Some(u) if u.is_empty() => "emptyuri", _ => "uri" }, if *svr == 0 { "svr0" } else { "svr" });
                term = format!("(CExp {} {} {} {})", svr, t_ostr(uri), ns, t_id(id));
            }
            Case::Guid(b) => {
                let g = Guid::from_bytes(*b);
                for n in nb_id(&Id::Guid(*b)) { if let Id::Guid(x) = n { let s = Guid::from_bytes(x).to_string(); let _ = guarded(|| Guid::from_str(&s)); } }
                for x in nb_strings(&g.to_string()) { parse_any(3, &x); }
                twice(|o| {
                    let s = g.to_string();
                    enc_str(&s, o);
                    res(|| Guid::from_str(&s), |g: &Guid, o: &mut Vec<i128>| o.extend(g.as_bytes().iter().map(|x| *x as i128)), o);
                }, &mut out);
                tag = "guid".into();
                term = format!("(CGuid {})", zbytes(b));
            }
            Case::Range(x) => {
                let v = nr(x);
                for n in nb_nr(x) { let _ = guarded(|| { let w = nr(&n); let s = w.as_string(); let _ = NumericRange::from_str(&s); let _ = w.is_valid(); }); }
                for y in nb_strings(&v.as_string()) { parse_any(4, &y); }
                twice(|o| {
                    let s = v.as_string();
                    enc_str(&s, o);
                    res(|| NumericRange::from_str(&s), enc_range, o);
                    o.push(if v.is_valid() { 1 } else { 0 });
                }, &mut out);
                tag = format!("range-{}", match x { NR::None => "none", NR::One(R1::Idx(_)) => "index", NR::One(_) => "range", NR::Multi(v) if v.len() < 2 || v.len() > 10 => "multi-oddcount", _ => "multi" });
                term = format!("(CRange {})", t_nr(x));
            }
            Case::Date(t) => {
                for n in nb_ticks(*t) { let _ = guarded(|| { let d = DateTime::from(n); let s = d.to_string(); let _ = DateTime::from_str(&s); let s2 = d.to_rfc3339(); let _ = DateTime::parse_from_rfc3339(&s2); }); }
                twice(|o| match guarded(|| DateTime::from(*t)) {
                    Err(_) => o.push(-2),
                    Ok(d) => {
                        let s = d.to_string();
                        enc_str(&s, o);
                        res(|| DateTime::from_str(&s), enc_date, o);
                        let s2 = d.to_rfc3339();
                        enc_str(&s2, o);
                        res(|| DateTime::parse_from_rfc3339(&s2), enc_date, o);
                    }
                }, &mut out);
                tag = format!("date-{}", if *t < 0 || *t > END_TICKS { "outofrange" } else if t % 10_000_000 == 0 { "sec" } else if t % 10_000 == 0 { "ms" } else { "tick" });
                term = format!("(CDate {})", z(*t as i128));
            }
            Case::Parse(w, s) => {
                // for the two DateTime parsers chrono is an oracle: its verdict on `s` goes into the case
                let mut aux = "None".to_string();
                for x in nb_strings(s) { parse_any(*w, &x); }
                match w {
                    6 => { if let Ok(Ok(d)) = guarded(|| chrono::DateTime::<chrono::Utc>::from_str(s)) { aux = format!("(Some ({}, {}))", z(d.timestamp() as i128), d.timestamp_subsec_nanos()); } }
                    7 => { if let Ok(Ok(d)) = guarded(|| chrono::DateTime::parse_from_rfc3339(s)) { let d = d.with_timezone(&chrono::Utc); aux = format!("(Some ({}, {}))", z(d.timestamp() as i128), d.timestamp_subsec_nanos()); } }
                    _ => {}
                }
                twice(|o| match w {
                    0 => res(|| NodeId::from_str(s), enc_node, o),
                    1 => res(|| ExpandedNodeId::from_str(s), enc_exp, o),
                    2 => res(|| Identifier::from_str(s), enc_ident, o),
                    3 => res(|| Guid::from_str(s), |g: &Guid, o: &mut Vec<i128>| o.extend(g.as_bytes().iter().map(|x| *x as i128)), o),
                    4 => res(|| NumericRange::from_str(s), enc_range, o),
                    5 => res(|| ByteString::from_base64(s).ok_or(()), enc_bytes, o),
                    6 => res(|| DateTime::from_str(s), enc_date, o),
                    _ => res(|| DateTime::parse_from_rfc3339(s), enc_date, o),
                }, &mut out);
                tag = format!("parse{}-{}", w, match out[0] { 1 => "ok", -1 => "err", _ => "panic" });
                term = format!("(CParse {} {} {})", w, t_str(s), aux);
            }
        }
        Out { tag, term, out }
    }
}
fn main() { run_main::<P>() }
