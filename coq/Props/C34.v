(* C34 — node management results describe what actually happened.  Statements only.
   Model: coq/C34/Model.v (the code as committed = [fixed_cfg]); proofs: coq/C34/Proofs.v. *)
From Coq Require Import List ZArith.
From OV Require Import C34.Model C34.Proofs.
Import ListNotations.
Open Scope Z_scope.

(* AddNodes reports Good  =>  the returned id is not null, did not exist before, exists afterwards,
   the given parent is a node of this server, and the parent references the new node with the given
   reference type.  For every address space below the u32 range of the allocator, any session
   rights, any item. *)
Theorem C34_add_nodes_good : forall nslen can s i,
  1 <= nslen -> Z.of_nat (length (nodes s)) < U32 ->
  let r := add_node fixed_cfg nslen can s i in
  r_status r = 0 ->
  a_parent_srv i = 0 /\ r_id r <> 0 /\
  node_exists (nodes s) (r_id r) = false /\
  node_exists (nodes (r_st r)) (r_id r) = true /\
  node_exists (nodes s) (a_parent i) = true /\
  has_ref (refs (r_st r)) (a_parent i, a_reftype i, r_id r) = true.
Proof. exact add_nodes_good. Qed.
Print Assumptions C34_add_nodes_good.

(* A Bad status of an AddNodes / AddReferences / DeleteNodes / DeleteReferences item  =>  the item
   left the nodes and the references as they were. *)
Theorem C34_bad_changes_nothing : forall nslen can s,
  1 <= nslen -> Z.of_nat (length (nodes s)) < U32 ->
  (forall i, let r := add_node fixed_cfg nslen can s i in r_status r <> 0 -> nodes (r_st r) = nodes s /\ refs (r_st r) = refs s) /\
  (forall i, let r := add_reference fixed_cfg can s i in r_status r <> 0 -> nodes (r_st r) = nodes s /\ refs (r_st r) = refs s) /\
  (forall i, let r := delete_node fixed_cfg can s i in r_status r <> 0 -> nodes (r_st r) = nodes s /\ refs (r_st r) = refs s) /\
  (forall i, let r := delete_reference can s i in r_status r <> 0 -> nodes (r_st r) = nodes s /\ refs (r_st r) = refs s).
Proof. exact bad_changes_nothing. Qed.
Print Assumptions C34_bad_changes_nothing.

(* BadBrowseNameInvalid is reported only for a browse name that is null or empty: whatever the
   namespace of the name and whatever characters it contains (the name is a code in the model; the
   harness maps codes to names with reserved relative path characters too). *)
Theorem C34_browse_name_invalid_only_if_empty : forall nslen can s i,
  1 <= nslen -> Z.of_nat (length (nodes s)) < U32 ->
  r_status (add_node fixed_cfg nslen can s i) = 5 -> a_bname i < 2.
Proof. exact browse_name_invalid_only_if_empty. Qed.
Print Assumptions C34_browse_name_invalid_only_if_empty.

(* A server-assigned id (no id requested) never collides with an existing node, whatever the value
   of the global counter (including its wrap-around at u32 and usize), and lies in namespace 1.
   The allocation loop needs at most |nodes|+1 draws (pigeonhole). *)
Theorem C34_assigned_ids_fresh : forall nslen can s i,
  1 <= nslen -> Z.of_nat (length (nodes s)) < U32 -> a_req i = 0 ->
  let r := add_node fixed_cfg nslen can s i in
  r_status r = 0 -> node_exists (nodes s) (r_id r) = false /\ ns_of (r_id r) = 1.
Proof. exact assigned_ids_fresh. Qed.
Print Assumptions C34_assigned_ids_fresh.

Theorem C34_allocator_finds_free_id : forall ns c, Z.of_nat (length ns) < U32 ->
  node_exists ns (fst (alloc (length ns) ns c)) = false.
Proof. exact alloc_fresh. Qed.
Print Assumptions C34_allocator_finds_free_id.

(* None of the panic sites of the modelled code (the unwrap of the relative path, assert_namespace,
   the self-reference panic of insert_reference in three places, the array dimensions unwrap) is
   reachable. *)
Theorem C34_no_panic : forall nslen can s,
  1 <= nslen -> Z.of_nat (length (nodes s)) < U32 ->
  (forall i, r_status (add_node fixed_cfg nslen can s i) <> PANIC) /\
  (forall i, r_status (add_reference fixed_cfg can s i) <> PANIC) /\
  (forall i, r_status (delete_node fixed_cfg can s i) <> PANIC) /\
  (forall i, r_status (delete_reference can s i) <> PANIC).
Proof. exact no_panic. Qed.
Print Assumptions C34_no_panic.

(* The recursion of AddressSpace::delete is modelled with fuel |nodes|+1; more fuel never changes the
   result (every nested call is on an existing node and removes it first), for the repaired and
   for the legacy code alike. *)
Theorem C34_delete_fuel_adequate : forall f ns rs id dtr k,
  delete f (S (length ns) + k) ns rs id dtr = delete f (S (length ns)) ns rs id dtr.
Proof. exact delete_fuel_adequate. Qed.
Print Assumptions C34_delete_fuel_adequate.

(* Histories: for ANY sequence of requests of any kinds and sizes, every item event (view of the
   item, status, returned id, state before, state after) satisfies [ev_ok]: Bad => nodes and
   references unchanged and no id; AddNodes Good => new node, fresh id, referenced from the given
   local parent with the given type.  Induction over the request list. *)
Theorem C34_history : forall c, valid c ->
  Forall ev_ok (history (c_nslen c) (c_can c) (init_state c) (c_reqs c)).
Proof. exact history_ok. Qed.
Print Assumptions C34_history.

(* The property evaluated on the model's own observable output holds for every valid case. *)
Theorem C34_oracle : forall c, valid c -> known c = 0 -> oracle c (run c) = true.
Proof. exact oracle_holds. Qed.
Print Assumptions C34_oracle.

(* The code before each repair violates the property. *)
Theorem C34_legacy_refuted_browse_name_namespace : exists c, valid c /\ oracle c (run_with Legacy.no_bname c) = false.
Proof. exact legacy_refuted_bname. Qed.
Print Assumptions C34_legacy_refuted_browse_name_namespace.
Theorem C34_legacy_refuted_id_collision : exists c, valid c /\ oracle c (run_with Legacy.no_alloc c) = false.
Proof. exact legacy_refuted_alloc. Qed.
Print Assumptions C34_legacy_refuted_id_collision.
Theorem C34_legacy_refuted_reference_direction : exists c, valid c /\ oracle c (run_with Legacy.no_dir c) = false.
Proof. exact legacy_refuted_dir. Qed.
Print Assumptions C34_legacy_refuted_reference_direction.
Theorem C34_legacy_refuted_parent_server_index : exists c, valid c /\ oracle c (run_with Legacy.no_psrv c) = false.
Proof. exact legacy_refuted_psrv. Qed.
Print Assumptions C34_legacy_refuted_parent_server_index.
Theorem C34_legacy_refuted_delete_unknown_node : exists c, valid c /\ oracle c (run_with Legacy.no_delchild c) = false.
Proof. exact legacy_refuted_delchild. Qed.
Print Assumptions C34_legacy_refuted_delete_unknown_node.
Theorem C34_legacy_refuted_namespace_assert : exists c, valid c /\ oracle c (run_with Legacy.no_nsguard c) = false.
Proof. exact legacy_refuted_nsguard. Qed.
Print Assumptions C34_legacy_refuted_namespace_assert.
Theorem C34_legacy_refuted_self_reference : exists c, valid c /\ oracle c (run_with Legacy.no_selfref c) = false.
Proof. exact legacy_refuted_selfref. Qed.
Print Assumptions C34_legacy_refuted_self_reference.
Theorem C34_legacy_refuted_array_dimensions : exists c, valid c /\ oracle c (run_with Legacy.no_dims c) = false.
Proof. exact legacy_refuted_dims. Qed.
Print Assumptions C34_legacy_refuted_array_dimensions.
Theorem C34_legacy_refuted_namespaced_browse_name : exists c, valid c /\ oracle c (run_with Legacy.no_nsname c) = false.
Proof. exact legacy_refuted_nsname. Qed.
Print Assumptions C34_legacy_refuted_namespaced_browse_name.
