(* C21 — every operation keeps the invariant and is accepted by the reference evaluator. *)
From Coq Require Import List ZArith Bool Lia Permutation.
Import ListNotations.
From OV Require Import C21.SysLemmas C21.Model C21.SubTick C21.Round C21.Inv.
Open Scope Z_scope.

Lemma subs_ok_weaken B B' y z : subs_ok B y z -> B <= B' -> subs_ok B' y z.
Proof.
  intros (H1 & H2 & H3) Hle. split; [exact H1|]. split; [|exact H3].
  intros s Hs. destruct (H2 s Hs) as (A & W & S & L). split; [exact A|]. split; [exact W|]. split; [exact S|]. lia.
Qed.

(* closing an operation: the end-of-operation check passes and the invariant holds again *)
Lemma finish k y1 z' :
  z_now z' = y_now y1 -> z_vars z' = y_vars y1 -> z_nextsub z' = y_nextsub y1 -> z_nextrid z' = y_nextrid y1 ->
  reqs_ok y1 z' -> subs_ok (2 * k + 2) y1 z' -> quiet y1 ->
  (z_track z' = true ->
     NoDup (map p_id (z_subs z')) /\
     forall id s, find_sub id (y_subs y1) = Some s -> s_state s <> 0 -> find_ssub id (z_subs z') = Some (abs_sub s)) ->
  exists z1, spec_after z' (snapshot y1) = Some z1 /\ Rel (k + 1) y1 z1.
Proof.
  intros E1 E2 E3 E4 (R1 & R2 & R3) Hs Hq Htr.
  destruct (spec_after_ok y1 z') as (z1 & A & A1 & A2 & A3 & A4 & A5 & A6 & A7 & A8 & A9).
  { split; [exact R1|]. split; [exact Hq|]. split; [apply Hs | exact Htr]. }
  exists z1. split; [exact A|]. unfold Rel.
  split; [congruence|]. split; [congruence|]. split; [congruence|]. split; [congruence|]. split; [exact A8|].
  split; [unfold reqs_ok; rewrite A5; auto|].
  split.
  { replace (2 * (k + 1)) with (2 * k + 2) by lia. destruct Hs as (S1 & S2 & S3).
    split; [exact S1|]. split; [rewrite A6; exact S2 | rewrite A6; exact S3]. }
  split; [exact Hq | exact A9].
Qed.

(* replacing one subscription by a statically and sequence-wise equal one *)
Lemma in_replace_cases s' subs x : In x (replace_sub s' subs) -> x = s' \/ (In x subs /\ s_id x <> s_id s') \/ In x subs.
Proof. intros H. apply in_replace_sub in H as [H|H]; auto. Qed.

Lemma subs_ok_replace B y z s s' :
  subs_ok B y z -> find_sub (s_id s) (y_subs y) = Some s -> s_id s' = s_id s ->
  (forall lo, wf lo s -> wf lo s') -> state_ok s' -> s_lastseq s' = s_lastseq s ->
  subs_ok B (set_subs y (replace_sub s' (y_subs y))) z.
Proof.
  intros (H1 & H2 & H3) Hf Hid Hwf Hso Hls. unfold subs_ok. cbn [y_subs y_nextsub set_subs].
  split; [rewrite ids_replace; exact H1|]. split; [|exact H3].
  intros x Hx. apply in_replace_sub in Hx as [->|Hx]; [|apply H2; exact Hx].
  apply find_sub_some in Hf as [Hin _]. destruct (H2 s Hin) as (A & W & S & L).
  rewrite Hid, Hls. auto.
Qed.

Lemma tracked_find y z id : tracked abs_sub y z -> z_track z = true ->
  find_ssub id (z_subs z) = match find_sub id (y_subs y) with
                            | Some s => if s_state s =? 0 then None else Some (abs_sub s)
                            | None => None
                            end.
Proof. intros H Ht. apply (H Ht). Qed.

Lemma tracked_replace y z s s' :
  tracked abs_sub y z -> NoDup (ids (y_subs y)) -> find_sub (s_id s) (y_subs y) = Some s ->
  s_id s' = s_id s -> s_state s' = s_state s ->
  let zs' := if s_state s =? 0 then z_subs z else replace_ssub (abs_sub s') (z_subs z) in
  z_track z = true ->
  NoDup (map p_id zs') /\
  forall j sj, find_sub j (replace_sub s' (y_subs y)) = Some sj -> s_state sj <> 0 ->
               find_ssub j zs' = Some (abs_sub sj).
Proof.
  intros Htr Hnd Hf Hid Hst zs' Ht. destruct (Htr Ht) as [Hnp Hp]. subst zs'.
  assert (Hin : In (s_id s') (ids (y_subs y))).
  { rewrite Hid. apply find_sub_some in Hf as [H _]. unfold ids. apply in_map. exact H. }
  split; [destruct (s_state s =? 0); [exact Hnp | rewrite pids_replace; exact Hnp]|].
  intros j sj Hfj Hne.
  destruct (Z.eq_dec j (s_id s')) as [->|Hj].
  - rewrite (find_replace_same s' _ Hin) in Hfj. inversion Hfj; subst sj.
    destruct (Z.eqb_spec (s_state s) 0) as [E|E]; [congruence|].
    change (s_id s') with (p_id (abs_sub s')). apply find_replace_ssub_same.
    cbn [abs_sub p_id]. rewrite Hid, Hp, Hf. destruct (Z.eqb_spec (s_state s) 0); [contradiction | eauto].
  - rewrite (find_replace_other j s' _ Hj) in Hfj.
    assert (Hres : find_ssub j (z_subs z) = Some (abs_sub sj)).
    { rewrite Hp, Hfj. destruct (Z.eqb_spec (s_state sj) 0); [contradiction | reflexivity]. }
    destruct (s_state s =? 0); [exact Hres|]. rewrite find_replace_ssub_other; [exact Hres | exact Hj].
Qed.

Lemma quiet_replace y s s' :
  quiet y -> s_notifs s' = s_notifs s -> find_sub (s_id s) (y_subs y) = Some s ->
  quiet (set_subs y (replace_sub s' (y_subs y))).
Proof.
  intros Hq Hn Hf Hr x Hx. cbn [y_subs y_reqs set_subs] in *. apply in_replace_sub in Hx as [->|Hx]; [|apply Hq; assumption].
  rewrite Hn. apply Hq; [exact Hr|]. apply find_sub_some in Hf as [H _]. exact H.
Qed.

Lemma wf_reset_life lo s : wf lo s -> wf lo (reset_life s).
Proof. unfold wf. cbn. intros (A & B & C & D & E & F). repeat split; auto; lia. Qed.

Lemma tracked_alive y z : tracked abs_sub y z -> z_track z = true ->
  NoDup (map p_id (z_subs z)) /\
  forall id s, find_sub id (y_subs y) = Some s -> s_state s <> 0 -> find_ssub id (z_subs z) = Some (abs_sub s).
Proof.
  intros H Ht. destruct (H Ht) as [Hn Hp]. split; [exact Hn|]. intros id s Hf Hne.
  rewrite Hp, Hf. destruct (Z.eqb_spec (s_state s) 0); [contradiction | reflexivity].
Qed.

Lemma NoDup_app_single {A} (l : list A) x : NoDup l -> ~ In x l -> NoDup (l ++ [x]).
Proof. intros Hl Hx. eapply Permutation_NoDup; [apply Permutation_cons_append|]. constructor; assumption. Qed.

Lemma suffix_nodup {A} (a b : list A) : NoDup (a ++ b) -> NoDup b.
Proof. induction a as [|x a IH]; cbn [app]; [auto|]. intros H. inversion H; subst. apply IH. assumption. Qed.

Lemma reqs_ok_suffix y z y' z' used :
  reqs_ok y z -> y_reqs y = used ++ y_reqs y' -> y_nextrid y' = y_nextrid y ->
  z_out z' = map q_rid (y_reqs y') -> reqs_ok y' z'.
Proof.
  intros (R1 & R2 & R3) Hu Hn Ho. split; [exact Ho|]. rewrite Hu, map_app in R2. split; [eapply suffix_nodup; exact R2|].
  intros q Hq. rewrite Hn. apply R3. rewrite Hu. apply in_app_iff. right. exact Hq.
Qed.

Section Ops.
Variables (k : Z) (y : sys) (z : spec) (opix : Z).
Hypothesis HR : Rel k y z.
Hypothesis Hk : 0 <= k.
Hypothesis Hbound : 2 * k + 4 < U32MAX.

Let N1 : z_now z = y_now y := proj1 HR.
Let N2 : z_vars z = y_vars y := proj1 (proj2 HR).
Let N3 : z_nextsub z = y_nextsub y := proj1 (proj2 (proj2 HR)).
Let N4 : z_nextrid z = y_nextrid y := proj1 (proj2 (proj2 (proj2 HR))).
Let N5 : z_before z = snapshot y := proj1 (proj2 (proj2 (proj2 (proj2 HR)))).
Let RQ : reqs_ok y z := proj1 (proj2 (proj2 (proj2 (proj2 (proj2 HR))))).
Let SO : subs_ok (2 * k) y z := proj1 (proj2 (proj2 (proj2 (proj2 (proj2 (proj2 HR)))))).
Let QU : quiet y := proj1 (proj2 (proj2 (proj2 (proj2 (proj2 (proj2 (proj2 HR))))))).
Let TR : tracked abs_sub y z := proj2 (proj2 (proj2 (proj2 (proj2 (proj2 (proj2 (proj2 HR))))))).

Definition step_goal (o : op) : Prop :=
  exists y1 st m rs z1, step y opix o = Some (y1, st, m, rs) /\
    spec_step z opix o (mk_opres st m rs (snapshot y1)) = Some z1 /\ Rel (k + 1) y1 z1.

Lemma SO2 : subs_ok (2 * k + 2) y z.
Proof. apply (subs_ok_weaken (2 * k)); [exact SO | lia]. Qed.

(* an operation that changes neither the subscriptions nor the queues *)
Lemma simple_finish y1 z' :
  y_subs y1 = y_subs y -> y_reqs y1 = y_reqs y -> y_nextsub y1 = y_nextsub y -> y_nextrid y1 = y_nextrid y ->
  z_now z' = y_now y1 -> z_vars z' = y_vars y1 -> z_nextsub z' = z_nextsub z -> z_nextrid z' = z_nextrid z ->
  z_out z' = z_out z -> z_lastseq z' = z_lastseq z -> z_track z' = z_track z ->
  (z_track z = true -> z_subs z' = z_subs z) ->
  exists z1, spec_after z' (snapshot y1) = Some z1 /\ Rel (k + 1) y1 z1.
Proof.
  intros E1 E2 E3 E4 F1 F2 F3 F4 F5 F6 F7 F8.
  apply finish; try congruence.
  - destruct RQ as (R1 & R2 & R3). unfold reqs_ok. rewrite E2, E4, F5. auto.
  - destruct SO2 as (S1 & S2 & S3). unfold subs_ok. rewrite E1, E3, F6. auto.
  - unfold quiet. rewrite E1, E2. exact QU.
  - rewrite F7. intros Ht. rewrite (F8 Ht), E1. apply tracked_alive; [exact TR | exact Ht].
Qed.

Lemma step_write v x : step_goal (OWrite v x).
Proof.
  unfold step_goal, step, step_g, spec_step, spec_op. cbn [o_resps o_snap spec_resps].
  rewrite N2. destruct ((v <? 0) || (len (y_vars y) <=? v)).
  - destruct (simple_finish y z) as (z1 & A & B); auto. do 5 eexists. split; [reflexivity|]. split; [exact A | exact B].
  - destruct (simple_finish (set_vars y (set_nth (Z.to_nat v) x (y_vars y)))
               (mk_spec (z_now z) (set_nth (Z.to_nat v) x (y_vars y)) (z_subs z) (z_nextsub z) (z_out z) (z_nextrid z) (z_lastseq z) (z_before z) (z_track z)))
      as (z1 & A & B); auto.
    do 5 eexists. split; [reflexivity|]. split; [exact A | exact B].
Qed.

Lemma step_create_sub prio interval kac life enabled :
  op_ok (OCreateSub prio interval kac life enabled) = true -> step_goal (OCreateSub prio interval kac life enabled).
Proof.
  intros Hok. cbn [op_ok] in Hok. apply andb_true_iff in Hok as [Hok H4]. apply andb_true_iff in Hok as [Hok H3].
  apply andb_true_iff in Hok as [H1 H2]. apply Z.leb_le in H1, H2, H3, H4.
  unfold step_goal, step, step_g, spec_step, spec_op. cbn [o_resps o_snap spec_resps].
  set (snew := mk_sub (y_nextsub y) interval life kac prio [] 1 life kac false enabled 1 0 1 (y_now y) []).
  set (y1 := set_nextsub (set_subs y (y_subs y ++ [snew])) (y_nextsub y + 1)).
  destruct SO as (S1 & S2 & S3 & S4). destruct RQ as (R1 & R2 & R3).
  assert (Hfresh : ~ In (y_nextsub y) (ids (y_subs y))).
  { intros Hin. unfold ids in Hin. apply in_map_iff in Hin as (s & E & Hs). destruct (S2 s Hs) as (Hb & _). lia. }
  destruct (finish k y1 (mk_spec (z_now z) (z_vars z) (z_subs z ++ [mk_ssub (z_nextsub z) interval enabled (z_now z) [] 1 []])
                                 (z_nextsub z + 1) (z_out z) (z_nextrid z) (z_lastseq z) (z_before z) (z_track z)))
    as (z1 & A & B); cbn [z_now z_vars z_nextsub z_nextrid z_out z_lastseq z_track z_subs]; subst y1;
    cbn [y_now y_vars y_nextsub y_nextrid y_subs y_reqs set_nextsub set_subs]; try congruence.
  - unfold reqs_ok. cbn [y_reqs y_nextrid set_nextsub set_subs z_out]. auto.
  - unfold subs_ok. cbn [y_subs y_nextsub set_nextsub set_subs z_lastseq].
    split; [unfold ids; rewrite map_app; apply NoDup_app_single; [exact S1 | exact Hfresh]|].
    split.
    + intros s Hs. apply in_app_iff in Hs as [Hs|[<-|[]]].
      * destruct (S2 s Hs) as (Hb & W & So & L). split; [lia|]. split; [exact W|]. split; [exact So | lia].
      * cbn [s_id snew]. rewrite (S3 (y_nextsub y)) by lia.
        split; [|split; [|split]].
        -- lia.
        -- unfold wf. cbn. repeat split; lia.
        -- right. left. reflexivity.
        -- subst snew. cbn [s_lastseq]. lia.
    + split; [intros i Hi; apply S3; lia | lia].
  - unfold quiet. cbn [y_reqs y_subs set_nextsub set_subs]. intros Hr s Hs. apply in_app_iff in Hs as [Hs|[<-|[]]]; [apply QU; assumption | reflexivity].
  - intros Ht. destruct (TR Ht) as [Hnp Hp]. split.
    + rewrite map_app. apply NoDup_app_single; [exact Hnp|]. cbn [map p_id]. intros Hin.
      apply in_map_iff in Hin as (p & E & Hp'). pose proof (find_ssub_in _ _ Hnp Hp') as Hf. rewrite E, Hp in Hf.
      destruct (find_sub (z_nextsub z) (y_subs y)) as [s|] eqn:Efs; [|discriminate].
      apply Hfresh. rewrite <- N3. apply find_sub_some in Efs as [Hs <-]. unfold ids. apply in_map. exact Hs.
    + intros id s Hf Hne. rewrite find_sub_app in Hf. rewrite find_ssub_app, Hp.
      destruct (find_sub id (y_subs y)) as [s0|] eqn:Ef0.
      * inversion Hf; subst s0. destruct (Z.eqb_spec (s_state s) 0); [contradiction | reflexivity].
      * cbn [p_id]. cbn [s_id snew] in Hf. rewrite N3. destruct (y_nextsub y =? id); [|discriminate].
        inversion Hf. subst s. unfold abs_sub. cbn. rewrite N1. reflexivity.
  - do 5 eexists. split; [reflexivity|]. split; [exact A | exact B].
Qed.

Lemma replace_ssub_same p l : find_ssub (p_id p) l = Some p -> replace_ssub p l = l.
Proof.
  induction l as [|a r IH]; cbn [find_ssub replace_ssub]; [reflexivity|].
  destruct (Z.eqb_spec (p_id a) (p_id p)) as [E|E]; intros H; [inversion H; reflexivity|].
  f_equal. apply IH. exact H.
Qed.

(* an operation that replaces one subscription by one with the same id, state, sequence numbers
   and notification queue *)
Lemma replace_finish s s' z' :
  find_sub (s_id s) (y_subs y) = Some s -> s_id s' = s_id s -> s_state s' = s_state s ->
  (forall lo, wf lo s -> wf lo s') -> s_lastseq s' = s_lastseq s -> s_notifs s' = s_notifs s ->
  z_now z' = z_now z -> z_vars z' = z_vars z -> z_nextsub z' = z_nextsub z -> z_nextrid z' = z_nextrid z ->
  z_out z' = z_out z -> z_lastseq z' = z_lastseq z -> z_track z' = z_track z ->
  (z_track z = true ->
   z_subs z' = if s_state s =? 0 then z_subs z else replace_ssub (abs_sub s') (z_subs z)) ->
  exists z1, spec_after z' (snapshot (set_subs y (replace_sub s' (y_subs y)))) = Some z1 /\
             Rel (k + 1) (set_subs y (replace_sub s' (y_subs y))) z1.
Proof.
  intros Hf Hid Hst Hwf Hls Hn F1 F2 F3 F4 F5 F6 F7 F8.
  apply finish; cbn [y_now y_vars y_nextsub y_nextrid set_subs]; try congruence.
  - destruct RQ as (R1 & R2 & R3). unfold reqs_ok. cbn [y_reqs y_nextrid set_subs]. rewrite F5. auto.
  - assert (Hso : state_ok s').
    { apply find_sub_some in Hf as [Hin _]. destruct SO as (_ & S2 & _). destruct (S2 s Hin) as (_ & _ & So & _).
      unfold state_ok in *. rewrite Hst. exact So. }
    pose proof (subs_ok_replace (2 * k + 2) y z s s' SO2 Hf Hid Hwf Hso Hls) as (S1 & S2 & S3).
    unfold subs_ok. rewrite F6. auto.
  - apply (quiet_replace y s s' QU Hn Hf).
  - intros Ht. rewrite F7 in Ht. rewrite (F8 Ht). cbn [y_subs set_subs].
    apply (tracked_replace y z s s' TR); auto. apply SO.
Qed.

(* the spec's lookup of a subscription *)
Lemma spec_lookup id s : find_sub id (y_subs y) = Some s -> z_track z = true ->
  find_ssub id (z_subs z) = if s_state s =? 0 then None else Some (abs_sub s).
Proof. intros Hf Ht. rewrite (tracked_find y z id TR Ht), Hf. reflexivity. Qed.
Lemma spec_lookup_none id : find_sub id (y_subs y) = None -> z_track z = true -> find_ssub id (z_subs z) = None.
Proof. intros Hf Ht. rewrite (tracked_find y z id TR Ht), Hf. reflexivity. Qed.

Lemma step_set_publishing id enabled : step_goal (OSetPublishing id enabled).
Proof.
  unfold step_goal, step, step_g, spec_step. cbn [o_resps o_snap].
  destruct (find_sub id (y_subs y)) as [s|] eqn:Ef.
  - pose proof (find_sub_some _ _ _ Ef) as [_ Hid]. subst id.
    set (s' := reset_life (set_enabled s enabled)).
    destruct (replace_finish s s' (spec_op z opix (OSetPublishing (s_id s) enabled) (mk_opres ST_GOOD None [] (snapshot (set_subs y (replace_sub s' (y_subs y)))))))
      as (z1 & A & B); try reflexivity; try exact Ef;
      try (unfold spec_op; destruct (find_ssub (s_id s) (z_subs z)); reflexivity).
    + intros lo (W1 & W2 & W3 & W4 & W5 & W6). unfold wf. subst s'. cbn. repeat split; auto; lia.
    + intros Ht. unfold spec_op. rewrite (spec_lookup _ _ Ef Ht). destruct (s_state s =? 0); reflexivity.
    + do 5 eexists. split; [reflexivity|]. cbn [spec_resps]. split; [exact A | exact B].
  - destruct (simple_finish y (spec_op z opix (OSetPublishing id enabled) (mk_opres ST_SUB_INVALID None [] (snapshot y)))) as (z1 & A & B);
      try reflexivity; try (unfold spec_op; destruct (find_ssub id (z_subs z)); cbn; congruence).
    + intros Ht. unfold spec_op. rewrite (spec_lookup_none _ Ef Ht). reflexivity.
    + do 5 eexists. split; [reflexivity|]. cbn [spec_resps]. split; [exact A | exact B].
Qed.


Lemma step_republish id seq : step_goal (ORepublish id seq).
Proof.
  unfold step_goal, step, step_g, spec_step. cbn [o_resps o_snap spec_op].
  destruct (find_sub id (y_subs y)) as [s|] eqn:Ef.
  - pose proof (find_sub_some _ _ _ Ef) as [_ Hid]. subst id.
    destruct (rt_find (s_id s, seq) (y_retrans y)) as [m|].
    + destruct (replace_finish s (reset_life s) z) as (z1 & A & B); try reflexivity; try exact Ef.
      * intros lo. apply wf_reset_life.
      * intros Ht. pose proof (spec_lookup _ _ Ef Ht) as Hl. destruct (s_state s =? 0); [reflexivity|].
        symmetry. apply replace_ssub_same. exact Hl.
      * do 5 eexists. split; [reflexivity|]. cbn [spec_resps]. split; [exact A | exact B].
    + destruct (simple_finish y z) as (z1 & A & B); auto.
      do 5 eexists. split; [reflexivity|]. cbn [spec_resps]. split; [exact A | exact B].
  - destruct (simple_finish y z) as (z1 & A & B); auto.
    do 5 eexists. split; [reflexivity|]. cbn [spec_resps]. split; [exact A | exact B].
Qed.

Lemma spec_op_scalars o r :
  match o with OCreateItem _ _ _ _ _ _ | ODeleteItem _ _ => True | _ => False end ->
  let z' := spec_op z opix o r in
  z_now z' = z_now z /\ z_vars z' = z_vars z /\ z_nextsub z' = z_nextsub z /\ z_nextrid z' = z_nextrid z /\
  z_out z' = z_out z /\ z_lastseq z' = z_lastseq z /\ z_track z' = z_track z.
Proof.
  destruct o; intros []; cbn [spec_op].
  - destruct (find_ssub sub (z_subs z)); [destruct (_ || _)|]; cbn; repeat split.
  - destruct (find_ssub sub (z_subs z)); cbn; repeat split.
Qed.

Lemma step_create_item id var mode samp qsize discard : step_goal (OCreateItem id var mode samp qsize discard).
Proof.
  unfold step_goal, step, step_g, spec_step. cbn [o_resps o_snap].
  destruct (find_sub id (y_subs y)) as [s|] eqn:Ef.
  - pose proof (find_sub_some _ _ _ Ef) as [_ Hid]. subst id.
    set (o := OCreateItem (s_id s) var mode samp qsize discard).
    destruct ((var <? 0) || (len (y_vars y) <=? var)) eqn:Ev.
    + set (r := mk_opres (- (10 + ST_NODE_UNKNOWN)) None [] (snapshot (set_subs y (replace_sub (reset_life s) (y_subs y))))).
      destruct (spec_op_scalars o r I) as (F1 & F2 & F3 & F4 & F5 & F6 & F7).
      destruct (replace_finish s (reset_life s) (spec_op z opix o r)) as (z1 & A & B); try reflexivity; try assumption.
      * intros lo. apply wf_reset_life.
      * intros Ht. subst o. cbn [spec_op]. pose proof (spec_lookup _ _ Ef Ht) as Hl. rewrite Hl, N2, Ev.
        destruct (s_state s =? 0); [reflexivity|]. symmetry. apply replace_ssub_same. exact Hl.
      * do 5 eexists. split; [reflexivity|]. cbn [spec_resps]. split; [exact A | exact B].
    + set (it := new_item (s_nextitem (reset_life s)) var mode opix samp qsize discard (y_now y)).
      set (s' := set_nextitem (set_items (reset_life s) (s_items (reset_life s) ++ [it])) (s_nextitem (reset_life s) + 1)).
      set (r := mk_opres (s_nextitem (reset_life s)) None [] (snapshot (set_subs y (replace_sub s' (y_subs y))))).
      destruct (spec_op_scalars o r I) as (F1 & F2 & F3 & F4 & F5 & F6 & F7).
      destruct (replace_finish s s' (spec_op z opix o r)) as (z1 & A & B); try reflexivity; try assumption.
      * intros lo (W1 & W2 & W3 & W4 & W5 & W6). unfold wf. subst s'. cbn. repeat split; auto; lia.
      * intros Ht. subst o. cbn [spec_op]. rewrite (spec_lookup _ _ Ef Ht), N2, Ev.
        destruct (s_state s =? 0); [reflexivity|]. cbn [abs_sub p_items p_nextitem]. rewrite N1. reflexivity.
      * do 5 eexists. split; [reflexivity|]. cbn [spec_resps]. split; [exact A | exact B].
  - set (o := OCreateItem id var mode samp qsize discard).
    set (r := mk_opres (- (10 + ST_SUB_INVALID)) None [] (snapshot y)).
    destruct (spec_op_scalars o r I) as (F1 & F2 & F3 & F4 & F5 & F6 & F7).
    destruct (simple_finish y (spec_op z opix o r)) as (z1 & A & B); try reflexivity; try congruence.
    + intros Ht. subst o. cbn [spec_op]. rewrite (spec_lookup_none _ Ef Ht). reflexivity.
    + do 5 eexists. split; [reflexivity|]. cbn [spec_resps]. split; [exact A | exact B].
Qed.

Lemma filter_none {A} (f : A -> bool) l : existsb f l = false -> filter (fun a => negb (f a)) l = l.
Proof.
  induction l as [|a l IH]; [reflexivity|]. cbn [existsb filter]. intros H. apply orb_false_iff in H as [E1 E2].
  rewrite E1. cbn [negb]. f_equal. apply IH. exact E2.
Qed.

Lemma step_delete_item id item : step_goal (ODeleteItem id item).
Proof.
  unfold step_goal, step, step_g, spec_step. cbn [o_resps o_snap].
  set (o := ODeleteItem id item).
  destruct (find_sub id (y_subs y)) as [s|] eqn:Ef.
  - pose proof (find_sub_some _ _ _ Ef) as [_ Hid]. subst id.
    destruct (existsb (fun it => i_id it =? item) (s_items (reset_life s))) eqn:Eex.
    + set (s' := set_items (reset_life s) (filter (fun it => negb (i_id it =? item)) (s_items (reset_life s)))).
      set (r := mk_opres ST_GOOD None [] (snapshot (set_subs y (replace_sub s' (y_subs y))))).
      destruct (spec_op_scalars o r I) as (F1 & F2 & F3 & F4 & F5 & F6 & F7).
      destruct (replace_finish s s' (spec_op z opix o r)) as (z1 & A & B); try reflexivity; try assumption.
      * intros lo (W1 & W2 & W3 & W4 & W5 & W6). unfold wf. subst s'. cbn. repeat split; auto; lia.
      * intros Ht. subst o. cbn [spec_op]. rewrite (spec_lookup _ _ Ef Ht).
        destruct (s_state s =? 0); reflexivity.
      * do 5 eexists. split; [reflexivity|]. cbn [spec_resps]. split; [exact A | exact B].
    + set (r := mk_opres ST_ITEM_INVALID None [] (snapshot (set_subs y (replace_sub (reset_life s) (y_subs y))))).
      destruct (spec_op_scalars o r I) as (F1 & F2 & F3 & F4 & F5 & F6 & F7).
      destruct (replace_finish s (reset_life s) (spec_op z opix o r)) as (z1 & A & B); try reflexivity; try assumption.
      * intros lo. apply wf_reset_life.
      * intros Ht. subst o. cbn [spec_op]. rewrite (spec_lookup _ _ Ef Ht).
        destruct (s_state s =? 0); [reflexivity|]. cbn [abs_sub p_items p_nextitem].
        cbn [reset_life s_items set_life] in Eex. rewrite (filter_none _ _ Eex). reflexivity.
      * do 5 eexists. split; [reflexivity|]. cbn [spec_resps]. split; [exact A | exact B].
  - set (r := mk_opres ST_SUB_INVALID None [] (snapshot y)).
    destruct (spec_op_scalars o r I) as (F1 & F2 & F3 & F4 & F5 & F6 & F7).
    destruct (simple_finish y (spec_op z opix o r)) as (z1 & A & B); try reflexivity; try congruence.
    + intros Ht. subst o. cbn [spec_op]. rewrite (spec_lookup_none _ Ef Ht). reflexivity.
    + do 5 eexists. split; [reflexivity|]. cbn [spec_resps]. split; [exact A | exact B].
Qed.


Lemma step_delete_sub id : step_goal (ODeleteSub id).
Proof.
  unfold step_goal, step, step_g, spec_step. cbn [o_resps o_snap spec_op spec_resps].
  set (z' := mk_spec (z_now z) (z_vars z) (filter (fun s => negb (p_id s =? id)) (z_subs z)) (z_nextsub z)
                     (z_out z) (z_nextrid z) (z_lastseq z) (z_before z) (z_track z)).
  destruct SO2 as (S1 & S2 & S3 & S4). destruct RQ as (R1 & R2 & R3).
  assert (Htrk : forall subs1, (forall j sj, find_sub j subs1 = Some sj -> j <> id /\ find_sub j (y_subs y) = Some sj) ->
            z_track z' = true -> NoDup (map p_id (z_subs z')) /\
            forall j sj, find_sub j subs1 = Some sj -> s_state sj <> 0 -> find_ssub j (z_subs z') = Some (abs_sub sj)).
  { intros subs1 Hs1 Ht. destruct (tracked_alive y z TR Ht) as [Hnp Hp]. subst z'. cbn [z_subs].
    split; [apply pids_filter_nodup; exact Hnp|]. intros j sj Hf Hne. destruct (Hs1 j sj Hf) as [Hj Hfy].
    rewrite (find_ssub_filter _ _ _ Hnp), (Hp j sj Hfy Hne). cbn [abs_sub p_id].
    apply find_sub_some in Hfy as [_ ->]. destruct (Z.eqb_spec j id); [contradiction | reflexivity]. }
  destruct (has_sub id (y_subs y)) eqn:Eh.
  - assert (P1 : reqs_ok (set_subs y (remove_sub id (y_subs y))) z').
    { unfold reqs_ok. subst z'. cbn [y_reqs y_nextrid set_subs z_out]. auto. }
    assert (P2 : subs_ok (2 * k + 2) (set_subs y (remove_sub id (y_subs y))) z').
    { unfold subs_ok. subst z'. cbn [y_subs y_nextsub set_subs z_lastseq]. split; [apply nodup_remove; exact S1|].
      split; [intros s Hs; apply S2; eapply in_remove_sub; exact Hs | auto]. }
    assert (P3 : quiet (set_subs y (remove_sub id (y_subs y)))).
    { unfold quiet. cbn [y_reqs y_subs set_subs]. intros Hr s Hs. apply QU; [exact Hr | eapply in_remove_sub; exact Hs]. }
    destruct (finish k (set_subs y (remove_sub id (y_subs y))) z' N1 N2 N3 N4 P1 P2 P3) as (z1 & A & B).
    { apply Htrk. intros j sj Hf. cbn [y_subs set_subs] in Hf. destruct (Z.eq_dec j id) as [->|Hj].
      - rewrite find_remove_same in Hf by exact S1. discriminate.
      - split; [exact Hj|]. rewrite find_remove_other in Hf by exact Hj. exact Hf. }
    do 5 eexists. split; [reflexivity|]. split; [exact A | exact B].
  - assert (P1 : reqs_ok y z') by (unfold reqs_ok; subst z'; cbn [z_out]; auto).
    assert (P2 : subs_ok (2 * k + 2) y z') by (unfold subs_ok; subst z'; cbn [z_lastseq]; auto).
    destruct (finish k y z' N1 N2 N3 N4 P1 P2 QU) as (z1 & A & B).
    { apply Htrk. intros j sj Hf. split; [|exact Hf]. intros ->. unfold has_sub in Eh. rewrite Hf in Eh. discriminate. }
    do 5 eexists. split; [reflexivity|]. split; [exact A | exact B].
Qed.


Lemma nodup_map_filter {A B} (f : A -> B) (g : A -> bool) l : NoDup (map f l) -> NoDup (map f (filter g l)).
Proof.
  induction l as [|a l IH]; cbn [filter map]; intros H; [constructor|].
  inversion H as [|x l' Hx Hl]; subst. destruct (g a); cbn [map]; [|apply IH; exact Hl].
  constructor; [|apply IH; exact Hl]. intros Hin. apply Hx. apply in_map_iff in Hin as (b & E & Hb).
  apply filter_In in Hb as [Hb _]. rewrite <- E. apply in_map. exact Hb.
Qed.

(* the spec subscriptions after the evaluator's own tick, pointwise *)
Lemma tracked_after_tick (timer : bool) now' (f : ssub -> ssub) y' z' :
  (forall p, p_id (f p) = p_id p) ->
  (forall s, find_sub (s_id s) (y_subs y) = Some s -> f (abs_sub s) = T timer (s_state s) (y_vars y) now' (abs_sub s)) ->
  y_subs y' = y_subs y -> y_vars y' = y_vars y -> y_now y' = now' ->
  z_subs z' = map f (z_subs z) -> (z_track z' = true -> z_track z = true) ->
  tracked (fun s => T timer (s_state s) (y_vars y') (y_now y') (abs_sub s)) y' z'.
Proof.
  intros Hid Hf E1 E2 E3 E4 E5 Ht. destruct (TR (E5 Ht)) as [Hnp Hp]. rewrite E4, E1, E2, E3.
  split.
  - rewrite map_map. erewrite map_ext; [exact Hnp|]. intros p. apply Hid.
  - intros id. rewrite (find_ssub_map f id _ Hid), Hp.
    destruct (find_sub id (y_subs y)) as [s|] eqn:Ef; [|reflexivity].
    destruct (s_state s =? 0); [reflexivity|]. cbn [option_map]. f_equal. apply Hf.
    pose proof (find_sub_some _ _ _ Ef) as [_ ->]. exact Ef.
Qed.

Lemma step_tick dt : step_goal (OTick dt).
Proof.
  unfold step_goal, step, step_g, spec_step. cbn [o_resps o_snap spec_op].
  unfold expire. cbn [y_now y_reqs set_now].
  set (now' := y_now y + dt).
  set (ye := set_reqs (set_now y now') (filter (fun q => negb (req_expired now' q)) (y_reqs y))).
  set (z1 := mk_spec (z_now z + dt) (z_vars z) (map (spec_timer (z_before z) (z_vars z) (z_now z + dt)) (z_subs z))
                     (z_nextsub z) (z_out z) (z_nextrid z) (z_lastseq z) (z_before z) (z_track z)).
  destruct SO as (S1 & S2 & S3 & S4). destruct RQ as (R1 & R2 & R3).
  destruct (faults_rel now' (y_reqs y) [] z1) as (z1' & A1 & A2 & A3 & A4 & A5); [exact R2 | exact R1|].
  cbn [map app] in A2.
  destruct A5 as (B1 & B2 & B3 & B4 & B5 & B6 & B7).
  assert (Hout : z_out z1' = map q_rid (y_reqs ye) ++ []) by (rewrite app_nil_r; exact A2).
  assert (Hso : subs_ok (2 * k) ye z1').
  { unfold subs_ok. subst ye. cbn [y_subs y_nextsub set_reqs set_now]. rewrite A4. subst z1. cbn [z_lastseq]. auto. }
  assert (Htr : tracked (fun s => T true (s_state s) (y_vars ye) (y_now ye) (abs_sub s)) ye z1').
  { apply (tracked_after_tick true now' (spec_timer (z_before z) (z_vars z) (z_now z + dt))); try reflexivity.
    - apply spec_timer_id.
    - intros s Hf. rewrite N5, N2, N1. apply spec_timer_T. exact Hf.
    - rewrite A3. reflexivity.
    - rewrite B6. auto. }
  destruct (sys_tick_rel true (2 * k) [] ye z1' Hout Hso ltac:(lia) Htr)
    as (y2 & rs2 & z2 & C1 & C2 & C3 & C4 & C5 & C6 & (used & C7) & C8 & C9 & C10 & C11 & C12).
  rewrite C1. cbn [bind fst snd].
  destruct C3 as (D1 & D2 & D3 & D4 & D5 & D6 & D7).
  rewrite app_nil_r in C4.
  assert (P1 : reqs_ok y2 z2).
  { apply (reqs_ok_suffix ye z1' y2 z2 used); [|exact C7 | exact C11 | exact C4].
    split; [exact A2|]. subst ye. cbn [y_reqs y_nextrid set_reqs set_now].
    split; [apply nodup_map_filter; exact R2|]. intros q Hq. apply filter_In in Hq as [Hq _]. apply R3. exact Hq. }
  destruct (finish k y2 z2) as (z3 & E1 & E2); try assumption.
  - rewrite D1, B1, C8. subst z1 ye. cbn. rewrite N1. reflexivity.
  - rewrite D2, B2, C9. subst z1 ye. cbn. exact N2.
  - rewrite D3, B3, C10. subst z1 ye. cbn. exact N3.
  - rewrite D4, B4, C11. subst z1 ye. cbn. exact N4.
  - apply (subs_ok_weaken (2 * k + 1)); [exact C5 | lia].
  - eexists y2, 0, None, _, z3. split; [reflexivity|]. rewrite spec_resps_app, A1, C2. split; [exact E1 | exact E2].
Qed.


Lemma queue_full_snapshot : queue_full (z_before z) = (len (y_subs y) * 2 <=? len (y_reqs y)).
Proof.
  rewrite N5. unfold queue_full, snapshot. cbn [sn_subs sn_reqs]. unfold len. rewrite !map_length. f_equal. lia.
Qed.

Lemma reqs_ok_enqueue y' z' qn tl :
  reqs_ok y' z' -> q_rid qn = y_nextrid y' ->
  NoDup (map q_rid (y_reqs y' ++ [qn])) /\ (forall q, In q (y_reqs y' ++ [qn]) -> q_rid q < y_nextrid y' + 1) /\
  z_out z' ++ tl = map q_rid (y_reqs y') ++ tl.
Proof.
  intros (R1 & R2 & R3) Hq. split; [|split].
  - rewrite map_app. apply NoDup_app_single; [exact R2|]. cbn [map]. intros Hin.
    apply in_map_iff in Hin as (q & E & Hq'). specialize (R3 q Hq'). lia.
  - intros q Hin. apply in_app_iff in Hin as [Hin|[<-|[]]]; [specialize (R3 q Hin); lia | lia].
  - rewrite R1. reflexivity.
Qed.

Lemma step_publish dt hint acks : step_goal (OPublish dt hint acks).
Proof.
  unfold step_goal, step, step_g, spec_step. cbn [o_resps o_snap o_status spec_op].
  unfold publish_g. cbn [y_nextrid y_subs y_reqs set_now set_nextrid].
  set (now' := y_now y + dt).
  set (y' := set_nextrid (set_now y now') (y_nextrid y + 1)).
  destruct SO as (S1 & S2 & S3 & S4). pose proof RQ as (R1 & R2 & R3).
  assert (Hnil : is_nil (sn_subs (z_before z)) = is_nil (y_subs y)).
  { rewrite N5. unfold snapshot. cbn [sn_subs]. destruct (y_subs y); reflexivity. }
  rewrite Hnil. destruct (is_nil (y_subs y)) eqn:Enil.
  - (* BadNoSubscription *)
    cbn [bind spec_resps].
    set (z1 := mk_spec (z_now z + dt) (z_vars z) (z_subs z) (z_nextsub z) (z_out z) (z_nextrid z + 1) (z_lastseq z) (z_before z) (z_track z)).
    destruct (finish k y' z1) as (z2 & E1 & E2); subst z1 y';
      cbn [z_now z_vars z_nextsub z_nextrid z_out z_lastseq z_track z_subs y_now y_vars y_nextsub y_nextrid y_subs y_reqs set_nextrid set_now]; try congruence.
    + subst now'. congruence.
    + unfold reqs_ok. cbn [y_reqs y_nextrid set_nextrid set_now z_out]. split; [exact R1|]. split; [exact R2|].
      intros q Hq. specialize (R3 q Hq). lia.
    + pose proof SO2 as (T1 & T2 & T3 & T4). unfold subs_ok. cbn [y_subs y_nextsub set_nextrid set_now z_lastseq]. auto.
    + exact QU.
    + apply tracked_alive. exact TR.
    + eexists _, ST_NO_SUB, None, [], z2. split; [reflexivity|]. split; [exact E1 | exact E2].
  - (* a request for a session with subscriptions *)
    rewrite queue_full_snapshot.
    set (qn := fun nowq results => mk_req (y_nextrid y) nowq hint results).
    (* the evaluator's state for the first round, for either value of "accepted" *)
    assert (Hround1 : forall (accepted : bool) (trk : bool) (tl : list Z),
              (trk = true -> z_track z = true) ->
              let z1 := mk_spec (z_now z + dt) (z_vars z) (map (spec_recv (z_before z) (z_vars z) (z_now z + dt)) (z_subs z))
                                (z_nextsub z) (z_out z ++ tl) (z_nextrid z + 1) (z_lastseq z) (z_before z) trk in
              z_out z1 = map q_rid (y_reqs y') ++ tl /\ subs_ok (2 * k) y' z1 /\
              tracked (fun s => T false (s_state s) (y_vars y') (y_now y') (abs_sub s)) y' z1).
    { intros accepted trk tl Htrk z1. subst z1 y'. cbn [z_out y_reqs set_nextrid set_now].
      split; [rewrite R1; reflexivity|]. split.
      - unfold subs_ok. cbn [y_subs y_nextsub set_nextrid set_now z_lastseq]. auto.
      - apply (tracked_after_tick false now' (spec_recv (z_before z) (z_vars z) (z_now z + dt))); try reflexivity.
        + apply spec_recv_id.
        + intros s Hf. rewrite N5, N2, N1. apply spec_recv_T. exact Hf.
        + exact Htrk. }
    destruct (len (y_subs y) * 2 <=? len (y_reqs y)) eqn:Efull.
    + (* the queue is full: a round first *)
      cbn [andb negb bind].
      destruct (Hround1 false (z_track z) [] ltac:(auto)) as (H1 & H2 & H3).
      set (z1 := mk_spec (z_now z + dt) (z_vars z) (map (spec_recv (z_before z) (z_vars z) (z_now z + dt)) (z_subs z))
                         (z_nextsub z) (z_out z ++ []) (z_nextrid z + 1) (z_lastseq z) (z_before z) (z_track z)) in *.
      destruct (sys_tick_rel false (2 * k) [] y' z1 H1 H2 ltac:(lia) H3)
        as (ya & rsa & za & C1 & C2 & C3 & C4 & C5 & C6 & (used & C7) & C8 & C9 & C10 & C11 & C12).
      rewrite C1. cbn [bind].
      assert (Hz1 : z1 = mk_spec (z_now z + dt) (z_vars z) (map (spec_recv (z_before z) (z_vars z) (z_now z + dt)) (z_subs z))
                         (z_nextsub z) (z_out z) (z_nextrid z + 1) (z_lastseq z) (z_before z) (z_track z))
        by (subst z1; rewrite app_nil_r; reflexivity).
      assert (Hreqs_a : NoDup (map q_rid (y_reqs ya)) /\ forall q, In q (y_reqs ya) -> q_rid q < y_nextrid y).
      { change (y_reqs y') with (y_reqs y) in C7. rewrite C7, map_app in R2. split; [eapply suffix_nodup; exact R2|].
        intros q Hq. apply R3. rewrite C7. apply in_app_iff. right. exact Hq. }
      destruct Hreqs_a as [Hnda Hbda].
      destruct (len (y_subs y) * 2 <=? len (y_reqs ya)) eqn:Efull2.
      * (* still full: BadTooManyPublishRequests, the acknowledgements are not processed *)
        destruct C3 as (D1 & D2 & D3 & D4 & D5 & D6 & D7). rewrite app_nil_r in C4.
        assert (P1 : reqs_ok ya za).
        { split; [exact C4|]. split; [exact Hnda|]. intros q Hq. rewrite C11. subst y'. cbn [y_nextrid set_nextrid set_now].
          specialize (Hbda q Hq). lia. }
        destruct (finish k ya za) as (z4 & E1 & E2); try assumption.
        -- rewrite D1, C8. subst z1 y'. cbn. subst now'. rewrite N1. reflexivity.
        -- rewrite D2, C9. subst z1 y'. cbn. exact N2.
        -- rewrite D3, C10. subst z1 y'. cbn. exact N3.
        -- rewrite D4, C11. subst z1 y'. cbn. rewrite N4. reflexivity.
        -- apply (subs_ok_weaken (2 * k + 1)); [exact C5 | lia].
        -- eexists ya, ST_TOO_MANY, None, rsa, z4. split; [reflexivity|].
           cbn [Z.eqb ST_TOO_MANY ST_GOOD andb negb]. rewrite andb_true_r, <- Hz1, C2. split; [exact E1 | exact E2].
      * (* a slot was freed: the request is queued and a second round runs; the observation does
           not separate the rounds, the evaluator stops checking deliveries *)
        destruct (Hround1 true false [z_nextrid z] ltac:(discriminate)) as (G1 & G2 & G3).
        set (z1b := mk_spec (z_now z + dt) (z_vars z) (map (spec_recv (z_before z) (z_vars z) (z_now z + dt)) (z_subs z))
                            (z_nextsub z) (z_out z ++ [z_nextrid z]) (z_nextrid z + 1) (z_lastseq z) (z_before z) false) in *.
        destruct (sys_tick_rel false (2 * k) [z_nextrid z] y' z1b G1 G2 ltac:(lia) G3)
          as (ya' & rsa' & zb & F1 & F2 & F3 & F4 & F5 & F6 & _ & F8 & F9 & F10 & F11 & F12).
        rewrite C1 in F1. injection F1 as <- <-.
        destruct (process_acks (y_subs ya) acks (y_retrans ya)) as [results rt] eqn:Ea.
        set (y2 := set_reqs (set_retrans ya rt) (y_reqs ya ++ [qn (y_now ya) results])).
        destruct F3 as (D1 & D2 & D3 & D4 & D5 & D6 & D7).
        assert (Htrb : z_track zb = false) by (rewrite D6; reflexivity).
        assert (Ho2 : z_out zb = map q_rid (y_reqs y2) ++ []).
        { rewrite F4. subst y2. cbn [y_reqs set_reqs set_retrans]. rewrite map_app, app_nil_r. cbn [map qn q_rid]. rewrite N4. reflexivity. }
        assert (Hs2 : subs_ok (2 * k + 1) y2 zb) by exact F5.
        assert (Ht2 : tracked (fun s => T false (s_state s) (y_vars y2) (y_now y2) (abs_sub s)) y2 zb).
        { intros Ht. rewrite Htrb in Ht. discriminate. }
        destruct (sys_tick_rel false (2 * k + 1) [] y2 zb Ho2 Hs2 ltac:(lia) Ht2)
          as (y3 & rs3 & z3 & K1 & K2 & K3 & K4 & K5 & K6 & (used3 & K7) & K8 & K9 & K10 & K11 & K12).
        destruct K3 as (L1 & L2 & L3 & L4 & L5 & L6 & L7). rewrite app_nil_r in K4.
        assert (P0 : reqs_ok y2 zb).
        { split; [rewrite app_nil_r in Ho2; exact Ho2|]. subst y2. cbn [y_reqs y_nextrid set_reqs set_retrans]. rewrite C11.
          subst y'. cbn [y_nextrid set_nextrid set_now]. split.
          - rewrite map_app. apply NoDup_app_single; [exact Hnda|]. cbn [map qn q_rid]. intros Hin.
            apply in_map_iff in Hin as (q & E & Hq). specialize (Hbda q Hq). lia.
          - intros q Hin. apply in_app_iff in Hin as [Hin|[<-|[]]]; [specialize (Hbda q Hin); lia | cbn [qn q_rid]; lia]. }
        assert (P1 : reqs_ok y3 z3) by (apply (reqs_ok_suffix y2 zb y3 z3 used3); assumption).
        destruct (finish k y3 z3) as (z4 & E1 & E2); try assumption.
        -- rewrite L1, D1, K8. subst z1b y2. cbn. rewrite C8. subst y'. cbn. subst now'. rewrite N1. reflexivity.
        -- rewrite L2, D2, K9. subst z1b y2. cbn. rewrite C9. subst y'. cbn. exact N2.
        -- rewrite L3, D3, K10. subst z1b y2. cbn. rewrite C10. subst y'. cbn. exact N3.
        -- rewrite L4, D4, K11. subst z1b y2. cbn. rewrite C11. subst y'. cbn. rewrite N4. reflexivity.
        -- replace (2 * k + 2) with (2 * k + 1 + 1) by lia. exact K5.
        -- eexists y3, ST_GOOD, None, _, z4. split.
           { fold (qn (y_now ya) results). fold y2. rewrite K1. reflexivity. }
           cbn [Z.eqb ST_GOOD andb negb fst snd]. rewrite andb_false_r. fold z1b.
           rewrite spec_resps_app, F2, K2. split; [exact E1 | exact E2].
    + (* the ordinary case *)
      cbn [andb negb bind]. rewrite andb_true_r.
      change (y_reqs y') with (y_reqs y). rewrite Efull.
      destruct (process_acks (y_subs y') acks (y_retrans y')) as [results rt] eqn:Ea.
      set (y2 := set_reqs (set_retrans y' rt) (y_reqs y ++ [qn (y_now y') results])).
      destruct (Hround1 true (z_track z) [z_nextrid z] ltac:(auto)) as (H1 & H2 & H3).
      set (z1 := mk_spec (z_now z + dt) (z_vars z) (map (spec_recv (z_before z) (z_vars z) (z_now z + dt)) (z_subs z))
                         (z_nextsub z) (z_out z ++ [z_nextrid z]) (z_nextrid z + 1) (z_lastseq z) (z_before z) (z_track z)) in *.
      assert (Ho2 : z_out z1 = map q_rid (y_reqs y2) ++ []).
      { rewrite H1. subst y2 y'. cbn [y_reqs set_reqs set_retrans set_nextrid set_now]. rewrite map_app, app_nil_r.
        cbn [map qn q_rid]. rewrite N4. reflexivity. }
      assert (Hs2 : subs_ok (2 * k) y2 z1) by exact H2.
      assert (Ht2 : tracked (fun s => T false (s_state s) (y_vars y2) (y_now y2) (abs_sub s)) y2 z1) by exact H3.
      destruct (sys_tick_rel false (2 * k) [] y2 z1 Ho2 Hs2 ltac:(lia) Ht2)
        as (y3 & rs3 & z3 & C1 & C2 & C3 & C4 & C5 & C6 & (used & C7) & C8 & C9 & C10 & C11 & C12).
      destruct C3 as (D1 & D2 & D3 & D4 & D5 & D6 & D7). rewrite app_nil_r in C4.
      assert (P0 : reqs_ok y2 z1).
      { destruct (reqs_ok_enqueue y z (qn (y_now y') results) [] RQ eq_refl) as (Q1 & Q2 & _).
        split; [rewrite app_nil_r in Ho2; exact Ho2|]. split; [exact Q1 | exact Q2]. }
      assert (P1 : reqs_ok y3 z3) by (apply (reqs_ok_suffix y2 z1 y3 z3 used); assumption).
      destruct (finish k y3 z3) as (z4 & E1 & E2); try assumption.
      * rewrite D1, C8. subst z1 y2 y'. cbn. subst now'. rewrite N1. reflexivity.
      * rewrite D2, C9. subst z1 y2 y'. cbn. exact N2.
      * rewrite D3, C10. subst z1 y2 y'. cbn. exact N3.
      * rewrite D4, C11. subst z1 y2 y'. cbn. rewrite N4. reflexivity.
      * apply (subs_ok_weaken (2 * k + 1)); [exact C5 | lia].
      * eexists y3, ST_GOOD, None, _, z4. split.
        { fold (qn (y_now y') results). fold y2. rewrite C1. reflexivity. }
        cbn [Z.eqb ST_GOOD andb negb app snd fst]. fold z1. rewrite C2. split; [exact E1 | exact E2].
Qed.

(*MORE*)
End Ops.
