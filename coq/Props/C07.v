(* C07 — statements only (in progress) *)
From Coq Require Import List ZArith.
From OV Require Import C07.Model C07.Proofs.
Open Scope Z_scope.

Theorem C07_placeholder : True.
Proof. exact I. Qed.
Print Assumptions C07_placeholder.
