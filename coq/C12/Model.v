(* C12 — sequence numbers increase by one per chunk and replays are rejected.

   Model of the code as it is in the repository (after the fix of the u32 arithmetic in the
   receiver):

   sender    client  lib/src/client/transport/buffer.rs   SendBuffer::{next_request_id, write}
             server  lib/src/core/comms/message_writer.rs MessageWriter::write
             both    lib/src/core/comms/chunker.rs        Chunker::encode (numbering of the chunks)
   receiver  lib/src/core/comms/chunker.rs                Chunker::validate_chunks
             lib/src/client/transport/core.rs             TransportState::turn_received_chunks_into_message
             lib/src/server/comms/tcp_transport.rs        TcpTransport::turn_received_chunks_into_message

   All numbers are u32 in the code; here they are Z and every place where the Rust arithmetic can
   leave the u32 range is an explicit outcome: a panic of the debug build (`Panic`), or, in the
   repaired receiver, a rejection.  The pinned code before the fix is in [Legacy]. *)
From Coq Require Import List ZArith Bool Lia.
Import ListNotations.
Open Scope Z_scope.

Definition U32MAX : Z := 4294967295.

(* what the property speaks about in a chunk: sequence number, request id (sequence header) and
   secure channel id (message header) *)
Record chunk := mk_chunk { ch_seq : Z; ch_rid : Z; ch_cid : Z }.

(* ---- sender ------------------------------------------------------------------ *)
Inductive sres := SOk (chunks : list chunk) | SErr | SPanic.

(* Chunker::encode: chunk i of the message carries `sequence_number + i as u32` where
   sequence_number = last_sent_sequence_number + 1, and the request id of the message *)
Definition number (last n rid cid : Z) : list chunk :=
  map (fun i => mk_chunk (last + 1 + Z.of_nat i) rid cid) (seq 0 (Z.to_nat n)).

(* SendBuffer::write / MessageWriter::write for a message that is split into n >= 1 chunks:
   - `self.last_sent_sequence_number + 1` and `sequence_number + i as u32` overflow (panic with
     overflow checks) exactly when last + n exceeds u32::MAX;
   - then the chunk count limit (0 = none): error, counter unchanged;
   - else `last_sent_sequence_number += chunks.len()`.
   Returns the outcome and the counter afterwards. *)
Definition write (last maxchunks n rid cid : Z) : sres * Z :=
  if U32MAX <? last + n then (SPanic, last)
  else if (0 <? maxchunks) && (maxchunks <? n) then (SErr, last)
  else (SOk (number last n rid cid), last + n).

(* ---- receiver ---------------------------------------------------------------- *)
Inductive vres := VOk (last : Z) | VErr (code : Z) | VPanic.
(* codes: 1 BadSequenceNumberInvalid, 2 BadSecureChannelIdInvalid, 3 BadSecurityChecksFailed *)

(* the loop of validate_chunks, i = index of the head of l.  `first.checked_add(i)` is compared
   with the chunk's number: a u32 never equals a sum above u32::MAX, so the comparison in Z is
   exact for chunks with u32 fields. *)
Fixpoint check_from (chan first rid0 i : Z) (l : list chunk) : Z :=
  match l with
  | [] => 0
  | c :: l' =>
      if negb (chan =? 0) && negb (ch_cid c =? chan) then 2
      else if negb (ch_seq c =? first + i) then 3
      else if negb (i =? 0) && negb (ch_rid c =? rid0) then 3
      else check_from chan first rid0 (i + 1) l'
  end.

(* Chunker::validate_chunks(starting_sequence_number, secure_channel, chunks) *)
Definition validate (start chan : Z) (l : list chunk) : vres :=
  match l with
  | [] => VPanic                                   (* chunks[0] *)
  | c0 :: _ =>
      if ch_seq c0 <? start then VErr 1
      else match check_from chan (ch_seq c0) (ch_rid c0) 0 l with
           | 0 => VOk (ch_seq c0 + (Z.of_nat (length l) - 1))
           | e => VErr e
           end
  end.

(* turn_received_chunks_into_message of both transports:
   last = validate_chunks(last.checked_add(1).ok_or(BadSequenceNumberInvalid)?, ..)? *)
Definition receive (last chan : Z) (l : list chunk) : vres :=
  if U32MAX <=? last then VErr 1 else validate (last + 1) chan l.

(* the pinned code before the fix: `last + 1`, `first + i as u32` and
   `first + chunks.len() as u32 - 1` in plain u32 arithmetic (panic with overflow checks; without
   them the sums wrap, a high-water mark of u32::MAX restarts at 0 and every replay is accepted) *)
Module Legacy.
  Fixpoint check_from (chan first rid0 i : Z) (l : list chunk) : option Z :=
    match l with
    | [] => Some 0
    | c :: l' =>
        if negb (chan =? 0) && negb (ch_cid c =? chan) then Some 2
        else if U32MAX <? first + i then None
        else if negb (ch_seq c =? first + i) then Some 3
        else if negb (i =? 0) && negb (ch_rid c =? rid0) then Some 3
        else check_from chan first rid0 (i + 1) l'
    end.
  Definition validate (start chan : Z) (l : list chunk) : vres :=
    match l with
    | [] => VPanic
    | c0 :: _ =>
        if ch_seq c0 <? start then VErr 1
        else match check_from chan (ch_seq c0) (ch_rid c0) 0 l with
             | None => VPanic
             | Some 0 => if U32MAX <? ch_seq c0 + Z.of_nat (length l) then VPanic
                         else VOk (ch_seq c0 + Z.of_nat (length l) - 1)
             | Some e => VErr e
             end
    end.
  Definition receive (last chan : Z) (l : list chunk) : vres :=
    if U32MAX <? last + 1 then VPanic else validate (last + 1) chan l.
End Legacy.

(* ---- histories ---------------------------------------------------------------- *)
(* a chunk presented to the receiver: chunk k of the m-th message sent so far (0-based), or a
   forged one with arbitrary header fields *)
Inductive cref := Sent (m k : Z) | Forged (sq rid cid : Z).

Inductive op :=
| CSend (n : Z)            (* client: next_request_id, then SendBuffer::write of an n-chunk message *)
| SSend (rid big : Z)      (* server: MessageWriter::write(rid, ..) of a one-chunk message, or (big = 1) of a
                              message of twice the chunk body room: the writer chunks with the negotiated
                              send buffer size, so that one takes two chunks *)
| Recv (l : list cref).    (* present these chunks as one message to the receiver *)

Record case := mk_case {
  c_id0 : Z; c_cseq0 : Z; c_sseq0 : Z;  (* client last_request_id, client / server last_sent_sequence_number *)
  c_maxchunks : Z;                      (* max_chunk_count of both senders, 0 = no limit *)
  c_schan : Z; c_rchan : Z;             (* channel id of the senders' / the receiver's secure channel *)
  c_last0 : Z;                          (* receiver's last_received_sequence_number *)
  c_ops : list op }.

Record st := {
  cl_id : Z; cl_seq : Z; cl_alive : bool;        (* SendBuffer counters; false after write failed *)
  sv_seq : Z; sv_alive : bool;                   (* MessageWriter counter *)
  sent : list (list chunk);                      (* messages that went out, oldest first *)
  r_last : Z;                                    (* last_received_sequence_number *)
  (* ghost *)
  cl_emitted : list chunk; sv_emitted : list chunk; cl_ids : list Z;
  accepted : list (list chunk) }.

Definition init (c : case) : st :=
  {| cl_id := c_id0 c; cl_seq := c_cseq0 c; cl_alive := true; sv_seq := c_sseq0 c; sv_alive := true;
     sent := []; r_last := c_last0 c; cl_emitted := []; sv_emitted := []; cl_ids := []; accepted := [] |}.

(* one observation per operation *)
Inductive obs :=
| OSent (id : Z) (l : list (Z * Z))     (* request id, (sequence number, request id) of each chunk on the wire *)
| OErr (id : Z)                         (* write returned an error; this sender sends nothing more *)
| ODead                                 (* the sender had failed before: nothing attempted *)
| OPanic                                (* panic; the observation ends here *)
| ORecv (c1 l1 c2 l2 : Z).              (* client / server receiver: code (0 accepted) and high-water mark afterwards;
                                           all -1: nothing to present *)

Definition hdrs (l : list chunk) : list (Z * Z) := map (fun c => (ch_seq c, ch_rid c)) l.

Fixpoint resolve (tbl : list (list chunk)) (l : list cref) : list chunk :=
  match l with
  | [] => []
  | Sent m k :: l' =>
      let rest := resolve tbl l' in
      if (m <? 0) || (k <? 0) then rest
      else match nth_error tbl (Z.to_nat m) with
           | Some msg => match nth_error msg (Z.to_nat k) with Some ch => ch :: rest | None => rest end
           | None => rest
           end
  | Forged s r c :: l' => mk_chunk s r c :: resolve tbl l'
  end.

Definition upd_client (s : st) (id sq : Z) (alive : bool) (msg : list chunk) : st :=
  {| cl_id := id; cl_seq := sq; cl_alive := alive; sv_seq := sv_seq s; sv_alive := sv_alive s;
     sent := match msg with [] => sent s | _ => sent s ++ [msg] end; r_last := r_last s;
     cl_emitted := cl_emitted s ++ msg; sv_emitted := sv_emitted s;
     cl_ids := cl_ids s ++ [id]; accepted := accepted s |}.

Definition upd_server (s : st) (sq : Z) (alive : bool) (msg : list chunk) : st :=
  {| cl_id := cl_id s; cl_seq := cl_seq s; cl_alive := cl_alive s; sv_seq := sq; sv_alive := alive;
     sent := match msg with [] => sent s | _ => sent s ++ [msg] end; r_last := r_last s;
     cl_emitted := cl_emitted s; sv_emitted := sv_emitted s ++ msg;
     cl_ids := cl_ids s; accepted := accepted s |}.

Definition upd_recv (s : st) (last : Z) (acc : list (list chunk)) : st :=
  {| cl_id := cl_id s; cl_seq := cl_seq s; cl_alive := cl_alive s; sv_seq := sv_seq s; sv_alive := sv_alive s;
     sent := sent s; r_last := last; cl_emitted := cl_emitted s; sv_emitted := sv_emitted s;
     cl_ids := cl_ids s; accepted := accepted s ++ acc |}.

(* one operation: the observation and the next state (None: panic, the run ends) *)
(* chunks of the message an SSend writes *)
Definition ssize (big : Z) : Z := if big =? 1 then 2 else 1.

Definition step (c : case) (s : st) (o : op) : obs * option st :=
  match o with
  | CSend n =>
      if negb (cl_alive s) then (ODead, Some s)
      else if U32MAX <? cl_id s + 1 then (OPanic, None)          (* last_request_id += 1 *)
      else let id := cl_id s + 1 in
           match write (cl_seq s) (c_maxchunks c) (Z.max 1 n) id (c_schan c) with
           | (SPanic, _) => (OPanic, None)
           | (SErr, sq) => (OErr id, Some (upd_client s id sq false []))
           | (SOk msg, sq) => (OSent id (hdrs msg), Some (upd_client s id sq true msg))
           end
  | SSend rid big =>
      if negb (sv_alive s) then (ODead, Some s)
      else match write (sv_seq s) (c_maxchunks c) (ssize big) rid (c_schan c) with
           | (SPanic, _) => (OPanic, None)
           | (SErr, sq) => (OErr rid, Some (upd_server s sq false []))
           | (SOk msg, sq) => (OSent rid (hdrs msg), Some (upd_server s sq true msg))
           end
  | Recv l =>
      match resolve (sent s) l with
      | [] => (ORecv (-1) (-1) (-1) (-1), Some s)
      | chunks =>
          match receive (r_last s) (c_rchan c) chunks with
          | VPanic => (OPanic, None)
          | VErr e => (ORecv e (r_last s) e (r_last s), Some s)
          | VOk x => (ORecv 0 x 0 x, Some (upd_recv s x [chunks]))
          end
      end
  end.

Fixpoint run_obs (c : case) (s : st) (ops : list op) : list obs :=
  match ops with
  | [] => []
  | o :: ops' => match step c s o with
                 | (ob, Some s') => ob :: run_obs c s' ops'
                 | (ob, None) => [ob]
                 end
  end.

(* the state after a history (None after a panic) *)
Fixpoint exec (c : case) (s : st) (ops : list op) : option st :=
  match ops with
  | [] => Some s
  | o :: ops' => match snd (step c s o) with Some s' => exec c s' ops' | None => None end
  end.

(* ---- canonical flat form (what the harness prints) ----------------------------- *)
Fixpoint flat (l : list (Z * Z)) : list Z :=
  match l with [] => [] | (a, b) :: l' => a :: b :: flat l' end.

Definition enc1 (o : obs) : list Z :=
  match o with
  | OSent id l => 0 :: id :: Z.of_nat (length l) :: flat l
  | OErr id => [1; id; 0]
  | ODead => [2]
  | OPanic => [-2]
  | ORecv a b c d => [a; b; c; d]
  end.
Definition enc (os : list obs) : list Z := concat (map enc1 os).

Definition run (c : case) : list Z := enc (run_obs c (init c) (c_ops c)).

(* decoding the flat form back, guided by the kind of each operation *)
Fixpoint take_pairs (n : nat) (l : list Z) : option (list (Z * Z) * list Z) :=
  match n with
  | O => Some ([], l)
  | S n' => match l with
            | a :: b :: l' => match take_pairs n' l' with
                              | Some (ps, r) => Some ((a, b) :: ps, r)
                              | None => None
                              end
            | _ => None
            end
  end.

Definition dec1 (o : op) (l : list Z) : option (obs * list Z) :=
  match l with
  | [] => None
  | x :: r =>
      if x =? -2 then Some (OPanic, r) else
      match o with
      | Recv _ => match r with b :: c :: d :: r' => Some (ORecv x b c d, r') | _ => None end
      | _ =>
          if x =? 0 then
            match r with
            | id :: n :: r' =>
                if n <? 0 then None else
                match take_pairs (Z.to_nat n) r' with
                | Some (ps, r'') => Some (OSent id ps, r'')
                | None => None
                end
            | _ => None
            end
          else if x =? 1 then match r with id :: _ :: r' => Some (OErr id, r') | _ => None end
          else if x =? 2 then Some (ODead, r)
          else None
      end
  end.

Fixpoint dec (ops : list op) (l : list Z) : option (list obs) :=
  match ops with
  | [] => match l with [] => Some [] | _ => None end
  | o :: ops' =>
      match dec1 o l with
      | Some (OPanic, r) => match r with [] => Some [OPanic] | _ => None end
      | Some (ob, r) => match dec ops' r with Some os => Some (ob :: os) | None => None end
      | None => None
      end
  end.

(* ---- the property as a predicate on an observed output -------------------------- *)
(* The receiver's specification, written from the statement: *)
Fixpoint consecutive (l : list chunk) : bool :=
  match l with
  | a :: (b :: _) as t => (ch_seq b =? ch_seq a + 1) && consecutive t
  | _ => true
  end.

Definition spec_accept (hw chan : Z) (l : list chunk) : bool :=
  match l with
  | [] => false
  | c0 :: _ =>
      (hw <? ch_seq c0) && consecutive l
      && forallb (fun c => ch_rid c =? ch_rid c0) l
      && ((chan =? 0) || forallb (fun c => ch_cid c =? chan) l)
  end.

Definition last_seq (l : list chunk) : Z := ch_seq (last l (mk_chunk 0 0 0)).

(* ledger of the specification: next sequence number each sender has to use, greatest request id
   the client used, the messages seen on the wire, the greatest accepted sequence number *)
Record led := { g_cnext : Z; g_snext : Z; g_maxid : Z; g_tbl : list (list chunk); g_hw : Z }.

(* chunks on the wire number upwards by one from [next] and carry the request id [id] *)
Fixpoint numbered (next id : Z) (l : list (Z * Z)) : bool :=
  match l with
  | [] => true
  | (s, r) :: l' => (s =? next) && (r =? id) && numbered (next + 1) id l'
  end.

Definition chunks_of (cid : Z) (l : list (Z * Z)) : list chunk :=
  map (fun p => mk_chunk (fst p) (snd p) cid) l.

Definition recv_ok (g : led) (chan : Z) (chunks : list chunk) (code hw' : Z) : bool :=
  if spec_accept (g_hw g) chan chunks
  then (code =? 0) && (hw' =? last_seq chunks)
  else negb (code =? 0) && (hw' =? g_hw g).

Fixpoint oracle_from (c : case) (g : led) (ops : list op) (os : list obs) : bool :=
  match ops, os with
  | [], [] => true
  | o :: ops', ob :: os' =>
      match o, ob with
      | CSend n, OSent id l =>
          (* numbers continue by exactly one per chunk; a fresh, greater request id *)
          (g_maxid g <? id) && negb (length l =? 0)%nat && numbered (g_cnext g) id l
          && (g_cnext g + Z.of_nat (length l) - 1 <=? U32MAX)
          && oracle_from c {| g_cnext := g_cnext g + Z.of_nat (length l); g_snext := g_snext g; g_maxid := id;
                              g_tbl := g_tbl g ++ [chunks_of (c_schan c) l]; g_hw := g_hw g |} ops' os'
      | CSend n, OErr id =>
          (g_maxid g <? id)
          && oracle_from c {| g_cnext := g_cnext g; g_snext := g_snext g; g_maxid := id;
                              g_tbl := g_tbl g; g_hw := g_hw g |} ops' os'
      | SSend rid big, OSent id l =>
          (id =? rid) && negb (length l =? 0)%nat && numbered (g_snext g) id l
          && (g_snext g + Z.of_nat (length l) - 1 <=? U32MAX)
          && oracle_from c {| g_cnext := g_cnext g; g_snext := g_snext g + Z.of_nat (length l); g_maxid := g_maxid g;
                              g_tbl := g_tbl g ++ [chunks_of (c_schan c) l]; g_hw := g_hw g |} ops' os'
      | SSend rid big, OErr id => oracle_from c g ops' os'
      | CSend _, ODead | SSend _ _, ODead => oracle_from c g ops' os'
      (* a sender may stop with a panic only when it has run out of u32 numbers (the hypothesis
         "fewer than 2^32 chunks / requests" of the statement is violated by the history) *)
      | CSend n, OPanic =>
          ((U32MAX <? g_cnext g + Z.max 1 n - 1) || (U32MAX <? g_maxid g + 1))
          && match os' with [] => true | _ => false end
      | SSend _ big, OPanic =>
          (U32MAX <? g_snext g + ssize big - 1) && match os' with [] => true | _ => false end
      | Recv l, ORecv c1 l1 c2 l2 =>
          match resolve (g_tbl g) l with
          | [] => (c1 =? -1) && (l1 =? -1) && (c2 =? -1) && (l2 =? -1) && oracle_from c g ops' os'
          | chunks =>
              recv_ok g (c_rchan c) chunks c1 l1 && recv_ok g (c_rchan c) chunks c2 l2
              && oracle_from c {| g_cnext := g_cnext g; g_snext := g_snext g; g_maxid := g_maxid g;
                                  g_tbl := g_tbl g;
                                  g_hw := if spec_accept (g_hw g) (c_rchan c) chunks then last_seq chunks else g_hw g |}
                             ops' os'
          end
      | _, _ => false
      end
  | _, _ => false
  end.

Definition led0 (c : case) : led :=
  {| g_cnext := c_cseq0 c + 1; g_snext := c_sseq0 c + 1; g_maxid := c_id0 c; g_tbl := []; g_hw := c_last0 c |}.

Definition oracle (c : case) (out : list Z) : bool :=
  match dec (c_ops c) out with
  | Some os => oracle_from c (led0 c) (c_ops c) os
  | None => false
  end.

Definition known (c : case) : Z := 0.

(* all header fields and counters are u32 *)
Definition u32 (x : Z) : Prop := 0 <= x <= U32MAX.
Definition valid_ref (r : cref) : Prop :=
  match r with Sent m k => True | Forged s r c => u32 s /\ u32 r /\ u32 c end.
Definition valid_op (o : op) : Prop :=
  match o with
  | CSend n => True
  | SSend rid big => u32 rid
  | Recv l => Forall valid_ref l
  end.
Definition valid (c : case) : Prop :=
  u32 (c_id0 c) /\ u32 (c_cseq0 c) /\ u32 (c_sseq0 c) /\ 0 <= c_maxchunks c /\
  u32 (c_schan c) /\ u32 (c_rchan c) /\ u32 (c_last0 c) /\ Forall valid_op (c_ops c).
