(* C38 — server locks are always taken in one global order.

   The lock-acquisition graph is EXTRACTED from the source on every run (Gen/C38Edges.v:
   edges (held class, acquired class, function), the audited exceptions, a candidate rank).
   This file holds the executable checks over it and the correspondence interface:
   the implementation's observable is the set of (held site, acquired site) pairs recorded by the
   hook in the trace_*lock! macros under a live client/server workload, mapped to lock classes. *)
From Coq Require Import List ZArith Bool String.
Import ListNotations.
From OV Require Import Gen.C38Edges.
Open Scope string_scope.
Open Scope Z_scope.

Definition edge := (Z * Z * Z)%type.
Definition edge_eqb (x y : edge) : bool :=
  let '(a, b, f) := x in let '(a', b', f') := y in (a =? a') && (b =? b') && (f =? f').
Definition is_excused (e : edge) : bool := existsb (edge_eqb e) excused.

(* an edge respects the order: both classes are ranked and the rank strictly increases *)
Definition ordered_edge (rk : Z -> Z) (e : edge) : bool :=
  let '(a, b, _) := e in (0 <? rk a) && (rk a <? rk b).
Definition edge_ok (e : edge) : bool := is_excused e || ordered_edge rank e.
Definition graph_ok : bool := forallb edge_ok edges.

(* class level view used for the dynamic observations *)
Definition class_edge (a b : Z) : bool := existsb (fun e => let '(x, y, _) := e in (x =? a) && (y =? b)) edges.

(* the two halves of the recorded inversion C38-call-holds-address-space are in the graph:
   some function acquires a Session lock while holding the AddressSpace (the Call service), and
   some function acquires the AddressSpace while holding a Session (timer task, most services) *)
Definition id_of (n : String.string) : Z :=
  match find (fun p => String.eqb (snd p) n) class_names with Some p => fst p | None => 0 end.
Definition inversion_present : bool :=
  class_edge (id_of "AddressSpace") (id_of "Session") && class_edge (id_of "Session") (id_of "AddressSpace").

Inductive case :=
| Edge (held acquired : Z)     (* observed at run time: [acquired] locked while [held] held *)
| Demo (k : Z).                (* k = 1: two real threads in the two orders of the inversion *)

(* output: Edge -> [1] iff the static graph has the edge;  Demo -> [1] iff a wait-for cycle is predicted / observed *)
Definition run (c : case) : list Z :=
  match c with
  | Edge a b => [if class_edge a b then 1 else 0]
  | Demo k => [if (k =? 1) && inversion_present then 1 else 0]
  end.

Definition oracle (c : case) (out : list Z) : bool :=
  match c, out with
  | Edge a b, [x] => (x =? 1) && class_edge a b      (* every observed nesting is in the extracted graph *)
  | Demo _, [x] => x =? 0                             (* no wait-for cycle *)
  | _, _ => false
  end.

Definition known (c : case) : Z := match c with Demo 1 => 1 | _ => 0 end.
