(* C21 — the invariant tying the system model to the reference evaluator, one scheduling round
   and the end-of-operation check. *)
From Coq Require Import List ZArith Bool Lia Permutation.
Import ListNotations.
From OV Require Import C21.SysLemmas C21.Model C21.SubTick C21.Round.
Open Scope Z_scope.

(* ----------------------------------------------------------- lists of spec subscriptions *)
Lemma find_ssub_map f id l : (forall p, p_id (f p) = p_id p) ->
  find_ssub id (map f l) = option_map f (find_ssub id l).
Proof.
  intros Hf. induction l as [|a r IH]; cbn [map find_ssub]; [reflexivity|].
  rewrite Hf. destruct (p_id a =? id); [reflexivity | exact IH].
Qed.

Lemma find_ssub_none id l : find_ssub id l = None <-> ~ In id (map p_id l).
Proof.
  induction l as [|a r IH]; cbn [find_ssub map]; [split; [intros _ [] | reflexivity]|].
  destruct (Z.eqb_spec (p_id a) id) as [E|E]; split; intros H.
  - discriminate.
  - exfalso. apply H. left. exact E.
  - intros [H1|H1]; [congruence|]. apply IH in H. exact (H H1).
  - apply IH. intros H1. apply H. right. exact H1.
Qed.

Lemma find_ssub_in l p : NoDup (map p_id l) -> In p l -> find_ssub (p_id p) l = Some p.
Proof.
  induction l as [|a r IH]; intros Hnd Hin; [destruct Hin|].
  cbn [find_ssub]. cbn [map] in Hnd. inversion Hnd as [|x l' Hx Hl]; subst.
  destruct Hin as [E|Hin].
  - subst. rewrite Z.eqb_refl. reflexivity.
  - destruct (Z.eqb_spec (p_id a) (p_id p)) as [E|E].
    + exfalso. apply Hx. rewrite E. apply in_map. exact Hin.
    + apply IH; assumption.
Qed.

Lemma find_ssub_filter g id l : NoDup (map p_id l) ->
  find_ssub id (filter g l) = match find_ssub id l with
                              | Some p => if g p then Some p else None
                              | None => None
                              end.
Proof.
  induction l as [|a r IH]; intros Hnd; cbn [filter find_ssub]; [reflexivity|].
  cbn [map] in Hnd. inversion Hnd as [|x l' Hx Hl]; subst.
  destruct (Z.eqb_spec (p_id a) id) as [E|E].
  - destruct (g a) eqn:G; cbn [find_ssub].
    + rewrite E, Z.eqb_refl. reflexivity.
    + rewrite (IH Hl). assert (Hn : find_ssub id r = None).
      { apply find_ssub_none. rewrite <- E. exact Hx. }
      rewrite Hn. reflexivity.
  - destruct (g a); cbn [find_ssub]; [destruct (Z.eqb_spec (p_id a) id); [contradiction|]|]; apply IH; exact Hl.
Qed.

Lemma pids_filter_nodup g l : NoDup (map p_id l) -> NoDup (map p_id (filter g l)).
Proof.
  induction l as [|a r IH]; intros Hnd; cbn [filter map]; [constructor|].
  cbn [map] in Hnd. inversion Hnd as [|x l' Hx Hl]; subst.
  destruct (g a); cbn [map]; [|apply IH; exact Hl].
  constructor; [|apply IH; exact Hl]. intros Hin. apply Hx.
  apply in_map_iff in Hin as (p & E & Hp). apply filter_In in Hp as [Hp _]. rewrite <- E. apply in_map. exact Hp.
Qed.

Lemma find_ssub_app id l p :
  find_ssub id (l ++ [p]) = match find_ssub id l with
                            | Some x => Some x
                            | None => if p_id p =? id then Some p else None
                            end.
Proof.
  induction l as [|a r IH]; cbn [app find_ssub]; [reflexivity|].
  destruct (p_id a =? id); [reflexivity | exact IH].
Qed.

Lemma find_sub_app id l s :
  find_sub id (l ++ [s]) = match find_sub id l with
                           | Some x => Some x
                           | None => if s_id s =? id then Some s else None
                           end.
Proof.
  induction l as [|a r IH]; cbn [app find_sub]; [reflexivity|].
  destruct (s_id a =? id); [reflexivity | exact IH].
Qed.

(* ----------------------------------------------------------------- reading a snapshot *)
Lemma state_in_snapshot id subs :
  state_in id (map (fun s => (s_id s, s_state s, len (s_notifs s))) subs) = option_map s_state (find_sub id subs).
Proof.
  induction subs as [|a r IH]; cbn [map state_in find_sub]; [reflexivity|].
  destruct (s_id a =? id); [reflexivity | exact IH].
Qed.

Lemma pdata_in_snapshot id subs :
  pdata_in id (map (fun s => (s_id s, s_state s, len (s_notifs s))) subs)
           (map (fun s => len (filter (fun m => m_kind m =? 1) (s_notifs s))) subs)
  = option_map (fun s => len (data_of (s_notifs s))) (find_sub id subs).
Proof.
  induction subs as [|a r IH]; cbn [map pdata_in find_sub]; [reflexivity|].
  destruct (s_id a =? id); [|exact IH]. cbn [option_map]. unfold data_of, len. rewrite map_length. reflexivity.
Qed.

(* spec_timer / spec_recv read the state before the operation from the snapshot *)
Lemma spec_timer_T y vars now s : find_sub (s_id s) (y_subs y) = Some s ->
  spec_timer (snapshot y) vars now (abs_sub s) = T true (s_state s) vars now (abs_sub s).
Proof.
  intros Hf. unfold spec_timer, T, ticks_items, snapshot. cbn [sn_subs abs_sub p_id].
  rewrite state_in_snapshot, Hf. cbn [option_map].
  destruct ((s_state s =? 0) || (s_state s =? 1)); reflexivity.
Qed.
Lemma spec_recv_T y vars now s : find_sub (s_id s) (y_subs y) = Some s ->
  spec_recv (snapshot y) vars now (abs_sub s) = T false (s_state s) vars now (abs_sub s).
Proof.
  intros Hf. unfold spec_recv, T, ticks_items, snapshot. cbn [sn_subs abs_sub p_id].
  rewrite state_in_snapshot, Hf. cbn [option_map].
  destruct ((s_state s =? 0) || (s_state s =? 1)); reflexivity.
Qed.
Lemma spec_timer_id before vars now p : p_id (spec_timer before vars now p) = p_id p.
Proof. unfold spec_timer. destruct (ticks_items _ _); [|reflexivity]. destruct (tick_items_loop _ _ _ _). reflexivity. Qed.
Lemma spec_recv_id before vars now p : p_id (spec_recv before vars now p) = p_id p.
Proof. unfold spec_recv. destruct (ticks_items _ _); reflexivity. Qed.

(* ------------------------------------------------------------------- the invariant *)
Definition quiet (y : sys) : Prop := y_reqs y <> [] -> forall s, In s (y_subs y) -> s_notifs s = [].

(* the tracked subscriptions are exactly the ones that are not Closed, with the abstraction of
   their model state (pointwise; the order of the list plays no role) *)
Definition tracked (f : sub -> ssub) (y : sys) (z : spec) : Prop :=
  z_track z = true ->
  NoDup (map p_id (z_subs z)) /\
  forall id, find_ssub id (z_subs z) =
             match find_sub id (y_subs y) with
             | Some s => if s_state s =? 0 then None else Some (f s)
             | None => None
             end.

Definition subs_ok (B : Z) (y : sys) (z : spec) : Prop :=
  NoDup (ids (y_subs y)) /\
  (forall s, In s (y_subs y) -> 1 <= s_id s < y_nextsub y /\
             wf (lookup_seq (s_id s) (z_lastseq z)) s /\ state_ok s /\ s_lastseq s <= B) /\
  (forall i, y_nextsub y <= i -> lookup_seq i (z_lastseq z) = 0) /\
  1 <= y_nextsub y.

Definition reqs_ok (y : sys) (z : spec) : Prop :=
  z_out z = map q_rid (y_reqs y) /\ NoDup (map q_rid (y_reqs y)) /\
  (forall q, In q (y_reqs y) -> q_rid q < y_nextrid y).

Definition Rel (k : Z) (y : sys) (z : spec) : Prop :=
  z_now z = y_now y /\ z_vars z = y_vars y /\ z_nextsub z = y_nextsub y /\ z_nextrid z = y_nextrid y /\
  z_before z = snapshot y /\ reqs_ok y z /\ subs_ok (2 * k) y z /\ quiet y /\ tracked abs_sub y z.

(* --------------------------------------------------------------- one scheduling round *)
Lemma sys_tick_rel timer B tl y z :
  z_out z = map q_rid (y_reqs y) ++ tl -> subs_ok B y z -> B + 3 < U32MAX ->
  tracked (fun s => T timer (s_state s) (y_vars y) (y_now y) (abs_sub s)) y z ->
  exists y' rs z', sys_tick y timer = Some (y', rs) /\ spec_resps rs z = Some z' /\ zsame z z' /\
    z_out z' = map q_rid (y_reqs y') ++ tl /\ subs_ok (B + 1) y' z' /\ quiet y' /\
    (exists used, y_reqs y = used ++ y_reqs y') /\
    y_now y' = y_now y /\ y_vars y' = y_vars y /\ y_nextsub y' = y_nextsub y /\ y_nextrid y' = y_nextrid y /\
    (z_track z' = true ->
       NoDup (map p_id (z_subs z')) /\
       forall id s, find_sub id (y_subs y') = Some s -> s_state s <> 0 ->
                    find_ssub id (z_subs z') = Some (abs_sub s)).
Proof.
  intros Hout (Hnd & Hsubs & Hfresh & Hone) HB Htr.
  pose proof (prio_order_perm (y_subs y)) as Hperm.
  assert (Hndl : NoDup (prio_order (y_subs y))) by (eapply Permutation_NoDup; [symmetry; exact Hperm | exact Hnd]).
  assert (Hidl : forall id, In id (prio_order (y_subs y)) <-> In id (ids (y_subs y))).
  { intros id. split; apply Permutation_in; [exact Hperm | symmetry; exact Hperm]. }
  assert (HU : forall id, In id (prio_order (y_subs y)) ->
                unvisited (y_vars y) (y_now y) timer B (y_subs y) z id).
  { intros id Hin. apply Hidl in Hin. unfold ids in Hin. apply in_map_iff in Hin as (s & <- & Hs).
    destruct (Hsubs s Hs) as (_ & Hw & Hso & Hb).
    exists s. split; [apply find_sub_in; assumption|]. split; [exact Hw|]. split; [exact Hso|]. split; [exact Hb|].
    intros Ht. destruct (Htr Ht) as [_ Hp]. rewrite Hp, (find_sub_in _ _ Hnd Hs). reflexivity. }
  destruct (round_loop (y_vars y) (y_now y) timer B tl _ _ _ z Hndl Hnd HU Hout HB)
    as (subs' & reqs' & tx & z' & R1 & R2 & R3 & R4 & R5 & R6 & R7 & R8 & R9 & R10).
  unfold sys_tick, sys_tick_g, bind. fold tick_ids. unfold tick_ids. rewrite R1.
  destruct (transmit tx (y_retrans y)) as [rt rs] eqn:Et.
  eexists. exists rs, z'. split; [reflexivity|].
  cbn [y_subs y_reqs y_now y_vars y_nextsub y_nextrid set_retrans set_reqs set_subs].
  split. { pose proof (spec_resps_transmit tx (y_retrans y) z) as H. rewrite Et in H. cbn [snd] in H. rewrite H. exact R2. }
  split; [exact R3|]. split; [exact R4|].
  assert (Hvis : forall s', In s' subs' -> visited B subs' z' (s_id s') /\ exists s, In s (y_subs y) /\ s_id s = s_id s').
  { intros s' Hs'. assert (Hin : In (s_id s') (ids (y_subs y))) by (apply R10; unfold ids; apply in_map; exact Hs').
    split; [apply R5; apply Hidl; exact Hin|]. unfold ids in Hin. apply in_map_iff in Hin as (s & E & Hs). eauto. }
  split.
  { split; [exact R9|]. split.
    - intros s' Hs'. destruct (Hvis s' Hs') as [Hv (s & Hs & E)].
      unfold visited in Hv. rewrite (find_sub_in _ _ R9 Hs') in Hv. destruct Hv as (V1 & V2 & V3 & _).
      destruct (Hsubs s Hs) as (Hb & _). rewrite <- E in *. cbn [y_nextsub set_retrans set_reqs set_subs]. auto.
    - split; [|exact Hone]. intros i Hi. cbn [y_nextsub set_retrans set_reqs set_subs] in Hi. destruct (R6 i) as (_ & _ & ->); [|apply Hfresh; exact Hi].
      intros Hin. apply Hidl in Hin. unfold ids in Hin. apply in_map_iff in Hin as (s & E & Hs).
      destruct (Hsubs s Hs) as (Hb & _). lia. }
  split.
  { intros Hreq s' Hs'. apply (R7 Hreq (s_id s') s'); [|apply find_sub_in; assumption].
    apply Hidl. apply R10. unfold ids. apply in_map. exact Hs'. }
  split; [exact R8|]. repeat split.
  - destruct R3 as (_ & _ & _ & _ & _ & Et' & Ep). rewrite Ep. rewrite Et' in H. destruct (Htr H) as [Hn _]. exact Hn.
  - intros id s Hf Hne. pose proof (find_sub_some _ _ _ Hf) as [Hs' Hid]. destruct (Hvis s Hs') as [Hv _].
    unfold visited in Hv. rewrite Hid, Hf in Hv. destruct Hv as (_ & _ & _ & Hv). apply Hv; assumption.
Qed.

(* ------------------------------------------------------ timeout faults for stale requests *)
Lemma remove_z_app_notin x a b : ~ In x a -> remove_z x (a ++ x :: b) = a ++ b.
Proof.
  induction a as [|y a IH]; intros Hn; cbn [app remove_z].
  - rewrite Z.eqb_refl. reflexivity.
  - destruct (Z.eqb_spec x y) as [E|E]; [exfalso; apply Hn; left; congruence|].
    f_equal. apply IH. intros Hin. apply Hn. right. exact Hin.
Qed.

Lemma faults_rel now : forall reqs kept z,
  NoDup (map q_rid kept ++ map q_rid reqs) -> z_out z = map q_rid kept ++ map q_rid reqs ->
  exists z', spec_resps (map (fun q => RFault (q_rid q) ST_TIMEOUT) (filter (req_expired now) reqs)) z = Some z' /\
    z_out z' = map q_rid kept ++ map q_rid (filter (fun q => negb (req_expired now q)) reqs) /\
    z_subs z' = z_subs z /\ z_lastseq z' = z_lastseq z /\ zsame z z'.
Proof.
  induction reqs as [|q reqs IH]; intros kept z Hnd Hout.
  - exists z. cbn. rewrite app_nil_r in *. split; [reflexivity|]. split; [exact Hout|]. split; [reflexivity|]. split; [reflexivity|]. apply zsame_refl.
  - cbn [filter]. destruct (req_expired now q) eqn:Ex; cbn [negb map spec_resps].
    + cbn [map] in Hout, Hnd.
      assert (Hnk : ~ In (q_rid q) (map q_rid kept)).
      { intros Hin. apply NoDup_remove_2 in Hnd. apply Hnd. apply in_app_iff. left. exact Hin. }
      assert (Hex : existsb (Z.eqb (q_rid q)) (z_out z) = true).
      { apply existsb_exists. exists (q_rid q). split; [rewrite Hout; apply in_app_iff; right; left; reflexivity | apply Z.eqb_refl]. }
      rewrite Hex, Hout, (remove_z_app_notin _ _ _ Hnk).
      destruct (IH kept (mk_spec (z_now z) (z_vars z) (z_subs z) (z_nextsub z) (map q_rid kept ++ map q_rid reqs)
                                 (z_nextrid z) (z_lastseq z) (z_before z) (z_track z)))
        as (z' & A & B & C & D & E); [apply NoDup_remove_1 in Hnd; exact Hnd | reflexivity|].
      exists z'. split; [exact A|]. split; [exact B|]. split; [exact C|]. split; [exact D|].
      eapply zsame_trans; [|exact E]. unfold zsame; cbn; repeat split.
    + destruct (IH (kept ++ [q]) z) as (z' & A & B & C & D & E).
      * rewrite map_app. cbn [map] in *. rewrite <- app_assoc. exact Hnd.
      * rewrite map_app. cbn [map] in *. rewrite <- app_assoc. exact Hout.
      * exists z'. split; [exact A|]. rewrite map_app in B. cbn [map] in B. rewrite <- app_assoc in B. auto.
Qed.

(* ------------------------------------------------------------- the end-of-operation check *)
Definition pre_after (y : sys) (z : spec) : Prop :=
  z_out z = map q_rid (y_reqs y) /\ quiet y /\ NoDup (ids (y_subs y)) /\
  (z_track z = true ->
     NoDup (map p_id (z_subs z)) /\
     forall id s, find_sub id (y_subs y) = Some s -> s_state s <> 0 ->
                  find_ssub id (z_subs z) = Some (abs_sub s)).

Lemma alive_in_snapshot y p :
  alive_in (snapshot y) p = match find_sub (p_id p) (y_subs y) with
                            | Some s => negb (s_state s =? 0)
                            | None => false
                            end.
Proof.
  unfold alive_in, snapshot. cbn [sn_subs]. rewrite state_in_snapshot.
  destruct (find_sub (p_id p) (y_subs y)); reflexivity.
Qed.

Lemma spec_after_ok y z : pre_after y z ->
  exists z', spec_after z (snapshot y) = Some z' /\
    z_now z' = z_now z /\ z_vars z' = z_vars z /\ z_nextsub z' = z_nextsub z /\ z_nextrid z' = z_nextrid z /\
    z_out z' = z_out z /\ z_lastseq z' = z_lastseq z /\ z_track z' = z_track z /\
    z_before z' = snapshot y /\ tracked abs_sub y z'.
Proof.
  intros (Hout & Hq & Hnd & Htr). unfold spec_after.
  assert (Hreqs : zlist_eqb (sn_reqs (snapshot y)) (z_out z) = true).
  { unfold snapshot. cbn [sn_reqs]. rewrite Hout. apply zlist_eqb_refl. }
  rewrite Hreqs. cbn [negb].
  set (subs := filter (alive_in (snapshot y)) (z_subs z)).
  assert (Hchecks : z_track z = true ->
            forallb (fun s => match pdata_in (p_id s) (sn_subs (snapshot y)) (sn_pdata (snapshot y)) with
                              | Some n => n =? len (p_pending s) | None => false end) subs = true /\
            (is_nil (z_out z) || forallb (fun s => is_nil (p_pending s)) subs) = true).
  { intros Ht. destruct (Htr Ht) as [Hnp Hp].
    assert (Hall : forall p, In p subs -> exists s, find_sub (p_id p) (y_subs y) = Some s /\ p = abs_sub s).
    { intros p Hin. subst subs. apply filter_In in Hin as [Hin Hal]. rewrite alive_in_snapshot in Hal.
      destruct (find_sub (p_id p) (y_subs y)) as [s|] eqn:Ef; [|discriminate].
      exists s. split; [reflexivity|].
      assert (Hne : s_state s <> 0) by (intros E; rewrite E in Hal; discriminate).
      pose proof (Hp _ _ Ef Hne) as Hfs. rewrite (find_ssub_in _ _ Hnp Hin) in Hfs. congruence. }
    split.
    - apply forallb_forall. intros p Hin. destruct (Hall p Hin) as (s & Ef & ->).
      unfold snapshot. cbn [sn_subs sn_pdata abs_sub p_id p_pending] in *. rewrite pdata_in_snapshot, Ef. cbn [option_map].
      apply Z.eqb_refl.
    - destruct (z_out z) as [|r0 out] eqn:Eo; [reflexivity|]. cbn [is_nil orb].
      apply forallb_forall. intros p Hin. destruct (Hall p Hin) as (s & Ef & ->).
      cbn [abs_sub p_pending]. rewrite (Hq ltac:(intros E; rewrite E in Hout; discriminate) s); [reflexivity|].
      apply find_sub_some in Ef as [H _]. exact H. }
  assert (Hif : (z_track z && negb (forallb (fun s => match pdata_in (p_id s) (sn_subs (snapshot y)) (sn_pdata (snapshot y)) with
                              | Some n => n =? len (p_pending s) | None => false end) subs &&
                             (is_nil (z_out z) || forallb (fun s => is_nil (p_pending s)) subs))) = false).
  { destruct (z_track z) eqn:Et; [|reflexivity]. destruct (Hchecks eq_refl) as [-> ->]. reflexivity. }
  rewrite Hif. eexists. split; [reflexivity|]. unfold tracked. cbn [z_now z_vars z_nextsub z_nextrid z_out z_lastseq z_track z_before z_subs].
  repeat split.
  - subst subs. apply pids_filter_nodup. apply (Htr H).
  - intros id. cbn [z_track] in H. destruct (Htr H) as [Hnp Hp]. subst subs.
    rewrite (find_ssub_filter _ _ _ Hnp).
    destruct (find_sub id (y_subs y)) as [s|] eqn:Ef.
    + destruct (Z.eqb_spec (s_state s) 0) as [E0|E0].
      * destruct (find_ssub id (z_subs z)) as [p|] eqn:Efs; [|reflexivity].
        rewrite alive_in_snapshot. apply find_ssub_some in Efs as [_ ->]. rewrite Ef, E0. reflexivity.
      * rewrite (Hp _ _ Ef E0). rewrite alive_in_snapshot. cbn [abs_sub p_id].
        pose proof (find_sub_some _ _ _ Ef) as [_ ->]. rewrite Ef.
        destruct (Z.eqb_spec (s_state s) 0); [contradiction | reflexivity].
    + destruct (find_ssub id (z_subs z)) as [p|] eqn:Efs; [|reflexivity].
      rewrite alive_in_snapshot. apply find_ssub_some in Efs as [_ ->]. rewrite Ef. reflexivity.
Qed.
