(* C11 — framing is independent of how the byte stream is segmented.

   Part A: `TcpCodec::decode` (lib/src/core/comms/tcp_codec.rs) over a `BytesMut`, with
   `MessageHeader::message_type`, `HelloMessage/AcknowledgeMessage/ErrorMessage::decode`
   (tcp_types.rs), `UAString::decode` (types/string.rs) and `MessageChunk::decode`
   (message_chunk.rs), as committed (after "fix: TCP codec waited to accumulate frames larger than
   the maximum message size").  Bytes are Z in 0..255.  The codec buffer is a list of bytes;
   `split_to(n)` is firstn/skipn.

   Part B: the client `SendBuffer` (lib/src/client/transport/buffer.rs) driven by the poll loop of
   client/transport/tcp.rs: chunk queue, `encode_next_chunk`, `read_into_async` against a writer
   that accepts k bytes per call.  `SecureChannel::apply_security` is the copy it is for
   SecurityPolicy None / MessageSecurityMode None (the secured chunks are part of the case).

   No proofs in this file. *)
From Coq Require Import List ZArith Bool Lia.
Import ListNotations.
Open Scope Z_scope.

(* ------------------------------------------------------------------------------------------ *)
(* Part A: the codec                                                                           *)

Definition len (l : list Z) : Z := Z.of_nat (length l).

Definition u32le (l : list Z) : Z :=
  match l with
  | [a; b; c; d] => a + 256 * b + 65536 * c + 16777216 * d
  | _ => 0
  end.
Definition i32_of_u32 (x : Z) : Z := if 2147483648 <=? x then x - 4294967296 else x.

(* a Read cursor: read_exact n *)
Definition read_n (n : Z) (l : list Z) : option (list Z * list Z) :=
  if (0 <=? n) && (n <=? len l) then Some (firstn (Z.to_nat n) l, skipn (Z.to_nat n) l) else None.
Definition read_u32 (l : list Z) : option (Z * list Z) :=
  match read_n 4 l with Some (b, r) => Some (u32le b, r) | None => None end.

Inductive mtype := THello | TAck | TErr | TChunk | TInvalid.

(* error classes: the StatusCode carried by the io::Error of the codec *)
Definition E_TOO_LARGE : Z := -10.   (* BadTcpMessageTooLarge *)
Definition E_DECODING : Z := -11.    (* BadDecodingError *)
Definition E_COMM : Z := -12.        (* BadCommunicationError *)

(* MessageHeader::message_type on the first four bytes *)
Definition message_type (t : list Z) : mtype :=
  match t with
  | [a; b; c; d] =>
      let base :=
        if (a =? 72) && (b =? 69) && (c =? 76) then THello            (* HEL *)
        else if (a =? 65) && (b =? 67) && (c =? 75) then TAck         (* ACK *)
        else if (a =? 69) && (b =? 82) && (c =? 82) then TErr         (* ERR *)
        else if (a =? 77) && (b =? 83) && (c =? 71) then TChunk       (* MSG *)
        else if (a =? 79) && (b =? 80) && (c =? 78) then TChunk       (* OPN *)
        else if (a =? 67) && (b =? 76) && (c =? 79) then TChunk       (* CLO *)
        else TInvalid in
      if d =? 70 then base                                             (* F *)
      else if (d =? 67) || (d =? 65) then                              (* C, A *)
        match base with TChunk => TChunk | _ => TInvalid end
      else TInvalid
  | _ => TInvalid
  end.

(* String::from_utf8 validity (the Unicode well-formed byte sequences table) *)
Definition cont (x : Z) : bool := (128 <=? x) && (x <=? 191).
Fixpoint utf8_ok (fuel : nat) (l : list Z) : bool :=
  match fuel with
  | O => match l with [] => true | _ => false end
  | S fuel' =>
      match l with
      | [] => true
      | a :: r =>
          if (0 <=? a) && (a <=? 127) then utf8_ok fuel' r
          else if (194 <=? a) && (a <=? 223) then
            match r with b :: r' => cont b && utf8_ok fuel' r' | _ => false end
          else if (224 <=? a) && (a <=? 239) then
            match r with
            | b :: c :: r' =>
                (if a =? 224 then (160 <=? b) && (b <=? 191)
                 else if a =? 237 then (128 <=? b) && (b <=? 159)
                 else cont b) && cont c && utf8_ok fuel' r'
            | _ => false
            end
          else if (240 <=? a) && (a <=? 244) then
            match r with
            | b :: c :: d :: r' =>
                (if a =? 240 then (144 <=? b) && (b <=? 191)
                 else if a =? 244 then (128 <=? b) && (b <=? 143)
                 else cont b) && cont c && cont d && utf8_ok fuel' r'
            | _ => false
            end
          else false
      end
  end.

Record cfg := mk_cfg { max_message_size : Z; max_string_length : Z }.

(* UAString::decode; rendered as [-1] for null, [len; bytes...] otherwise *)
Definition read_string (o : cfg) (l : list Z) : option (list Z * list Z) :=
  match read_u32 l with
  | None => None
  | Some (u, r) =>
      let n := i32_of_u32 u in
      if n =? -1 then Some ([-1], r)
      else if n <? -1 then None
      else if max_string_length o <? n then None
      else match read_n n r with
           | None => None
           | Some (s, r') => if utf8_ok (length s) s then Some (n :: s, r') else None
           end
  end.

(* reads k consecutive u32 fields *)
Fixpoint read_u32s (k : nat) (l : list Z) : option (list Z * list Z) :=
  match k with
  | O => Some ([], l)
  | S k' => match read_u32 l with
            | None => None
            | Some (v, r) => match read_u32s k' r with
                             | None => None
                             | Some (vs, r') => Some (v :: vs, r')
                             end
            end
  end.

(* canonical rendering of a decoded frame: a start marker, the kind, then the fields *)
Definition FRAME : Z := -20.

(* TcpCodec::decode_message on the split-off frame bytes *)
Definition decode_message (o : cfg) (ty : mtype) (frame : list Z) : Z + list Z :=
  match ty with
  | TInvalid => inl E_COMM
  | THello =>
      (* MessageHeader::decode again, 5 x u32, UAString *)
      match read_n 8 frame with
      | None => inl E_DECODING
      | Some (h, r) =>
          match read_u32s 5 r with
          | None => inl E_DECODING
          | Some (fs, r') =>
              match read_string o r' with
              | None => inl E_DECODING
              | Some (s, _) => inr (FRAME :: 1 :: u32le (skipn 4 h) :: fs ++ s)
              end
          end
      end
  | TAck =>
      match read_n 8 frame with
      | None => inl E_DECODING
      | Some (h, r) =>
          match read_u32s 5 r with
          | None => inl E_DECODING
          | Some (fs, _) => inr (FRAME :: 2 :: u32le (skipn 4 h) :: fs)
          end
      end
  | TErr =>
      match read_n 8 frame with
      | None => inl E_DECODING
      | Some (h, r) =>
          match read_u32s 1 r with
          | None => inl E_DECODING
          | Some (fs, r') =>
              match read_string o r' with
              | None => inl E_DECODING
              | Some (s, _) => inr (FRAME :: 3 :: u32le (skipn 4 h) :: fs ++ s)
              end
          end
      end
  | TChunk =>
      (* MessageChunkHeader::decode needs 12 bytes (any failure is mapped to
         BadCommunicationError); the type code and the final flag were already classified by
         message_type, so only the length can fail.  Then the size check of MessageChunk::decode,
         then data = re-encoded header ++ rest of the frame, which is the frame itself. *)
      match read_n 12 frame with
      | None => inl E_COMM
      | Some (h, _) =>
          let sz := u32le (firstn 4 (skipn 4 h)) in
          if (0 <? max_message_size o) && (max_message_size o <? sz) then inl E_TOO_LARGE
          else inr (FRAME :: 4 :: frame)
      end
  end.

Inductive dres := More | Got (f : list Z) (rest : list Z) | Fail (e : Z).

(* TcpCodec::decode *)
Definition decode (o : cfg) (buf : list Z) : dres :=
  if len buf <=? 8 then More
  else
    let ty := message_type (firstn 4 buf) in
    let size := u32le (firstn 4 (skipn 4 buf)) in
    if (0 <? max_message_size o) && (max_message_size o <? size) then Fail E_TOO_LARGE
    else if size <=? len buf then
      match decode_message o ty (firstn (Z.to_nat size) buf) with
      | inr f => Got f (skipn (Z.to_nat size) buf)
      | inl e => Fail e
      end
    else More.

(* what a framed reader does with its buffer: call decode until it wants more bytes or fails.
   status: inr residue (waiting for more) or inl error (the stream has ended) *)
Fixpoint drain (fuel : nat) (o : cfg) (buf : list Z) : list (list Z) * (Z + list Z) :=
  match fuel with
  | O => ([], inr buf)
  | S fuel' =>
      match decode o buf with
      | More => ([], inr buf)
      | Fail e => ([], inl e)
      | Got f rest => let '(fs, st) := drain fuel' o rest in (f :: fs, st)
      end
  end.
Definition drain_all (o : cfg) (buf : list Z) := drain (S (length buf)) o buf.

(* feeding one segment: append to the residue, drain *)
Definition feed (o : cfg) (acc : list (list Z) * (Z + list Z)) (seg : list Z) :=
  match snd acc with
  | inl _ => acc
  | inr residue => let '(fs, st) := drain_all o (residue ++ seg) in (fst acc ++ fs, st)
  end.
Definition feed_all (o : cfg) (segs : list (list Z)) := fold_left (feed o) segs ([], inr []).

Definition RESIDUE : Z := -30.
Definition render (r : list (list Z) * (Z + list Z)) : list Z :=
  concat (fst r) ++ match snd r with inl e => [e] | inr residue => [RESIDUE; len residue] end.

(* the code before the fix: no size check in TcpCodec::decode *)
Module Legacy.
  Definition decode (o : cfg) (buf : list Z) : dres :=
    if len buf <=? 8 then More
    else
      let ty := message_type (firstn 4 buf) in
      let size := u32le (firstn 4 (skipn 4 buf)) in
      if size <=? len buf then
        match decode_message o ty (firstn (Z.to_nat size) buf) with
        | inr f => Got f (skipn (Z.to_nat size) buf)
        | inl e => Fail e
        end
      else More.
End Legacy.

(* ------------------------------------------------------------------------------------------ *)
(* Part B: SendBuffer                                                                          *)

Inductive sb_state := Writing | Reading (e : Z).
Record sbuf := mk_sbuf {
  sb_queue : list (list Z);      (* chunks: VecDeque<MessageChunk>, as their secured bytes *)
  sb_st : sb_state;
  sb_pos : Z;                    (* buffer.position() *)
  sb_buf : list Z;               (* buffer contents from offset 0 (what apply_security wrote) *)
  sb_max_chunks : Z }.

Definition sb_init (max_chunks : Z) : sbuf := mk_sbuf [] Writing 0 [] max_chunks.

Definition is_reading (s : sbuf) : bool := match sb_st s with Reading _ => true | Writing => false end.
Definition can_read (s : sbuf) : bool := is_reading s || negb (sb_pos s =? 0).
Definition should_encode (s : sbuf) : bool :=
  match sb_queue s with [] => false | _ => negb (can_read s) end.

Inductive res (A : Type) := Ok (a : A) | Err (e : Z) | Panic.
Arguments Ok {A}. Arguments Err {A}. Arguments Panic {A}.
Definition E_INVALID_STATE : Z := -40.
Definition E_TOO_MANY_CHUNKS : Z := -41.

(* encode_next_chunk *)
Definition encode_next (s : sbuf) : res sbuf :=
  if is_reading s then Err E_INVALID_STATE
  else match sb_queue s with
       | [] => Ok s
       | c :: q => Ok (mk_sbuf q (Reading (len c)) (sb_pos s) c (sb_max_chunks s))
       end.

(* write(): `chunks` is what Chunker::encode produced for the message *)
Definition sb_write (s : sbuf) (chunks : list (list Z)) : res sbuf :=
  if is_reading s then Err E_INVALID_STATE
  else if (0 <? sb_max_chunks s) && (sb_max_chunks s <? Z.of_nat (length chunks)) then Err E_TOO_MANY_CHUNKS
  else Ok (mk_sbuf (sb_queue s ++ chunks) (sb_st s) (sb_pos s) (sb_buf s) (sb_max_chunks s)).

(* read_into_async against a writer that accepts at most k bytes: returns the bytes written.
   `&buffer[pos..end]` panics when pos > end or end > buffer length. *)
Definition read_into (s : sbuf) (k : Z) : res (sbuf * list Z) :=
  let '(e, pos, st) :=
    match sb_st s with
    | Writing => (sb_pos s, 0, Reading (sb_pos s))
    | Reading e => (e, sb_pos s, Reading e)
    end in
  if (e <? pos) || (len (sb_buf s) <? e) then Panic
  else
    let data := firstn (Z.to_nat (e - pos)) (skipn (Z.to_nat pos) (sb_buf s)) in
    let written := Z.max 0 (Z.min k (len data)) in
    let pos' := pos + written in
    let out := firstn (Z.to_nat written) data in
    if e =? pos' then Ok (mk_sbuf (sb_queue s) Writing 0 (sb_buf s) (sb_max_chunks s), out)
    else Ok (mk_sbuf (sb_queue s) st pos' (sb_buf s) (sb_max_chunks s), out).

(* TcpTransport::poll (client): encode a chunk if the buffer is free; write if there is something
   to write, otherwise take the next outgoing message.  One step per writer call / message. *)
Definition END_IDLE : Z := -1.
Definition END_WRITES : Z := -3.
Definition END_PANIC : Z := -2.

Fixpoint sb_run (fuel : nat) (s : sbuf) (msgs : list (list (list Z))) (ks : list Z) : list Z :=
  match fuel with
  | O => [-9]
  | S fuel' =>
      match (if should_encode s then encode_next s else Ok s) with
      | Err e => [e]
      | Panic => [END_PANIC]
      | Ok s1 =>
          if can_read s1 then
            match ks with
            | [] => [END_WRITES]
            | k :: ks' =>
                match read_into s1 k with
                | Ok (s2, out) => out ++ sb_run fuel' s2 msgs ks'
                | Err e => [e]
                | Panic => [END_PANIC]
                end
            end
          else
            match msgs with
            | [] => [END_IDLE]
            | m :: msgs' =>
                match sb_write s1 m with
                | Ok s2 => sb_run fuel' s2 msgs' ks
                | Err e => [e]
                | Panic => [END_PANIC]
                end
            end
      end
  end.

Definition sb_fuel (msgs : list (list (list Z))) (ks : list Z) : nat :=
  S (length ks + 2 * length msgs).

(* ------------------------------------------------------------------------------------------ *)
(* correspondence interface                                                                     *)

Inductive case :=
| Codec (mms msl : Z) (segs : list (list Z))
| CodecAll (mms msl : Z) (stream : list Z)      (* every segmentation of the stream into non-empty reads *)
| Send (max_chunks : Z) (msgs : list (list (list Z))) (ks : list Z).

(* all 2^(n-1) ways to cut a stream of n bytes into non-empty consecutive segments *)
Fixpoint segmentations (l : list Z) : list (list (list Z)) :=
  match l with
  | [] => [[]]
  | x :: r =>
      match r with
      | [] => [[[x]]]
      | _ => flat_map (fun sg => match sg with
                                 | s :: ss => [[x] :: s :: ss; (x :: s) :: ss]
                                 | [] => [[[x]]]
                                 end) (segmentations r)
      end
  end.

Definition SEP : Z := -7.
Definition SAME : Z := -8.
Definition DIFF : Z := -9.

Fixpoint list_eqb (a b : list Z) : bool :=
  match a, b with
  | [], [] => true
  | x :: a', y :: b' => (x =? y) && list_eqb a' b'
  | _, _ => false
  end.


(* Codec: SAME followed by the frames and final status when the segments are fed one by one, if
   feeding the whole stream at once gives the identical result; otherwise DIFF, the segmented
   result, a separator, the whole-stream result.
   Send: the bytes emitted, then how the run ended. *)
Definition run (c : case) : list Z :=
  match c with
  | Codec mms msl segs =>
      let o := mk_cfg mms msl in
      let a := render (feed_all o segs) in
      let b := render (drain_all o (concat segs)) in
      if list_eqb a b then SAME :: a else DIFF :: a ++ [SEP] ++ b
  | CodecAll mms msl stream =>
      (* the whole-stream result, then how many segmentations were tried and how many of them gave
         a different result *)
      let o := mk_cfg mms msl in
      let ref := render (drain_all o stream) in
      let results := map (fun sg => render (feed_all o sg)) (segmentations stream) in
      ref ++ [SEP; Z.of_nat (length results);
              Z.of_nat (length (filter (fun r => negb (list_eqb r ref)) results))]
  | Send mc msgs ks => sb_run (sb_fuel msgs ks) (sb_init mc) msgs ks
  end.

Fixpoint is_prefix (a b : list Z) : bool :=
  match a, b with
  | [], _ => true
  | x :: a', y :: b' => (x =? y) && is_prefix a' b'
  | _, _ => false
  end.

Definition all_chunks (msgs : list (list (list Z))) : list Z := concat (concat msgs).

(* write() refuses a message with more chunks than the limit (the connection then closes): the
   messages before the first such message are the ones the buffer accepted *)
Definition over_limit (mc : Z) (m : list (list Z)) : bool := (0 <? mc) && (mc <? Z.of_nat (length m)).
Fixpoint accepted (mc : Z) (msgs : list (list (list Z))) : list (list (list Z)) * bool :=
  match msgs with
  | [] => ([], false)
  | m :: r => if over_limit mc m then ([], true)
              else let '(a, refused) := accepted mc r in (m :: a, refused)
  end.

(* the property.
   Codec: what the receiver got from the segmented stream is identical to what it gets from the
   whole stream fed at once (both are the IMPLEMENTATION's results, compared by the harness, which
   reports SAME or DIFF with both; that the results are the model's framing is the job of the
   correspondence check [run c = out]).
   Send: the emitted bytes are a prefix of the concatenation, in order, of the secured chunks of
   the accepted messages; the whole of it when the run went idle or stopped at a refused message;
   the only other ending is the writer schedule running out. *)
Definition oracle (c : case) (out : list Z) : bool :=
  match c with
  | Codec mms msl segs => match out with x :: _ => x =? SAME | [] => false end
  | CodecAll mms msl stream =>
      (* at least one segmentation was tried and none gave a result different from the whole stream's *)
      (last out 1 =? 0) && (0 <? last (removelast out) 0)
  | Send mc msgs ks =>
      let body := removelast out in
      let fin := last out 0 in
      let '(acc, refused) := accepted mc msgs in
      if fin =? END_IDLE then negb refused && list_eqb body (all_chunks acc)
      else if fin =? E_TOO_MANY_CHUNKS then refused && list_eqb body (all_chunks acc)
      else if fin =? END_WRITES then is_prefix body (all_chunks acc)
      else false
  end.

Definition known (c : case) : Z := 0.

Definition is_byte (x : Z) : bool := (0 <=? x) && (x <=? 255).
Definition bytes_ok (l : list Z) : bool := forallb is_byte l.

Definition valid (c : case) : Prop :=
  match c with
  | Codec mms msl segs => 0 <= mms /\ 0 <= msl /\ forallb bytes_ok segs = true
  | CodecAll mms msl stream => 0 <= mms /\ 0 <= msl /\ bytes_ok stream = true
  | Send mc msgs ks => True
  end.
