(* C41 — Saved configurations load back unchanged.  Statements only.

   Level: proof of the value <-> serde data-model tree mapping of the DERIVED impls, generic in the
   schema, instantiated with the schema extracted from the source on every run; serde_yaml's text
   layer is an oracle tied in by the correspondence run (real save -> file -> load).  Partial in
   that sense.  `is_valid` is modelled (C41/Valid.v) and compared with the real one on every case. *)
From Coq Require Import List ZArith Bool String.
Import ListNotations.
From OV Require Import C41.Schema Gen.C41Schema C41.SchemaProofs C41.Erase C41.Model C41.Proofs.
Open Scope list_scope.
Open Scope Z_scope.

(* For ANY schema that meets the obligations [schema_ok] (keys distinct, skip_serializing_if and skip
   only on Option fields, fields with a default function always written, no Option<Option<_>>, every
   written type described): the derived reader inverts the derived writer on every well-formed value
   whose skipped fields hold their default — structs, maps, sets, vectors, options nested to any depth. *)
Theorem C41_generic_roundtrip : forall sch, schema_ok sch = true ->
  forall fuel t v y, ty_ok t = true -> wt sch true fuel t v = true ->
  ser sch fuel t v = Some y -> de sch fuel t y = Some v.
Proof. exact roundtrip. Qed.
Print Assumptions C41_generic_roundtrip.

(* ... and every well-formed value (paths valid UTF-8) is written without an error *)
Theorem C41_generic_writes : forall sch, schema_ok sch = true ->
  forall strict fuel t v, wt sch strict fuel t v = true -> no_opaque t = true ->
  exists y, ser sch fuel t v = Some y.
Proof. exact ser_total. Qed.
Print Assumptions C41_generic_writes.

(* ... and for EVERY well-formed value, also one whose #[serde(skip)] fields are filled: the reader
   applied to the written tree returns the value with exactly the skipped fields reset to None, at any
   depth ([erase]); a value whose skipped fields are at their default is its own erasure *)
Theorem C41_generic_reload_erases : forall sch, schema_ok sch = true ->
  forall fuel t v y, ty_ok t = true -> wt sch false fuel t v = true ->
  ser sch fuel t v = Some y -> de sch fuel t y = Some (erase sch fuel t v).
Proof. exact reload_is_erase. Qed.
Print Assumptions C41_generic_reload_erases.
Theorem C41_erase_of_default_is_identity : forall sch fuel t v,
  wt sch true fuel t v = true -> erase sch fuel t v = v.
Proof. exact erase_strict. Qed.
Print Assumptions C41_erase_of_default_is_identity.

(* obligations on the schema of client/config.rs + server/config.rs as it is in the repository now *)
Theorem C41_schema_obligations :
  schema_ok cfg_schema = true /\
  skipped_fields cfg_schema = [("S.ServerUserToken"%string, "thumbprint"%string)] /\
  skipped_read_by_is_valid = [] /\
  default_fields = [("C.ClientEndpoint"%string, "user_token_id"%string)] /\
  (lookup cfg_schema root_client <> None /\ lookup cfg_schema root_server <> None) /\
  (save_load_use_serde_yaml = true /\ save_refuses_invalid = true).
Proof.
  exact (conj gen_schema_ok (conj gen_skipped (conj gen_isvalid_reads_no_skipped_field
         (conj gen_default_fields (conj gen_roots gen_save_load))))).
Qed.
Print Assumptions C41_schema_obligations.

(* client and server configurations: written, then read back *)
Theorem C41_save_load_roundtrip : forall c, wt cfg_schema true FUEL (root c) (c_val c) = true ->
  exists y, ser cfg_schema FUEL (root c) (c_val c) = Some y /\ de cfg_schema FUEL (root c) y = Some (c_val c).
Proof. exact save_load_roundtrip. Qed.
Print Assumptions C41_save_load_roundtrip.

(* any well-formed client or server configuration (thumbprint caches filled or not) is written, and
   what is read back is the configuration with the caches cleared: known finding 1, completely *)
Theorem C41_save_load_erases : forall c, wt cfg_schema false FUEL (root c) (c_val c) = true ->
  exists y, ser cfg_schema FUEL (root c) (c_val c) = Some y /\
            de cfg_schema FUEL (root c) y = Some (erase cfg_schema FUEL (root c) (c_val c)).
Proof. exact save_load_erases. Qed.
Print Assumptions C41_save_load_erases.

(* "... and is still valid": is_valid, as modelled in C41/Valid.v from ClientConfig::is_valid,
   ServerConfig::is_valid and the token / endpoint / security-policy / security-mode functions they
   call, says of the configuration read back from the file what it said of the original *)
Theorem C41_loaded_still_valid : forall c y v', wt cfg_schema true FUEL (root c) (c_val c) = true ->
  ser cfg_schema FUEL (root c) (c_val c) = Some y -> de cfg_schema FUEL (root c) y = Some v' ->
  is_valid_m (c_kind c) v' = is_valid_m (c_kind c) (c_val c).
Proof. exact loaded_still_valid. Qed.
Print Assumptions C41_loaded_still_valid.

Theorem C41_oracle : forall c, valid c -> known c = 0 -> oracle c (run c) = true.
Proof. exact oracle_holds. Qed.
Print Assumptions C41_oracle.

(* saving never panics, whatever the configuration holds (the oracle rejects a panic for every case) *)
Theorem C41_never_panics : forall c, run c <> [-2].
Proof. exact never_panics. Qed.
Print Assumptions C41_never_panics.

(* known finding: a filled thumbprint cache (the one skipped field) does not survive *)
Theorem C41_known_1_refuted : exists c, known c = 1 /\ valid c /\ oracle c (run c) = false.
Proof. exact known_1_refuted. Qed.
Print Assumptions C41_known_1_refuted.

(* repaired: save() unwrapped the serialiser's error for a path that is not valid UTF-8 *)
Theorem C41_legacy_refuted_badpath :
  Legacy.run w_badpath = [-2] /\ run_with false w_badpath = [-1] /\ save_unwraps_serializer = false.
Proof. exact (conj (proj1 badpath_runs) (conj (proj2 badpath_runs) eq_refl)). Qed.
Print Assumptions C41_legacy_refuted_badpath.

Example C41_example :
  let c := mk_case 1 (server0 (s "pki: #~") (VO None)) true in valid c /\ known c = 0 /\ oracle c (run c) = true.
Proof. exact oracle_hypotheses_satisfiable. Qed.
