#!/usr/bin/env python3
"""C38 translator: extract the lock-acquisition graph of the server from the source.

For every function in lib/src/{server,core} (and the client code the server calls for discovery
registration) it finds the `trace_lock!` / `trace_read_lock!` / `trace_write_lock!` sites, the
scope during which each guard is held (named `let` guard: to the end of the enclosing block or an
explicit `drop(name)`; temporary: to the end of the statement, or of the whole `if let` / `match` /
`while let` / `for` construct when it is in the scrutinee), the locks acquired directly while other
locks are held, and the calls made while locks are held.  Calls are resolved by name (with the
receiver type when it is `self.` or `Type::`), function summaries (locks a call may acquire) are
closed over the call graph to a fixed point, and the result is the set of edges
(held class -> acquired class), each with one witness site, written to coq/Gen/C38Edges.v together
with a candidate rank (a topological order, if one exists).

`--dump` prints the edges with their witness sites."""
import os, re, sys, json
REPO = os.environ.get("VERIF_REPO", "/repo")
V = os.path.dirname(os.path.dirname(os.path.dirname(os.path.abspath(__file__))))
SRC = os.path.join(REPO, "lib/src")

# lock classes: by the last path component of the locked expression (with a few special cases)
CLASS_BY_NAME = {
    "server_state": "ServerState", "state": "ServerState",
    "session": "Session", "session_manager": "SessionManager", "address_space": "AddressSpace",
    "config": "ServerConfig", "secure_channel": "SecureChannel", "transport": "TcpTransport",
    "certificate_store": "CertificateStore", "connections": "Connections", "connection": "TcpTransport",
    "server": "Server", "server_metrics": "ServerMetrics", "diagnostics": "ServerDiagnostics",
    "session_diagnostics": "SessionDiagnostics", "send_buffer": "MessageWriter", "audit_log": "AuditLog",
    "running_components": "RunningComponents", "last_registered": "LastRegistered",
    "subscription_state": "ClientSubscriptionState", "runtime_components": "RunningComponents",
}
CLASSES = []


def strip(src):
    """blank out comments, string and char literals, keeping offsets and newlines"""
    out = list(src); i = 0; n = len(src)
    def blank(a, b):
        for k in range(a, b):
            if out[k] != "\n": out[k] = " "
    while i < n:
        c = src[i]
        if src.startswith("//", i):
            j = src.find("\n", i); j = n if j < 0 else j
            blank(i, j); i = j
        elif src.startswith("/*", i):
            d = 1; j = i + 2
            while j < n and d:
                if src.startswith("/*", j): d += 1; j += 2
                elif src.startswith("*/", j): d -= 1; j += 2
                else: j += 1
            blank(i, j); i = j
        elif c == '"':
            j = i + 1
            while j < n and src[j] != '"':
                j += 2 if src[j] == "\\" else 1
            blank(i + 1, j); i = j + 1
        elif c == "r" and re.match(r'r#*"', src[i:i + 6]) and (i == 0 or not (src[i - 1].isalnum() or src[i - 1] == "_")):
            m = re.match(r'r(#*)"', src[i:])
            end = src.find('"' + m.group(1), i + len(m.group(0)))
            end = n if end < 0 else end + 1 + len(m.group(1))
            blank(i, end); i = end
        elif c == "'":
            m = re.match(r"'(\\.[^']*|[^'\\])'", src[i:])
            if m: blank(i + 1, i + len(m.group(0)) - 1); i += len(m.group(0))
            else: i += 1
        else:
            i += 1
    return "".join(out)


def match_close(s, i, op, cl):
    d = 0
    while i < len(s):
        if s[i] == op: d += 1
        elif s[i] == cl:
            d -= 1
            if d == 0: return i
        i += 1
    return len(s) - 1


def split_args(t):
    """split a parenthesised argument / parameter text at top-level commas"""
    out, d, cur = [], 0, ""
    for ch in t:
        if ch in "([{<": d += 1
        elif ch in ")]}>": d = max(0, d - 1)
        if ch == "," and d == 0:
            out.append(cur); cur = ""
        else:
            cur += ch
    if cur.strip(): out.append(cur)
    return [x for x in out if x.strip()]


def lock_class(expr):
    e = expr.strip().lstrip("&").strip()
    e = re.sub(r"\s+", "", e)
    last = re.split(r"\.|::", e)[-1]
    last = re.sub(r"\(\)$", "", last)
    if e.endswith(".diagnostics") and "session" in e: return "SessionDiagnostics"
    if e.endswith("subscription.diagnostics"): return "SubscriptionDiagnostics"
    if last in CLASS_BY_NAME: return CLASS_BY_NAME[last]
    if e in ("s.1", "c", "s", "v", "st.session"):   # iteration variables over session / connection maps
        return {"c": "TcpTransport", "s.1": "Session", "s": "Session", "st.session": "Session", "v": "Session"}[e]
    return "Other_" + re.sub(r"\W", "_", last)


class Fn:
    def __init__(self, name, owner, file, line, body_start, body_end):
        self.name, self.owner, self.file, self.line = name, owner, file, line
        self.a, self.b = body_start, body_end
        self.direct = []     # (held frozenset, acquired class, line)
        self.calls = []      # (held frozenset, callee name, receiver kind, receiver type, line)
        self.acq = set()     # summary: classes this function may acquire (transitively)
        self.rtexts = {}     # call index -> source text just before the call (receiver chain)


def parse_file(path, rel):
    raw = open(path, encoding="utf-8", errors="replace").read()
    s = strip(raw)
    fns = []
    # impl blocks: owner type for functions inside
    impls = []
    for m in re.finditer(r"\bimpl\b(?:\s*<[^>{]*>)?\s+(?:[\w:<>,\s'&]+?\s+for\s+)?([A-Za-z_]\w*)", s):
        ob = s.find("{", m.end())
        if ob < 0: continue
        impls.append((ob, match_close(s, ob, "{", "}"), m.group(1)))
    for m in re.finditer(r"\bfn\s+([A-Za-z_]\w*)\s*(?:<[^>(]*>)?\s*\(", s):
        pc = match_close(s, m.end() - 1, "(", ")")
        j = pc + 1
        # find body start '{' before a ';' (trait method declarations have none)
        depth = 0
        while j < len(s) and not (s[j] in "{;" and depth == 0):
            if s[j] in "<(": depth += 1
            elif s[j] in ">)": depth = max(0, depth - 1)
            j += 1
        if j >= len(s) or s[j] == ";": continue
        be = match_close(s, j, "{", "}")
        owner = None
        for (a, b, t) in impls:
            if a < m.start() < b: owner = t
        fobj = Fn(m.group(1), owner, rel, s.count("\n", 0, m.start()) + 1, j, be)
        params = split_args(s[m.end():pc])
        fobj.has_self = bool(params) and re.match(r"\s*(&\s*('\w+\s+)?)?(mut\s+)?self\b", params[0]) is not None
        fobj.arity = len(params) - (1 if fobj.has_self else 0)
        fns.append(fobj)
    # skip #[cfg(test)] modules
    tests = [(mm.start(), match_close(s, s.find("{", mm.end()), "{", "}")) for mm in re.finditer(r"#\[cfg\(test\)\]\s*(?:pub\s+)?mod\s+\w+\s*", s) if s.find("{", mm.end()) >= 0]
    fns = [f for f in fns if not any(a <= f.a <= b for a, b in tests)]
    return s, fns


KEYWORDS = {"if", "match", "while", "for", "loop", "return", "let", "else", "fn", "move", "async", "unsafe", "in", "as", "Some", "Ok", "Err", "None", "Box", "Arc", "Vec", "String"}
MACRO = re.compile(r"\btrace_(?:read_|write_)?lock!\s*\(")


def analyse(s, f, inner_ranges):
    """walk the body of f; inner_ranges: nested fn bodies to skip"""
    i = f.a + 1
    end = f.b
    # scope stack: each entry is list of held items (class, guardname or None, kind)
    scopes = [[]]
    temps = []          # (class, release_pos)
    stmt_start = i
    def held():
        h = [c for sc in scopes for (c, g) in sc] + [c for (c, rp) in temps]
        return frozenset(h)
    while i < end:
        skip = next((b for (a, b) in inner_ranges if a <= i <= b), None)
        if skip is not None:
            i = skip + 1; continue
        temps[:] = [(c, rp) for (c, rp) in temps if i < rp]
        ch = s[i]
        if ch == "{":
            scopes.append([]); i += 1; stmt_start = i; continue
        if ch == "}":
            if len(scopes) > 1: scopes.pop()
            i += 1; stmt_start = i; continue
        if ch == ";":
            i += 1; stmt_start = i; continue
        m = MACRO.match(s, i)
        if m:
            pc = match_close(s, m.end() - 1, "(", ")")
            cls = lock_class(s[m.end():pc])
            line = s.count("\n", 0, i) + 1
            f.direct.append((held(), cls, line))
            # named guard?  `let [mut] name = trace_lock!(..);`
            pre = s[stmt_start:i]
            after = s[pc + 1:pc + 40].lstrip()
            mlet = re.match(r"\s*let\s+(?:mut\s+)?([A-Za-z_]\w*)\s*(?::[^=]+)?=\s*$", pre)
            if mlet and after.startswith(";"):
                scopes[-1].append((cls, mlet.group(1)))
            else:
                # temporary: to the end of the statement, or of the construct whose head it is in
                head = re.match(r"\s*(?:let\s+[^=]+=\s*)?(if|match|while|for)\b", pre)
                j = pc + 1; d = 0; rel = None
                while j < end:
                    c2 = s[j]
                    if c2 in "([": d += 1
                    elif c2 in ")]":
                        if d == 0: rel = j; break      # end of an enclosing argument list
                        d -= 1
                    elif c2 == ";" and d == 0: rel = j; break
                    elif c2 == "{" and d == 0:
                        k = match_close(s, j, "{", "}")
                        if head:
                            # the temporary lives through the block(s) of the construct
                            j = k + 1
                            while re.match(r"\s*else\b", s[j:j + 12]):
                                nb = s.find("{", j); j = match_close(s, nb, "{", "}") + 1
                            rel = j; break
                        j = k
                    elif c2 == "}" and d == 0: rel = j; break
                    j += 1
                temps.append((cls, rel if rel is not None else end))
            i = pc + 1; continue
        m = re.match(r"drop\s*\(\s*([A-Za-z_]\w*)\s*\)", s[i:i + 60]) if ch == "d" and not (s[i - 1].isalnum() or s[i - 1] in "_.") else None
        if m:
            g = m.group(1)
            for sc in scopes:
                sc[:] = [(c, n) for (c, n) in sc if n != g]
            i += len(m.group(0)); continue
        m = re.match(r"([A-Za-z_]\w*)\s*(?:::<[^>]*>)?\s*\(", s[i:i + 120]) if (ch.isalpha() or ch == "_") and not (s[i - 1].isalnum() or s[i - 1] == "_") else None
        if m:
            name = m.group(1)
            if name not in KEYWORDS and not s[i + len(name):i + len(name) + 1] == "!":
                before = s[max(f.a, i - 60):i]
                rk, rt = "free", None
                mb = re.search(r"([A-Za-z_]\w*)\s*::\s*$", before)
                if mb: rk, rt = "type", mb.group(1)
                elif re.search(r"\bself\s*\.\s*$", before): rk = "self"
                elif re.search(r"\.\s*$", before):
                    rk = "method"
                    mr = re.search(r"([A-Za-z_]\w*)\s*(?:\(\s*\))?\s*\.\s*$", before)
                    rt = mr.group(1) if mr else None
                line = s.count("\n", 0, i) + 1
                if name in ("spawn", "spawn_blocking", "spawn_local"):
                    # the spawned closure runs in another task: its locks are not nested in ours
                    pc = match_close(s, i + len(m.group(0)) - 1, "(", ")")
                    sub = Fn(f.name + "$spawn", f.owner, f.file, line, i + len(m.group(0)) - 1, pc)
                    f.spawned.append(sub)
                    i = pc + 1; continue
                apc = match_close(s, i + len(m.group(0)) - 1, "(", ")")
                nargs = len(split_args(s[i + len(m.group(0)):apc].replace("->", "  ").replace("=>", "  ")))
                f.calls.append((held(), name, rk, rt, line, nargs))
                f.rtexts[len(f.calls) - 1] = before[-70:]
            i += len(name); continue
        i += 1


STOP = {"new", "default", "clone", "from", "into", "len", "get", "insert", "remove", "iter", "push", "contains",
        "is_empty", "as_ref", "to_string", "unwrap", "map", "ok", "err", "next", "collect", "filter", "clear",
        "read", "write", "lock", "send", "drop", "take", "extend", "eq", "fmt", "hash", "cmp", "try_from", "as_str",
        "find", "any", "all", "first", "last", "pop", "append", "retain", "entry", "keys", "values", "encode", "decode",
        "byte_len", "name", "id", "value", "set", "is_null", "is_good", "is_bad", "now", "poll", "run", "build", "abort"}


def main():
    files = []
    for sub in ("server", "core"):
        for root, dirs, fs in os.walk(os.path.join(SRC, sub)):
            if "/tests" in root or root.endswith("tests") or "generated" in root: continue
            for x in fs:
                if x.endswith(".rs"): files.append(os.path.join(root, x))
    allf = []
    texts = {}
    for p in sorted(files):
        rel = os.path.relpath(p, SRC)
        s, fns = parse_file(p, rel)
        texts[rel] = s
        for f in fns: f.spawned = []
        # nested fn bodies are analysed on their own
        for f in fns:
            inner = [(g.a, g.b) for g in fns if g is not f and f.a < g.a and g.b < f.b]
            analyse(s, f, inner)
        allf += fns
        k = 0
        while k < len(allf):
            for sub in allf[k].spawned:
                if not hasattr(sub, "spawned"): sub.spawned = []
                if sub not in allf:
                    analyse(texts[sub.file], sub, [])
                    allf.append(sub)
            k += 1
    byname = {}
    for f in allf:
        byname.setdefault(f.name, []).append(f)

    def resolve(f, name, rk, rt, nargs=None):
        c = byname.get(name, [])
        if nargs is not None:
            # a call through `Type::f(x, ..)` may pass self explicitly
            c = [g for g in c if getattr(g, "arity", nargs) == nargs or (rk == "type" and getattr(g, "has_self", False) and g.arity + 1 == nargs)]
        if not c: return []
        if rk == "self":
            own = [g for g in c if g.owner == f.owner]
            return own if own else ([] if name in STOP else c)
        if rk == "type":
            own = [g for g in c if g.owner == rt]
            if own: return own
            if rt == "Self": return [g for g in c if g.owner == f.owner]
            return [] if (name in STOP or rt[0].isupper()) else c
        if rk == "free":
            return [g for g in c if g.owner is None]
        if rt:
            # receiver variable named after a type (`session_manager.f()`, `config.f()`): prefer that type
            def snake(t): return re.sub(r"(?<!^)(?=[A-Z])", "_", t).lower()
            own = [g for g in c if g.owner and (snake(g.owner) == rt or snake(g.owner).endswith("_" + rt))]
            if own: return own
        return [] if name in STOP else c

    # summaries to a fixed point
    for f in allf:
        f.acq = set(c for (_, c, _) in f.direct)
    changed = True
    while changed:
        changed = False
        for f in allf:
            for (h, name, rk, rt, line, nargs) in f.calls:
                for g in resolve(f, name, rk, rt, nargs):
                    if g is f: continue
                    new = g.acq - f.acq
                    if new: f.acq |= new; changed = True
    # edges carry the function in which the acquisition (or the call that leads to it) happens
    edges = {}
    def add(a, b, fn, site):
        edges.setdefault((a, b, fn), site)
    for f in allf:
        fq = "%s::%s" % (f.owner, f.name) if f.owner else f.name
        for (h, c, line) in f.direct:
            for x in h: add(x, c, fq, "%s:%d (direct)" % (f.file, line))
        for (h, name, rk, rt, line, nargs) in f.calls:
            if not h: continue
            for g in resolve(f, name, rk, rt, nargs):
                if g is f: continue
                for c in g.acq:
                    for x in h: add(x, c, fq, "%s:%d -> %s::%s" % (f.file, line, g.owner, g.name))
    # Drop impls that lock: a value of that type removed from a container (or overwritten) while locks
    # are held acquires the Drop impl's locks at that point
    DROPPERS = {"remove", "clear", "retain", "drain", "pop", "pop_front", "pop_back", "truncate", "take", "insert", "drop", "delete_subscription"}
    drops = {}
    for f in allf:
        if f.name == "drop" and f.owner and f.acq:
            drops[f.owner] = set(f.acq)
    def snake(t): return re.sub(r"(?<!^)(?=[A-Z])", "_", t).lower()
    for f in allf:
        fq = "%s::%s" % (f.owner, f.name) if f.owner else f.name
        for k, (h, name, rk, rt, line, nargs) in enumerate(f.calls):
            if not h or name not in DROPPERS: continue
            txt = f.rtexts.get(k, "")
            for T, acq in drops.items():
                if snake(T) in txt:
                    for c in acq:
                        for x in h: add(x, c, fq, "%s:%d drop of %s" % (f.file, line, T))
    # lock sites: (file, line) -> class, for the dynamic recorder
    sites = {}
    for f in allf:
        for (h, c, line) in f.direct:
            sites["%s:%d" % (f.file, line)] = c
    excused = json.load(open(os.path.join(V, "coq", "C38", "excused.json")))
    # an exception of kind "read-only" is valid only while no site write-locks (or mutex-locks) that class
    wlocked = set()
    for rel, txt in texts.items():
        for mm in re.finditer(r"\btrace_(write_)?lock!\s*\(", txt):
            pc2 = match_close(txt, mm.end() - 1, "(", ")")
            wlocked.add(lock_class(txt[mm.end():pc2]))
    for e in excused:
        if e.get("kind") == "read-only" and (e["held"] in wlocked or e["acquired"] in wlocked):
            print("c38_locks: exception for %s in %s is no longer valid: the class is write-locked somewhere" % (e["held"], e["function"]))
            excused = [x for x in excused if x is not e]
    exc = set((e["held"], e["acquired"], e["function"]) for e in excused)
    classes = sorted(set(a for a, b, fn in edges) | set(b for a, b, fn in edges) | set(c for f in allf for c in f.acq))
    idx = {c: i + 1 for i, c in enumerate(classes)}
    live = set((a, b) for (a, b, fn) in edges if (a, b, fn) not in exc)
    # candidate rank: Kahn topological order on the edges that are not excused
    succ = {c: set() for c in classes}; indeg = {c: 0 for c in classes}
    for (a, b) in live:
        if a != b and b not in succ[a]:
            succ[a].add(b); indeg[b] += 1
    rank = {}; ready = sorted(c for c in classes if indeg[c] == 0); r = 1
    while ready:
        c = ready.pop(0); rank[c] = r; r += 1
        for d in sorted(succ[c]):
            indeg[d] -= 1
            if indeg[d] == 0: ready.append(d)
        ready.sort()
    for c in classes:
        rank.setdefault(c, 0)           # on a cycle: no rank
    if "--dump" in sys.argv:
        for (a, b, fn), site in sorted(edges.items()):
            bad = (a, b, fn) not in exc and (a == b or rank[a] == 0 or rank[b] == 0 or rank[a] >= rank[b])
            print("%s %-20s -> %-22s %-40s %s" % ("EXC" if (a, b, fn) in exc else ("BAD" if bad else "   "), a, b, fn, site))
        print("classes:", classes)
        print("unranked (on a cycle):", [c for c in classes if rank[c] == 0])
        print("unused excuses:", sorted(exc - set(edges)))
        return
    fnames = sorted(set(fn for (a, b, fn) in edges))
    fidx = {f: i + 1 for i, f in enumerate(fnames)}
    out = "(* GENERATED by tools/translate/c38_locks.py from lib/src/{server,core} and coq/C38/excused.json — do not edit *)\n"
    out += "From Coq Require Import List ZArith String.\nImport ListNotations.\nOpen Scope Z_scope.\n\n"
    out += "(* lock classes *)\n"
    out += "Definition class_names : list (Z * string) := [\n%s\n].\n\n" % ";\n".join('  (%d, "%s"%%string)' % (idx[c], c) for c in classes)
    out += "(* (held, acquired, function): in [function] a lock of class [acquired] is acquired — directly or by a call — while one of class [held] is held *)\n"
    out += "Definition edges : list (Z * Z * Z) := [\n%s\n].\n\n" % ";\n".join("  (%d, %d, %d)  (* %s -> %s in %s : %s *)" % (idx[a], idx[b], fidx[fn], a, b, fn, site.replace("*)", "* )")) for (a, b, fn), site in sorted(edges.items()))
    out += "(* the audited exceptions of coq/C38/excused.json that match an edge above *)\n"
    out += "Definition excused : list (Z * Z * Z) := [\n%s\n].\n\n" % ";\n".join("  (%d, %d, %d)" % (idx[a], idx[b], fidx[fn]) for (a, b, fn) in sorted(exc) if (a, b, fn) in edges)
    out += "(* candidate rank (topological order of the non-excused edges computed by the translator; 0 = none) *)\n"
    out += "Definition rank (c : Z) : Z :=\n  match c with\n%s  | _ => 0\n  end.\n" % "".join("  | %d => %d\n" % (idx[c], rank[c]) for c in classes)
    path = os.path.join(V, "coq/Gen/C38Edges.v")
    os.makedirs(os.path.dirname(path), exist_ok=True)
    try: old = open(path).read()
    except FileNotFoundError: old = None
    if old != out: open(path, "w").write(out)
    os.makedirs(os.path.join(V, ".cache"), exist_ok=True)
    json.dump({"classes": idx, "sites": sites, "functions": fidx,
               "edges": [[a, b, fn, s2] for (a, b, fn), s2 in sorted(edges.items())]},
              open(os.path.join(V, ".cache", "c38_sites.json"), "w"))
    nbad = sum(1 for (a, b, fn) in edges if (a, b, fn) not in exc and (a == b or rank[a] == 0 or rank[b] == 0 or rank[a] >= rank[b]))
    for (a, b, fn), site in sorted(edges.items()):
        if (a, b, fn) not in exc and (a == b or rank[a] == 0 or rank[b] == 0 or rank[a] >= rank[b]):
            print("c38_locks: NOT ORDERED: %s -> %s in %s (%s)" % (a, b, fn, site))
    print("c38_locks: %d functions, %d lock sites, %d classes, %d edges (%d excused), %d not ordered" % (
        len(allf), sum(len(f.direct) for f in allf), len(classes), len(edges), len(exc & set(edges)), nbad))


if __name__ == "__main__":
    main()
