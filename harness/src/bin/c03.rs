//! C03: decoding limits.  Values with lengths around the configured limits through the real
//! encoder + decoder; raw length fields (negative, i32::MAX, limit +- 1) in 20 nesting contexts;
//! chunk headers with declared sizes around max_message_size.
#[path = "../util.rs"]
mod util;
#[path = "../codec_common.rs"]
mod cc;
use cc::*;
use opcua::core::comms::message_chunk::MessageChunk;
use opcua::types::*;
use std::io::Cursor;
use util::*;

pub enum Case {
    Val { t: Ty, v: UVal, o: HOpts },
    Len { ctx: u8, l: i32, o: HOpts, payload: Vec<u8> },
    Chunk { o: HOpts, size: u32, body: Vec<u8> },
    /// the length field of a Variant array of element type `ety` (any mask 0..63), nested per `nest`
    VArr { nest: u8, ety: u8, dims: bool, l: i32, o: HOpts, payload: Vec<u8> },
}
pub struct P;

/// (prefix, decoder, limit: 0 string 1 byte string 2 array, bytes per item) — mirrors ctx_spec in coq/C03/Model.v
fn ctx_spec(ctx: u8) -> (Vec<u8>, Ty, u8, usize) {
    let arr = |t: Ty| Ty::Arr(Box::new(t));
    match ctx {
        1 => (vec![], Ty::S(12), 0, 1),
        2 => (vec![], Ty::S(15), 1, 1),
        3 => (vec![12], Ty::Var, 0, 1),
        4 => (vec![15], Ty::Var, 1, 1),
        5 => (vec![], arr(Ty::S(6)), 2, 4),
        6 => (vec![134], Ty::Var, 2, 4),
        7 => (vec![198, 1, 0, 0, 0, 7, 0, 0, 0], Ty::Var, 2, 4),
        8 => (vec![1, 0, 0, 0], arr(Ty::S(12)), 0, 1),
        9 => (vec![3, 0, 0], Ty::S(17), 0, 1),
        10 => (vec![1, 12], Ty::DV, 0, 1),
        11 => (vec![0, 0, 2], Ty::S(22), 0, 1),
        12 => (vec![0, 0, 1], Ty::S(22), 1, 1),
        13 => (vec![2], Ty::S(21), 0, 1),
        14 => (vec![0, 0], Ty::S(20), 0, 1),
        15 => (vec![16], Ty::S(25), 0, 1),
        16 => (vec![128, 0], Ty::S(18), 0, 1),
        17 => (vec![140, 1, 0, 0, 0], Ty::Var, 0, 1),
        18 => (vec![24, 23, 1, 143, 1, 0, 0, 0], Ty::Var, 1, 1),
        19 => (vec![5, 0, 0], Ty::S(17), 1, 1),
        21 => (vec![], Ty::S(16), 0, 1),
        22 => (vec![1], Ty::S(21), 0, 1),
        23 => (vec![16], Ty::Var, 0, 1),
        _ => (vec![], arr(Ty::Var), 2, 1),
    }
}
const NCTX: u8 = 23;

fn limit_of(o: &HOpts, which: u8) -> i64 { match which { 0 => o.max_str, 1 => o.max_bstr, _ => o.max_arr } }
fn set_limit(o: &mut HOpts, which: u8, v: i64) { match which { 0 => o.max_str = v, 1 => o.max_bstr = v, _ => o.max_arr = v } }

/// The limit under test gets `lim`; the other two limits get values different from it and from each
/// other, above or below, so that a check against the wrong limit gives a different verdict.
fn distinct_opts(r: &mut Rng, which: u8, lim: i64) -> HOpts {
    let mut o = HOpts::default();
    set_limit(&mut o, which, lim);
    let mut used = vec![lim];
    for other in 0..3u8 {
        if other == which { continue; }
        loop {
            let v = if r.chance(1, 2) || lim == 0 { lim + 1 + r.below(6) as i64 } else { (lim - 1 - r.below(4) as i64).max(0) };
            if !used.contains(&v) || (lim <= 1 && v == 0 && used.len() > 2) { used.push(v); set_limit(&mut o, other, v); break; }
        }
    }
    o
}
/// bytes before the Variant mask byte and the decoder, per nesting — mirrors nest_spec in coq/C03/Model.v
fn nest_prefix(nest: u8) -> Vec<u8> {
    match nest { 1 => vec![1], 2 => vec![24], 3 => vec![23, 1], 4 => vec![0, 0, 13, 0, 0, 0, 255, 255, 255, 255, 1], _ => vec![] }
}
/// n real elements of a Variant array with element mask ety (random bytes for an invalid type)
fn varr_elements(r: &mut Rng, ety: u8, n: usize) -> Vec<u8> {
    let mut out = Vec::new();
    for _ in 0..n {
        match ety {
            24 => { let _ = enc_uval(&UVal::V(g_variant(r, 0, 2)), &mut out); }
            23 => { let _ = enc_uval(&UVal::D(g_datavalue(r, 0, 2)), &mut out); }
            1..=22 | 25 => { let _ = enc_scalar(&g_scalar(r, ety, 0, 2), &mut out); }
            _ => out.push(r.next() as u8),
        }
    }
    out
}
fn varr_case(r: &mut Rng, nest: u8, ety: u8, dims: bool, l: i32, o: HOpts) -> Case {
    let mut payload = if (1..=12).contains(&l) { varr_elements(r, ety, l as usize) } else { let k = r.below(5) as usize; r.bytes(k) };
    if dims && l > 0 { payload.extend(1i32.to_le_bytes()); payload.extend(l.to_le_bytes()); }
    Case::VArr { nest, ety, dims, l, o, payload }
}
/// a Variant array of element type k with n elements (strings at most smax long), optionally with dimensions
fn typed_array(r: &mut Rng, k: u8, n: usize, dims: u8, smax: usize) -> Variant {
    let values: Vec<Variant> = (0..n).map(|_| g_elem(r, k, 1, smax)).collect();
    let dimensions = match dims { 0 => None, 1 => Some(vec![n as u32]), _ => Some(vec![1, n as u32]) };
    Variant::Array(Box::new(Array { value_type: mask_type(k), values, dimensions }))
}
/// nest a Variant: top level, in a DataValue, in a Variant, in an array of Variants
fn nest_value(r: &mut Rng, v: Variant) -> (Ty, UVal) {
    match r.below(4) {
        0 => (Ty::Var, UVal::V(v)),
        1 => (Ty::DV, UVal::D(DataValue { value: Some(v), status: None, source_timestamp: None, source_picoseconds: None, server_timestamp: None, server_picoseconds: None })),
        2 => (Ty::Var, UVal::V(Variant::Variant(Box::new(v)))),
        _ => (Ty::Arr(Box::new(Ty::Var)), UVal::A(Some(vec![UVal::V(v)]))),
    }
}

/// L well-formed items for the context
fn items(r: &mut Rng, ctx: u8, n: usize) -> Vec<u8> {
    let (_, _, which, item) = ctx_spec(ctx);
    match (ctx, which) {
        (7, _) => (0..n).flat_map(|_| [1u8, 0, 0, 0]).collect(),
        (20, _) => vec![0u8; n],
        (_, 0) => { let mut s = g_string(r, n); while s.len() > n { s.pop(); } while s.len() < n { s.push('a'); } s.into_bytes() }
        _ => r.bytes(n * item),
    }
}

/// lengths of all strings / byte strings / arrays in a value
fn lens_ustr(s: &UAString, acc: &mut [Vec<usize>; 3]) { if let Some(v) = s.value() { acc[0].push(v.len()) } }
fn lens_bstr(s: &ByteString, acc: &mut [Vec<usize>; 3]) { if let Some(v) = &s.value { acc[1].push(v.len()) } }
fn lens_nodeid(n: &NodeId, acc: &mut [Vec<usize>; 3]) {
    match &n.identifier { Identifier::String(s) => lens_ustr(s, acc), Identifier::ByteString(b) => lens_bstr(b, acc), _ => {} }
}
fn lens_diag(d: &DiagnosticInfo, acc: &mut [Vec<usize>; 3]) {
    if let Some(s) = &d.additional_info { lens_ustr(s, acc) }
    if let Some(i) = &d.inner_diagnostic_info { lens_diag(i, acc) }
}
fn lens_variant(v: &Variant, acc: &mut [Vec<usize>; 3]) {
    match v {
        Variant::String(s) | Variant::XmlElement(s) => lens_ustr(s, acc),
        Variant::ByteString(b) => lens_bstr(b, acc),
        Variant::NodeId(n) => lens_nodeid(n, acc),
        Variant::ExpandedNodeId(e) => { lens_nodeid(&e.node_id, acc); lens_ustr(&e.namespace_uri, acc) }
        Variant::QualifiedName(q) => lens_ustr(&q.name, acc),
        Variant::LocalizedText(l) => { lens_ustr(&l.locale, acc); lens_ustr(&l.text, acc) }
        Variant::ExtensionObject(e) => { lens_nodeid(&e.node_id, acc); match &e.body {
            ExtensionObjectEncoding::ByteString(b) => lens_bstr(b, acc), ExtensionObjectEncoding::XmlElement(s) => lens_ustr(s, acc), _ => {} } }
        Variant::DiagnosticInfo(d) => lens_diag(d, acc),
        Variant::Variant(w) => lens_variant(w, acc),
        Variant::DataValue(d) => if let Some(w) = &d.value { lens_variant(w, acc) },
        Variant::Array(a) => {
            if !a.values.is_empty() { acc[2].push(a.values.len()); if let Some(ds) = &a.dimensions { acc[2].push(ds.len()) } }
            for x in &a.values { lens_variant(x, acc) }
        }
        _ => {}
    }
}
fn lens_uval(v: &UVal, acc: &mut [Vec<usize>; 3]) {
    match v {
        UVal::S(x) | UVal::V(x) => lens_variant(x, acc),
        UVal::D(d) => if let Some(w) = &d.value { lens_variant(w, acc) },
        UVal::A(Some(xs)) => { acc[2].push(xs.len()); for x in xs { lens_uval(x, acc) } }
        UVal::A(None) => {}
    }
}

fn len_case(r: &mut Rng, ctx: u8, l: i32, o: HOpts) -> Case {
    // payload: the declared number of well-formed items when that is small, sometimes one short or with extra bytes
    let mut payload = if (0..=48).contains(&l) { items(r, ctx, l as usize) } else { let k = r.below(6) as usize; r.bytes(k) };
    match r.below(6) { 0 => { payload.pop(); } 1 => { let k = 1 + r.below(3) as usize; payload.extend(r.bytes(k)) } _ => {} }
    Case::Len { ctx, l, o, payload }
}

impl Property for P {
    type Case = Case;
    fn fixed(tier: &str) -> Vec<Case> {
        let mut v = Vec::new();
        let mut r = Rng::new(77);
        // every context x {limit-1, limit, limit+1, 0, -1, -2, i32::MIN, i32::MAX} under a tiny limit, plus default / minimal / zero options
        for ctx in 1..=NCTX {
            let which = ctx_spec(ctx).2;
            let mut tiny = HOpts::default(); set_limit(&mut tiny, which, 5);
            if which != 2 { tiny.max_arr = 3; }
            for l in [4, 5, 6, 0, -1, -2, i32::MIN, i32::MAX] {
                let payload = if (0..=48).contains(&l) { items(&mut r, ctx, l as usize) } else { vec![1, 2, 3] };
                v.push(Case::Len { ctx, l, o: tiny.clone(), payload });
            }
            // the same boundary with the other two limits BELOW and ABOVE the one under test (pairwise different)
            let others: [(i64, i64); 2] = [(2, 3), (9, 8)];
            for (a, b) in others {
                let mut o2 = HOpts::default(); set_limit(&mut o2, which, 5);
                let rest: Vec<u8> = (0..3u8).filter(|w| *w != which).collect();
                set_limit(&mut o2, rest[0], a); set_limit(&mut o2, rest[1], b);
                for l in [5, 6] { v.push(Case::Len { ctx, l, o: o2.clone(), payload: items(&mut r, ctx, l as usize) }); }
            }
            for o in [HOpts::default(), HOpts::minimal()] {
                let lim = limit_of(&o, which) as i32;
                for l in [lim - 1, lim, lim + 1] { v.push(Case::Len { ctx, l, o: o.clone(), payload: vec![97, 98] }); }
            }
            let mut zero = HOpts::default(); set_limit(&mut zero, which, 0);
            for l in [0, 1, -1] {
                let payload = if l > 0 { items(&mut r, ctx, l as usize) } else { vec![] };
                v.push(Case::Len { ctx, l, o: zero.clone(), payload });
            }
        }
        // Variant arrays of every element type (also the invalid masks 0, 26, 63), every nesting, with and
        // without the dimensions bit; the three limits pairwise different, in both orders
        for ety in (0u8..=26).chain([63u8]) {
            let nest = ety % 5;
            let dims = ety % 2 == 1;
            for (ms, mb, ma) in [(9i64, 7i64, 3i64), (1, 2, 3), (2, 9, 3)] {
                let o = HOpts { max_str: ms, max_bstr: mb, max_arr: ma, ..HOpts::default() };
                for l in [3, 4] { v.push(varr_case(&mut r, nest, ety, dims, l, o.clone())); }
            }
            let o = HOpts { max_str: 9, max_bstr: 7, max_arr: 3, ..HOpts::default() };
            for l in [0, -1, -2] { v.push(varr_case(&mut r, (nest + 2) % 5, ety, !dims, l, o.clone())); }
        }
        // ... and as values through the real encoder: a legal array must be accepted although the other
        // limits are smaller than its length, one element too many rejected although they are larger
        for k in 1u8..=25 {
            let arr = typed_array(&mut r, k, 3, k % 3, 1);
            for (ms, mb, ma) in [(1i64, 2i64, 3i64), (2, 1, 3), (8, 9, 2), (9, 8, 2)] {
                let (t, uv) = nest_value(&mut r, arr.clone());
                v.push(Case::Val { t, v: uv, o: HOpts { max_str: ms, max_bstr: mb, max_arr: ma, ..HOpts::default() } });
            }
        }
        // chunks: declared size around max_message_size
        for max in [20i64, 12, 100, 327675] {
            for size in [max - 1, max, max + 1, 0, 5, 12, 13, u32::MAX as i64] {
                let o = HOpts { max_msg: max, ..HOpts::default() };
                let n = if size >= 12 && size <= 80 { (size - 12) as usize } else { 4 };
                v.push(Case::Chunk { o: o.clone(), size: size as u32, body: r.bytes(n) });
                v.push(Case::Chunk { o, size: size as u32, body: vec![] });
            }
        }
        for size in [0u32, 12, 40, 4096] { v.push(Case::Chunk { o: HOpts { max_msg: 0, ..HOpts::default() }, size, body: r.bytes(28) }); }
        if tier == "thorough" {
            for ety in (0u8..=26).chain([63u8]) { for nest in 0..5u8 { for dims in [false, true] {
                for (ms, mb, ma) in [(9i64, 7i64, 3i64), (1, 2, 3)] {
                    let o = HOpts { max_str: ms, max_bstr: mb, max_arr: ma, ..HOpts::default() };
                    for l in [2, 3, 4, 0, -1, -2] { v.push(varr_case(&mut r, nest, ety, dims, l, o.clone())); }
                }
            } } }
            for ctx in 1..=NCTX { for lim in 0..=6i64 { for l in -2..=8 {
                let which = ctx_spec(ctx).2;
                let mut o = HOpts::default(); set_limit(&mut o, which, lim); if which != 2 { o.max_arr = 2; }
                let payload = if l >= 0 { items(&mut r, ctx, l as usize) } else { vec![] };
                v.push(Case::Len { ctx, l, o, payload });
            } } }
        }
        v
    }
    fn gen(r: &mut Rng) -> Case {
        match r.below(14) {
            10 | 11 => {
                // the length field of a Variant array of a random element type, nesting and dimensions bit
                let ety = if r.chance(1, 12) { *r.pick(&[0u8, 26, 40, 63]) } else { 1 + r.below(25) as u8 };
                let nest = r.below(5) as u8;
                let lim = r.below(8) as i64;
                let mut o = distinct_opts(r, 2, lim);
                if r.chance(1, 10) { o.max_depth = r.below(2) as i64; }
                let l: i32 = match r.below(10) {
                    0 => lim as i32 - 1, 1 | 2 => lim as i32, 3..=5 => lim as i32 + 1, 6 => -1, 7 => -2 - r.below(3) as i32,
                    8 => *r.pick(&[i32::MIN, i32::MAX, 0x0100_0000]), _ => r.below(lim as u64 + 3) as i32,
                };
                let dims = r.chance(1, 3);
                varr_case(r, nest, ety, dims, l, o)
            }
            12 | 13 => {
                // a Variant array of a random element type as a value, limits around its length, nested
                let k = 1 + r.below(25) as u8;
                let n = 1 + r.below(5) as usize;
                let dk = r.below(3) as u8;
                let arr = typed_array(r, k, n, dk, 2);
                let lim = (n as i64 + r.range(-1, 1)).max(0);
                let mut o = distinct_opts(r, 2, lim);
                if r.chance(1, 3) { o.max_str = o.max_str.max(2); }
                let (t, v) = nest_value(r, arr);
                Case::Val { t, v, o }
            }
            0..=3 => {
                // a value, then limits placed around lengths that occur in it
                let depth = 3;
                let smax = 5;
                let (t, v) = match r.below(10) {
                    0..=5 => (Ty::Var, UVal::V(g_variant(r, depth, smax))),
                    6 | 7 => (Ty::DV, UVal::D(g_datavalue(r, depth - 1, smax))),
                    _ => { let k = *r.pick(&[12u8, 15, 17, 18, 20, 21, 22, 25]); let n = r.below(4) as usize;
                           (Ty::Arr(Box::new(Ty::S(k))), UVal::A(Some((0..n).map(|_| UVal::S(g_scalar(r, k, depth - 1, smax))).collect()))) }
                };
                let mut acc: [Vec<usize>; 3] = [vec![], vec![], vec![]];
                lens_uval(&v, &mut acc);
                let mut o = HOpts::default();
                for which in 0..3u8 {
                    if !acc[which as usize].is_empty() && r.chance(2, 3) {
                        let n = *r.pick(&acc[which as usize]) as i64;
                        set_limit(&mut o, which, (n + r.range(-1, 1)).max(0));
                    }
                }
                // limits not placed by a length: small and different from the others, above or below
                if r.chance(3, 4) {
                    for which in 0..3u8 {
                        if limit_of(&o, which) > 1000 || limit_of(&o, which) == 1000 {
                            let mut v2 = r.below(9) as i64;
                            while (0..3u8).any(|w| w != which && limit_of(&o, w) == v2) { v2 += 1; }
                            set_limit(&mut o, which, v2);
                        }
                    }
                }
                if r.chance(1, 6) { o.max_depth = r.below(4) as i64; }
                Case::Val { t, v, o }
            }
            4..=8 => {
                let ctx = 1 + r.below(NCTX as u64) as u8;
                let which = ctx_spec(ctx).2;
                let mut o = match r.below(8) { 0 => HOpts::default(), 1 => HOpts::minimal(),
                    2 => { let mut o = HOpts::default(); set_limit(&mut o, which, r.below(12) as i64); o }
                    _ => { let lim = r.below(12) as i64; distinct_opts(r, which, lim) } };
                if r.chance(1, 8) { o.max_depth = r.below(3) as i64; }
                if which != 2 && r.chance(1, 8) { o.max_arr = r.below(2) as i64; }
                // the contexts inside an array of one element need max_array_length >= 1 to reach the length field
                if which != 2 && o.max_arr == 0 && r.chance(3, 4) { o.max_arr = 1 + r.below(3) as i64; if limit_of(&o, which) == o.max_arr { o.max_arr += 1; } }
                let lim = limit_of(&o, which);
                let l: i32 = match r.below(10) {
                    0 => lim as i32 - 1, 1 | 2 => lim as i32, 3 | 4 => (lim + 1) as i32, 5 => -1, 6 => -2 - r.below(3) as i32,
                    7 => *r.pick(&[i32::MIN, i32::MAX, i32::MIN + 1, 0x0100_0000, -0x0100_0000]), _ => r.below(lim as u64 + 3) as i32,
                };
                len_case(r, ctx, l, o)
            }
            _ => {
                let max = *r.pick(&[0i64, 12, 13, 30, 64, 8196, 327675]);
                let size: i64 = if max == 0 { r.below(80) as i64 } else { match r.below(6) { 0 => max - 1, 1 => max, 2 | 3 => max + 1, 4 => r.below(40) as i64, _ => *r.pick(&[u32::MAX as i64, 1 << 31, 0x0100_0000]) } };
                let n = if size >= 12 && size <= 76 { (size - 12 + r.range(-2, 2)).max(0) as usize } else { r.below(8) as usize };
                Case::Chunk { o: HOpts { max_msg: max, ..HOpts::default() }, size: size.max(0) as u32, body: r.bytes(n) }
            }
        }
    }
    fn exec(c: &Case) -> Out {
        match c {
            Case::Val { t, v, o } => {
                let mut b = Vec::new();
                let enc = guarded(|| enc_typed(t, v, &mut b));
                let mut out = Vec::new();
                if !matches!(enc, Ok(Ok(_))) { out.push(-2); }
                else { decode_into(t, o, &b, &mut out); }
                let tag = format!("value-{}{}", t.tag(), if out[0] == 0 { "-accepted" } else { "-rejected" });
                Out { tag, term: format!("(CVal {} {} {})", t.term(), t_uval(v), o.term()), out }
            }
            Case::Len { ctx, l, o, payload } => {
                let (prefix, t, which, _) = ctx_spec(*ctx);
                let mut b = prefix.clone();
                b.extend(l.to_le_bytes());
                b.extend(payload);
                let mut out = Vec::new();
                decode_into(&t, o, &b, &mut out);
                let lim = limit_of(o, which);
                let class = if *l < -1 { "negative" } else if (*l as i64) > lim { "over" } else if (*l as i64) == lim { "at" } else { "under" };
                let tag = format!("len-ctx{}-{}{}", ctx, class, if out[0] == 0 { "-accepted" } else { "-rejected" });
                Out { tag, term: format!("(CLen {} {} {} {})", ctx, z(*l as i128), o.term(), zbytes(payload)), out }
            }
            Case::VArr { nest, ety, dims, l, o, payload } => {
                let mut b = nest_prefix(*nest);
                b.push(ety + 128 + if *dims { 64 } else { 0 });
                b.extend(l.to_le_bytes());
                b.extend(payload);
                let mut out = Vec::new();
                if *nest == 4 {
                    let ro = o.real();
                    match guarded(|| { let mut s = Cursor::new(&b[..]); let v = opcua::types::service_types::WriteValue::decode(&mut s, &ro); (v.is_ok(), s.position()) }) {
                        Err(_) => out.push(-2), Ok((false, _)) => out.push(-1), Ok((true, pos)) => { out.push(0); out.push(pos as i128); }
                    }
                } else {
                    let t = if *nest == 1 { Ty::DV } else { Ty::Var };
                    decode_into(&t, o, &b, &mut out);
                }
                let class = if *l < -1 { "negative" } else if *l <= 0 { "empty" } else if (*l as i64) > o.max_arr { "over" } else if (*l as i64) == o.max_arr { "at" } else { "under" };
                let tag = format!("varr-{}-nest{}{}-{}{}", if (1..=25).contains(ety) { SCALAR_NAMES[*ety as usize] } else { "invalidtype" }, nest,
                                  if *dims { "-dims" } else { "" }, class, if out[0] == 0 { "-accepted" } else { "-rejected" });
                Out { tag, term: format!("(CVArr {} {} {} {} {} {})", nest, ety, coq_bool(*dims), z(*l as i128), o.term(), zbytes(payload)), out }
            }
            Case::Chunk { o, size, body } => {
                let mut b = b"MSGF".to_vec();
                b.extend(size.to_le_bytes());
                b.extend(1u32.to_le_bytes());
                b.extend(body);
                let ro = o.real();
                let r = guarded(|| { let mut s = Cursor::new(&b[..]); let c = MessageChunk::decode(&mut s, &ro); (c, s.position()) });
                let out: Vec<i128> = match r {
                    Err(_) => vec![-2],
                    Ok((Ok(ch), pos)) => vec![0, pos as i128, ch.data.len() as i128],
                    Ok((Err(e), pos)) => if e == StatusCode::BadTcpMessageTooLarge { vec![-3, pos as i128] } else { vec![-1] },
                };
                let tag = format!("chunk-{}", if out[0] == 0 { "accepted" } else if out[0] == -3 { "too-large" } else { "rejected" });
                Out { tag, term: format!("(CChunk {} {} {})", o.term(), size, zbytes(body)), out }
            }
        }
    }
}
fn decode_into(t: &Ty, o: &HOpts, b: &[u8], out: &mut Vec<i128>) {
    let ro = o.real();
    match guarded(|| { let mut s = Cursor::new(b); let v = dec_typed(t, &mut s, &ro); (v.is_ok(), s.position()) }) {
        Err(_) => out.push(-2),
        Ok((false, _)) => out.push(-1),
        Ok((true, pos)) => { out.push(0); out.push(pos as i128); }
    }
}
fn main() { run_main::<P>() }
