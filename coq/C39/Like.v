(* C39 — LIKE: `like_to_regex_pattern` (lib/src/server/events/operator.rs) as a string
   transformer, the part of the regex crate's syntax and matching it can emit, and the LIKE
   specification itself.  Strings are lists of Unicode scalar values.  No proofs here. *)
From Coq Require Import List ZArith Bool Lia.
Import ListNotations.
Open Scope Z_scope.

(* the characters that matter *)
Definition cBS := 92.      (* \ *)
Definition cLB := 91.      (* [ *)
Definition cRB := 93.      (* ] *)
Definition cCARET := 94.   (* ^ *)
Definition cDASH := 45.    (* - *)
Definition cPCT := 37.     (* % *)
Definition cUS := 95.      (* _ *)
Definition cDOT := 46.     (* . *)
Definition cSTAR := 42.    (* * *)
Definition cQM := 63.      (* ? *)
Definition cDOLLAR := 36.  (* $ *)

Definition mem (c : Z) (l : list Z) : bool := existsb (Z.eqb c) l.

(* push_like_literal: \ ^ $ . | ? * + ( ) [ ] { }   and inside a list also - & ~ *)
Definition special_out (c : Z) : bool := mem c [92; 94; 36; 46; 124; 63; 42; 43; 40; 41; 91; 93; 123; 125].
Definition special_in (c : Z) : bool := special_out c || mem c [45; 38; 126].
Definition push_lit (in_list : bool) (c : Z) : list Z :=
  if (if in_list then special_in c else special_out c) then [cBS; c] else [c].

(* ---- like_to_regex_pattern after the fix ----------------------------------------------------
   one pass over the characters; [l2r m s] is what is appended to the pattern for the remaining
   input [s] in state [m] (including the final '$'), None = Err(()) *)
Inductive lmode :=
| MOut (escaped : bool)
| MIn (escaped list_start list_empty : bool) (range_from : option Z) (range_open : bool).

Definition opt_app (a : list Z) (r : option (list Z)) : option (list Z) :=
  match r with Some t => Some (a ++ t) | None => None end.

Fixpoint l2r (m : lmode) (s : list Z) : option (list Z) :=
  match s with
  | [] => match m with MOut false => Some [cDOLLAR] | _ => None end
  | c :: r =>
    match m with
    | MOut true => opt_app (push_lit false c) (l2r (MOut false) r)
    | MOut false =>
        if c =? cBS then l2r (MOut true) r
        else if c =? cLB then opt_app [cLB] (l2r (MIn false true true None false) r)
        else if c =? cPCT then opt_app [cDOT; cSTAR] (l2r (MOut false) r)
        else if c =? cUS then opt_app [cQM] (l2r (MOut false) r)
        else opt_app (push_lit false c) (l2r (MOut false) r)
    | MIn escaped list_start list_empty range_from range_open =>
        let member (_ : unit) :=
          if range_open then
            match range_from with
            | Some from => if c <? from then None
                           else opt_app (cDASH :: push_lit true c) (l2r (MIn false false false None false) r)
            | None => None
            end
          else opt_app (push_lit true c) (l2r (MIn false false false (Some c) false) r) in
        if escaped then member tt
        else if c =? cBS then l2r (MIn true list_start list_empty range_from range_open) r
        else if c =? cRB then
          if list_empty then None
          else opt_app ((if range_open then push_lit true cDASH else []) ++ [cRB]) (l2r (MOut false) r)
        else if (c =? cCARET) && list_start then
          opt_app [cCARET] (l2r (MIn false false list_empty range_from range_open) r)
        else if (c =? cDASH) && (match range_from with Some _ => true | None => false end) && negb range_open then
          l2r (MIn false list_start list_empty range_from true) r
        else member tt
    end
  end.

Definition like_to_regex_fixed (v : list Z) : option (list Z) := opt_app [cCARET] (l2r (MOut false) v).

(* ---- like_to_regex before the fix (Legacy) ---------------------------------------------------
   the pattern is accumulated reversed because `\_` pops the backslash again *)
Definition legacy_esc_in (c : Z) : bool := mem c [36; 40; 41; 46; 43; 42; 63].
Definition legacy_esc_out (c : Z) : bool := mem c [36; 94; 40; 41; 46; 43; 42; 63].

Fixpoint l2r_legacy (in_list : bool) (prev : option Z) (acc : list Z) (s : list Z) : list Z :=
  match s with
  | [] => rev (cDOLLAR :: acc)
  | c :: r =>
    let unescaped := match prev with Some p => negb (p =? cBS) | None => true end in
    if in_list then
      if (c =? cRB) && unescaped then l2r_legacy false (Some c) (c :: acc) r
      else if legacy_esc_in c then l2r_legacy true (Some c) (c :: cBS :: acc) r
      else l2r_legacy true (Some c) (c :: acc) r
    else
      if legacy_esc_out c then l2r_legacy false (Some c) (c :: cBS :: acc) r
      else if c =? cLB then l2r_legacy unescaped (Some c) (c :: acc) r
      else if c =? cPCT then
        if unescaped then l2r_legacy false (Some c) (cSTAR :: cDOT :: acc) r
        else l2r_legacy false (Some c) (c :: acc) r
      else if c =? cUS then
        if unescaped then l2r_legacy false (Some c) (cQM :: acc) r
        else l2r_legacy false (Some c) (c :: tl acc) r
      else l2r_legacy false (Some c) (c :: acc) r
  end.

Definition like_to_regex_legacy (v : list Z) : list Z := l2r_legacy false None [cCARET] v.

(* ---- the regex subset ------------------------------------------------------------------------
   ^ (optionally followed by ?s, which makes the anchor optional), then items, then $ at the very end.
   item: a literal char, \m for a punctuation char m, '.', or a class [ ^? (m | m-m)+ ], followed by
   any number of * and ? (laziness does not change whether a string matches).
   Anything else the legacy translation could emit (alternation, counted repetition, \d, nested
   classes, ...) is RUnmodelled. *)
Inductive atom := ALit (c : Z) | AAny | AClass (neg : bool) (rs : list (Z * Z)).
Inductive kind := One | Opt | Star.
Inductive rparse := RInvalid | RUnmodelled | RParsed (anchored : bool) (items : list (atom * kind)).

Definition star_kind (k : kind) : kind := Star.
Definition opt_kind (k : kind) : kind := match k with One => Opt | k => k end.

(* scanner state: in items, or inside a class *)
Inductive rmode :=
| RItems (esc : bool)
| RClass (esc neg first : bool) (pending : option Z) (open : bool) (rs : list (Z * Z)).

Definition raw_forbidden_out (c : Z) : bool := mem c [94; 124; 40; 41; 43; 123; 125; 93].
Definition raw_forbidden_in (c : Z) : bool := mem c [91; 38; 126; 94].

Definition class_ranges (pending : option Z) (rs : list (Z * Z)) : list (Z * Z) :=
  match pending with Some p => (p, p) :: rs | None => rs end.

(* [acc] is the reversed item list *)
Fixpoint re_scan (m : rmode) (acc : list (atom * kind)) (s : list Z) : option (option (list (atom * kind))) :=
  (* None = RUnmodelled, Some None = RInvalid, Some (Some items) *)
  match s with
  | [] => None                                   (* no end anchor *)
  | c :: r =>
    match m with
    | RItems true => if special_in c then re_scan (RItems false) ((ALit c, One) :: acc) r else None
    | RItems false =>
        if c =? cDOLLAR then match r with [] => Some (Some (rev acc)) | _ => None end
        else if c =? cBS then re_scan (RItems true) acc r
        else if c =? cDOT then re_scan (RItems false) ((AAny, One) :: acc) r
        else if c =? cSTAR then match acc with (a, k) :: acc' => re_scan (RItems false) ((a, star_kind k) :: acc') r | [] => None end
        else if c =? cQM then match acc with (a, k) :: acc' => re_scan (RItems false) ((a, opt_kind k) :: acc') r | [] => None end
        else if c =? cLB then re_scan (RClass false false true None false []) acc r
        else if raw_forbidden_out c then None
        else re_scan (RItems false) ((ALit c, One) :: acc) r
    | RClass esc neg first pending open rs =>
        let member (_ : unit) :=
          if open then
            match pending with
            | Some lo => if c <? lo then Some None
                         else re_scan (RClass false neg false None false ((lo, c) :: rs)) acc r
            | None => None
            end
          else re_scan (RClass false neg false (Some c) false (class_ranges pending rs)) acc r in
        if esc then (if special_in c then member tt else None)
        else if c =? cBS then re_scan (RClass true neg first pending open rs) acc r
        else if c =? cRB then
          if first then None                                   (* "[]" / "[^]": ']' is a literal there *)
          else if open then None                               (* "a-]" is a literal '-': never emitted *)
          else re_scan (RItems false) ((AClass neg (rev (class_ranges pending rs)), One) :: acc) r
        else if (c =? cCARET) && first && negb neg then re_scan (RClass false true true pending open rs) acc r
        else if c =? cDASH then
          match pending with
          | Some _ => if open then None else re_scan (RClass false neg false pending true rs) acc r
          | None => None
          end
        else if raw_forbidden_in c then None
        else member tt
    end
  end.

(* the leading ^ and ?s *)
Fixpoint strip_qm (s : list Z) : nat * list Z :=
  match s with
  | c :: r => if c =? cQM then let '(n, t) := strip_qm r in (S n, t) else (O, s)
  | [] => (O, [])
  end.

Definition re_parse (s : list Z) : rparse :=
  match s with
  | c :: r =>
      if c =? cCARET then
        let '(n, t) := strip_qm r in
        match re_scan (RItems false) [] t with
        | None => RUnmodelled
        | Some None => RInvalid
        | Some (Some items) => RParsed (match n with O => true | _ => false end) items
        end
      else RUnmodelled
  | [] => RUnmodelled
  end.

(* ---- matching ---------------------------------------------------------------------------------- *)
Definition in_ranges (rs : list (Z * Z)) (c : Z) : bool :=
  existsb (fun r => (fst r <=? c) && (c <=? snd r)) rs.

(* [dotnl]: '.' also matches a line feed (RegexBuilder::dot_matches_new_line, after the fix) *)
Definition atom_match (dotnl : bool) (a : atom) (c : Z) : bool :=
  match a with
  | ALit x => c =? x
  | AAny => dotnl || negb (c =? 10)
  | AClass neg rs => xorb neg (in_ranges rs c)
  end.

Fixpoint re_full (dotnl : bool) (items : list (atom * kind)) : list Z -> bool :=
  match items with
  | [] => fun s => match s with [] => true | _ => false end
  | (a, k) :: rest =>
      let k_rest := re_full dotnl rest in
      match k with
      | One => fun s => match s with c :: s' => atom_match dotnl a c && k_rest s' | [] => false end
      | Opt => fun s => k_rest s || match s with c :: s' => atom_match dotnl a c && k_rest s' | [] => false end
      | Star => fix star (s : list Z) : bool :=
                  k_rest s || match s with c :: s' => atom_match dotnl a c && star s' | [] => false end
      end
  end.

(* Regex::is_match is a search; with the end anchor: some suffix matches in full *)
Fixpoint re_search (dotnl : bool) (items : list (atom * kind)) (s : list Z) : bool :=
  re_full dotnl items s || match s with _ :: s' => re_search dotnl items s' | [] => false end.

Definition re_is_match (dotnl anchored : bool) (items : list (atom * kind)) (s : list Z) : bool :=
  if anchored then re_full dotnl items s else re_search dotnl items s.

(* `like`, on two strings: None = the regex is outside the modelled subset *)
Definition like_model (fixed : bool) (pat s : list Z) : option bool :=
  let txt := if fixed then like_to_regex_fixed pat else Some (like_to_regex_legacy pat) in
  match txt with
  | None => Some false
  | Some t =>
      match re_parse t with
      | RUnmodelled => None
      | RInvalid => Some false
      | RParsed anchored items => Some (re_is_match fixed anchored items s)
      end
  end.

(* ---- the LIKE specification (Part 4 table "Wildcard characters") ------------------------------
   a pattern is a list of items: a character, _ (exactly one character), % (any run of
   characters), a list [..] / [^..] of characters and ranges *)
Inductive litem := LChar (c : Z) | LOne | LMany | LSet (neg : bool) (rs : list (Z * Z)).

Definition lset_match (neg : bool) (rs : list (Z * Z)) (c : Z) : bool := xorb neg (in_ranges rs c).

Fixpoint like_spec (p : list litem) : list Z -> bool :=
  match p with
  | [] => fun s => match s with [] => true | _ => false end
  | it :: rest =>
      let k := like_spec rest in
      match it with
      | LChar x => fun s => match s with c :: s' => (c =? x) && k s' | [] => false end
      | LOne => fun s => match s with _ :: s' => k s' | [] => false end
      | LSet neg rs => fun s => match s with c :: s' => lset_match neg rs c && k s' | [] => false end
      | LMany => fix many (s : list Z) : bool := k s || match s with _ :: s' => many s' | [] => false end
      end
  end.

(* canonical concrete syntax: every character with a meaning in LIKE or in a list is escaped *)
Definition like_special (c : Z) : bool := mem c [cBS; cPCT; cUS; cLB; cRB].
Definition list_special (c : Z) : bool := mem c [cBS; cRB; cCARET; cDASH].
Definition print_char (c : Z) : list Z := if like_special c then [cBS; c] else [c].
Definition print_member (c : Z) : list Z := if list_special c then [cBS; c] else [c].
Definition print_range (r : Z * Z) : list Z :=
  if fst r =? snd r then print_member (fst r) else print_member (fst r) ++ [cDASH] ++ print_member (snd r).
Definition print_item (it : litem) : list Z :=
  match it with
  | LChar c => print_char c
  | LOne => [cUS]
  | LMany => [cPCT]
  | LSet neg rs => [cLB] ++ (if neg then [cCARET] else []) ++ flat_map print_range rs ++ [cRB]
  end.
Definition like_print (p : list litem) : list Z := flat_map print_item p.

(* well-formed: lists are not empty and ranges ascend *)
Definition litem_wf (it : litem) : bool :=
  match it with
  | LSet _ rs => negb (match rs with [] => true | _ => false end) && forallb (fun r => fst r <=? snd r) rs
  | _ => true
  end.
Definition like_wf (p : list litem) : bool := forallb litem_wf p.
Definition has_one (p : list litem) : bool := existsb (fun it => match it with LOne => true | _ => false end) p.

(* a parser for the concrete syntax; it is only a witness finder: the oracle prints the result
   back and compares (like_parse_checked), so nothing about it has to be trusted or proved *)
Inductive pmode := POut | PIn (neg : bool) (rs : list (Z * Z)).   (* rs reversed *)

Fixpoint like_parse_go (fuel : nat) (m : pmode) (acc : list litem) (s : list Z) : option (list litem) :=
  match fuel with
  | O => None
  | S fuel =>
  match s with
  | [] => match m with POut => Some (rev acc) | _ => None end
  | c :: r =>
    match m with
    | POut =>
        if c =? cBS then match r with x :: r' => like_parse_go fuel POut (LChar x :: acc) r' | [] => None end
        else if c =? cPCT then like_parse_go fuel POut (LMany :: acc) r
        else if c =? cUS then like_parse_go fuel POut (LOne :: acc) r
        else if c =? cLB then
          match r with
          | x :: r' => if x =? cCARET then like_parse_go fuel (PIn true []) acc r' else like_parse_go fuel (PIn false []) acc r
          | [] => None
          end
        else like_parse_go fuel POut (LChar c :: acc) r
    | PIn neg rs =>
        if c =? cRB then like_parse_go fuel POut (LSet neg (rev rs) :: acc) r
        else
          (* a member: c or \x, then possibly - and another member *)
          let lo_rest := if c =? cBS then match r with x :: r' => Some (x, r') | [] => None end else Some (c, r) in
          match lo_rest with
          | None => None
          | Some (lo, r1) =>
              match r1 with
              | d :: h :: r2 =>
                  if (d =? cDASH) && negb (h =? cRB) then
                    if h =? cBS then match r2 with x :: r3 => like_parse_go fuel (PIn neg ((lo, x) :: rs)) acc r3 | [] => None end
                    else like_parse_go fuel (PIn neg ((lo, h) :: rs)) acc r2
                  else like_parse_go fuel (PIn neg ((lo, lo) :: rs)) acc r1
              | _ => like_parse_go fuel (PIn neg ((lo, lo) :: rs)) acc r1
              end
          end
    end
  end
  end.

Fixpoint list_Zeqb (a b : list Z) : bool :=
  match a, b with
  | [], [] => true
  | x :: a', y :: b' => (x =? y) && list_Zeqb a' b'
  | _, _ => false
  end.

(* Some p only if [pat] is exactly the canonical text of the well-formed pattern p *)
Definition like_parse_checked (pat : list Z) : option (list litem) :=
  match like_parse_go (S (length pat)) POut [] pat with
  | Some p => if like_wf p && list_Zeqb (like_print p) pat then Some p else None
  | None => None
  end.
