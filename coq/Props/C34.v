(* C34 — node management results describe what actually happened.  Statements only. *)
From Coq Require Import List ZArith.
From OV Require Import C34.Model C34.Proofs.
Open Scope Z_scope.

Theorem C34_placeholder : fixed_cfg = fixed_cfg.
Proof. reflexivity. Qed.
Print Assumptions C34_placeholder.
