#!/usr/bin/env python3
"""C05 translator: lib/src/types/relative_path.rs (+ node_ids.rs) -> coq/Gen/C05Tables.v

Extracts, textually, what the hand-written recognisers of coq/C05/Model.v were written for:
  * the two regex literals (element pattern, target-name pattern),
  * BROWSE_NAME_RESERVED_CHARS, MAX_TOKEN_LEN, MAX_ELEMENTS,
  * the reference types of the '/' and '.' shorthands,
  * the two resolver tables (default_node_resolver: name -> ReferenceTypeId,
    id_from_reference_type: ReferenceTypeId -> name) with the numeric values of the enum
    `ReferenceTypeId` from node_ids.rs.
Fails (non-zero exit) if anything it expects is missing.  Writes the file only if it changed.
"""
import os, re, sys

REPO = os.environ.get("VERIF_REPO", "/repo")
V = os.path.dirname(os.path.dirname(os.path.dirname(os.path.abspath(__file__))))
SRC = os.path.join(REPO, "lib/src/types/relative_path.rs")
IDS = os.path.join(REPO, "lib/src/types/node_ids.rs")
OUT = os.path.join(V, "coq", "Gen", "C05Tables.v")


def die(msg):
    sys.stderr.write("c05_tables.py: " + msg + "\n")
    sys.exit(2)


def coq_string(s):
    if any(ord(c) < 32 or ord(c) > 126 for c in s):
        die("non printable-ASCII character in literal %r" % s)
    return '"' + s.replace('"', '""') + '"%string'


def main():
    try:
        src = open(SRC, encoding="utf-8").read()
        ids = open(IDS, encoding="utf-8").read()
    except OSError as e:
        die(str(e))

    # --- enum ReferenceTypeId { Name = value, ... }
    m = re.search(r"pub enum ReferenceTypeId\s*\{(.*?)\}", ids, re.S)
    if not m:
        die("enum ReferenceTypeId not found in node_ids.rs")
    enum = {}
    for name, val in re.findall(r"^\s*([A-Za-z0-9_]+)\s*=\s*([0-9]+)\s*,", m.group(1), re.M):
        enum[name] = int(val)
    if len(enum) < 20:
        die("enum ReferenceTypeId: too few variants parsed")

    def value(variant):
        if variant not in enum:
            die("ReferenceTypeId::%s has no numeric value in node_ids.rs" % variant)
        return enum[variant]

    # --- regex literals: the lazy_static in RelativePathElement::from_str and in target_name
    m = re.search(r"pub fn from_str<CB>\(path: &str, node_resolver: &CB\) -> Result<RelativePathElement, \(\)>.*?"
                  r'static ref RE: Regex = Regex::new\(r"([^"]*)"\)\.unwrap\(\);', src, re.S)
    if not m:
        die("element regex literal not found")
    element_re = m.group(1)
    m = re.search(r"fn target_name\(target_name: &str\) -> Result<QualifiedName, \(\)>.*?"
                  r'static ref RE: Regex = Regex::new\(r"([^"]*)"\)\.unwrap\(\);', src, re.S)
    if not m:
        die("target name regex literal not found")
    target_re = m.group(1)
    if len(re.findall(r"Regex::new\(", src)) != 2:
        die("expected exactly two Regex::new in relative_path.rs")

    m = re.search(r'const BROWSE_NAME_RESERVED_CHARS: &str = "([^"]*)";', src)
    if not m:
        die("BROWSE_NAME_RESERVED_CHARS not found")
    reserved = m.group(1)
    m = re.search(r"const MAX_TOKEN_LEN: usize = ([0-9]+);", src)
    if not m:
        die("MAX_TOKEN_LEN not found")
    max_token = int(m.group(1))
    m = re.search(r"const MAX_ELEMENTS: usize = ([0-9]+);", src)
    if not m:
        die("MAX_ELEMENTS not found")
    max_elements = int(m.group(1))

    # --- shorthands in the parser:  "/" => (ReferenceTypeId::X.into(), true, false)
    short = {}
    for lit, variant, sub, inv in re.findall(r'"(/|\.)" => \(ReferenceTypeId::([A-Za-z0-9_]+)\.into\(\), (true|false), (true|false)\)', src):
        short[lit] = (value(variant), sub, inv)
    if set(short) != {"/", "."}:
        die("shorthand arms for '/' and '.' not found")
    if any(v[1:] != ("true", "false") for v in short.values()):
        die("shorthand arms no longer use (include_subtypes, is_inverse) = (true, false)")
    # --- and in the printer:  self.reference_type_id == ReferenceTypeId::X.into()  then push('/')
    pshort = re.findall(r"self\.reference_type_id == ReferenceTypeId::([A-Za-z0-9_]+)\.into\(\) \{\s*result\.push\('(/|\.)'\);", src)
    pshort = {lit: value(variant) for variant, lit in pshort}
    if set(pshort) != {"/", "."}:
        die("printer shorthand comparisons not found")

    # --- default_node_resolver: "Name" => ReferenceTypeId::Variant.into(),
    m = re.search(r"pub fn default_node_resolver\(.*?\n    \}\n", src, re.S)
    if not m:
        die("default_node_resolver not found")
    node_tab = [(n, value(v)) for n, v in re.findall(r'"([^"]*)" => ReferenceTypeId::([A-Za-z0-9_]+)\.into\(\),', m.group(0))]
    if len(node_tab) < 2:
        die("default_node_resolver table not parsed")
    # --- id_from_reference_type: id if id == ReferenceTypeId::Variant as u32 => [{] "Name" [}]
    m = re.search(r"fn id_from_reference_type\(.*?\n    \}\n", src, re.S)
    if not m:
        die("id_from_reference_type not found")
    name_tab = [(value(v), n) for v, n in re.findall(r'id if id == ReferenceTypeId::([A-Za-z0-9_]+) as u32 => \{?\s*"([^"]*)"', m.group(0))]
    if len(name_tab) < 2:
        die("id_from_reference_type table not parsed")
    n_arms = len(re.findall(r"id if id ==", m.group(0)))
    if n_arms != len(name_tab):
        die("id_from_reference_type: %d arms but %d parsed" % (n_arms, len(name_tab)))

    L = []
    L.append("(* GENERATED by tools/translate/c05_tables.py from lib/src/types/relative_path.rs and node_ids.rs.")
    L.append("   Do not edit.  The literals the recognisers of C05/Model.v were written for are pinned in Props/C05.v. *)")
    L.append("From Coq Require Import List ZArith String.")
    L.append("Import ListNotations.")
    L.append("Open Scope Z_scope.")
    L.append("")
    L.append("Definition element_pattern : string := %s." % coq_string(element_re))
    L.append("Definition target_pattern : string := %s." % coq_string(target_re))
    L.append("Definition reserved_chars : string := %s." % coq_string(reserved))
    L.append("Definition max_token_len : Z := %d." % max_token)
    L.append("Definition max_elements : Z := %d." % max_elements)
    L.append("(* reference types of the shorthands: parser arms, printer comparisons *)")
    L.append("Definition parse_slash_reftype : Z := %d." % short["/"][0])
    L.append("Definition parse_dot_reftype : Z := %d." % short["."][0])
    L.append("Definition print_slash_reftype : Z := %d." % pshort["/"])
    L.append("Definition print_dot_reftype : Z := %d." % pshort["."])
    L.append("(* default_node_resolver, namespace 0: browse name -> numeric reference type id *)")
    L.append("Definition node_resolver_table : list (string * Z) := [")
    L.append(";\n".join("  (%s, %d)" % (coq_string(n), v) for n, v in node_tab))
    L.append("].")
    L.append("(* id_from_reference_type: numeric id (namespace 0) -> browse name, in match order *)")
    L.append("Definition browse_name_table : list (Z * string) := [")
    L.append(";\n".join("  (%d, %s)" % (v, coq_string(n)) for v, n in name_tab))
    L.append("].")
    content = "\n".join(L) + "\n"
    try:
        if open(OUT).read() == content:
            print("c05_tables.py: unchanged (%d + %d table rows)" % (len(node_tab), len(name_tab)))
            return
    except OSError:
        pass
    os.makedirs(os.path.dirname(OUT), exist_ok=True)
    with open(OUT, "w") as f:
        f.write(content)
    print("c05_tables.py: wrote %s (%d + %d table rows)" % (OUT, len(node_tab), len(name_tab)))


main()
