(* C35 — Every client request completes exactly once.  Statements only (being extended). *)
From Coq Require Import List ZArith Permutation.
Import ListNotations.
From OV Require Import C35.Model C35.Proofs.
Open Scope Z_scope.

Theorem C35_oracle : forall c, valid c -> known c = 0 -> oracle c (run c) = true.
Proof. exact oracle_holds. Qed.
Print Assumptions C35_oracle.
