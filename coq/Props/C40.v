(* C40 — Republish and acknowledgement see the same retained notifications.  Statements only.

   Model: the retransmission queue of the shared system model C21/Sys.v — a sorted association
   list keyed by (subscription id, sequence number): [rt_insert] (transmission loop of
   Subscriptions::tick), [process_acks] (process_subscription_acknowledgements), [rt_find]
   (find_notification_message / Republish), [purge] (remove_old_unacknowledged_notifications:
   entries of vanished subscriptions, then the smallest keys above 4 * #subscriptions). *)
From Coq Require Import List ZArith.
Import ListNotations.
From OV Require Import C21.SysLemmas C40.Model C40.Proofs.
Open Scope Z_scope.

(* A sent notification can be obtained again, identical to the original ... *)
Theorem C40_republish_identical : forall k m rt, rt_find k (rt_insert k m rt) = Some m.
Proof. exact law_insert_find. Qed.
Print Assumptions C40_republish_identical.

(* ... whatever happens to other notifications (later sends, acknowledgements of others) ... *)
Theorem C40_others_do_not_disturb : forall k k' m' rt, rsorted rt -> k <> k' ->
  rt_find k (rt_insert k' m' rt) = rt_find k rt /\ rt_find k (rt_remove k' rt) = rt_find k rt.
Proof. exact law_other_keys. Qed.
Print Assumptions C40_others_do_not_disturb.

(* ... until it is evicted: the purge never alters a message, and it drops an entry only when
   its subscription is gone or the queue is above its bound. *)
Theorem C40_eviction_only : forall subs rt k m, rsorted rt ->
  (rt_find k (purge subs rt) = Some m -> rt_find k rt = Some m) /\
  (rt_find k rt = Some m -> has_sub (fst k) subs = true -> len rt <= 4 * len subs ->
   rt_find k (purge subs rt) = Some m).
Proof. exact law_purge. Qed.
Print Assumptions C40_eviction_only.

(* Acknowledgements (any list: valid, duplicate, unknown, foreign subscription): one result per
   acknowledgement; after a Good result the notification is no longer available; every key
   without a Good result keeps exactly its entry. *)
Theorem C40_acknowledgements : forall subs acks rt res rt', rsorted rt ->
  process_acks subs acks rt = (res, rt') ->
  length res = length acks /\ rsorted rt' /\ sublist rt' rt /\
  (forall k, good_acked acks res k -> rt_find k rt' = None) /\
  (forall k, ~ good_acked acks res k -> rt_find k rt' = rt_find k rt).
Proof. exact law_acks. Qed.
Print Assumptions C40_acknowledgements.

Theorem C40_unknown_changes_nothing : forall subs acks rt res rt', rsorted rt ->
  process_acks subs acks rt = (res, rt') -> ~ In ST_GOOD res -> forall k, rt_find k rt' = rt_find k rt.
Proof. exact law_unknown_changes_nothing. Qed.
Print Assumptions C40_unknown_changes_nothing.

(* The premise [rsorted] holds in every state of every history (any prefix of any operation
   list), so the laws apply to every publish, acknowledgement, republish and purge of a run. *)
Theorem C40_reachable : forall c k y',
  run_state (init c) 0 (firstn k (c_ops c)) = Some y' -> rsorted (y_retrans y').
Proof. exact reachable_sorted. Qed.
Print Assumptions C40_reachable.

(* History level: the trace checker of C40/Model.v (republish Good <-> subscription live and key
   retained, message equal to the one in the publish response; acknowledgement results as
   specified and delivered with the answering response; retention only shrinks by Good
   acknowledgements, vanished subscriptions or the bound) accepts the model's run of every case. *)
Theorem C40_oracle : forall c, valid c -> known c = 0 -> oracle c (run c) = true.
Proof. intros c _ _. apply oracle_holds. Qed.
Print Assumptions C40_oracle.
