(* C04 — lemmas about the string primitives of Text.v *)
From Coq Require Import String Ascii List ZArith Bool Lia.
From OV Require Import C04.Text.
Import ListNotations.
Open Scope Z_scope.

Ltac zdm := Z.div_mod_to_equations; lia.

(* decide the comparisons in the goal from linear facts in the context *)
Ltac btest :=
  repeat match goal with
  | |- context [?a <=? ?b] =>
      first [ replace (a <=? b) with true by (symmetry; apply Z.leb_le; lia)
            | replace (a <=? b) with false by (symmetry; apply Z.leb_gt; lia) ]
  | |- context [?a <? ?b] =>
      first [ replace (a <? b) with true by (symmetry; apply Z.ltb_lt; lia)
            | replace (a <? b) with false by (symmetry; apply Z.ltb_ge; lia) ]
  | |- context [?a =? ?b] =>
      first [ replace (a =? b) with true by (symmetry; apply Z.eqb_eq; lia)
            | replace (a =? b) with false by (symmetry; apply Z.eqb_neq; lia) ]
  end; cbn [andb orb negb].

(* ---- generalities -------------------------------------------------------------------------- *)
Lemma str_eqb_refl : forall s, str_eqb s s = true.
Proof. induction s as [|x s IH]; cbn; [reflexivity|]. rewrite Z.eqb_refl. exact IH. Qed.

Lemma str_eqb_eq : forall a b, str_eqb a b = true -> a = b.
Proof.
  induction a as [|x a IH]; intros [|y b]; cbn; intro H; try discriminate; [reflexivity|].
  apply andb_true_iff in H as [H1 H2]. apply Z.eqb_eq in H1. apply IH in H2. congruence.
Qed.

Lemma strip_app : forall p r, strip p (p ++ r) = Some r.
Proof. induction p as [|x p IH]; intro r; cbn; [reflexivity|]. rewrite Z.eqb_refl. apply IH. Qed.

Lemma utf8len_nonneg : forall s, 0 <= utf8len s.
Proof.
  induction s as [|c s IH]; cbn; [lia|]. unfold u8len1.
  destruct (c <? 128); [lia|]. destruct (c <? 2048); [lia|]. destruct (c <? 65536); lia.
Qed.

Lemma u8len1_ascii : forall c, is_ascii c = true -> u8len1 c = 1.
Proof.
  intros c H. unfold is_ascii in H. apply andb_true_iff in H as [_ H]. unfold u8len1. rewrite H.
  reflexivity.
Qed.

Lemma utf8len_ascii : forall s, forallb is_ascii s = true -> utf8len s = len s.
Proof.
  unfold len. induction s as [|c s IH]; intro H; [reflexivity|].
  cbn [forallb] in H. apply andb_true_iff in H as [H1 H2].
  cbn [utf8len length]. rewrite (u8len1_ascii _ H1), (IH H2). lia.
Qed.

Lemma after_enc_str : forall s r, skipn (Z.to_nat (len s)) (s ++ r) = r.
Proof.
  intros s r. unfold len. rewrite Nat2Z.id. induction s as [|x s IH]; cbn; [reflexivity | exact IH].
Qed.

(* ---- decimal ------------------------------------------------------------------------------- *)
Lemma is_digit_mod10 : forall n, is_digit (48 + n mod 10) = true.
Proof. intro n. unfold is_digit. apply andb_true_iff. split; apply Z.leb_le; zdm. Qed.

Lemma is_digit_range : forall c, is_digit c = true -> 48 <= c <= 57.
Proof. intros c H. unfold is_digit in H. apply andb_true_iff in H as [A B]. lia. Qed.

Lemma dec_aux_app : forall f n acc, dec_aux f n acc = dec_aux f n [] ++ acc.
Proof.
  induction f as [|f IH]; intros n acc; [reflexivity|].
  cbn [dec_aux]. destruct (n <? 10); [reflexivity|].
  rewrite (IH (n / 10) ((48 + n mod 10) :: acc)), (IH (n / 10) [48 + n mod 10]).
  rewrite <- app_assoc. reflexivity.
Qed.

Lemma dec_aux_digits : forall f n acc,
  forallb is_digit acc = true -> forallb is_digit (dec_aux f n acc) = true.
Proof.
  induction f as [|f IH]; intros n acc H; [exact H|].
  cbn [dec_aux]. destruct (n <? 10).
  - cbn [forallb]. rewrite is_digit_mod10. exact H.
  - apply IH. cbn [forallb]. rewrite is_digit_mod10. exact H.
Qed.

Lemma dec_digits : forall n, forallb is_digit (dec n) = true.
Proof. intro n. apply dec_aux_digits. reflexivity. Qed.

Lemma dec_aux_nonempty : forall f n acc, acc <> [] -> dec_aux f n acc <> [].
Proof.
  induction f as [|f IH]; intros n acc H; [exact H|].
  cbn [dec_aux]. destruct (n <? 10); [discriminate|]. apply IH. discriminate.
Qed.

Lemma dec_aux_S_nonempty : forall f n acc, dec_aux (S f) n acc <> [].
Proof.
  intros f n acc. cbn [dec_aux]. destruct (n <? 10); [discriminate|].
  apply dec_aux_nonempty. discriminate.
Qed.

Lemma dec_nonempty : forall n, dec n <> [].
Proof. intro n. unfold dec. apply (dec_aux_S_nonempty 19). Qed.

Lemma dec_cons : forall n, exists c t, dec n = c :: t /\ is_digit c = true.
Proof.
  intro n. pose proof (dec_nonempty n) as H. pose proof (dec_digits n) as D.
  destruct (dec n) as [|c t]; [congruence|]. exists c, t. split; [reflexivity|].
  cbn [forallb] in D. apply andb_true_iff in D as [D _]. exact D.
Qed.

Lemma dec_aux_val : forall f n acc,
  0 <= n < 10 ^ Z.of_nat f -> val_digits 0 (dec_aux f n acc) = val_digits n acc.
Proof.
  induction f as [|f IH]; intros n acc H.
  - cbn in H. assert (n = 0) by lia. subst. reflexivity.
  - cbn [dec_aux]. destruct (n <? 10) eqn:E.
    + apply Z.ltb_lt in E. cbn [val_digits]. rewrite is_digit_mod10.
      rewrite Z.mod_small by lia. f_equal. lia.
    + apply Z.ltb_ge in E. rewrite IH.
      * cbn [val_digits]. rewrite is_digit_mod10. f_equal. zdm.
      * rewrite Nat2Z.inj_succ, Z.pow_succ_r in H by lia. zdm.
Qed.

Lemma dec_val : forall n, 0 <= n < 10 ^ 20 -> val_digits 0 (dec n) = Some n.
Proof. intros n H. unfold dec. rewrite dec_aux_val; [reflexivity | exact H]. Qed.

Lemma parse_digits_dec : forall n, 0 <= n < 10 ^ 20 -> parse_digits (dec n) = Some n.
Proof.
  intros n H. unfold parse_digits. pose proof (dec_nonempty n) as NE.
  destruct (dec n) eqn:E; [congruence|]. rewrite <- E. apply dec_val. exact H.
Qed.

Lemma strip_plus_other : forall c t, c <> 43 -> strip_plus (c :: t) = c :: t.
Proof.
  intros c t H. unfold strip_plus. destruct c as [|p|p]; try reflexivity.
  repeat (destruct p as [p|p|]; try reflexivity). congruence.
Qed.

Lemma parse_uint_dec : forall max n, 0 <= n <= max -> max < 10 ^ 20 -> parse_uint max (dec n) = Some n.
Proof.
  intros max n H M. unfold parse_uint.
  destruct (dec_cons n) as (c & t & E & D).
  assert (c <> 43) by (apply is_digit_range in D; lia).
  rewrite E, strip_plus_other by assumption. rewrite <- E, parse_digits_dec by lia.
  destruct (n <=? max) eqn:L; [reflexivity|]. apply Z.leb_gt in L. lia.
Qed.

Lemma dec_aux_length : forall f n acc k,
  0 <= n < 10 ^ Z.of_nat k -> (1 <= k)%nat -> (length (dec_aux f n acc) <= k + length acc)%nat.
Proof.
  induction f as [|f IH]; intros n acc k H K; [cbn; lia|].
  cbn [dec_aux]. destruct (n <? 10) eqn:E.
  - cbn [length]. lia.
  - apply Z.ltb_ge in E. destruct k as [|k]; [lia|]. destruct k as [|k].
    + cbn in H. lia.
    + specialize (IH (n / 10) ((48 + n mod 10) :: acc) (S k)).
      cbn [length] in IH.
      assert (A : 0 <= n / 10 < 10 ^ Z.of_nat (S k)).
      { rewrite Nat2Z.inj_succ, Z.pow_succ_r in H by lia. zdm. }
      specialize (IH A). lia.
Qed.

Lemma dec_length : forall n k, 0 <= n < 10 ^ Z.of_nat k -> (1 <= k)%nat -> (length (dec n) <= k)%nat.
Proof.
  intros n k H K. unfold dec. pose proof (dec_aux_length 20 n [] k H K) as L. cbn [length] in L. lia.
Qed.

Lemma dec_length_pos : forall n, (1 <= length (dec n))%nat.
Proof. intro n. pose proof (dec_nonempty n). destruct (dec n); [congruence | cbn; lia]. Qed.

(* ---- spans ---------------------------------------------------------------------------------- *)
Lemma span_digits_app : forall d c r,
  forallb is_digit d = true -> is_digit c = false -> span_digits (d ++ c :: r) = (d, c :: r).
Proof.
  induction d as [|x d IH]; intros c r D C.
  - cbn. rewrite C. reflexivity.
  - cbn [forallb] in D. apply andb_true_iff in D as [D1 D2].
    cbn [app span_digits]. rewrite D1, (IH c r D2 C). reflexivity.
Qed.

Lemma span_digits_all : forall d, forallb is_digit d = true -> span_digits d = (d, []).
Proof.
  induction d as [|x d IH]; intro D; [reflexivity|].
  cbn [forallb] in D. apply andb_true_iff in D as [D1 D2].
  cbn [span_digits]. rewrite D1, (IH D2). reflexivity.
Qed.

Lemma span_not_app : forall x d r,
  forallb (fun c => negb (c =? x)) d = true -> span_not x (d ++ x :: r) = (d, x :: r).
Proof.
  induction d as [|y d IH]; intros r D.
  - cbn. rewrite Z.eqb_refl. reflexivity.
  - cbn [forallb] in D. apply andb_true_iff in D as [D1 D2]. apply negb_true_iff in D1.
    cbn [app span_not]. rewrite D1, (IH r D2). reflexivity.
Qed.

(* ---- split / join --------------------------------------------------------------------------- *)
Lemma split_on_nosep : forall sep p,
  forallb (fun c => negb (c =? sep)) p = true -> split_on sep p = [p].
Proof.
  induction p as [|c p IH]; intro H; [reflexivity|].
  cbn [forallb] in H. apply andb_true_iff in H as [H1 H2]. apply negb_true_iff in H1.
  cbn [split_on]. rewrite (IH H2), H1. reflexivity.
Qed.

Lemma split_on_app : forall sep p r,
  forallb (fun c => negb (c =? sep)) p = true ->
  split_on sep (p ++ sep :: r) = p :: split_on sep r.
Proof.
  induction p as [|c p IH]; intros r H.
  - cbn [app split_on]. rewrite Z.eqb_refl. destruct (split_on sep r) eqn:E; [|reflexivity].
    exfalso. destruct r; cbn in E; [discriminate|]. destruct (split_on sep r); [discriminate|].
    destruct (z =? sep); discriminate.
  - cbn [forallb] in H. apply andb_true_iff in H as [H1 H2]. apply negb_true_iff in H1.
    cbn [app split_on]. rewrite (IH r H2), H1. reflexivity.
Qed.

Lemma split_join : forall sep ps,
  ps <> [] -> Forall (fun p => forallb (fun c => negb (c =? sep)) p = true) ps ->
  split_on sep (join sep ps) = ps.
Proof.
  induction ps as [|p ps IH]; intros NE F; [congruence|].
  inversion F as [|? ? Fp Fps]; subst.
  destruct ps as [|q ps'].
  - cbn [join]. apply split_on_nosep. exact Fp.
  - change (join sep (p :: q :: ps')) with (p ++ sep :: join sep (q :: ps')).
    rewrite split_on_app by exact Fp. f_equal. apply IH; [discriminate | exact Fps].
Qed.

(* ---- replace -------------------------------------------------------------------------------- *)
Lemma replace3_skip : forall a b c rep x t,
  x <> a -> replace3 a b c rep (x :: t) = x :: replace3 a b c rep t.
Proof.
  intros a b c rep x t H. cbn [replace3].
  destruct t as [|y [|z t2]]; try reflexivity.
  apply Z.eqb_neq in H. rewrite H. reflexivity.
Qed.

Lemma replace3_hit : forall a b c rep t,
  replace3 a b c rep (a :: b :: c :: t) = rep ++ replace3 a b c rep t.
Proof. intros. cbn [replace3]. rewrite !Z.eqb_refl. reflexivity. Qed.

Lemma replace3_miss2 : forall a b c rep y t,
  y <> b -> replace3 a b c rep (a :: y :: t) = a :: replace3 a b c rep (y :: t).
Proof.
  intros a b c rep y t H. cbn [replace3]. destruct t as [|z t2]; [reflexivity|].
  apply Z.eqb_neq in H. rewrite H, andb_false_r. reflexivity.
Qed.

(* ---- hexadecimal ---------------------------------------------------------------------------- *)
Lemma hexval_hexc : forall n, 0 <= n < 16 -> hexval (hexc n) = Some n.
Proof.
  intros n H. unfold hexc, hexval, is_digit. destruct (n <? 10) eqn:E.
  - apply Z.ltb_lt in E. btest. f_equal. lia.
  - apply Z.ltb_ge in E. btest. f_equal. lia.
Qed.

Lemma hexc_ascii : forall n, 0 <= n < 16 -> is_ascii (hexc n) = true.
Proof.
  intros n H. unfold hexc, is_ascii. destruct (n <? 10); apply andb_true_iff; split;
    try (apply Z.leb_le; lia); apply Z.ltb_lt; lia.
Qed.

Lemma bytes_hex_roundtrip : forall bs,
  forallb (fun b => (0 <=? b) && (b <=? 255)) bs = true -> bytes_of_hex (hex_of_bytes bs) = Some bs.
Proof.
  induction bs as [|b bs IH]; intro H; [reflexivity|].
  cbn [forallb] in H. apply andb_true_iff in H as [H1 H2]. apply andb_true_iff in H1 as [A B].
  apply Z.leb_le in A, B.
  cbn [hex_of_bytes bytes_of_hex]. rewrite !hexval_hexc by zdm. rewrite (IH H2).
  f_equal. f_equal. zdm.
Qed.

Lemma hex_of_bytes_ascii : forall bs,
  forallb (fun b => (0 <=? b) && (b <=? 255)) bs = true -> forallb is_ascii (hex_of_bytes bs) = true.
Proof.
  induction bs as [|b bs IH]; intro H; [reflexivity|].
  cbn [forallb] in H. apply andb_true_iff in H as [H1 H2]. apply andb_true_iff in H1 as [A B].
  apply Z.leb_le in A, B.
  cbn [hex_of_bytes forallb]. rewrite !hexc_ascii by zdm. rewrite (IH H2). reflexivity.
Qed.

Lemma hex_of_bytes_app : forall a b, hex_of_bytes (a ++ b) = hex_of_bytes a ++ hex_of_bytes b.
Proof. induction a as [|x a IH]; intro b; [reflexivity|]. cbn. rewrite IH. reflexivity. Qed.

(* ---- base64 --------------------------------------------------------------------------------- *)
Lemma b64val_b64c : forall n, 0 <= n < 64 -> b64val (b64c n) = Some n.
Proof.
  intros n H. unfold b64c, b64val, is_digit.
  destruct (n <? 26) eqn:E1; [apply Z.ltb_lt in E1; btest; f_equal; lia|]. apply Z.ltb_ge in E1.
  destruct (n <? 52) eqn:E2; [apply Z.ltb_lt in E2; btest; f_equal; lia|]. apply Z.ltb_ge in E2.
  destruct (n <? 62) eqn:E3; [apply Z.ltb_lt in E3; btest; f_equal; lia|]. apply Z.ltb_ge in E3.
  destruct (n =? 62) eqn:E4; [apply Z.eqb_eq in E4; subst; reflexivity|].
  apply Z.eqb_neq in E4. assert (n = 63) by lia. subst. reflexivity.
Qed.

Lemma b64c_not_pad : forall n, 0 <= n < 64 -> (b64c n =? 61) = false.
Proof.
  intros n H. apply Z.eqb_neq. unfold b64c.
  destruct (n <? 26) eqn:E1; [apply Z.ltb_lt in E1; lia|]. apply Z.ltb_ge in E1.
  destruct (n <? 52) eqn:E2; [apply Z.ltb_lt in E2; lia|]. apply Z.ltb_ge in E2.
  destruct (n <? 62) eqn:E3; [apply Z.ltb_lt in E3; lia|].
  destruct (n =? 62); lia.
Qed.

Lemma b64_list_ind : forall P : list Z -> Prop,
  P [] -> (forall a, P [a]) -> (forall a b, P [a; b]) ->
  (forall a b c t, P t -> P (a :: b :: c :: t)) -> forall l, P l.
Proof.
  intros P H0 H1 H2 H3.
  fix IH 1. intros [|a [|b [|c t]]]; [exact H0 | apply H1 | apply H2 | apply H3, IH].
Qed.

Lemma b64_encode_nonempty : forall bs, bs <> [] -> b64_encode bs <> [].
Proof. intros [|a [|b [|c t]]] H; cbn; congruence. Qed.

Definition byteb' (b : Z) : bool := (0 <=? b) && (b <=? 255).
Lemma byteb'_range : forall b, byteb' b = true -> 0 <= b <= 255.
Proof. intros b H. unfold byteb' in H. apply andb_true_iff in H as [A B]. lia. Qed.

Lemma b64_roundtrip : forall bs, forallb byteb' bs = true -> b64_decode (b64_encode bs) = Some bs.
Proof.
  induction bs as [|a|a b|a b c t IH] using b64_list_ind; intro H.
  - reflexivity.
  - cbn [forallb] in H. apply andb_true_iff in H as [A _]. apply byteb'_range in A.
    cbn [b64_encode b64_decode]. rewrite !b64val_b64c by zdm. cbn.
    replace ((a mod 4 * 16) mod 16 =? 0) with true by (symmetry; apply Z.eqb_eq; zdm).
    f_equal. f_equal. zdm.
  - cbn [forallb] in H. apply andb_true_iff in H as [A H]. apply andb_true_iff in H as [B _].
    apply byteb'_range in A, B.
    cbn [b64_encode b64_decode]. rewrite !b64val_b64c by zdm.
    rewrite (b64c_not_pad (b mod 16 * 4)) by zdm. cbn [andb]. rewrite Z.eqb_refl.
    replace ((b mod 16 * 4) mod 4 =? 0) with true by (symmetry; apply Z.eqb_eq; zdm).
    f_equal. f_equal; [zdm|]. f_equal. zdm.
  - cbn [forallb] in H. apply andb_true_iff in H as [A H]. apply andb_true_iff in H as [B H].
    apply andb_true_iff in H as [C H]. apply byteb'_range in A, B, C.
    cbn [b64_encode b64_decode]. rewrite !b64val_b64c by zdm.
    destruct (b64_encode t) eqn:E.
    + rewrite (b64c_not_pad (b mod 16 * 4 + c / 64)) by zdm. cbn [andb].
      rewrite (b64c_not_pad (c mod 64)) by zdm.
      assert (t = []) by (destruct t as [|? [|? [|? ?]]]; [reflexivity | discriminate ..]). subst t.
      f_equal. f_equal; [zdm|]. f_equal; [zdm|]. f_equal. zdm.
    + rewrite (IH H). f_equal. f_equal; [zdm|]. f_equal; [zdm|]. f_equal. zdm.
Qed.

(* ---- fixed-width decimal -------------------------------------------------------------------- *)
Lemma decw_app : forall w n acc, decw w n acc = decw w n [] ++ acc.
Proof.
  induction w as [|w IH]; intros n acc; [reflexivity|].
  cbn [decw]. rewrite (IH (n / 10) ((48 + n mod 10) :: acc)), (IH (n / 10) [48 + n mod 10]).
  rewrite <- app_assoc. reflexivity.
Qed.

Lemma decw_length : forall w n, length (decw w n []) = w.
Proof.
  induction w as [|w IH]; intro n; [reflexivity|].
  cbn [decw]. rewrite decw_app, app_length, IH. cbn. lia.
Qed.

Lemma decw_digits : forall w n, forallb is_digit (decw w n []) = true.
Proof.
  induction w as [|w IH]; intro n; [reflexivity|].
  cbn [decw]. rewrite decw_app, forallb_app, IH. cbn [forallb andb]. rewrite is_digit_mod10. reflexivity.
Qed.

Lemma val_digits_app : forall a b acc,
  forallb is_digit a = true ->
  val_digits acc (a ++ b) = match val_digits acc a with Some v => val_digits v b | None => None end.
Proof.
  induction a as [|x a IH]; intros b acc D; [reflexivity|].
  cbn [forallb] in D. apply andb_true_iff in D as [D1 D2].
  cbn [app val_digits]. rewrite D1. apply IH. exact D2.
Qed.

Lemma decw_val : forall w n acc, 0 <= n < 10 ^ Z.of_nat w ->
  val_digits acc (decw w n []) = Some (acc * 10 ^ Z.of_nat w + n).
Proof.
  induction w as [|w IH]; intros n acc H.
  - cbn in H. cbn. f_equal. lia.
  - cbn [decw]. rewrite decw_app, val_digits_app by apply decw_digits.
    rewrite Nat2Z.inj_succ, Z.pow_succ_r in * by lia.
    rewrite IH by zdm. cbn [val_digits]. rewrite is_digit_mod10. f_equal.
    assert (n = 10 * (n / 10) + n mod 10) by (apply Z.div_mod; lia). nia.
Qed.
