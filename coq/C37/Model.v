(* C37 — reconnect back-off (lib/src/client/retry.rs).

   Model of `ExponentialBackoff` as committed in /repo (after the fix: saturating
   arithmetic).  Durations are total nanoseconds in Z, 0 <= d <= DMAX where
   DMAX = Duration::MAX = (2^64-1) s + 999_999_999 ns.  u32 counters are Z with the
   saturation written in.  Every Rust operation that can panic is an explicit
   [Panic] outcome in [Legacy] (the pinned code before the fix). *)
From Coq Require Import List ZArith Bool Lia.
Import ListNotations.
Open Scope Z_scope.

Definition DMAX : Z := 2 ^ 64 * 10 ^ 9 - 1.
Definition U32MAX : Z := 2 ^ 32 - 1.

Record st := { max_sleep : Z; max_retries : option Z; cur : Z; count : Z }.

Definition limit_reached (s : st) : bool :=
  match max_retries s with Some m => m <=? count s | None => false end.

(* Duration::saturating_mul(2), u32::saturating_add(1) *)
Definition sat_mul2 (d : Z) : Z := Z.min DMAX (2 * d).
Definition sat_inc (c : Z) : Z := Z.min U32MAX (c + 1).

(* Iterator::next *)
Definition next (s : st) : option Z * st :=
  if limit_reached s then (None, s)
  else (Some (cur s),
        {| max_sleep := max_sleep s; max_retries := max_retries s;
           cur := Z.min (max_sleep s) (sat_mul2 (cur s));
           count := sat_inc (count s) |}).

Fixpoint take (n : nat) (s : st) : list Z :=
  match n with
  | O => []
  | S n' => let '(r, s') := next s in
            (match r with Some d => d | None => -1 end) :: take n' s'
  end.

(* the pinned code before the fix: `current_sleep * 2` and `retry_count += 1` panic on overflow
   (the second one in builds with overflow checks) *)
Module Legacy.
  Inductive outcome := Item (r : option Z) (s : st) | Panic.
  Definition next (s : st) : outcome :=
    if limit_reached s then Item None s
    else if DMAX <? 2 * cur s then Panic
    else if U32MAX <? count s + 1 then Panic
    else Item (Some (cur s))
              {| max_sleep := max_sleep s; max_retries := max_retries s;
                 cur := Z.min (max_sleep s) (2 * cur s); count := count s + 1 |}.
  Fixpoint take (n : nat) (s : st) : list Z :=
    match n with
    | O => []
    | S n' => match next s with
              | Panic => [-2]
              | Item r s' => (match r with Some d => d | None => -1 end) :: take n' s'
              end
    end.
End Legacy.

(* ---- the loop of AsyncSecureChannel::connect (client/transport/channel.rs) --------------- *)
(* `let mut backoff = policy.new_backoff(); loop { match connect_no_retry() { Ok => break Ok,
   Err(s) => match backoff.next() { None => break Err(s), Some(d) => sleep(d) } } }` against a
   server that refuses every attempt.  [fuel] bounds the attempts the observer waits for.
   Result: the number of attempts made, 1 if the loop gave up (0 if still trying when the
   observer stopped), and the delays slept. *)
Fixpoint connect (fuel : nat) (s : st) : Z * Z * list Z :=
  match fuel with
  | O => (0, 0, [])
  | S f => match next s with
           | (None, _) => (1, 1, [])
           | (Some d, s') => let '(a, g, ds) := connect f s' in (1 + a, g, d :: ds)
           end
  end.

Module LegacyConnect.
  (* the pinned code before the fix created the back-off INSIDE the loop: every failed attempt
     consulted a fresh iterator *)
  Fixpoint connect (fuel : nat) (s0 : st) : Z * Z * list Z :=
    match fuel with
    | O => (0, 0, [])
    | S f => match next s0 with
             | (None, _) => (1, 1, [])
             | (Some d, _) => let '(a, g, ds) := connect f s0 in (1 + a, g, d :: ds)
             end
    end.
End LegacyConnect.

(* ---- correspondence interface ------------------------------------------------ *)
(* a policy case: policy (max sleep, optional retry limit, initial sleep), the number of delays already
   produced (hook `verif_backoff`), and how many calls of next() to observe *)
Record pcase := mk_pcase { c_max : Z; c_limit : option Z; c_init : Z; c_count0 : Z; c_n : Z }.

Definition init_state (c : pcase) : st :=
  {| max_sleep := c_max c; max_retries := c_limit c; cur := c_init c; count := c_count0 c |}.

(* output: one entry per call, the delay in ns, -1 for None, -2 for a panic (which ends the list) *)
Definition run_p (c : pcase) : list Z := take (Z.to_nat (c_n c)) (init_state c).

(* the specification, written independently of [next]: exact arithmetic, closed-form limit *)
Fixpoint delay (mx d0 : Z) (k : nat) : Z :=
  match k with O => d0 | S k' => Z.min mx (2 * delay mx d0 k') end.

Definition in_limit (c : pcase) (k : nat) : bool :=
  match c_limit c with Some m => c_count0 c + Z.of_nat k <? m | None => true end.

Definition spec_item (c : pcase) (k : nat) : Z :=
  if in_limit c k then delay (c_max c) (c_init c) k else -1.

Definition spec_p (c : pcase) : list Z := map (spec_item c) (seq 0 (Z.to_nat (c_n c))).

Fixpoint list_eqb (a b : list Z) : bool :=
  match a, b with
  | [], [] => true
  | x :: a', y :: b' => (x =? y) && list_eqb a' b'
  | _, _ => false
  end.

Definition valid_p (c : pcase) : Prop :=
  0 <= c_max c <= DMAX /\ 0 <= c_init c <= DMAX /\ 0 <= c_count0 c <= U32MAX /\
  match c_limit c with Some m => 0 <= m <= U32MAX | None => True end.

(* How the policy object is obtained (SessionRetryPolicy's constructors and the client
   configuration), and what is observed.
     New       SessionRetryPolicy::new(max, limit, initial)
     Infinity  SessionRetryPolicy::infinity(max, initial)            (the limit field is ignored)
     Never     SessionRetryPolicy::never()                           (only the count/n fields are used)
     Default   SessionRetryPolicy::default()
     Config l  ClientBuilder .session_retry_limit(l) .session_retry_max(max)
               .session_retry_initial(initial), Client::new          (l = -1: unlimited)
   c_pre: delays drawn from a FIRST iterator of the same policy object before the observed
   iterator is created (a policy must hand out independent iterators).
   c_connect: false = observe c_n calls of next(); true = run AsyncSecureChannel::connect
   (through Client::get_server_endpoints_from_url) against a listener that drops every
   connection and observe at most c_n attempts. *)
Inductive how := New | Infinity | Never | Default | Config (l : Z).

Record case := mk_case { c_how : how; c_pre : Z; c_connect : bool; c_p : pcase }.

Definition MS : Z := 1000000.
(* the policy the constructor is documented to build *)
Definition policy_of (c : case) : pcase :=
  let p := c_p c in
  match c_how c with
  | New => p
  | Infinity => mk_pcase (c_max p) None (c_init p) (c_count0 p) (c_n p)
  | Never => mk_pcase (30000 * MS) (Some 0) (500 * MS) (c_count0 p) (c_n p)
  | Default => mk_pcase (30000 * MS) (Some 10) (500 * MS) (c_count0 p) (c_n p)
  | Config l => mk_pcase (c_max p) (if l <? 0 then None else Some l) (c_init p) (c_count0 p) (c_n p)
  end.

Definition enc_connect (r : Z * Z * list Z) : list Z := let '(a, g, _) := r in [a; g].

Definition run (c : case) : list Z :=
  let p := policy_of c in
  if c_connect c then enc_connect (connect (Z.to_nat (c_n p)) (init_state p))
  else run_p p.

(* connect: the loop makes one attempt, then one more per delay the policy yields, and gives up
   when the policy is exhausted *)
Definition spec_connect (p : pcase) : list Z :=
  match c_limit p with
  | Some m => let y := Z.max 0 (m - c_count0 p) in     (* delays the policy still yields *)
              if y <? c_n p then [y + 1; 1] else [Z.max 0 (c_n p); 0]
  | None => [Z.max 0 (c_n p); 0]
  end.

Definition spec (c : case) : list Z :=
  let p := policy_of c in
  if c_connect c then spec_connect p else spec_p p.

Definition oracle (c : case) (out : list Z) : bool := list_eqb out (spec c).

Definition known (c : case) : Z := 0.

Definition valid (c : case) : Prop :=
  valid_p (policy_of c) /\ 0 <= c_pre c /\
  match c_how c with Config l => -1 <= l | _ => True end.
