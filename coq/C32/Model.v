(* C32 — attribute reads and writes obey access rights and never crash
   (lib/src/server/services/attribute.rs read_node_value / write_node_value / is_readable /
   is_writable / validate_value_to_write, address_space/variable.rs value / set_value /
   set_value_range, types/variant.rs range_of / set_range_of, types/string.rs substring,
   types/byte_string.rs substring, types/numeric_range.rs).

   One variable (node 1), one object (node 2), node 3 does not exist.  Strings are their UTF-8
   bytes; index ranges are strings (byte lists, None = null string) parsed as the code does.
   Every slicing / unwrap site of the Rust code is an explicit [Panic] outcome; [legacy] = true
   is the code before "fix: UAString::substring panicked on a range that splits a UTF-8
   character". *)
From Coq Require Import List ZArith Bool Lia.
Import ListNotations.
Open Scope Z_scope.

Inductive value :=
| VEmpty
| VNum (ty : Z) (n : Z)                 (* Boolean 1, Byte 3, Int32 6, UInt32 7 *)
| VStr (s : option (list Z))            (* String 12: UTF-8 bytes, None = null *)
| VBs (s : option (list Z))             (* ByteString 15 *)
| VArr (ety : Z) (vs : list value).     (* one-dimensional array of scalars *)

Inductive op :=
| Read (node attr : Z) (range : option (list Z)) (enc : Z)
| Write (node attr : Z) (range : option (list Z)) (v : option value).

(* ---- index ranges (types/numeric_range.rs) ---------------------------------------------- *)
Inductive nrange := NNone | NIndex (i : Z) | NRange (lo hi : Z) | NMulti (l : list nrange).
Definition U32MAX : Z := 4294967295.

Definition is_digit (b : Z) : bool := (48 <=? b) && (b <=? 57).
(* [0-9]{1,10} as a number; None if empty, too long or not all ASCII digits *)
Fixpoint digits_val (l : list Z) (acc : Z) : option Z :=
  match l with
  | [] => Some acc
  | b :: l' => if is_digit b then digits_val l' (acc * 10 + (b - 48)) else None
  end.
Definition number (l : list Z) : option Z :=
  match l with
  | [] => None
  | _ => if (10 <? Z.of_nat (length l)) then None else digits_val l 0
  end.
(* split at every occurrence of [sep] *)
Fixpoint split_on (sep : Z) (l : list Z) (cur : list Z) : list (list Z) :=
  match l with
  | [] => [rev cur]
  | b :: l' => if b =? sep then rev cur :: split_on sep l' [] else split_on sep l' (b :: cur)
  end.
(* parse_range: ^[0-9]{1,10}(:[0-9]{1,10})?$ *)
Definition parse_one (l : list Z) : option nrange :=
  match split_on 58 l [] with
  | [a] => match number a with
           | Some n => if n <=? U32MAX then Some (NIndex n) else None
           | None => None
           end
  | [a; b] => match number a, number b with
              | Some lo, Some hi => if (hi <=? lo) || (U32MAX <? hi) then None else Some (NRange lo hi)
              | _, _ => None
              end
  | _ => None
  end.
Fixpoint parse_all (ps : list (list Z)) : option (list nrange) :=
  match ps with
  | [] => Some []
  | p :: ps' => match parse_one p, parse_all ps' with
                | Some r, Some rs => Some (r :: rs)
                | _, _ => None
                end
  end.
Definition MAX_INDICES : Z := 10.
(* NumericRange::from_str *)
Definition parse_range (s : list Z) : option nrange :=
  match s with
  | [] => Some NNone
  | _ => let parts := split_on 44 s [] in
         match parts with
         | [p] => parse_one p
         | _ => if Z.of_nat (length parts) <=? MAX_INDICES
                then match parse_all parts with Some rs => Some (NMulti rs) | None => None end
                else None
         end
  end.
Definition range_str (r : option (list Z)) : list Z := match r with Some s => s | None => [] end.

(* ---- outcomes ---------------------------------------------------------------------------- *)
(* status: 0 Good, 1 BadNodeIdUnknown, 2 BadAttributeIdInvalid, 3 BadIndexRangeInvalid,
   4 BadNotReadable, 5 BadIndexRangeNoData, 6 BadDataEncodingInvalid, 7 BadNotWritable,
   8 BadWriteNotSupported, 9 BadTypeMismatch *)
Inductive outcome (A : Type) := Ok (a : A) | Err (code : Z) | Panic.
Arguments Ok {A} a. Arguments Err {A} code. Arguments Panic {A}.

(* ---- substrings and ranges of values ------------------------------------------------------ *)
Definition slice (l : list Z) (lo hi : Z) : list Z :=   (* l[lo..=hi] *)
  firstn (Z.to_nat (hi - lo + 1)) (skipn (Z.to_nat lo) l).
Definition vslice (l : list value) (lo hi : Z) : list value :=
  firstn (Z.to_nat (hi - lo + 1)) (skipn (Z.to_nat lo) l).
Definition len {A} (l : list A) : Z := Z.of_nat (length l).
(* indexing by a Z that may be as large as u32::MAX: never convert an out-of-range index to nat *)
Definition znth {A} (l : list A) (i : Z) : option A :=
  if (i <? 0) || (len l <=? i) then None else nth_error l (Z.to_nat i).
(* str::is_char_boundary *)
Definition is_boundary (l : list Z) (i : Z) : bool :=
  if i =? len l then true
  else match znth l i with
       | Some b => negb ((128 <=? b) && (b <? 192))
       | None => false
       end.
(* UAString::substring *)
Definition str_substring (legacy : bool) (s : option (list Z)) (lo hi : Z) : outcome (list Z) :=
  match s with
  | None => Err 5
  | Some v =>
      if len v <=? lo then Err 5
      else let hi' := if len v <=? hi then len v - 1 else hi in
           if is_boundary v lo && is_boundary v (hi' + 1) then Ok (slice v lo hi')
           else if legacy then Panic   (* &v[min..=max] *)
           else Err 5                  (* v.get(min..=max) *)
  end.
(* ByteString::substring *)
Definition bs_substring (s : option (list Z)) (lo hi : Z) : outcome (list Z) :=
  match s with
  | None => Err 5
  | Some v =>
      if len v <=? lo then Err 5
      else let hi' := if len v <=? hi then len v - 1 else hi in
           if hi' <? lo then Panic    (* slice index order; unreachable *)
           else Ok (slice v lo hi')
  end.
Definition substring (legacy : bool) (v : value) (lo hi : Z) : outcome value :=
  match v with
  | VStr s => match str_substring legacy s lo hi with Ok r => Ok (VStr (Some r)) | Err c => Err c | Panic => Panic end
  | VBs s => match bs_substring s lo hi with Ok r => Ok (VBs (Some r)) | Err c => Err c | Panic => Panic end
  | _ => Panic   (* "Should not be calling substring on other types"; unreachable *)
  end.

(* Variant::range_of *)
Definition range_of (legacy : bool) (v : value) (r : nrange) : outcome value :=
  match r with
  | NNone => Ok v
  | NIndex i =>
      match v with
      | VStr _ | VBs _ => substring legacy v i i
      | VArr t vs => match znth vs i with
                     | Some x => Ok (VArr t [x])
                     | None => Err 5
                     end
      | _ => Err 5
      end
  | NRange lo hi =>
      match v with
      | VStr _ | VBs _ => substring legacy v lo hi
      | VArr t vs =>
          if len vs <=? lo then Err 5
          else let hi' := if len vs <=? hi then len vs - 1 else hi in
               if hi' <? lo then Panic   (* &values[min..=max]; unreachable *)
               else Ok (VArr t (vslice vs lo hi'))
      | _ => Err 5
      end
  | NMulti _ => Err 5
  end.

(* data types *)
Definition scalar_type (v : value) : option Z :=
  match v with
  | VNum t _ => Some t
  | VStr _ => Some 12
  | VBs _ => Some 15
  | _ => None
  end.
Definition array_type (v : value) : option Z :=
  match v with
  | VArr _ (x :: _) => scalar_type x
  | _ => None
  end.
Definition opt_eqb (a b : option Z) : bool :=
  match a, b with Some x, Some y => x =? y | _, _ => false end.

(* the copy loop of set_range_of: dst[lo + k] = src[k] while lo + k < len dst, lo + k <= hi, k < len src *)
Fixpoint overwrite (dst : list value) (pos : Z) (src : list value) (lo hi : Z) : list value :=
  match dst with
  | [] => []
  | d :: dst' =>
      (if (lo <=? pos) && (pos <=? hi) then
         match znth src (pos - lo) with Some x => x | None => d end
       else d) :: overwrite dst' (pos + 1) src lo hi
  end.

(* Variant::set_range_of *)
Definition set_range_of (full : value) (r : nrange) (other : value) : outcome value :=
  if negb (opt_eqb (array_type full) (array_type other)) then Err 5
  else match other with
       | VArr _ ovs =>
           match full with
           | VArr t vs =>
               match r with
               | NNone => Err 5
               | NIndex i =>
                   if (len vs <=? i) then Err 5
                   else match ovs with
                        | [] => Err 5
                        | o :: _ => Ok (VArr t (overwrite vs 0 [o] i i))
                        end
               | NRange lo hi => if len vs <=? lo then Err 5 else Ok (VArr t (overwrite vs 0 ovs lo hi))
               | NMulti _ => Err 5
               end
           | _ => Err 8
           end
       | _ => Err 5
       end.

(* ---- the variable -------------------------------------------------------------------------- *)
(* user access level, data type, value rank, value, write mask (-1 = not set), array dimensions set *)
Record var := mk_var { v_ual : Z; v_dtype : Z; v_rank : Z; v_value : value; v_wmask : Z; v_dims : bool }.
Definition with_value (x : var) (nv : value) : var := mk_var (v_ual x) (v_dtype x) (v_rank x) nv (v_wmask x) (v_dims x).
Definition with_ual (x : var) (n : Z) : var := mk_var n (v_dtype x) (v_rank x) (v_value x) (v_wmask x) (v_dims x).
Definition with_rank (x : var) (n : Z) : var := mk_var (v_ual x) (v_dtype x) n (v_value x) (v_wmask x) (v_dims x).
Definition with_wmask (x : var) (n : Z) : var := mk_var (v_ual x) (v_dtype x) (v_rank x) (v_value x) n (v_dims x).
Definition with_dims (x : var) : var := mk_var (v_ual x) (v_dtype x) (v_rank x) (v_value x) (v_wmask x) true.

(* AddressSpace::is_subtype over the HasSubtype references (base, child) *)
Fixpoint is_subtype (fuel : nat) (subs : list (Z * Z)) (sub base : Z) : bool :=
  if sub =? base then true else
  match fuel with
  | O => false
  | S f => existsb (fun e => if fst e =? base then is_subtype f subs sub (snd e) else false) subs
  end.
Definition subtype (subs : list (Z * Z)) (sub base : Z) : bool := is_subtype (length subs) subs sub base.

Definition rank_is_byte_array (rank : Z) : bool := (rank =? -2) || (rank =? -3) || (rank =? 1).

(* AttributeService::validate_value_to_write *)
Definition type_compatible (subs : list (Z * Z)) (x : var) (v : value) : bool :=
  match v with
  | VEmpty => true
  | VArr _ _ => match array_type v with Some t => subtype subs t (v_dtype x) | None => false end
  | _ => match scalar_type v with
         | Some t => if subtype subs t (v_dtype x) then true
                     else match v with
                          | VBs _ => (v_dtype x =? 3) && rank_is_byte_array (v_rank x)
                          | _ => false
                          end
         | None => false
         end
  end.

Definition to_byte_array (s : option (list Z)) : value :=
  VArr 3 (map (fun b => VNum 3 b) (match s with Some l => l | None => [] end)).

(* the special case of Variable::set_value: a byte string written to a byte array variable *)
Definition to_stored (rank dtype : Z) (v : value) : value :=
  match v with
  | VBs s => if rank_is_byte_array rank && (dtype =? 3) then to_byte_array s else v
  | _ => v
  end.

(* Variable::set_value -> the new stored value *)
Definition set_value (x : var) (r : nrange) (v : value) : outcome value :=
  let v' := to_stored (v_rank x) (v_dtype x) v in
  match r with
  | NNone => Ok v'
  | _ => set_range_of (v_value x) r v'
  end.

Definition user_can_read (x : var) : bool := Z.testbit (v_ual x) 0.    (* UserAccessLevel::CURRENT_READ *)
Definition user_can_write (x : var) : bool := Z.testbit (v_ual x) 1.   (* UserAccessLevel::CURRENT_WRITE *)

(* attributes that get_attribute returns Some for (no description, user write mask, sampling interval) *)
Definition var_attrs (x : var) : list Z :=
  [1; 2; 3; 4; 13; 14; 15; 17; 18; 20] ++ (if v_dims x then [16] else []) ++ (if 0 <=? v_wmask x then [6] else []).
Definition obj_attrs : list Z := [1; 2; 3; 4; 12].
Definition mem (a : Z) (l : list Z) : bool := existsb (Z.eqb a) l.
Definition valid_attr (a : Z) : bool := (1 <=? a) && (a <=? 27).
Definition enc_supported (e : Z) : bool := (e =? 0) || (e =? 1).

(* result of a read: status and, for the Value attribute, the value (None = no value) *)
Record rres := mk_rres { rr_status : Z; rr_value : option value }.

(* AttributeService::read_node_value *)
Definition read (legacy : bool) (x : var) (node attr : Z) (range : option (list Z)) (enc : Z) : outcome rres :=
  let bad c := Ok (mk_rres c None) in
  if negb ((node =? 1) || (node =? 2)) then bad 1
  else if negb (valid_attr attr) then bad 2
  else match parse_range (range_str range) with
       | None => bad 3
       | Some r =>
           if (node =? 1) && negb (user_can_read x) then bad 4
           else if negb (attr =? 13) && negb (match r with NNone => true | _ => false end) then bad 5
           else if negb (enc_supported enc) then bad 6
           else if node =? 1 then
             if attr =? 13 then
               match range_of legacy (v_value x) r with
               | Ok v => Ok (mk_rres 0 (Some v))
               | Err c => bad c
               | Panic => Panic
               end
             else if mem attr (var_attrs x) then Ok (mk_rres 0 None) else bad 2
           else if mem attr obj_attrs then Ok (mk_rres 0 None) else bad 2
       end.

(* the WriteMask bit that is_writable tests for an attribute other than a variable's Value *)
Definition attr_bit (a : Z) : option Z :=
  match a with
  | 1 => Some 14 | 2 => Some 13 | 3 => Some 2 | 4 => Some 6 | 5 => Some 5 | 6 => Some 20 | 7 => Some 18
  | 8 => Some 11 | 9 => Some 15 | 10 => Some 10 | 11 => Some 3 | 12 => Some 7 | 14 => Some 4 | 15 => Some 19
  | 16 => Some 1 | 17 => Some 0 | 18 => Some 16 | 19 => Some 12 | 20 => Some 9 | 21 => Some 8 | 22 => Some 17
  | 23 => Some 22 | 24 => Some 23 | 26 => Some 24 | 27 => Some 25
  | _ => None
  end.
Definition mask_allows (x : var) (a : Z) : bool :=
  match attr_bit a with Some b => (0 <=? v_wmask x) && Z.testbit (v_wmask x) b | None => false end.

Definition is_u32 (v : value) : bool := match v with VNum 7 _ => true | _ => false end.
(* Variable::set_attribute / Base::set_attribute for an attribute other than Value:
   status and the variable afterwards (only the effects that later reads and writes can see) *)
Definition set_attr (x : var) (a : Z) (v : value) : Z * var :=
  match a with
  | 17 => match v with VNum 3 _ => (0, x) | _ => (9, x) end
  | 18 => match v with VNum 3 n => (0, with_ual x n) | _ => (9, x) end
  | 15 => match v with VNum 6 n => (0, with_rank x n) | _ => (9, x) end
  | 20 => match v with VNum 1 _ => (0, x) | _ => (9, x) end
  | 16 => match v with VArr _ vs => if forallb is_u32 vs then (0, with_dims x) else (9, x) | _ => (9, x) end
  | 2 => match v with VNum 6 _ => (0, x) | _ => (9, x) end
  | 6 => match v with VNum 7 n => (0, with_wmask x n) | _ => (9, x) end
  | 7 => match v with VNum 7 _ => (0, x) | _ => (9, x) end
  | 1 | 3 | 4 | 5 | 14 | 19 => (9, x)     (* NodeId, QualifiedName, LocalizedText, Double: not among the values *)
  | _ => (2, x)
  end.

(* AttributeService::write_node_value -> status and the variable afterwards *)
Definition write (subs : list (Z * Z)) (x : var) (node attr : Z) (range : option (list Z)) (v : option value)
  : outcome (Z * var) :=
  let bad c := Ok (c, x) in
  if negb ((node =? 1) || (node =? 2)) then bad 1
  else if negb (valid_attr attr) then bad 2
  else if attr =? 13 then
    (* is_writable: the user access level for a variable's value; the object has no write mask *)
    if negb ((node =? 1) && user_can_write x) then bad 7
    else match parse_range (range_str range) with
         | None => bad 3
         | Some r =>
             match v with
             | None => bad 9
             | Some v =>
                 if negb (type_compatible subs x v) then bad 9
                 else match set_value x r v with
                      | Ok nv => Ok (0, with_value x nv)
                      | Err c => bad c
                      | Panic => Panic
                      end
             end
         end
  else
    (* is_writable: the write mask bit of the attribute *)
    if negb ((node =? 1) && mask_allows x attr) then bad 7
    else match range with
         | Some _ => bad 8     (* an index range that is not the null string *)
         | None => match v with
                   | None => bad 9
                   | Some v => Ok (set_attr x attr v)
                   end
         end.

(* ---- canonical encoding of values ----------------------------------------------------------- *)
Definition enc_bytes (s : option (list Z)) : list Z :=
  match s with None => [-1] | Some l => len l :: l end.
Definition enc_scalar (v : value) : list Z :=
  match v with
  | VEmpty => [0]
  | VNum t n => [1; t; n]
  | VStr s => 2 :: enc_bytes s
  | VBs s => 3 :: enc_bytes s
  | VArr _ _ => [-9]
  end.
Definition enc_value (v : value) : list Z :=
  match v with
  | VArr t vs => 4 :: t :: len vs :: flat_map enc_scalar vs
  | _ => enc_scalar v
  end.

(* ---- correspondence interface ----------------------------------------------------------------- *)
Record case := mk_case {
  c_subs : list (Z * Z); c_al : Z; c_ual : Z; c_dtype : Z; c_rank : Z; c_wmask : Z; c_init : value; c_ops : list op }.

Definition is_array (v : value) : bool := match v with VArr _ _ => true | _ => false end.
(* the constructor stores the initial value through set_value (data type and rank already set);
   the array dimensions are inferred from the value as given *)
Definition init_var (c : case) : var :=
  mk_var (c_ual c) (c_dtype c) (c_rank c) (to_stored (c_rank c) (c_dtype c) (c_init c)) (c_wmask c) (is_array (c_init c)).

Fixpoint run_ops (legacy : bool) (subs : list (Z * Z)) (x : var) (ops : list op) : list Z :=
  match ops with
  | [] => []
  | Read node attr range enc :: ops' =>
      match read legacy x node attr range enc with
      | Ok r => rr_status r ::
                (if attr =? 13 then match rr_value r with Some v => enc_value v | None => [-1] end else [])
                ++ run_ops legacy subs x ops'
      | Err c => c :: run_ops legacy subs x ops'
      | Panic => -2 :: run_ops legacy subs x ops'
      end
  | Write node attr range v :: ops' =>
      match write subs x node attr range v with
      | Ok (st, x') => st :: run_ops legacy subs x' ops'
      | Err c => c :: run_ops legacy subs x ops'
      | Panic => -2 :: run_ops legacy subs x ops'
      end
  end.

Definition run_with (legacy : bool) (c : case) : list Z :=
  run_ops legacy (c_subs c) (init_var c) (c_ops c).
Definition run (c : case) : list Z := run_with false c.

(* ---- the property on an observed output -------------------------------------------------------- *)
(* The oracle replays the operations against its own record of the variable: [cur] = the value a
   reader must see, maintained from the successful writes only.
   - no panic marker, one status per operation;
   - a Write of the variable's value that reports Good: the user access level has CURRENT_WRITE
     and the type is compatible; the recorded value becomes what was written (for an index range:
     the recorded array with the written elements in place);
   - a Write of another attribute that reports Good: the write mask has the attribute's bit; the
     record follows (a new user access level, value rank, write mask, ...);
   - any other Write status: the recorded value is unchanged;
   - a Read of the whole value that reports Good returns the recorded value; a Read with an index
     range returns the corresponding part of the recorded value; a Read is never Good when the
     user access level lacks CURRENT_READ. *)
Fixpoint value_eqb (a b : value) : bool :=
  let fix list_eqb (xs ys : list value) : bool :=
    match xs, ys with
    | [], [] => true
    | x :: xs', y :: ys' => value_eqb x y && list_eqb xs' ys'
    | _, _ => false
    end in
  let bytes_eqb (x y : option (list Z)) : bool :=
    match x, y with
    | None, None => true
    | Some p, Some q => (fix beq (p q : list Z) : bool :=
                           match p, q with
                           | [], [] => true
                           | a :: p', b :: q' => (a =? b) && beq p' q'
                           | _, _ => false
                           end) p q
    | _, _ => false
    end in
  match a, b with
  | VEmpty, VEmpty => true
  | VNum t n, VNum t' n' => (t =? t') && (n =? n')
  | VStr x, VStr y => bytes_eqb x y
  | VBs x, VBs y => bytes_eqb x y
  | VArr t xs, VArr t' ys => (t =? t') && list_eqb xs ys
  | _, _ => false
  end.

Fixpoint list_eqb (a b : list Z) : bool :=
  match a, b with
  | [], [] => true
  | x :: a', y :: b' => (x =? y) && list_eqb a' b'
  | _, _ => false
  end.
Fixpoint is_prefix (p l : list Z) : bool :=
  match p, l with
  | [], _ => true
  | x :: p', y :: l' => (x =? y) && is_prefix p' l'
  | _, [] => false
  end.

(* the specification of an index-range write, independent of set_range_of's loop:
   element k of the result is src[k - lo] when lo <= k <= hi and k - lo < |src|, else dst[k] *)
Definition spec_elem (src : list value) (lo hi : Z) (kd : nat * value) : value :=
  let kz := Z.of_nat (fst kd) in
  if (lo <=? kz) && (kz <=? hi) && (kz - lo <? len src)
  then match znth src (kz - lo) with Some x => x | None => snd kd end
  else snd kd.
Definition spec_overwrite (dst src : list value) (lo hi : Z) : list value :=
  map (spec_elem src lo hi) (combine (seq 0 (length dst)) dst).

(* what a successful write must leave in the variable *)
Definition spec_written (x : var) (cur : value) (r : nrange) (v : value) : option value :=
  let v' := to_stored (v_rank x) (v_dtype x) v in
  match r, cur, v' with
  | NNone, _, _ => Some v'
  | NIndex i, VArr t vs, VArr _ (o :: _) => if i <? len vs then Some (VArr t (spec_overwrite vs [o] i i)) else None
  | NRange lo hi, VArr t vs, VArr _ src => if lo <? len vs then Some (VArr t (spec_overwrite vs src lo hi)) else None
  | _, _, _ => None
  end.

(* what a successful read of the recorded value must return *)
Definition spec_read (cur : value) (r : nrange) : option value :=
  match r, cur with
  | NNone, _ => Some cur
  | NIndex i, VArr t vs => match znth vs i with Some e => Some (VArr t [e]) | None => None end
  | NIndex i, VStr (Some s) => if i <? len s then Some (VStr (Some (slice s i i))) else None
  | NIndex i, VBs (Some s) => if i <? len s then Some (VBs (Some (slice s i i))) else None
  | NRange lo hi, VArr t vs => if lo <? len vs then Some (VArr t (vslice vs lo (Z.min hi (len vs - 1)))) else None
  | NRange lo hi, VStr (Some s) => if lo <? len s then Some (VStr (Some (slice s lo (Z.min hi (len s - 1))))) else None
  | NRange lo hi, VBs (Some s) => if lo <? len s then Some (VBs (Some (slice s lo (Z.min hi (len s - 1))))) else None
  | _, _ => None
  end.

Fixpoint oracle_ops (subs : list (Z * Z)) (x : var) (ops : list op) (out : list Z) : bool :=
  match ops with
  | [] => match out with [] => true | _ => false end
  | Read node attr range enc :: ops' =>
      match out with
      | st :: out1 =>
          if st <? 0 then false
          else if attr =? 13 then
            if st =? 0 then
              (* a Good read of a value: only of the variable, only when the user may read, and the
                 value is the one recorded (through the index range) *)
              (node =? 1) && user_can_read x &&
              match parse_range (range_str range) with
              | Some r => match spec_read (v_value x) r with
                          | Some v => let e := enc_value v in
                                      is_prefix e out1 && oracle_ops subs x ops' (skipn (length e) out1)
                          | None => false
                          end
              | None => false
              end
            else match out1 with
                 | -1 :: out2 => oracle_ops subs x ops' out2   (* no value with a Bad status *)
                 | _ => false
                 end
          else negb ((node =? 1) && negb (user_can_read x) && (st =? 0)) && oracle_ops subs x ops' out1
      | [] => false
      end
  | Write node attr range v :: ops' =>
      match out with
      | st :: out1 =>
          if st <? 0 then false
          else if st =? 0 then
            if attr =? 13 then
              (node =? 1) && user_can_write x &&
              match v, parse_range (range_str range) with
              | Some v, Some r =>
                  type_compatible subs x v &&
                  match spec_written x (v_value x) r v with
                  | Some nv => oracle_ops subs (with_value x nv) ops' out1
                  | None => false
                  end
              | _, _ => false
              end
            else
              (* another attribute of the variable: the write mask allows it; the record follows *)
              (node =? 1) && mask_allows x attr &&
              match v with
              | Some v => oracle_ops subs (snd (set_attr x attr v)) ops' out1
              | None => false
              end
          else oracle_ops subs x ops' out1
      | [] => false
      end
  end.

Definition oracle (c : case) (out : list Z) : bool := oracle_ops (c_subs c) (init_var c) (c_ops c) out.

Definition known (c : case) : Z := 0.

(* array elements are scalars (a Variant array never holds arrays) *)
Definition scalar (v : value) : bool := match v with VArr _ _ => false | _ => true end.
Definition wf_value (v : value) : bool :=
  match v with VArr _ vs => forallb scalar vs | _ => true end.
Definition wf_op (o : op) : bool :=
  match o with Write _ _ _ (Some v) => wf_value v | _ => true end.
Definition valid (c : case) : Prop := wf_value (c_init c) = true /\ forallb wf_op (c_ops c) = true.
