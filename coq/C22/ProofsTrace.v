(* C22 — proofs: no history panics, observations are well formed and can be read back. *)
From Coq Require Import List ZArith Bool Lia.
From OV Require Import C22.Model C22.ProofsTable.
Import ListNotations.
Open Scope Z_scope.

(* ------------------------------------------------------------------------------------ *)
(* no history panics; the observations are well formed                                   *)
(* ------------------------------------------------------------------------------------ *)
Notation sub_tick := (sub_tick_gen true true).
Notation subs_tick := (subs_tick_gen true true).
Notation step := (step_gen true true).
Notation trace := (trace_gen true true).

Definition kinds (l : list Z) : Prop := Forall (fun z => z = 1 \/ z = 2) l.

Definition Gsub (x : subq) : Prop := 1 <= life (sb x) /\ 2 <= maxlife (sb x) /\ kinds (nq x).
Definition G (w : world) : Prop :=
  0 <= pq w /\ match ws w with Some x => Gsub x | None => True end.

Lemma kinds_app : forall a b, kinds a -> kinds b -> kinds (a ++ b).
Proof. intros a b Ha Hb. apply Forall_app; split; assumption. Qed.

Lemma sub_tick_total : forall ivl now r q x, 1 <= ivl -> Gsub x ->
  exists x', sub_tick ivl now r q x = Some x' /\ Gsub x' /\
    maxlife (sb x') = maxlife (sb x) /\ maxkac (sb x') = maxkac (sb x) /\ enabled (sb x') = enabled (sb x).
Proof.
  intros ivl now r q [s n l] Hivl (Hl & Hm & Hk). cbn [sb nq last] in *.
  unfold sub_tick_gen. cbn [sb nq last].
  assert (Hcore : forall el lst, r && el = false ->
    exists x', (if negb (is_nil n) || el || q
                then match update_state_gen true true s (mk_params r (negb (is_nil n)) (more_than_one n) q el) with
                     | Panic => None
                     | Res _ a s' => Some (mk_subq s' (handle_action a n) lst)
                     end
                else Some (mk_subq s n lst)) = Some x' /\ Gsub x' /\
      maxlife (sb x') = maxlife s /\ maxkac (sb x') = maxkac s /\ enabled (sb x') = enabled s).
  { intros el lst Hre.
    destruct (negb (is_nil n) || el || q).
    - destruct (update_state_total s (mk_params r (negb (is_nil n)) (more_than_one n) q el) Hl Hm Hre)
        as (row & a & s' & Hu & Hl' & Hm' & Hk' & He').
      unfold update_state in Hu. rewrite Hu. eexists; split; [reflexivity|].
      unfold Gsub; cbn [sb nq last]. repeat split; try lia; try assumption.
      destruct a; cbn [handle_action]; try assumption;
        (apply kinds_app; [assumption | constructor; [lia | constructor]]).
    - eexists; split; [reflexivity|]. unfold Gsub; cbn [sb nq last]. repeat split; assumption. }
  destruct r.
  - apply Hcore. reflexivity.
  - destruct (sstate_eqb (st s) Creating).
    + apply Hcore. reflexivity.
    + destruct (Z.leb_spec ivl 0); [lia|].
      unfold interval_test. destruct (ivl <=? Z.max 0 (now - l)); apply Hcore; reflexivity.
Qed.

Lemma drain_spec : forall q n, 0 <= n -> kinds q ->
  kinds (fst (fst (drain q n))) /\ kinds (snd (fst (drain q n))) /\ 0 <= snd (drain q n).
Proof.
  induction q as [|k q IH]; intros n Hn Hk; cbn [drain].
  - cbn. repeat split; [constructor | constructor | lia].
  - inversion Hk as [|? ? Hk1 Hk2]; subst.
    destruct (Z.ltb_spec 0 n).
    + specialize (IH (n - 1) ltac:(lia) Hk2).
      destruct (drain q (n - 1)) as [[r rest] n']. cbn [fst snd] in *.
      destruct IH as (A & B & C). repeat split; try assumption. constructor; assumption.
    + cbn [fst snd]. repeat split; [constructor | assumption | lia].
Qed.

Lemma subs_tick_total : forall ivl now r w, 1 <= ivl -> G w ->
  exists w' resp, subs_tick ivl now r w = Some (w', resp) /\ G w' /\ kinds resp /\
    (ws w = None -> ws w' = None).
Proof.
  intros ivl now r [o n] Hivl (Hq & Hs). cbn [ws pq] in *. unfold subs_tick_gen. cbn [ws pq].
  destruct o as [x|].
  - destruct (sub_tick_total ivl now r (0 <? n) x Hivl Hs) as (x' & Hx & (Hl & Hm & Hk) & _).
    rewrite Hx.
    pose proof (drain_spec (nq x') n Hq Hk) as Hd.
    destruct (drain (nq x') n) as [[resp rest] n']. cbn [fst snd] in Hd. destruct Hd as (A & B & C).
    do 2 eexists; split; [reflexivity|]. split; [|split; [assumption | discriminate]].
    unfold G; cbn [ws pq]. split; [assumption|].
    destruct (ready_to_remove _); [exact I|]. unfold Gsub; cbn [sb nq last]. repeat split; assumption.
  - do 2 eexists; split; [reflexivity|]. split; [|split; [constructor | reflexivity]].
    unfold G; cbn [ws pq]. split; [assumption | exact I].
Qed.

Definition codes (l : list Z) : Prop := Forall (fun z => z = 1 \/ z = 2 \/ z = 5) l.

Lemma kinds_codes : forall l, kinds l -> codes l.
Proof. intros l H. eapply Forall_impl; [|exact H]. cbn. intros a [?|?]; auto. Qed.

Lemma step_total : forall ivl now o w, 1 <= ivl -> G w ->
  exists w' pre, step ivl now o w = Some (w', pre) /\ G w' /\ codes pre.
Proof.
  intros ivl now o w Hivl HG. destruct o as [|dt]; unfold step_gen.
  - assert (H1 : exists w1 r1,
       (if max_publish_requests w <=? pq w then subs_tick ivl now true w else Some (w, [])) = Some (w1, r1)
       /\ G w1 /\ kinds r1).
    { destruct (max_publish_requests w <=? pq w).
      - destruct (subs_tick_total ivl now true w Hivl HG) as (w1 & r1 & E & G1 & K1 & _). eauto.
      - do 2 eexists; split; [reflexivity|]. split; [assumption | constructor]. }
    destruct H1 as (w1 & r1 & E1 & G1 & K1). rewrite E1.
    destruct (max_publish_requests w <=? pq w1).
    + do 2 eexists; split; [reflexivity|]. split; [assumption|].
      constructor; [auto | apply kinds_codes; assumption].
    + assert (G2 : G (mk_world (ws w1) (pq w1 + 1))).
      { destruct G1 as (A & B). split; cbn [ws pq]; [lia | assumption]. }
      destruct (subs_tick_total ivl now true _ Hivl G2) as (w2 & r2 & E2 & G2' & K2 & _).
      rewrite E2. do 2 eexists; split; [reflexivity|]. split; [assumption|].
      apply kinds_codes. apply kinds_app; assumption.
  - destruct (subs_tick_total ivl now false w Hivl HG) as (w1 & r1 & E & G1 & K1 & _).
    rewrite E. do 2 eexists; split; [reflexivity|]. split; [assumption | apply kinds_codes; assumption].
Qed.

Lemma trace_cons : forall ivl now w o r w' pre,
  step ivl (op_time now o) o w = Some (w', pre) ->
  trace ivl now w (o :: r) =
    (mk_obs pre (snapshot w') :: fst (trace ivl (op_time now o) w' r), snd (trace ivl (op_time now o) w' r)).
Proof.
  intros ivl now w o r w' pre H. cbn [trace_gen]. rewrite H.
  destruct (trace_gen true true ivl (op_time now o) w' r). reflexivity.
Qed.

Definition snap_wf (l : list Z) : Prop :=
  (exists a b c d e f, l = [1; a; b; c; d; e; f]) \/ (exists a, l = [0; a]).
Definition obs_wf (o : obs) : Prop := ~ In 9 (o_pre o) /\ snap_wf (o_snap o).

Lemma snapshot_wf : forall w, snap_wf (snapshot w).
Proof.
  intros [[x|] n]; unfold snapshot; cbn [ws pq]; [left | right]; eauto 10.
Qed.

Lemma codes_no9 : forall l, codes l -> ~ In 9 l.
Proof.
  intros l H Hin. unfold codes in H. rewrite Forall_forall in H. specialize (H 9 Hin). cbn beta in H. destruct H as [H|[H|H]]; discriminate H.
Qed.

Lemma trace_total : forall ivl ops now w, 1 <= ivl -> G w ->
  snd (trace ivl now w ops) = false /\
  length (fst (trace ivl now w ops)) = length ops /\
  Forall obs_wf (fst (trace ivl now w ops)).
Proof.
  intros ivl ops. induction ops as [|o r IH]; intros now w Hivl HG.
  - cbn. repeat split. constructor.
  - destruct (step_total ivl (op_time now o) o w Hivl HG) as (w' & pre & E & G' & C).
    rewrite (trace_cons _ _ _ _ _ _ _ E). cbn [fst snd].
    destruct (IH (op_time now o) w' Hivl G') as (A & B & D).
    repeat split; [assumption | cbn [length]; congruence |].
    constructor; [|assumption]. split; cbn [o_pre o_snap]; [apply codes_no9; assumption | apply snapshot_wf].
Qed.

(* ------------------------------------------------------------------------------------ *)
(* reading the observations back                                                         *)
(* ------------------------------------------------------------------------------------ *)
Lemma split9_app : forall pre rest, ~ In 9 pre -> split9 (pre ++ 9 :: rest) = Some (pre, rest).
Proof.
  induction pre as [|x pre IH]; intros rest H; cbn [app split9].
  - reflexivity.
  - destruct (Z.eqb_spec x 9) as [->|_]; [exfalso; apply H; left; reflexivity|].
    rewrite IH; [reflexivity|]. intro Hin; apply H; right; assumption.
Qed.

Lemma parse_encode : forall t, Forall obs_wf t -> forall fuel, (length t < fuel)%nat ->
  parse fuel (concat (map encode_obs t)) = Some t.
Proof.
  induction t as [|o t IH]; intros Hwf fuel Hf.
  - destruct fuel; [lia|]. reflexivity.
  - inversion Hwf as [|? ? [Hpre Hsnap] Hwf']; subst.
    destruct fuel as [|fuel]; [cbn in Hf; lia|].
    cbn [map concat]. unfold encode_obs at 1.
    destruct o as [pre snap]. cbn [o_pre o_snap] in *.
    assert (Hne : forall rest, parse (S fuel) ((pre ++ 9 :: snap) ++ rest) =
       match split9 ((pre ++ 9 :: snap) ++ rest) with
       | None => None
       | Some (pre0, rest0) =>
           match rest0 with
           | 1 :: a :: b :: c :: d :: e :: f :: rest' =>
               match parse fuel rest' with
               | Some t => Some (mk_obs pre0 [1; a; b; c; d; e; f] :: t) | None => None end
           | 0 :: a :: rest' =>
               match parse fuel rest' with
               | Some t => Some (mk_obs pre0 [0; a] :: t) | None => None end
           | _ => None
           end
       end).
    { intro rest. destruct pre; reflexivity. }
    rewrite Hne. rewrite <- app_assoc. cbn [app]. rewrite split9_app by assumption.
    cbn in Hf.
    destruct Hsnap as [(a & b & c & d & e & f & ->) | (a & ->)]; cbn [app];
      rewrite IH by (assumption || lia); reflexivity.
Qed.

Lemma encode_length : forall t, (length t <= length (concat (map encode_obs t)))%nat.
Proof.
  induction t as [|o t IH]; cbn [map concat length]; [lia|].
  rewrite app_length. unfold encode_obs at 1. rewrite app_length. cbn [length]. lia.
Qed.
