(* C19 — Only activated sessions on their own channel can use services.  Statements only. *)
From Coq Require Import List ZArith String.
From OV Require Import Gen.C19Dispatch C19.Model C19.Proofs.
Open Scope Z_scope.

Theorem C19_dispatch_guarded : dispatch_ok = true.
Proof. exact dispatch_ok_holds. Qed.
Print Assumptions C19_dispatch_guarded.
