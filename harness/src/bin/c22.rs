//! C22: keep-alives and lifetime expiry of a subscription.
//!
//! Two kinds of case:
//!  * `Hist`: a real `Subscriptions` (through the `VerifS1Subscriptions` hook) holding one real
//!    `Subscription` without monitored items is driven by a history of client publish requests and
//!    timer ticks with explicit times; per operation the publish responses produced (keep-alive /
//!    BadTimeout status change / ...) and a snapshot of the private timing state are observed.
//!  * `Table`: one call of the real `update_state` from an arbitrary (state, counters, flags,
//!    inputs) point of its finite abstraction; the handled row, action and new state are observed.
#[path = "../util.rs"]
mod util;
use util::*;

use opcua::core::supported_message::SupportedMessage;
use opcua::server::address_space::AddressSpace;
use opcua::server::diagnostics::ServerDiagnostics;
use opcua::server::subscriptions::subscription::Subscription;
use opcua::server::subscriptions::subscriptions::VerifS1Subscriptions;
use opcua::sync::RwLock;
use opcua::types::service_types::{PublishRequest, StatusChangeNotification};
use opcua::types::status_code::StatusCode;
use opcua::types::*;
use std::sync::Arc;

#[derive(Clone)]
pub enum Op { Pub, Timer(i64) }

#[derive(Clone)]
pub enum Case {
    Hist { kac: u32, life: u32, enabled: bool, ivl: u32, ops: Vec<Op> },
    Table { st: u8, life: u32, kac: u32, first: bool, enabled: bool, maxlife: u32, maxkac: u32,
            recv: bool, na: bool, mn: bool, rq: bool, te: bool },
}
pub struct P;

fn t0() -> DateTimeUtc {
    use chrono::TimeZone;
    chrono::Utc.with_ymd_and_hms(2024, 1, 1, 0, 0, 0).unwrap()
}

fn diag() -> Arc<RwLock<ServerDiagnostics>> { Arc::new(RwLock::new(ServerDiagnostics::default())) }

/// 1 keep-alive, 2 status change BadTimeout, 3 any other notification message, 4 service fault,
/// 7 anything else
fn classify(m: &SupportedMessage) -> i128 {
    match m {
        SupportedMessage::PublishResponse(r) => match &r.notification_message.notification_data {
            None => 1,
            Some(v) => {
                if v.len() == 1
                    && v[0].node_id == NodeId::from(&ObjectId::StatusChangeNotification_Encoding_DefaultBinary)
                {
                    match v[0].decode_inner::<StatusChangeNotification>(&DecodingOptions::default()) {
                        Ok(s) if s.status == StatusCode::BadTimeout => 2,
                        _ => 3,
                    }
                } else { 3 }
            }
        },
        SupportedMessage::ServiceFault(_) => 4,
        _ => 7,
    }
}

fn publish_request(now: &DateTimeUtc, handle: u32) -> PublishRequest {
    PublishRequest {
        request_header: RequestHeader::new(&NodeId::null(), &DateTime::from(*now), handle),
        subscription_acknowledgements: None,
    }
}

/// The model counts time in units and never says how long a unit is; the harness makes a unit either one
/// millisecond or 17/16 of one (so that publishing intervals and tick times are not whole milliseconds:
/// 1000 units = 1062.5 ms, exactly representable as f64 and as a whole number of nanoseconds).
fn exec_hist(kac: u32, life: u32, enabled: bool, ivl: u32, ops: &[Op]) -> Vec<i128> {
    let unit_ns: i64 = if (kac as usize + life as usize + ops.len()) % 2 == 0 { 1_000_000 } else { 1_062_500 };
    let address_space = AddressSpace::default();
    let mut out = Vec::new();
    let mut sub = Subscription::new(diag(), 1, enabled, (ivl as i64 * unit_ns) as f64 / 1e6, life, kac, 0);
    sub.verif_s1_set_last_time(t0());
    let mut subs = VerifS1Subscriptions::new(100, 30000);
    subs.insert(1, sub);
    let mut now = t0();
    let mut handle = 0u32;
    for op in ops {
        let r = match op {
            Op::Pub => {
                handle += 1;
                let req = publish_request(&now, handle);
                guarded(|| subs.enqueue_publish_request(&now, handle, req, &address_space))
            }
            Op::Timer(dt) => {
                now = now + chrono::Duration::nanoseconds(*dt * unit_ns);
                guarded(|| subs.tick_timer(&now, &address_space))
            }
        };
        match r {
            Err(_) => { out.push(-2); return out; }
            Ok(Err(e)) => out.push(if e == StatusCode::BadTooManyPublishRequests { 5 } else { 6 }),
            Ok(Ok(())) => {}
        }
        if let Some(rs) = subs.take_publish_responses() {
            for r in rs.iter() { out.push(classify(&r.response)); }
        }
        out.push(9);
        let q = subs.publish_request_queue_len() as i128;
        match subs.get_mut(1) {
            Some(s) => {
                let (st, l, k, f, _e, nq) = s.verif_s1_snapshot();
                out.extend_from_slice(&[1, st as i128, l as i128, k as i128, f as i128, nq as i128, q]);
            }
            None => out.extend_from_slice(&[0, q]),
        }
    }
    out
}

impl Property for P {
    type Case = Case;
    fn fixed(tier: &str) -> Vec<Case> {
        let mut v = Vec::new();
        let always = |n: usize, ivl: i64| -> Vec<Op> {
            let mut o = vec![Op::Pub, Op::Timer(0)];
            for _ in 0..n { o.push(Op::Pub); o.push(Op::Timer(ivl)); }
            o
        };
        let never = |n: usize, ivl: i64| -> Vec<Op> {
            let mut o = vec![Op::Timer(0)];
            for _ in 0..n { o.push(Op::Timer(ivl)); }
            o
        };
        // the design round's witness: kac 3, life 9, 40 ticks with requests always available; before
        // the fix of rows 14/15 the only keep-alive was the first one
        v.push(Case::Hist { kac: 3, life: 9, enabled: true, ivl: 1000, ops: always(40, 1000) });
        v.push(Case::Hist { kac: 3, life: 9, enabled: false, ivl: 1000, ops: always(40, 1000) });
        v.push(Case::Hist { kac: 1, life: 3, enabled: true, ivl: 1000, ops: always(12, 1000) });
        v.push(Case::Hist { kac: 1, life: 4, enabled: true, ivl: 1000, ops: always(12, 1000) });
        v.push(Case::Hist { kac: 2, life: 6, enabled: true, ivl: 1000, ops: always(20, 1000) });
        v.push(Case::Hist { kac: 10, life: 30, enabled: true, ivl: 100, ops: always(50, 100) });
        // no requests at all: expiry after `life` intervals, then the status change is delivered
        for (k, l) in [(1u32, 3u32), (3, 9), (2, 7), (5, 15)] {
            for en in [true, false] {
                let mut o = never(l as usize + 2, 1000);
                o.push(Op::Pub); o.push(Op::Pub); o.push(Op::Timer(1000));
                v.push(Case::Hist { kac: k, life: l, enabled: en, ivl: 1000, ops: o });
            }
        }
        // requests stop after a while
        {
            let mut o = always(8, 1000);
            o.extend(never(12, 1000));
            o.push(Op::Pub);
            v.push(Case::Hist { kac: 3, life: 9, enabled: true, ivl: 1000, ops: o });
        }
        // ticks faster and slower than the publishing interval
        v.push(Case::Hist { kac: 2, life: 6, enabled: true, ivl: 1000, ops: always(30, 400) });
        v.push(Case::Hist { kac: 2, life: 6, enabled: true, ivl: 1000, ops: never(30, 400) });
        v.push(Case::Hist { kac: 2, life: 6, enabled: true, ivl: 1000, ops: never(10, 2500) });
        // single transitions, one per row of the table
        for (st, life, kac, first, en, recv, na, mn, rq, te) in [
            (1u8, 9u32, 3u32, false, true, false, false, false, false, true),
            (2, 9, 3, false, true, true, false, false, true, false),
            (2, 9, 3, false, true, true, true, true, true, false),
            (2, 5, 3, false, true, false, true, false, true, true),
            (2, 5, 3, false, true, false, false, false, true, true),
            (2, 5, 3, false, true, false, false, false, false, true),
            (2, 5, 3, true, true, false, false, false, true, true),
            (3, 5, 3, true, true, true, true, false, true, false),
            (3, 5, 3, true, true, true, false, false, true, false),
            (3, 5, 3, true, true, false, false, false, false, true),
            (4, 5, 3, true, true, true, false, false, true, false),
            (4, 5, 3, true, true, false, true, false, true, true),
            (4, 5, 1, true, true, false, false, false, true, true),
            (4, 5, 2, true, true, false, false, false, true, true),
            (4, 5, 1, true, true, false, false, false, false, true),
            (4, 1, 1, true, true, false, false, false, true, true),
            (3, 0, 1, true, true, false, false, false, false, true),
            (2, 5, 3, true, true, true, false, false, true, true),
        ] {
            v.push(Case::Table { st, life, kac, first, enabled: en, maxlife: 9, maxkac: 3, recv, na, mn, rq, te });
        }
        if tier == "thorough" {
            // the whole finite abstraction of update_state: 5 states x counters in {0..3} x
            // first-sent x enabled x reason x four flags
            for st in 0..5u8 { for life in 0..4u32 { for kac in 0..4u32 {
            for bits in 0..128u32 {
                let b = |i: u32| bits >> i & 1 == 1;
                v.push(Case::Table { st, life, kac, first: b(0), enabled: b(1), maxlife: 9, maxkac: 3,
                    recv: b(2), na: b(3), mn: b(4), rq: b(5), te: b(6) });
            }}}}
        }
        v
    }
    fn gen(r: &mut Rng) -> Case {
        if r.chance(1, 3) {
            let c = |r: &mut Rng| match r.below(6) { 0 => 0, 1 => 1, 2 => 2, 3 => 3, 4 => u32::MAX, _ => r.below(50) as u32 };
            return Case::Table { st: r.below(5) as u8, life: c(r), kac: c(r), first: r.chance(1, 2), enabled: r.chance(3, 4),
                maxlife: if r.chance(1, 8) { r.below(3) as u32 } else { 3 + r.below(30) as u32 },
                maxkac: if r.chance(1, 8) { 0 } else { 1 + r.below(10) as u32 },
                recv: r.chance(1, 3), na: r.chance(1, 2), mn: r.chance(1, 3), rq: r.chance(1, 2), te: r.chance(2, 3) };
        }
        let kac = 1 + match r.below(4) { 0 => 0, 1 => r.below(3), _ => r.below(8) } as u32;
        let life = 3 * kac + match r.below(3) { 0 => 0, 1 => r.below(3), _ => r.below(20) } as u32;
        let enabled = r.chance(3, 4);
        let ivl = *r.pick(&[100u32, 1000, 250]);
        let n = 5 + r.below(60) as usize;
        let style = r.below(6);
        let mut ops = Vec::new();
        if r.chance(1, 2) { ops.push(Op::Pub); }
        ops.push(Op::Timer(r.below(3) as i64 * ivl as i64 / 2));
        let mut phase_req = r.chance(1, 2);
        for i in 0..n {
            let dt = match r.below(8) { 0 => ivl as i64 / 2, 1 => ivl as i64 * 2 + 1, 2 => ivl as i64 - 1, 3 => 0, _ => ivl as i64 };
            let dt = if style == 0 || style == 1 || style == 2 { ivl as i64 } else { dt };
            let p = match style {
                0 | 3 => true,                         // always available
                1 => false,                            // never
                2 | 4 => { if r.chance(1, 6) { phase_req = !phase_req; } phase_req } // phases
                _ => r.chance(1, 2),                   // random
            };
            if p { ops.push(Op::Pub); if r.chance(1, 10) { ops.push(Op::Pub); } }
            ops.push(Op::Timer(dt));
            let _ = i;
        }
        if r.chance(1, 2) { ops.push(Op::Pub); }
        Case::Hist { kac, life, enabled, ivl, ops }
    }
    fn exec(c: &Case) -> Out {
        match c {
            Case::Hist { kac, life, enabled, ivl, ops } => {
                let out = exec_hist(*kac, *life, *enabled, *ivl, ops);
                let npub = ops.iter().filter(|o| matches!(o, Op::Pub)).count();
                let tag = format!("hist-{}-{}", if *enabled { "enabled" } else { "disabled" },
                    if npub == 0 { "norequests" } else if npub * 2 >= ops.len() { "requests" } else { "intermittent" });
                let term = format!("(Hist {} {} {} {} {})", z(*kac as i128), z(*life as i128), coq_bool(*enabled), z(*ivl as i128),
                    coq_list(ops, |o| match o { Op::Pub => "Pub".to_string(), Op::Timer(d) => format!("Timer {}", z(*d as i128)) }));
                Out { tag, term, out }
            }
            Case::Table { st, life, kac, first, enabled, maxlife, maxkac, recv, na, mn, rq, te } => {
                let mut s = Subscription::new(diag(), 1, *enabled, 1000.0, *maxlife, *maxkac, 0);
                s.verif_s1_set(*st, *life, *kac, *first, *enabled);
                let out = match guarded(|| s.verif_s1_update_state(*recv, *na, *mn, *rq, *te)) {
                    Ok((row, act)) => {
                        let (st2, l2, k2, f2, _e, _nq) = s.verif_s1_snapshot();
                        vec![row as i128, act as i128, st2 as i128, l2 as i128, k2 as i128, f2 as i128]
                    }
                    Err(_) => vec![-2],
                };
                let tag = format!("table-state{}", st);
                let term = format!("(Table {} {} {} {} {} {} {} {} {} {} {} {})", st, z(*life as i128), z(*kac as i128),
                    coq_bool(*first), coq_bool(*enabled), z(*maxlife as i128), z(*maxkac as i128),
                    coq_bool(*recv), coq_bool(*na), coq_bool(*mn), coq_bool(*rq), coq_bool(*te));
                Out { tag, term, out }
            }
        }
    }
}
fn main() { run_main::<P>() }
