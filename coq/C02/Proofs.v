(* C02 — totality, depth and allocation bounds of the decoders on arbitrary bytes.

   [safe d B Q m]: on every byte list, m does not reach a panic site, the instrumented depth is at
   most d, the largest allocation request at most B, and a returned value satisfies Q and leaves a
   byte list.  A Hoare-style bind rule composes it. *)
From Coq Require Import List ZArith Bool Lia.
Import ListNotations.
From OV Require Import C01.Codec C01.CodecProofs C01.Builtins C01.Types C01.TypesProofs C01.Model C02.Model.
Open Scope Z_scope.

Definition byte_list (bs : bytes) : Prop := Forall is_byte bs.

Definition safe {A} (d B : Z) (Q : A -> Prop) (m : M A) : Prop :=
  forall bs, byte_list bs ->
    match m bs with
    | (Ok (a, rest), s) => Q a /\ (byte_list rest /\ (length rest <= length bs)%nat) /\ st_depth s <= d /\ st_alloc s <= B
    | (Err _, s) => st_depth s <= d /\ st_alloc s <= B
    | (Panic _, _) => False
    end.

Definition any {A} : A -> Prop := fun _ => True.

Section Rules.
  Variables d B : Z.
  Hypothesis Hd : 0 <= d.
  Hypothesis HB : 0 <= B.

  Lemma safe_ret {A} (Q : A -> Prop) a : Q a -> safe d B Q (ret a).
  Proof. intros Hq bs Hbs. cbn. auto. Qed.
  Lemma safe_fail {A} (Q : A -> Prop) e : safe d B Q (fail e).
  Proof. intros bs Hbs. cbn. auto. Qed.
  Lemma safe_bind {A C} (Q : A -> Prop) (R : C -> Prop) (m : M A) (f : A -> M C) :
    safe d B Q m -> (forall a, Q a -> safe d B R (f a)) -> safe d B R (bind m f).
  Proof.
    intros Hm Hf bs Hbs. specialize (Hm bs Hbs). unfold bind.
    destruct (m bs) as [[[a rest]|e|p] s]; [|exact Hm|exact Hm].
    destruct Hm as (Hq & [Hr Hlen] & H1 & H2). specialize (Hf a Hq rest Hr).
    destruct (f a rest) as [[[c rest']|e|p] s']; cbn [st_max st_depth st_alloc]; [| |exact Hf].
    - destruct Hf as (? & [? ?] & ? & ?). repeat split; auto; lia.
    - destruct Hf as (? & ?). split; lia.
  Qed.
  Lemma safe_weaken {A} (Q R : A -> Prop) m : (forall a, Q a -> R a) -> safe d B Q m -> safe d B R m.
  Proof.
    intros H Hm bs Hbs. specialize (Hm bs Hbs). destruct (m bs) as [[[a rest]|e|p] s]; auto.
    destruct Hm as (? & ?). split; auto.
  Qed.
  Lemma safe_alloc n : n <= B -> safe d B any (alloc n).
  Proof. intros Hn bs Hbs. cbn. unfold any. auto. Qed.
  Lemma safe_if {A} (Q : A -> Prop) (c : bool) m1 m2 :
    (c = true -> safe d B Q m1) -> (c = false -> safe d B Q m2) -> safe d B Q (if c then m1 else m2).
  Proof. destruct c; auto. Qed.

  Lemma safe_take n : safe d B (fun b => byte_list b /\ length b = n) (take n).
  Proof.
    intros bs Hbs. unfold take. destruct (Nat.ltb_spec (length bs) n); cbn; [auto|].
    pose proof Hbs as Hbs'.
    unfold byte_list in *. rewrite <- (firstn_skipn n bs) in Hbs'. apply Forall_app in Hbs'.
    destruct Hbs' as [H1 H2]. repeat split; auto; [rewrite firstn_length; lia|rewrite skipn_length; lia].
  Qed.
  Lemma safe_bump {A} (Q : A -> Prop) m : safe (d - 1) B Q m -> safe d B Q (bump m).
  Proof.
    intros Hm bs Hbs. specialize (Hm bs Hbs). unfold bump.
    destruct (m bs) as [[[a rest]|e|p] s]; cbn [st_depth st_alloc]; [| |exact Hm].
    - destruct Hm as (? & [? ?] & ? & ?). repeat split; auto; lia.
    - destruct Hm as (? & ?). split; lia.
  Qed.
  Lemma safe_mono {A} (Q : A -> Prop) d' m : d' <= d -> safe d' B Q m -> safe d B Q m.
  Proof.
    intros Hle Hm bs Hbs. specialize (Hm bs Hbs). destruct (m bs) as [[[a rest]|e|p] s]; auto.
    - destruct Hm as (? & [? ?] & ? & ?). repeat split; auto; lia.
    - destruct Hm as (? & ?). split; lia.
  Qed.
End Rules.

Lemma le_dec_range bs : byte_list bs -> in_u (length bs) (le_dec bs).
Proof.
  induction 1 as [|b bs Hb Hbs IH]; unfold in_u in *.
  - cbn. lia.
  - cbn [le_dec length]. rewrite pow256. unfold is_byte in Hb. lia.
Qed.
Lemma signed_range n u : (0 < n)%nat -> in_u n u -> in_i n (signed n u).
Proof.
  intros Hn Hu. unfold signed, in_i, in_u in *. pose proof (half_pow n Hn).
  destruct (Z.ltb_spec u (2 ^ (8 * Z.of_nat n - 1))); lia.
Qed.

Section Decoders.
  Variables d B : Z.
  Hypothesis Hd : 0 <= d.
  Hypothesis HB : 0 <= B.

  Lemma safe_read_u n : safe d B (in_u n) (read_u n).
  Proof.
    unfold read_u. eapply safe_bind; [apply safe_take; assumption|].
    intros b [Hb Hl]. apply safe_ret; try assumption. subst n. apply le_dec_range, Hb.
  Qed.
  Lemma safe_read_i n : (0 < n)%nat -> safe d B (in_i n) (read_i n).
  Proof.
    intros Hn. unfold read_i. eapply safe_bind; [apply safe_take; assumption|].
    intros b [Hb Hl]. apply safe_ret; try assumption. apply signed_range; [exact Hn|].
    subst n. apply le_dec_range, Hb.
  Qed.
  Lemma safe_read_bool : safe d B any read_bool.
  Proof.
    unfold read_bool. eapply safe_bind; [apply safe_read_u|]. intros. apply safe_ret; unfold any; auto.
  Qed.

  Lemma safe_dec_ustr limit utf8 : limit <= B -> safe d B any (dec_ustr limit utf8).
  Proof.
    intros Hl. unfold dec_ustr. eapply safe_bind; [apply safe_read_i; lia|]. intros len _.
    apply safe_if; intros _; [apply safe_ret; unfold any; auto|].
    apply safe_if; intros _; [apply safe_fail; assumption|].
    apply safe_if; intros Hc; [apply safe_fail; assumption|].
    apply Z.ltb_ge in Hc.
    eapply safe_bind; [apply safe_alloc; lia|]. intros _ _.
    eapply safe_bind; [apply safe_take; assumption|]. intros b _.
    apply safe_if; intros _; [apply safe_fail; assumption|apply safe_ret; unfold any; auto].
  Qed.

  Lemma safe_dec_n {A} (Q : A -> Prop) n m : safe d B Q m -> safe d B any (dec_n n m).
  Proof.
    intros Hm. induction n as [|n IH]; cbn [dec_n]; [apply safe_ret; unfold any; auto|].
    eapply safe_bind; [exact Hm|]. intros x _. eapply safe_bind; [exact IH|]. intros xs _.
    apply safe_ret; unfold any; auto.
  Qed.

  Lemma safe_dec_array {A} (Q : A -> Prop) o esize m :
    0 <= esize -> 0 <= max_arr o -> max_arr o * esize <= B -> safe d B Q m ->
    safe d B any (dec_array o esize m).
  Proof.
    intros He Ha Hb Hm. unfold dec_array. eapply safe_bind; [apply safe_read_i; lia|]. intros len _.
    apply safe_if; intros H1; [apply safe_ret; unfold any; auto|].
    apply safe_if; intros H2; [apply safe_fail; assumption|].
    apply safe_if; intros H3; [apply safe_fail; assumption|].
    apply Z.ltb_ge in H3. apply Z.ltb_ge in H2.
    eapply safe_bind; [apply safe_alloc; nia|]. intros _ _.
    eapply safe_bind; [eapply safe_dec_n; exact Hm|]. intros xs _. apply safe_ret; unfold any; auto.
  Qed.

  Lemma safe_dec_opt {A} (Q : A -> Prop) (c : bool) m : safe d B Q m -> safe d B any (dec_opt c m).
  Proof.
    intros Hm. unfold dec_opt. destruct c; [|apply safe_ret; unfold any; auto].
    eapply safe_bind; [exact Hm|]. intros. apply safe_ret; unfold any; auto.
  Qed.

  (* DateTime: the panic site is unreachable for an i64 tick count and a bounded client offset *)
  Lemma safe_dec_date off : - 2 ^ 64 * 100 <= off <= 2 ^ 64 * 100 -> safe d B any (dec_date off).
  Proof.
    intros Hoff. unfold dec_date. eapply safe_bind; [apply safe_read_i; lia|]. intros v Hv.
    unfold in_i in Hv. change (2 ^ (8 * Z.of_nat 8 - 1)) with 9223372036854775808 in Hv.
    change (2 ^ 64) with 18446744073709551616 in Hoff.
    unfold I64MAX, END_TICKS, CHRONO_MIN_NS, CHRONO_MAX_NS. change (2 ^ 63 - 1) with 9223372036854775807.
    cbv zeta.
    destruct (Z.eqb_spec v 9223372036854775807).
    - destruct (Z.ltb_spec (2650467743990000000 * 100 - off) (-8322956841600000000000)); [lia|].
      destruct (Z.ltb_spec 8221911350399999999999 (2650467743990000000 * 100 - off)); [lia|].
      cbn [orb]. apply safe_ret; unfold any; auto.
    - destruct (Z.ltb_spec (v * 100 - off) (-8322956841600000000000)); [lia|].
      destruct (Z.ltb_spec 8221911350399999999999 (v * 100 - off)); [lia|].
      cbn [orb]. apply safe_ret; unfold any; auto.
  Qed.
End Decoders.

(* ---- every decoder is safe ---------------------------------------------------------------------------- *)
Ltac s1 :=
  first
  [ apply safe_ret; [assumption | assumption | solve [unfold any; auto]]
  | apply safe_fail; assumption
  | apply safe_read_u; assumption
  | apply safe_read_i; [assumption | assumption | lia]
  | apply safe_take; assumption
  | apply safe_read_bool; assumption ].
Ltac sbind := eapply safe_bind; [ | intros ? _ ].
Ltac sgo := repeat first [ s1 | apply safe_if; intros _ | sbind ].

Section Opts.
  Variable o : opts.
  Hypothesis Hv : valid_opts o.
  Let B := alloc_bound o.

  Lemma B_nonneg : 0 <= B.
  Proof. destruct Hv as (H1 & _). subst B. unfold alloc_bound. lia. Qed.
  Lemma B_str : max_str o <= B. Proof. subst B. unfold alloc_bound. lia. Qed.
  Lemma B_bstr : max_bstr o <= B. Proof. subst B. unfold alloc_bound. lia. Qed.
  Lemma B_arr e : 0 <= e <= MAX_ESIZE -> max_arr o * e <= B.
  Proof. destruct Hv as (_ & _ & Ha & _). intros He. subst B. unfold alloc_bound. nia. Qed.
  Lemma arr_nonneg : 0 <= max_arr o. Proof. apply Hv. Qed.
  Lemma off_ok : - 2 ^ 64 * 100 <= offset_ns o <= 2 ^ 64 * 100. Proof. apply Hv. Qed.

  Section Depth.
    Variable d : Z.
    Hypothesis Hd : 0 <= d.
    Let HB := B_nonneg.

    Lemma safe_dec_str : safe d B any (dec_str o).
    Proof. apply safe_dec_ustr; [assumption|exact HB|apply B_str]. Qed.
    Lemma safe_dec_bstr : safe d B any (dec_bstr o).
    Proof. apply safe_dec_ustr; [assumption|exact HB|apply B_bstr]. Qed.

    Lemma safe_nodeid_body k : safe d B any (dec_nodeid_body o k).
    Proof.
      pose proof safe_dec_str. pose proof safe_dec_bstr. unfold dec_nodeid_body.
      repeat first [ eassumption | s1 | apply safe_if; intros _ | sbind ].
    Qed.
    Lemma safe_dec_nodeid : safe d B any (dec_nodeid o).
    Proof. unfold dec_nodeid. sbind; [s1|]. apply safe_nodeid_body. Qed.
    Lemma safe_dec_expnid : safe d B any (dec_expnid o).
    Proof.
      pose proof safe_dec_str. unfold dec_expnid.
      sbind; [s1|]. sbind; [apply safe_nodeid_body|].
      sbind; [apply safe_if; intros _; [eassumption|s1]|].
      sbind; [apply (safe_if d B (@any Z)); intros _;
              [eapply safe_weaken; [|apply safe_read_u; assumption]; intros; exact I|s1]|]. s1.
    Qed.
    Lemma safe_dec_ltext : safe d B any (dec_ltext o).
    Proof.
      pose proof safe_dec_str. unfold dec_ltext.
      sbind; [s1|]. sbind; [apply safe_if; intros _; [eassumption|s1]|].
      sbind; [apply safe_if; intros _; [eassumption|s1]|]. s1.
    Qed.
  End Depth.

  Let HB := B_nonneg.

  Lemma safe_lock {A} (Q : A -> Prop) (d : nat) (body : nat -> M A) :
    (forall d', d = S d' -> safe (Z.of_nat d') B Q (body d')) -> safe (Z.of_nat d) B Q (lock d body).
  Proof.
    intros Hb. unfold lock. destruct d as [|d']; [apply safe_fail; [lia|exact HB]|].
    apply safe_bump. replace (Z.of_nat (S d') - 1) with (Z.of_nat d') by lia. apply Hb. reflexivity.
  Qed.

  Lemma safe_dec_ext d : safe (Z.of_nat d) B any (dec_ext o d).
  Proof.
    unfold dec_ext. apply safe_lock. intros d' _.
    assert (Hd : 0 <= Z.of_nat d') by lia.
    pose proof (safe_dec_str _ Hd). pose proof (safe_dec_bstr _ Hd). pose proof (safe_dec_nodeid _ Hd).
    repeat first [ eassumption | s1 | apply safe_if; intros _ | sbind ].
  Qed.

  Lemma safe_dec_diag : forall d, safe (Z.of_nat d) B any (dec_diag o d).
  Proof.
    induction d as [|d IH]; cbn [dec_diag]; [apply safe_fail; [lia|exact HB]|].
    apply safe_bump. replace (Z.of_nat (S d) - 1) with (Z.of_nat d) by lia.
    assert (Hd : 0 <= Z.of_nat d) by lia. pose proof (safe_dec_str _ Hd).
    sbind; [s1|]. sbind; [eapply safe_dec_opt; try assumption; s1|]. sbind; [eapply safe_dec_opt; try assumption; s1|].
    sbind; [eapply safe_dec_opt; try assumption; s1|]. sbind; [eapply safe_dec_opt; try assumption; s1|].
    sbind; [eapply safe_dec_opt; try assumption; eassumption|]. sbind; [eapply safe_dec_opt; try assumption; s1|].
    sbind; [eapply safe_dec_opt; try assumption; exact IH|]. s1.
  Qed.

  Lemma safe_dec_scalar d ty : safe (Z.of_nat d) B any (dec_scalar o d ty).
  Proof.
    assert (Hd : 0 <= Z.of_nat d) by lia.
    pose proof (safe_dec_str _ Hd). pose proof (safe_dec_bstr _ Hd). pose proof (safe_dec_nodeid _ Hd).
    pose proof (safe_dec_expnid _ Hd). pose proof (safe_dec_ltext _ Hd).
    pose proof (safe_dec_ext d). pose proof (safe_dec_diag d).
    pose proof (safe_dec_date _ B Hd HB _ off_ok).
    unfold dec_scalar.
    repeat (apply safe_if; intros _; [solve [repeat first [ eassumption | s1 | sbind ]]|]).
    s1.
  Qed.

  Lemma safe_dv_fields d (mv : M variant) :
    0 <= d -> safe d B any mv -> safe d B any (dec_dv_fields o mv).
  Proof.
    intros Hd Hm. unfold dec_dv_fields.
    assert (Z0 : - 2 ^ 64 * 100 <= 0 <= 2 ^ 64 * 100) by lia.
    pose proof (safe_dec_date _ B Hd HB _ Z0). pose proof (safe_dec_date _ B Hd HB _ off_ok).
    sbind; [s1|]. sbind; [eapply safe_dec_opt; try assumption; exact Hm|].
    sbind; [eapply safe_dec_opt; try assumption; s1|]. sbind; [eapply safe_dec_opt; try assumption; eassumption|].
    sbind; [eapply safe_dec_opt; try assumption; s1|]. sbind; [eapply safe_dec_opt; try assumption; eassumption|].
    sbind; [eapply safe_dec_opt; try assumption; s1|]. s1.
  Qed.

  Lemma VARIANT_SIZE_ok : 0 <= VARIANT_SIZE <= MAX_ESIZE. Proof. unfold VARIANT_SIZE, MAX_ESIZE. lia. Qed.

  Lemma safe_dec_variant : forall d, safe (Z.of_nat d) B any (dec_variant o d).
  Proof.
    induction d as [|d IH].
    - (* no depth lock left *)
      assert (Hd : 0 <= Z.of_nat 0) by lia.
      assert (Hdecv : forall ty, safe (Z.of_nat 0) B any
        (if ty =? 0 then ret VEmpty
         else if ty =? 24 then fail EDepth
         else if ty =? 23 then fail EDepth
         else if ty <=? 25 then s <- dec_scalar o 0 ty ;; ret (VS s)
         else ret VEmpty)).
      { intros ty. pose proof (safe_dec_scalar 0 ty).
        repeat first [ eassumption | s1 | apply safe_if; intros _ | sbind ]. }
      cbn [dec_variant]. sbind; [s1|]. cbv zeta.
      apply safe_if; intros _.
      + sbind; [s1|]. apply safe_if; intros _; [s1|]. apply safe_if; intros _; [apply safe_if; intros _; s1|].
        apply safe_if; intros Hc; [s1|]. apply Z.ltb_ge in Hc.
        sbind; [apply safe_alloc; try assumption|].
        { pose proof (B_arr VARIANT_SIZE VARIANT_SIZE_ok). pose proof VARIANT_SIZE_ok.
          assert (0 <= a0 \/ a0 < 0) as [Hp|Hn] by lia; [nia|]. pose proof B_nonneg. nia. }
        sbind; [eapply safe_dec_n; try assumption; apply Hdecv|].
        apply safe_if; intros _; [s1|]. apply safe_if; intros _.
        * sbind; [eapply safe_dec_array with (Q := in_u 4); try assumption; try lia;
                  [apply arr_nonneg|apply B_arr; unfold MAX_ESIZE; lia|s1]|].
          destruct a3 as [ds|]; [|s1]. apply safe_if; intros _; [s1|].
          destruct (u32_product ds); [|s1]. repeat (apply safe_if; intros _); s1.
        * apply safe_if; intros _; s1.
      + apply safe_if; intros _; [s1|]. apply Hdecv.
    - assert (Hd : 0 <= Z.of_nat (S d)) by lia.
      assert (Hd' : 0 <= Z.of_nat d) by lia.
      assert (Hdecv : forall ty, safe (Z.of_nat (S d)) B any
        (if ty =? 0 then ret VEmpty
         else if ty =? 24 then bump (w <- dec_variant o d ;; ret (VVar w))
         else if ty =? 23 then bump (x <- dec_dv_fields o (dec_variant o d) ;; ret (VDV (fst x) (snd x)))
         else if ty <=? 25 then s <- dec_scalar o (S d) ty ;; ret (VS s)
         else ret VEmpty)).
      { intros ty. pose proof (safe_dec_scalar (S d) ty).
        apply safe_if; intros _; [s1|]. apply safe_if; intros _.
        { apply safe_bump. replace (Z.of_nat (S d) - 1) with (Z.of_nat d) by lia.
          sbind; [exact IH|]. s1. }
        apply safe_if; intros _.
        { apply safe_bump. replace (Z.of_nat (S d) - 1) with (Z.of_nat d) by lia.
          sbind; [apply safe_dv_fields; [lia|exact IH]|]. s1. }
        repeat first [ eassumption | s1 | apply safe_if; intros _ | sbind ]. }
      cbn [dec_variant]. sbind; [s1|]. cbv zeta.
      apply safe_if; intros _.
      + sbind; [s1|]. apply safe_if; intros _; [s1|]. apply safe_if; intros _; [apply safe_if; intros _; s1|].
        apply safe_if; intros Hc; [s1|]. apply Z.ltb_ge in Hc.
        sbind; [apply safe_alloc; try assumption|].
        { pose proof (B_arr VARIANT_SIZE VARIANT_SIZE_ok). pose proof VARIANT_SIZE_ok.
          assert (0 <= a0 \/ a0 < 0) as [Hp|Hn] by lia; [nia|]. pose proof B_nonneg. nia. }
        sbind; [eapply safe_dec_n; try assumption; apply Hdecv|].
        apply safe_if; intros _; [s1|]. apply safe_if; intros _.
        * sbind; [eapply safe_dec_array with (Q := in_u 4); try assumption; try lia;
                  [apply arr_nonneg|apply B_arr; unfold MAX_ESIZE; lia|s1]|].
          destruct a3 as [ds|]; [|s1]. apply safe_if; intros _; [s1|].
          destruct (u32_product ds); [|s1]. repeat (apply safe_if; intros _); s1.
        * apply safe_if; intros _; s1.
      + apply safe_if; intros _; [s1|]. apply Hdecv.
  Qed.
End Opts.

(* ---- type descriptors, transport headers, the dispatcher ---------------------------------------------- *)
Fixpoint ty_small (t : ty) : Prop :=
  match t with
  | TArr t' => ty_small t'
  | TStruct fs => (fix all (l : list ty) : Prop := match l with [] => True | f :: r => ty_small f /\ all r end) fs
  | TEnum w _ | TFlags w _ | TEnumD w _ _ => (0 < w <= 8)%nat
  | _ => True
  end.

Lemma esize_scalar_range k : 0 <= esize_scalar k <= MAX_ESIZE.
Proof.
  unfold esize_scalar, MAX_ESIZE.
  remember (Z.to_nat k) as n. clear Heqn.
  do 26 (destruct n as [|n]; [cbn; lia|]). destruct n; cbn; lia.
Qed.
Lemma esize_range t : ty_small t -> 0 <= esize t <= MAX_ESIZE.
Proof.
  destruct t; cbn [esize ty_small]; intros H; try (unfold MAX_ESIZE, VARIANT_SIZE, DATAVALUE_SIZE; lia).
  apply esize_scalar_range.
Qed.

Section Opts2.
  Variable o : opts.
  Hypothesis Hv : valid_opts o.
  Let B := alloc_bound o.

  Lemma safe_dec_dv d : safe (Z.of_nat d) B any (dec_dv o d).
  Proof.
    unfold dec_dv. apply safe_lock; [exact Hv|]. intros d' _.
    apply safe_dv_fields; [exact Hv|lia|]. apply safe_dec_variant. exact Hv.
  Qed.

  Lemma safe_dec_ty d : forall t, ty_small t -> safe (Z.of_nat d) B any (dec_ty t o d).
  Proof.
    assert (Hd : 0 <= Z.of_nat d) by lia. pose proof (B_nonneg o Hv) as HB. fold B in HB.
    induction t as [k| | |t IH|fs IH|w vals|w b|w vals dflt] using C01.TypesProofs.ty_ind'; intros Hs; cbn [dec_ty].
    - sbind; [apply safe_dec_scalar; exact Hv|]. s1.
    - sbind; [apply safe_dec_variant; exact Hv|]. s1.
    - sbind; [apply safe_dec_dv|]. s1.
    - cbn [ty_small] in Hs. pose proof (esize_range t Hs).
      sbind; [eapply safe_dec_array; try assumption; try lia;
              [apply (arr_nonneg o Hv)|apply (B_arr o Hv); assumption|apply IH, Hs]|]. s1.
    - eapply safe_bind with (Q := @any (list uval)); [|intros ? _; s1]. cbn [ty_small] in Hs.
      induction IH as [|f fs Hf Hfs IHfs]; [s1|].
      destruct Hs as [Hsf Hsfs]. sbind; [apply Hf, Hsf|]. sbind; [apply IHfs, Hsfs|]. s1.
    - cbn [ty_small] in Hs. eapply safe_bind with (Q := @any Z).
      + destruct w as [|[|w]]; [lia| |]; cbn [read_enum];
          (eapply safe_weaken; [|s1]; intros; exact I).
      + intros ? _. apply safe_if; intros _; s1.
    - cbn [ty_small] in Hs. sbind; [s1|]. s1.
    - cbn [ty_small] in Hs. eapply safe_bind with (Q := @any Z).
      + destruct w as [|[|w]]; [lia| |]; cbn [read_enum];
          (eapply safe_weaken; [|s1]; intros; exact I).
      + intros ? _. s1.
  Qed.

  Lemma safe_msg_header : safe 0 B any dec_msg_header.
  Proof.
    pose proof (B_nonneg o Hv) as HB. fold B in HB. assert (Hd : 0 <= 0) by lia.
    unfold dec_msg_header. sbind; [s1|]. sbind; [s1|]. s1.
  Qed.
  Lemma safe_hello : safe 0 B any (dec_hello o).
  Proof.
    pose proof (B_nonneg o Hv) as HB. fold B in HB. assert (Hd : 0 <= 0) by lia.
    pose proof safe_msg_header. pose proof (safe_dec_str o Hv 0 Hd).
    unfold dec_hello. repeat first [ eassumption | s1 | sbind ].
  Qed.
  Lemma safe_ack : safe 0 B any dec_ack.
  Proof.
    pose proof (B_nonneg o Hv) as HB. fold B in HB. assert (Hd : 0 <= 0) by lia.
    pose proof safe_msg_header. unfold dec_ack. repeat first [ eassumption | s1 | sbind ].
  Qed.
  Lemma safe_errmsg : safe 0 B any (dec_errmsg o).
  Proof.
    pose proof (B_nonneg o Hv) as HB. fold B in HB. assert (Hd : 0 <= 0) by lia.
    pose proof safe_msg_header. pose proof (safe_dec_str o Hv 0 Hd).
    unfold dec_errmsg. repeat first [ eassumption | s1 | sbind ].
  Qed.
  Lemma safe_chunk_header :
    safe 0 B (fun h => exists mt fin size ch, h = [mt; fin; size; ch] /\ in_u 4 size) dec_chunk_header.
  Proof.
    pose proof (B_nonneg o Hv) as HB. fold B in HB. assert (Hd : 0 <= 0) by lia.
    unfold dec_chunk_header. eapply safe_bind; [apply safe_take; assumption|]. intros t [Ht Hl].
    destruct t as [|a [|b [|c [|x t]]]]; try discriminate.
    apply safe_if; intros _; [s1|]. eapply safe_bind; [apply safe_read_u; assumption|]. intros f _.
    apply safe_if; intros _; [s1|]. eapply safe_bind; [apply safe_read_u; assumption|]. intros size Hsz.
    eapply safe_bind; [apply safe_read_u; assumption|]. intros ch _.
    apply safe_ret; try assumption. eauto 10.
  Qed.
  Lemma safe_chunk : safe 0 B any (dec_chunk o).
  Proof.
    pose proof (B_nonneg o Hv) as HB. fold B in HB. assert (Hd : 0 <= 0) by lia.
    unfold dec_chunk. eapply safe_bind; [apply safe_chunk_header|].
    intros h (mt & fin & size & ch & -> & Hsz). cbn [nth].
    apply safe_if; intros Hc; [s1|].
    eapply safe_bind; [apply safe_alloc; try assumption|].
    { (* the declared size is within max_message_size, or there is no limit and it is a u32 *)
      subst B. unfold alloc_bound. unfold in_u in Hsz. change (2 ^ (8 * Z.of_nat 4)) with 4294967296 in Hsz.
      change (2 ^ 32 - 1) with 4294967295.
      destruct (Z.ltb_spec 0 (max_msg o)); cbn [andb] in Hc; [apply Z.ltb_ge in Hc|]; lia. }
    intros _ _. destruct (Z.ltb_spec (Z.max size 12) 12); [lia|].
    intros bs Hbs. destruct (Nat.ltb (length bs) (Z.to_nat (Z.max size 12 - 12))); cbn.
    - split; [exact I|]. split; [split; [constructor|cbn; lia]|lia].
    - split; [exact I|]. split; [split; [|rewrite skipn_length; lia]|lia].
      unfold byte_list in *. rewrite <- (firstn_skipn (Z.to_nat (Z.max size 12 - 12)) bs) in Hbs.
      apply Forall_app in Hbs. apply Hbs.
  Qed.

  Lemma safe_frame : safe 0 B any (dec_frame o).
  Proof.
    pose proof (B_nonneg o Hv) as HB. fold B in HB. assert (Hd : 0 <= 0) by lia.
    intros bs Hbs. unfold dec_frame.
    destruct (zlen bs <=? 8); [cbn; repeat split; auto; lia|].
    assert (H8 : byte_list (firstn 8 bs)).
    { unfold byte_list in *. rewrite <- (firstn_skipn 8 bs) in Hbs. apply Forall_app in Hbs. apply Hbs. }
    pose proof (safe_msg_header (firstn 8 bs) H8) as Hh.
    destruct (dec_msg_header (firstn 8 bs)) as [[[h r]|e|k] s]; [|exact Hh|exact Hh].
    destruct Hh as (_ & _ & Hs1 & Hs2).
    destruct ((0 <? max_msg o) && (max_msg o <? nth 1 h 0)); [split; assumption|].
    destruct (nth 1 h 0 <=? zlen bs); [|cbn; repeat split; auto; lia].
    set (n := Z.to_nat (nth 1 h 0)).
    assert (Hn : byte_list (firstn n bs)).
    { unfold byte_list in *. rewrite <- (firstn_skipn n bs) in Hbs. apply Forall_app in Hbs. apply Hbs. }
    assert (Hk : byte_list (skipn n bs)).
    { unfold byte_list in *. rewrite <- (firstn_skipn n bs) in Hbs. apply Forall_app in Hbs. apply Hbs. }
    assert (Hsub : safe 0 B any (if nth 0 h 0 =? 1 then dec_hello o else if nth 0 h 0 =? 2 then dec_ack
                   else if nth 0 h 0 =? 4 then dec_errmsg o
                   else if nth 0 h 0 =? 3 then (data <- dec_chunk o ;; ret (zlen data :: data)) else fail EInvalid)).
    { destruct (nth 0 h 0 =? 1); [apply safe_hello|]. destruct (nth 0 h 0 =? 2); [apply safe_ack|].
      destruct (nth 0 h 0 =? 4); [apply safe_errmsg|]. destruct (nth 0 h 0 =? 3); [|s1].
      sbind; [apply safe_chunk|]. s1. }
    specialize (Hsub (firstn n bs) Hn).
    match goal with |- context [?m (firstn n bs)] => destruct (m (firstn n bs)) as [[[p r2]|e|k] s2] end.
    - destruct Hsub as (_ & _ & Hs3 & Hs4). cbn [st_max st_depth st_alloc].
      split; [exact I|]. split; [split; [exact Hk|rewrite skipn_length; lia]|]. lia.
    - destruct Hsub as (Hs3 & Hs4). cbn [st_max st_depth st_alloc]. lia.
    - exact Hsub.
  Qed.

  Definition dk_small (dk : Z) : Prop := match decoder_of dk with DTy t => ty_small t | _ => True end.

  Lemma safe_decode dk : dk_small dk -> safe (max_depth o) B any (decode dk o).
  Proof.
    intros Hs. pose proof (B_nonneg o Hv) as HB. fold B in HB.
    assert (Hd : 0 <= max_depth o) by apply Hv.
    assert (Hz : Z.of_nat (depth0 o) = max_depth o) by (unfold depth0; lia).
    unfold decode, dk_small in *. destruct (decoder_of dk) as [t| | | | | | |].
    - sbind; [rewrite <- Hz; apply safe_dec_ty, Hs|]. s1.
    - eapply safe_mono; [..|apply safe_msg_header]; lia.
    - eapply safe_mono; [..|apply safe_hello]; lia.
    - eapply safe_mono; [..|apply safe_ack]; lia.
    - eapply safe_mono; [..|apply safe_errmsg]; lia.
    - eapply safe_mono; [..|eapply safe_weaken; [|apply safe_chunk_header]; intros; exact I]; lia.
    - sbind; [eapply safe_mono; [..|apply safe_chunk]; lia|]. s1.
    - eapply safe_mono; [..|apply safe_frame]; lia.
  Qed.
End Opts2.

(* ---- the theorems ------------------------------------------------------------------------------------------ *)
Theorem total dk o bs : valid_opts o -> dk_small dk -> byte_list bs ->
  match decode dk o bs with
  | (Ok _, s) | (Err _, s) => st_depth s <= max_depth o /\ st_alloc s <= alloc_bound o
  | (Panic _, _) => False
  end.
Proof.
  intros Hv Hs Hbs. pose proof (safe_decode o Hv dk Hs bs Hbs) as H.
  destruct (decode dk o bs) as [[[a rest]|e|p] s]; [|exact H|exact H]. destruct H as (_ & _ & H). exact H.
Qed.

Fixpoint ty_smallb (t : ty) : bool :=
  match t with
  | TArr t' => ty_smallb t'
  | TStruct fs => (fix all (l : list ty) : bool := match l with [] => true | f :: r => ty_smallb f && all r end) fs
  | TEnum w _ | TFlags w _ | TEnumD w _ _ => Nat.ltb 0 w && Nat.leb w 8
  | _ => true
  end.
Lemma ty_smallb_ok : forall t, ty_smallb t = true -> ty_small t.
Proof.
  induction t as [k| | |t IH|fs IH|w vals|w b|w vals dflt] using ty_ind'; cbn [ty_smallb ty_small]; intros H; auto.
  - induction IH as [|f fs Hf Hfs IHfs]; [exact I|]. apply andb_true_iff in H. destruct H as [H1 H2].
    split; [apply Hf, H1|apply IHfs, H2].
  - apply andb_true_iff in H. destruct H as [H1 H2]. apply Nat.ltb_lt in H1. apply Nat.leb_le in H2. lia.
  - apply andb_true_iff in H. destruct H as [H1 H2]. apply Nat.ltb_lt in H1. apply Nat.leb_le in H2. lia.
  - apply andb_true_iff in H. destruct H as [H1 H2]. apply Nat.ltb_lt in H1. apply Nat.leb_le in H2. lia.
Qed.
Lemma all_structs_small : Forall ty_small all_structs.
Proof.
  apply Forall_forall. intros t Ht. apply ty_smallb_ok.
  assert (H : forallb ty_smallb all_structs = true) by (vm_compute; reflexivity).
  rewrite forallb_forall in H. apply H, Ht.
Qed.

Lemma dk_small_all dk : dk_small dk.
Proof.
  unfold dk_small, decoder_of.
  repeat match goal with |- context [if ?c then _ else _] => destruct c end; cbn [ty_small]; auto.
  destruct (nth_in_or_default (Z.to_nat (dk - 100)) all_structs (TS 1)) as [Hin | ->]; [|exact I].
  pose proof all_structs_small as H. rewrite Forall_forall in H. apply H, Hin.
Qed.

Lemma repeat_concat_bytes u n : byte_list u -> byte_list (concat (repeat u n)).
Proof. intros Hu. induction n; cbn; [constructor|]. apply Forall_app. split; assumption. Qed.

Theorem oracle_holds c : valid c -> known c = 0 -> oracle c (C02.Model.run c) = true.
Proof.
  intros Hv _.
  assert (Hgen : forall dk o bs, valid_opts o -> byte_list bs ->
    match decode dk o bs with
    | (Ok (p, rest), s) =>
        (0 <=? zlen bs - zlen rest) && (zlen bs - zlen rest <=? zlen bs)
        && (st_depth s <=? max_depth o)
        && ((if tracks_alloc dk then floor_alloc (st_alloc s) else 0) <=? alloc_bound o) = true
    | (Err _, s) => (st_depth s <=? max_depth o)
        && ((if tracks_alloc dk then floor_alloc (st_alloc s) else 0) <=? alloc_bound o) = true
    | (Panic _, _) => False
    end).
  { intros dk o bs Ho Hbs. pose proof (safe_decode o Ho dk (dk_small_all dk) bs Hbs) as H.
    pose proof (B_nonneg o Ho) as HB.
    assert (Hfl : forall a, a <= alloc_bound o -> (if tracks_alloc dk then floor_alloc a else 0) <= alloc_bound o).
    { intros a Ha. unfold floor_alloc. destruct (tracks_alloc dk); [|lia]. destruct (ALLOC_FLOOR <=? a); lia. }
    destruct (decode dk o bs) as [[[p rest]|e|pp] s]; [| |exact H].
    - destruct H as (_ & [_ Hlen] & H1 & H2). specialize (Hfl _ H2). unfold zlen.
      repeat (apply andb_true_intro; split); apply Z.leb_le; lia.
    - destruct H as (H1 & H2). specialize (Hfl _ H2).
      apply andb_true_intro; split; apply Z.leb_le; lia. }
  destruct c as [dk o bs|dk o u n tail|]; [| |reflexivity].
  - cbn [valid] in *. destruct Hv as [Hv Hb]. specialize (Hgen dk o bs Hv Hb).
    unfold oracle, C02.Model.run. cbn [case_bytes].
    destruct (decode dk o bs) as [[[p rest]|e|pp] s]; [| |contradiction]; cbn [app]; exact Hgen.
  - cbn [valid] in *. destruct Hv as (Hv & Hu & Ht).
    assert (Hbs : byte_list (concat (repeat u (Z.to_nat n)) ++ tail))
      by (apply Forall_app; split; [apply repeat_concat_bytes, Hu|exact Ht]).
    specialize (Hgen dk o _ Hv Hbs).
    unfold oracle, C02.Model.run. cbn [case_bytes].
    destruct (decode dk o (concat (repeat u (Z.to_nat n)) ++ tail)) as [[[p rest]|e|pp] s];
      [| |contradiction]; cbn [app]; exact Hgen.
Qed.

(* ---- nesting beyond the configured depth is rejected ------------------------------------------------------- *)
From OV Require Import C01.VariantProofs.

Fixpoint nestv (n : nat) (v : variant) : variant :=
  match n with O => v | S k => VVar (nestv k v) end.
Lemma chk_nest o : forall n d v, (d < n)%nat -> chk_variant o d (nestv n v) = Some EDepth.
Proof.
  induction n as [|n IH]; intros d v H; [lia|]. cbn [nestv chk_variant].
  destruct d as [|d]; [reflexivity|]. apply IH. lia.
Qed.
Lemma wf_nest n v : wf_variant v -> wf_variant (nestv n v).
Proof. induction n; cbn; auto. Qed.

Theorem depth_rejected o n v rest : offset_ns o = 0 -> wf_variant v -> (depth0 o < n)%nat ->
  Codec.run (dec_variant o (depth0 o)) (enc_variant (nestv n v) ++ rest) = Err EDepth.
Proof.
  intros Ho Hw Hn. unfold enc_variant.
  rewrite (proj2 (variant_law o Ho (nestv n v))) by (apply wf_nest, Hw).
  rewrite chk_nest by exact Hn. reflexivity.
Qed.

(* the same for every other way of nesting: whatever the well-formed value, if its nesting needs
   more depth locks than are left, the decoder answers with the depth error (or an earlier limit
   error), never with a value *)
Theorem over_depth_never_accepted o d v rest : offset_ns o = 0 -> wf_variant v ->
  chk_variant o d v <> None ->
  exists e, Codec.run (dec_variant o d) (enc_variant v ++ rest) = Err e.
Proof.
  intros Ho Hw Hc. unfold enc_variant. rewrite (proj2 (variant_law o Ho v)) by exact Hw.
  destruct (chk_variant o d v) as [e|]; [exists e; reflexivity|contradiction].
Qed.

Example total_example :
  let o := mk_opts 65535 65535 1000 327675 10 0 in
  valid_opts o /\ dk_small 24 /\ byte_list [152; 2; 0; 0; 0; 23; 1; 12; 255; 255; 255; 255; 0].
Proof.
  cbv zeta. split; [|split].
  - unfold valid_opts. cbn. lia.
  - apply dk_small_all.
  - repeat constructor; unfold is_byte; lia.
Qed.
