(* C33 — No well-formed request from an authenticated client crashes the server.
   Exploration (request fuzzing of a live server) + a source tripwire; the theorems here are only
   the bookkeeping of those two; see C33/Model.v for where the real panic-freedom theorems live. *)
From Coq Require Import List ZArith Bool String.
Import ListNotations.
From OV Require Import Gen.C33Sites C33.Baseline C33.Model C33.Proofs.
Open Scope Z_scope.

Theorem C33_sites_within_baseline : forall f n, In (f, n) sites ->
  match lookup f baseline with Some b => n <= b | None => n = 0 end.
Proof. exact sites_within_baseline_spelled. Qed.
Print Assumptions C33_sites_within_baseline.

Theorem C33_oracle : forall c : case, known c = 0 -> oracle c (run c) = true.
Proof. intros c _. apply oracle_holds. Qed.
Print Assumptions C33_oracle.
