(* C29 — deleting a node terminates and leaves no dangling references.

   Model of `AddressSpace::delete` (lib/src/server/address_space/address_space.rs) on top of the
   model of `References` (C28/Refs.v), including `find_aggregates_of` =
   `find_references(node, Some((Aggregates, true)))` and therefore
   `References::reference_type_matches`, the search through HasSubtype references that decides
   which reference types aggregate.  No proofs here.

   As committed in the repository after
     "fix: deleting a node recursed for ever on cycles of aggregating references",
     "fix: reference type matching looped for ever on a cycle of HasSubtype references" and
     "fix: DeleteNodes of an unknown node deleted other nodes and reported BadNodeIdUnknown"
     (children are looked up only for a node that exists);
   the code before each fix is in [Legacy]. *)
From Coq Require Import List ZArith Bool.
Import ListNotations.
From OV Require Import C28.Refs.
From OV Require C28.Model.
Open Scope Z_scope.

Definition AGGREGATES : Z := 44.      (* ReferenceTypeId::Aggregates *)
Definition HAS_SUBTYPE : Z := 45.     (* ReferenceTypeId::HasSubtype *)

(* ---- References::reference_type_matches ------------------------------------------------ *)
Definition is_subtype_ref (r : ref) : bool := fst r =? HAS_SUBTYPE.

(* the `while let Some(current) = stack.pop()` loop; the head of [stack] is the top.
   None = the loop has not finished within [fuel] iterations. *)
Fixpoint tm_loop (fuel : nat) (f : list (Z * list ref)) (sub : Z) (stack visited : list Z)
  : option bool :=
  match fuel with
  | O => None
  | S k =>
      match stack with
      | [] => Some false
      | current :: rest =>
          if sub =? current then Some true
          else if memZ current visited then tm_loop k f sub rest visited     (* already expanded *)
          else match get current f with
               | Some b =>
                   let subtypes := map snd (filter is_subtype_ref b) in
                   if memZ sub subtypes then Some true
                   else tm_loop k f sub (rev subtypes ++ rest) (current :: visited)
               | None => tm_loop k f sub rest (current :: visited)
               end
      end
  end.

(* enough iterations for every map (theorem tm_total): each one pops a stack entry, and a type's
   subtypes are pushed at most once *)
Definition weight (f : list (Z * list ref)) : nat :=
  fold_right (fun kv acc => (length (snd kv) + acc)%nat) O f.
Definition tm_fuel (f : list (Z * list ref)) : nat := S (S (weight f)).

Definition reference_type_matches_opt (f : list (Z * list ref)) (ty sub : Z) (include_subtypes : bool)
  : option bool :=
  if ty =? sub then Some true
  else if include_subtypes then tm_loop (tm_fuel f) f sub [ty] []
  else Some false.

(* the out-of-fuel value is unreachable (C29_type_match_terminates) *)
Definition reference_type_matches (f : list (Z * list ref)) (ty sub : Z) (include_subtypes : bool) : bool :=
  match reference_type_matches_opt f ty sub include_subtypes with Some b => b | None => false end.

(* ---- AddressSpace -------------------------------------------------------------------------- *)
Record astate := mk_astate {
  nodes : list Z;          (* keys of node_map *)
  rs : refs                (* references *)
}.

(* find_aggregates_of(parent) = find_references(parent, Some((Aggregates, true))).map(targets) *)
Definition find_aggregates_of (st : astate) (n : Z) : option (list Z) :=
  match get n (fwd (rs st)) with
  | Some b =>
      match filter (fun r => reference_type_matches (fwd (rs st)) AGGREGATES (fst r) true) b with
      | [] => None
      | l => Some (map snd l)
      end
  | None => None
  end.

(* child_nodes.into_iter().for_each(|c| if self.node_exists(&c) { let _ = self.delete(&c, ..); }) *)
Definition dels (D : astate -> Z -> option (bool * astate)) : list Z -> astate -> option astate :=
  fix go (cs : list Z) (cur : astate) : option astate :=
    match cs with
    | [] => Some cur
    | c :: cs' =>
        if memZ c (nodes cur)
        then match D cur c with Some (_, cur') => go cs' cur' | None => None end
        else go cs' cur
    end.

(* AddressSpace::delete(node_id, delete_target_references); None = recursion deeper than [fuel] *)
Fixpoint delete_fuel (fuel : nat) (dtr : bool) (st : astate) (n : Z) : option (bool * astate) :=
  match fuel with
  | O => None
  | S k =>
      (* a node that does not exist has no children, even if references from its id remain *)
      let child_nodes := if memZ n (nodes st) then find_aggregates_of st n else None in
      let removed_node := memZ n (nodes st) in
      let nodes1 := filter (fun x => negb (x =? n)) (nodes st) in
      let '(removed_target_references, rs1) :=
        if dtr then delete_node_references (rs st) n else (false, rs st) in
      match dels (delete_fuel k dtr) (opt_list child_nodes) (mk_astate nodes1 rs1) with
      | Some st2 => Some (removed_node || removed_target_references, st2)
      | None => None
      end
  end.

(* recursion depth never exceeds the number of nodes + 1 (C29_terminates) *)
Definition delete (st : astate) (n : Z) (dtr : bool) : option (bool * astate) :=
  delete_fuel (S (length (nodes st))) dtr st n.

(* ---- correspondence interface ----------------------------------------------------------------- *)
Definition triple := C28.Model.triple.            (* (source, type, target) *)
Definition src := C28.Model.src.
Definition typ := C28.Model.typ.
Definition tgt := C28.Model.tgt.

Record case := mk_case {
  c_univ : list Z;              (* every id of the case, ascending (for the dumps) *)
  c_nodes : list Z;             (* nodes inserted into the address space *)
  c_refs : list triple;         (* references inserted, in order (hierarchy of reference types included) *)
  c_target : Z;
  c_dtr : bool
}.

Inductive built := Built (st : astate) | Failed (code : Z).

Fixpoint build_nodes (acc ns : list Z) : option (list Z) :=
  match ns with
  | [] => Some acc
  | n :: ns' => if memZ n acc then None else build_nodes (acc ++ [n]) ns'     (* insert() returns false *)
  end.
Fixpoint build_refs (st : refs) (xs : list triple) : outcome :=
  match xs with
  | [] => Ok st
  | x :: xs' => match insert_reference st (src x) (tgt x) (typ x) with
                | Ok st' => build_refs st' xs'
                | Panic => Panic
                end
  end.
Definition build (c : case) : built :=
  match build_nodes [] (c_nodes c) with
  | None => Failed (-6)
  | Some ns => match build_refs empty_refs (c_refs c) with
               | Ok r => Built (mk_astate ns r)
               | Panic => Failed (-2)
               end
  end.

Definition observe (c : case) (res : option (bool * astate)) : list Z :=
  match res with
  | None => [-3]
  | Some (b, st') =>
      [Z.b2z b; -1] ++ filter (fun x => memZ x (nodes st')) (c_univ c)
      ++ [-5] ++ C28.Model.dump_fwd (rs st') (c_univ c)
      ++ [-8] ++ C28.Model.dump_rb (rs st') (c_univ c)
  end.

Definition run (c : case) : list Z :=
  match build c with
  | Failed code => [code]
  | Built st => observe c (delete st (c_target c) (c_dtr c))
  end.

(* ---- the specification ---------------------------------------------------------------------- *)
(* reachability by rounds: [expand] adds the targets of all edges that leave the set *)
Definition edge := (Z * Z)%type.
Definition expand (edges : list edge) (S0 : list Z) : list Z :=
  S0 ++ nodup Z.eq_dec (filter (fun t => negb (memZ t S0))
                          (map snd (filter (fun e => memZ (fst e) S0) edges))).
Fixpoint iter {A} (n : nat) (f : A -> A) (x : A) : A :=
  match n with O => x | S k => iter k f (f x) end.
Definition reach (edges : list edge) (start : Z) : list Z :=
  iter (length edges) (expand edges) [start].

(* the set of references: the triples in insertion order without repetitions *)
Fixpoint ref_set (acc xs : list triple) : list triple :=
  match xs with
  | [] => acc
  | x :: xs' => ref_set (if C28.Model.mem3 x acc then acc else acc ++ [x]) xs'
  end.

(* a reference type aggregates iff it is Aggregates or reachable from it by HasSubtype references *)
Definition subtype_edges (X : list triple) : list edge :=
  map (fun x => (src x, tgt x)) (filter (fun x => typ x =? HAS_SUBTYPE) X).
Definition aggregating (X : list triple) (ty : Z) : bool := memZ ty (reach (subtype_edges X) AGGREGATES).

(* the nodes to remove: the target and every NODE reachable from it by aggregating references
   between nodes (an id that is not a node has no children) *)
Definition child_edges (X : list triple) (ns : list Z) : list edge :=
  map (fun x => (src x, tgt x))
      (filter (fun x => aggregating X (typ x) && memZ (src x) ns && memZ (tgt x) ns) X).
Definition doomed (X : list triple) (ns : list Z) (target : Z) : list Z :=
  reach (child_edges X ns) target.

(* the value returned by delete: the node existed, or references to/from it were removed *)
Definition spec_ret (c : case) : bool :=
  let X := ref_set [] (c_refs c) in
  memZ (c_target c) (c_nodes c)
  || (c_dtr c && existsb (fun x => (src x =? c_target c) || (tgt x =? c_target c)) X).

(* surviving nodes and surviving references (forward map, buckets in insertion order) *)
Definition spec_body (c : case) : list Z :=
  let X := ref_set [] (c_refs c) in
  let D := doomed X (c_nodes c) (c_target c) in
  let gone x := memZ x D in
  let X' := if c_dtr c then filter (fun x => negb (gone (src x)) && negb (gone (tgt x))) X else X in
  [-1]
  ++ filter (fun x => memZ x (c_nodes c) && negb (gone x)) (c_univ c)
  ++ [-5]
  ++ flat_map (fun n => match map (fun x => (typ x, tgt x)) (filter (fun x => src x =? n) X') with
                        | [] => []
                        | b => n :: Z.of_nat (length b) :: C28.Model.flat_pairs b
                        end) (c_univ c).

(* the property: delete returned (no abort [-3], no endless loop [-4], no panic [-2]), the
   surviving nodes are exactly the nodes that are not doomed, the surviving references exactly
   those that mention no doomed node (all references when delete_target_references is false).
   The returned flag is not part of the property (see C29_return_value for the model); the
   referenced-by dump after the -8 marker is compared between model and implementation only. *)
Definition oracle (c : case) (out : list Z) : bool :=
  match out with
  | r :: rest => ((r =? 0) || (r =? 1)) && C28.Model.prefix_eqb (spec_body c ++ [-8]) rest
  | [] => false
  end.

Definition known (c : case) : Z := 0.

(* well-formed case: no repeated node, no self reference, and neither a node nor the target is
   Aggregates or one of its subtypes (deleting those would change which references aggregate
   half-way through the deletion) *)
Fixpoint nodupb_from (seen l : list Z) : bool :=
  match l with [] => true | x :: l' => negb (memZ x seen) && nodupb_from (seen ++ [x]) l' end.
Definition nodupb (l : list Z) : bool := nodupb_from [] l.
Definition validb (c : case) : bool :=
  nodupb (c_nodes c)
  && forallb (fun x => negb (src x =? tgt x)) (c_refs c)
  && forallb (fun d => negb (aggregating (ref_set [] (c_refs c)) d)) (c_target c :: c_nodes c).
Definition valid (c : case) : Prop := validb c = true.

(* ---- the code before the fixes -------------------------------------------------------------- *)
Module Legacy.
  (* reference_type_matches without the visited set *)
  Fixpoint tm_loop (fuel : nat) (f : list (Z * list ref)) (sub : Z) (stack : list Z) : option bool :=
    match fuel with
    | O => None
    | S k =>
        match stack with
        | [] => Some false
        | current :: rest =>
            if sub =? current then Some true
            else match get current f with
                 | Some b =>
                     let subtypes := map snd (filter is_subtype_ref b) in
                     if memZ sub subtypes then Some true
                     else tm_loop k f sub (rev subtypes ++ rest)
                 | None => tm_loop k f sub rest
                 end
        end
    end.

  (* delete recursing into the children BEFORE the node is removed; None = deeper than [fuel] *)
  Fixpoint delete_fuel (fuel : nat) (dtr : bool) (st : astate) (n : Z) : option (bool * astate) :=
    match fuel with
    | O => None
    | S k =>
        let go := fix go (cs : list Z) (cur : astate) : option astate :=
          match cs with
          | [] => Some cur
          | c :: cs' => match delete_fuel k dtr cur c with Some (_, cur') => go cs' cur' | None => None end
          end in
        match go (opt_list (find_aggregates_of st n)) st with
        | None => None
        | Some st1 =>
            let removed_node := memZ n (nodes st1) in
            let nodes1 := filter (fun x => negb (x =? n)) (nodes st1) in
            let '(rt, rs1) := if dtr then delete_node_references (rs st1) n else (false, rs st1) in
            Some (removed_node || rt, mk_astate nodes1 rs1)
        end
    end.
End Legacy.
