From Coq Require Import List ZArith Bool Lia.
From OV Require Import C31.Model.
Import ListNotations.
Open Scope Z_scope.
