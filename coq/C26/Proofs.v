(* C26 — proofs. *)
From Coq Require Import List ZArith Bool Lia.
From OV Require C22.Model C22.ProofsTrace.
From OV Require Import C26.Model.
Import ListNotations.
Open Scope Z_scope.

Module T := OV.C22.ProofsTrace.

(* ------------------------------------------------------------------------------------ *)
(* the three time computations                                                           *)
(* ------------------------------------------------------------------------------------ *)
Lemma elapsed_nonneg : forall now t, 0 <= elapsed now t.
Proof. intros. unfold elapsed. lia. Qed.

Lemma elapsed_spec : forall now t, elapsed now t = if now <? t then 0 else now - t.
Proof. intros. unfold elapsed. destruct (Z.ltb_spec now t); lia. Qed.

Lemma u64_of_i64_nonneg : forall x, I64MIN <= x -> 0 <= u64_of_i64 x.
Proof. intros x H. unfold u64_of_i64, I64MIN in *. destruct (Z.ltb_spec x 0); lia. Qed.

Lemma timeout_ms_nonneg : forall prt hint, I64MIN <= prt -> 0 <= timeout_ms prt hint.
Proof.
  intros prt hint H. unfold timeout_ms.
  destruct (Z.ltb_spec 0 hint); cbn [andb]; [destruct (hint <? prt); [lia|]|]; apply u64_of_i64_nonneg; assumption.
Qed.

(* a request is expired exactly when more than its timeout has passed since its timestamp *)
Lemma expired_iff : forall prt now r, I64MIN <= prt ->
  expired prt now r = true <-> timeout_ms prt (r_hint r) * 1000000 < now - ts_ns (r_ts r).
Proof.
  intros prt now r H. unfold expired, elapsed. pose proof (timeout_ms_nonneg prt (r_hint r) H).
  rewrite Z.ltb_lt. lia.
Qed.

(* the pinned code panicked exactly on a negative difference, and agreed otherwise *)
Lemma legacy_elapsed_panics_iff : forall now t, Legacy.elapsed now t = Legacy.Panic <-> now < t.
Proof. intros. unfold Legacy.elapsed. destruct (Z.ltb_spec (now - t) 0); split; intro; try discriminate; try lia; reflexivity. Qed.

Lemma legacy_elapsed_agrees : forall now t, t <= now -> Legacy.elapsed now t = Legacy.Ok (elapsed now t).
Proof. intros. unfold Legacy.elapsed, elapsed. destruct (Z.ltb_spec (now - t) 0); [lia|]. f_equal. lia. Qed.

(* the design round's witnesses: a request stamped 60 s ahead of the server clock; a tick 10 s
   before the previous one; a sample 1 s before the previous one *)
Lemma legacy_refuted :
  (exists prt now r, I64MIN <= r_ts r <= I64MAX /\ Legacy.expired prt now r = Legacy.Panic) /\
  (exists ivl now lst, 0 <= now /\ Legacy.interval_test ivl now lst = Legacy.Panic) /\
  (exists samp8 now lst el, 0 <= now /\ Legacy.sampled samp8 now lst el = Legacy.Panic).
Proof.
  split; [|split].
  - exists 30000, 13348540800000000000, (mk_req 1 133485408600000000 0). split; [cbv; split; discriminate | reflexivity].
  - exists 1000000000, 13348540792000000000, 13348540802000000000. split; [lia | reflexivity].
  - exists 800, 13348540801000000000, 13348540802000000000, false. split; [lia | reflexivity].
Qed.

(* ------------------------------------------------------------------------------------ *)
(* responses are (id, kind) pairs                                                        *)
(* ------------------------------------------------------------------------------------ *)
Lemma pairs_app : forall P a b, pairs P a -> pairs P b -> pairs P (a ++ b).
Proof. intros P a b Ha Hb. induction Ha; cbn [app]; [assumption | constructor; assumption]. Qed.

Lemma pairs_impl : forall (P Q : Z -> Z -> Prop) l, (forall i k, P i k -> Q i k) -> pairs P l -> pairs Q l.
Proof. intros P Q l H Hl. induction Hl; constructor; auto. Qed.

(* a notification response: a known request id, kind keep-alive or status change *)
Definition notif (i k : Z) : Prop := 0 <= i /\ (k = 1 \/ k = 2).
(* any response: also the refusal of a publish request (0, 5) and the timeout fault (id, 8) *)
Definition anyresp (i k : Z) : Prop := 0 <= i /\ (k = 1 \/ k = 2 \/ k = 5 \/ k = 8).

Lemma pairs_no9 : forall l, pairs anyresp l -> ~ In (-9) l.
Proof.
  intros l H. induction H as [|i k l [Hi Hk] _ IH]; [intros []|].
  intros [E | [E | Hin]]; [lia | lia | exact (IH Hin)].
Qed.

(* ------------------------------------------------------------------------------------ *)
(* invariant                                                                              *)
(* ------------------------------------------------------------------------------------ *)
Definition req_ok (all : list op) (r : req) : Prop := request_of all (r_id r) = Some (r_ts r, r_hint r).

Definition G (all : list op) (w : world) : Prop :=
  match ws w with Some x => T.Gsub x | None => True end /\ Forall (req_ok all) (reqs w).

Lemma req_ok_id : forall all r, req_ok all r -> 0 <= r_id r.
Proof.
  intros all r H. unfold req_ok, request_of in H. destruct (Z.ltb_spec (r_id r) 0); [discriminate | assumption].
Qed.

Lemma drain_spec : forall all q rs, T.kinds q -> Forall (req_ok all) rs ->
  pairs notif (fst (fst (drain q rs))) /\ T.kinds (snd (fst (drain q rs))) /\
  Forall (req_ok all) (snd (drain q rs)).
Proof.
  intros all. induction q as [|k q IH]; intros rs Hk Hr.
  - cbn. repeat split; [constructor | constructor | assumption].
  - destruct rs as [|r rs].
    + cbn. repeat split; [constructor | assumption | constructor].
    + inversion Hk as [|? ? Hk1 Hk2]; subst. inversion Hr as [|? ? Hr1 Hr2]; subst.
      cbn [drain]. specialize (IH rs Hk2 Hr2).
      destruct (drain q rs) as [[out q''] rs'']. cbn [fst snd] in *. destruct IH as (A & B & C).
      repeat split; try assumption. constructor; [|assumption].
      split; [eapply req_ok_id; eassumption | assumption].
Qed.

Lemma ns_of_8_pos : forall i, 1 <= i -> 1 <= ns_of_8 i.
Proof. intros. unfold ns_of_8. lia. Qed.

Lemma subs_tick_total : forall all ivl8 samp8 now r w, 1 <= ivl8 -> G all w ->
  exists w' resp, subs_tick ivl8 samp8 now r w = Some (w', resp) /\ G all w' /\ pairs notif resp /\
    (ws w = None -> ws w' = None).
Proof.
  intros all ivl8 samp8 now r [o il rs] Hivl (Hs & Hr). cbn [ws reqs item_last] in *.
  unfold subs_tick. cbn [ws reqs item_last].
  destruct o as [x|].
  - destruct (T.sub_tick_total (ns_of_8 ivl8) now r (negb (is_nil rs)) x (ns_of_8_pos _ Hivl) Hs)
      as (x' & Hx & (Hl & Hm & Hk) & _).
    rewrite Hx.
    pose proof (drain_spec all (S.nq x') rs Hk Hr) as Hd.
    destruct (drain (S.nq x') rs) as [[out rest] rs']. cbn [fst snd] in Hd. destruct Hd as (A & B & C).
    do 2 eexists; split; [reflexivity|]. split; [|split; [assumption | discriminate]].
    split; cbn [ws reqs]; [|assumption].
    destruct (S.ready_to_remove _); [exact I|]. unfold T.Gsub; cbn. repeat split; assumption.
  - do 2 eexists; split; [reflexivity|]. split; [|split; [constructor | reflexivity]].
    split; cbn [ws reqs]; [exact I | assumption].
Qed.

Lemma expired_ids_pairs : forall all prt now rs, I64MIN <= prt -> Forall (req_ok all) rs ->
  pairs (fun i k => k = 8 /\ timed_out prt all now i = true) (expired_ids prt now rs).
Proof.
  intros all prt now rs Hp Hr. induction Hr as [|r rs Hr1 Hr2 IH]; cbn [expired_ids]; [constructor|].
  destruct (expired prt now r) eqn:He; [|assumption].
  constructor; [|assumption]. split; [reflexivity|].
  unfold timed_out. unfold req_ok in Hr1. rewrite Hr1.
  apply (expired_iff prt now r Hp) in He. unfold timeout_ms in He. apply Z.ltb_lt. exact He.
Qed.

Lemma filter_Forall : forall {A} (P : A -> Prop) f l, Forall P l -> Forall P (filter f l).
Proof.
  intros A P f l H. induction H as [|a l Ha Hl IH]; cbn [filter]; [constructor|].
  destruct (f a); [constructor|]; assumption.
Qed.

Lemma timed_out_id : forall prt all n i, timed_out prt all n i = true -> 0 <= i.
Proof.
  intros prt all n i H. unfold timed_out, request_of in H.
  destruct (Z.ltb_spec i 0); [discriminate | assumption].
Qed.

Lemma step_total : forall all prt ivl8 samp8 i o w, 1 <= ivl8 -> I64MIN <= prt -> G all w ->
  request_of all i = match o with Enq ts hint _ => Some (ts, hint) | _ => request_of all i end ->
  exists w' pre, step prt ivl8 samp8 i o w = Some (w', pre) /\ G all w' /\ pairs (resp_ok prt all o) pre.
Proof.
  intros all prt ivl8 samp8 i o w Hivl Hp HG Hreq.
  assert (Hn : forall o l, pairs notif l -> pairs (resp_ok prt all o) l).
  { intros o0 l. apply pairs_impl. intros a b [Ha Hb]. split; [assumption|]. destruct Hb; auto. }
  destruct o as [ts hint now | now | now]; unfold step.
  - assert (H1 : exists w1 r1,
       (if max_publish_requests w <=? Z.of_nat (length (reqs w))
        then subs_tick ivl8 samp8 now true w else Some (w, [])) = Some (w1, r1) /\ G all w1 /\ pairs notif r1).
    { destruct (max_publish_requests w <=? Z.of_nat (length (reqs w))).
      - destruct (subs_tick_total all ivl8 samp8 now true w Hivl HG) as (w1 & r1 & E & G1 & K1 & _). eauto.
      - do 2 eexists; split; [reflexivity|]. split; [assumption | constructor]. }
    destruct H1 as (w1 & r1 & E1 & G1 & K1). rewrite E1.
    destruct (max_publish_requests w <=? Z.of_nat (length (reqs w1))).
    + do 2 eexists; split; [reflexivity|]. split; [assumption|].
      apply pairs_app; [apply Hn; assumption|]. constructor; [|constructor]. split; [lia | auto].
    + assert (G2 : G all (mk_world (ws w1) (item_last w1) (reqs w1 ++ [mk_req i ts hint]))).
      { destruct G1 as (A & B). split; cbn [ws reqs]; [assumption|].
        apply Forall_app; split; [assumption|]. constructor; [|constructor].
        unfold req_ok; cbn [r_id r_ts r_hint]. exact Hreq. }
      destruct (subs_tick_total all ivl8 samp8 now true _ Hivl G2) as (w2 & r2 & E2 & G2' & K2 & _).
      rewrite E2. do 2 eexists; split; [reflexivity|]. split; [assumption|].
      apply pairs_app; apply Hn; assumption.
  - do 2 eexists; split; [reflexivity|]. destruct HG as (A & B). split.
    + split; cbn [expire fst ws reqs]; [assumption | apply filter_Forall; assumption].
    + cbn [expire snd]. eapply pairs_impl; [|apply (expired_ids_pairs all prt now _ Hp B)].
      intros a b [-> Hb]. split; [eapply timed_out_id; eassumption|].
      right; right; right. split; [reflexivity|]. exists now. split; [reflexivity | assumption].
  - destruct (subs_tick_total all ivl8 samp8 now false w Hivl HG) as (w1 & r1 & E & G1 & K1 & _).
    rewrite E. do 2 eexists; split; [reflexivity|]. split; [assumption | apply Hn; assumption].
Qed.

(* ------------------------------------------------------------------------------------ *)
(* traces                                                                                *)
(* ------------------------------------------------------------------------------------ *)
Lemma trace_cons : forall prt ivl8 samp8 i w o r w' pre,
  step prt ivl8 samp8 i o w = Some (w', pre) ->
  trace prt ivl8 samp8 i w (o :: r) =
    (mk_obs pre (snapshot w') :: fst (trace prt ivl8 samp8 (i + 1) w' r), snd (trace prt ivl8 samp8 (i + 1) w' r)).
Proof.
  intros. cbn [trace]. rewrite H. destruct (trace prt ivl8 samp8 (i + 1) w' r). reflexivity.
Qed.

Definition snap_wf (l : list Z) : Prop :=
  (exists a b c d e f g h, l = [1; a; b; c; d; e; f; g; h]) \/ (exists a, l = [0; a]).
Definition obs_wf (o : obs) : Prop := ~ In (-9) (o_pre o) /\ snap_wf (o_snap o).

Lemma snapshot_wf : forall w, snap_wf (snapshot w).
Proof. intros [[x|] il rs]; unfold snapshot; cbn [ws]; [left | right]; eauto 12. Qed.

Lemma resp_ok_any : forall prt all o l, pairs (resp_ok prt all o) l -> pairs anyresp l.
Proof.
  intros prt all o l. apply pairs_impl. intros i k [Hi Hk]. split; [assumption|].
  destruct Hk as [?|[?|[?|[? _]]]]; auto.
Qed.

Lemma timeouts_ok_pairs : forall prt all o pre, pairs (resp_ok prt all o) pre ->
  timeouts_ok prt all (match o with Expire n => Some n | _ => None end) pre = true.
Proof.
  intros prt all o pre H. induction H as [|i k l [Hi Hk] _ IH]; [reflexivity|].
  cbn [timeouts_ok]. rewrite IH. rewrite andb_true_r.
  destruct Hk as [->|[->|[->|[-> (n & -> & Ht)]]]]; cbn; try reflexivity. exact Ht.
Qed.

Lemma trace_total : forall all prt ivl8 samp8, 1 <= ivl8 -> I64MIN <= prt ->
  forall ops done w, all = done ++ ops -> G all w ->
  let t := trace prt ivl8 samp8 (Z.of_nat (length done)) w ops in
  snd t = false /\ Forall obs_wf (fst t) /\ check prt all ops (fst t) = true /\
  Forall2 (fun o b => pairs (resp_ok prt all o) (o_pre b)) ops (fst t).
Proof.
  intros all prt ivl8 samp8 Hivl Hp. induction ops as [|o r IH]; intros done w Hall HG.
  - cbn. repeat split; constructor.
  - assert (Hreq : request_of all (Z.of_nat (length done)) =
       match o with Enq ts hint _ => Some (ts, hint) | _ => request_of all (Z.of_nat (length done)) end).
    { destruct o as [ts hint now| |]; try reflexivity.
      unfold request_of. destruct (Z.ltb_spec (Z.of_nat (length done)) 0); [lia|].
      rewrite Nat2Z.id. subst all. rewrite nth_error_app2 by lia. rewrite Nat.sub_diag. reflexivity. }
    destruct (step_total all prt ivl8 samp8 (Z.of_nat (length done)) o w Hivl Hp HG Hreq) as (w' & pre & E & G' & Hpre).
    cbn zeta. rewrite (trace_cons _ _ _ _ _ _ _ _ _ E). cbn [fst snd].
    assert (Hall' : all = (done ++ [o]) ++ r) by (rewrite <- app_assoc; exact Hall).
    specialize (IH (done ++ [o]) w' Hall' G'). cbn zeta in IH.
    replace (Z.of_nat (length (done ++ [o]))) with (Z.of_nat (length done) + 1) in IH
      by (rewrite app_length; cbn [length]; lia).
    destruct IH as (A & B & C & D).
    repeat split; [assumption | | |].
    + constructor; [|assumption]. split; cbn [o_pre o_snap]; [|apply snapshot_wf].
      apply pairs_no9. eapply resp_ok_any; eassumption.
    + cbn [check o_pre]. rewrite C. rewrite andb_true_r. apply timeouts_ok_pairs. assumption.
    + constructor; [exact Hpre | exact D].
Qed.

(* ------------------------------------------------------------------------------------ *)
(* reading the observations back                                                         *)
(* ------------------------------------------------------------------------------------ *)
Lemma split9_app : forall pre rest, ~ In (-9) pre -> split9 (pre ++ (-9) :: rest) = Some (pre, rest).
Proof.
  induction pre as [|x pre IH]; intros rest H; cbn [app split9].
  - reflexivity.
  - destruct (Z.eqb_spec x (-9)) as [->|_]; [exfalso; apply H; left; reflexivity|].
    rewrite IH; [reflexivity|]. intro Hin; apply H; right; assumption.
Qed.

Lemma parse_encode : forall t, Forall obs_wf t -> forall fuel, (length t < fuel)%nat ->
  parse fuel (concat (map encode_obs t)) = Some t.
Proof.
  induction t as [|o t IH]; intros Hwf fuel Hf.
  - destruct fuel; [lia|]. reflexivity.
  - inversion Hwf as [|? ? [Hpre Hsnap] Hwf']; subst.
    destruct fuel as [|fuel]; [cbn in Hf; lia|].
    cbn [map concat]. unfold encode_obs at 1.
    destruct o as [pre snap]. cbn [o_pre o_snap] in *.
    assert (Hne : forall rest, parse (S fuel) ((pre ++ (-9) :: snap) ++ rest) =
       match split9 ((pre ++ (-9) :: snap) ++ rest) with
       | None => None
       | Some (pre0, rest0) =>
           match rest0 with
           | 1 :: a :: b :: c :: d :: e :: f :: g :: h :: rest' =>
               match parse fuel rest' with
               | Some t => Some (mk_obs pre0 [1; a; b; c; d; e; f; g; h] :: t) | None => None end
           | 0 :: a :: rest' =>
               match parse fuel rest' with
               | Some t => Some (mk_obs pre0 [0; a] :: t) | None => None end
           | _ => None
           end
       end).
    { intro rest. destruct pre; reflexivity. }
    rewrite Hne. rewrite <- app_assoc. cbn [app]. rewrite split9_app by assumption.
    cbn in Hf.
    destruct Hsnap as [(a & b & c & d & e & f & g & h & ->) | (a & ->)]; cbn [app];
      rewrite IH by (assumption || lia); reflexivity.
Qed.

Lemma encode_length : forall t, (length t <= length (concat (map encode_obs t)))%nat.
Proof.
  induction t as [|o t IH]; cbn [map concat length]; [lia|].
  rewrite app_length. unfold encode_obs at 1. rewrite app_length. cbn [length]. lia.
Qed.

Lemma list_eqb_refl : forall l, list_eqb l l = true.
Proof. induction l as [|x l IH]; cbn; [reflexivity|]. rewrite Z.eqb_refl. exact IH. Qed.

Lemma G_init : forall all k l t0, 2 <= l -> G all (init_world k l t0).
Proof.
  intros. unfold G, init_world, T.Gsub; cbn. repeat split; try lia; constructor.
Qed.

(* ------------------------------------------------------------------------------------ *)
(* main theorems                                                                         *)
(* ------------------------------------------------------------------------------------ *)
Lemma Forall2_len : forall {A B} (R : A -> B -> Prop) l1 l2, Forall2 R l1 l2 -> length l1 = length l2.
Proof. intros A B R l1 l2 H. induction H; cbn [length]; congruence. Qed.

Theorem history_ok : forall prt k l ivl8 samp8 t0 ops,
  1 <= k -> 3 * k <= l -> 1 <= ivl8 -> I64MIN <= prt ->
  let t := trace prt ivl8 samp8 0 (init_world k l t0) ops in
  snd t = false /\ length (fst t) = length ops /\
  Forall2 (fun o b => pairs (resp_ok prt ops o) (o_pre b)) ops (fst t).
Proof.
  intros prt k l ivl8 samp8 t0 ops Hk Hl Hivl Hp.
  destruct (trace_total ops prt ivl8 samp8 Hivl Hp ops [] (init_world k l t0) eq_refl
              (G_init ops k l t0 ltac:(lia))) as (A & B & C & D).
  cbn [length Z.of_nat] in *. cbn zeta. repeat split; try assumption.
  symmetry. eapply Forall2_len. exact D.
Qed.

Lemma timed_out_iff : forall prt ops n id,
  timed_out prt ops n id = true <->
  exists ts hint, request_of ops id = Some (ts, hint) /\ timeout_ms prt hint * 1000000 < n - ts_ns ts.
Proof.
  intros prt ops n id. unfold timed_out, timeout_ms. destruct (request_of ops id) as [[ts hint]|].
  - rewrite Z.ltb_lt. split.
    + intro H. exists ts, hint. split; [reflexivity | exact H].
    + intros (ts' & hint' & E & H). inversion E; subst. exact H.
  - split; [discriminate | intros (ts & hint & E & _); discriminate].
Qed.

Theorem oracle_holds : forall c, valid c -> known c = 0 -> oracle c (run c) = true.
Proof.
  intros [prt k l ivl8 samp8 t0 ops | prt k l ivl8 samp8 t0 ops] Hv _.
  - destruct Hv as (Hk & Hl & Hivl & Hp & _).
    unfold run, oracle.
    destruct (trace_total ops prt ivl8 samp8 Hivl Hp ops [] (init_world k l t0) eq_refl
                (G_init ops k l t0 ltac:(lia))) as (A & B & C & _).
    cbn [length Z.of_nat] in *. cbn zeta in *.
    unfold encode. rewrite A. rewrite app_nil_r.
    rewrite parse_encode; [exact C | assumption |].
    pose proof (encode_length (fst (trace prt ivl8 samp8 0 (init_world k l t0) ops))). lia.
  - unfold run, oracle. apply list_eqb_refl.
Qed.

(* a clock that steps backwards is "no time has passed": nothing elapses, nothing is recorded *)
Lemma backwards_interval : forall ivl now lst, 1 <= ivl -> now <= lst ->
  S.interval_test ivl now lst = (false, lst).
Proof.
  intros. unfold S.interval_test. destruct (Z.leb_spec ivl (Z.max 0 (now - lst))); [lia | reflexivity].
Qed.

Lemma backwards_sample : forall samp8 now lst el, 1 <= samp8 -> now <= lst -> sampled samp8 now lst el = false.
Proof.
  intros. unfold sampled, elapsed, ns_of_8.
  destruct (Z.ltb_spec samp8 0); [lia|]. destruct (Z.eqb_spec samp8 0); [lia|].
  apply Z.leb_gt. lia.
Qed.

Lemma future_request_not_expired : forall prt now r, I64MIN <= prt -> now <= ts_ns (r_ts r) -> expired prt now r = false.
Proof.
  intros prt now r Hp H. destruct (expired prt now r) eqn:E; [|reflexivity].
  apply (expired_iff prt now r Hp) in E. pose proof (timeout_ms_nonneg prt (r_hint r) Hp). lia.
Qed.

(* the hypotheses are satisfiable by a non-trivial case: the future-stamped request and the
   backwards tick of the design round in one history *)
Example history_example :
  let b := 13348540800000000000 in
  let ops := [Tick b; Enq 133485408600000000 0 b; Expire (b + 1000000000); Tick (b - 8000000000);
              Enq 133485408000000000 500 b; Expire (b + 500000001)] in
  valid (Hist 30000 3 9 8000 800 b ops) /\
  map o_pre (fst (trace 30000 8000 800 0 (init_world 3 9 b) ops)) = [[]; []; []; []; []; [4; 8]].
Proof. vm_compute. repeat split; discriminate. Qed.
