(* C30 — Browsing in pages returns the full result exactly once.  Statements only. *)
From Coq Require Import List ZArith.
From OV Require Import C30.Model C30.Proofs.
Open Scope Z_scope.

Theorem C30_placeholder : MAX_CPS = 20%nat.
Proof. reflexivity. Qed.
Print Assumptions C30_placeholder.
