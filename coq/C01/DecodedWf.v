(* Everything a decoder accepts is a well-formed value (so the round-trip law applies to it):
   [post Q m]: on every byte list, a value returned by m satisfies Q and leaves a byte list. *)
From Coq Require Import List ZArith Bool Lia.
Import ListNotations.
From OV Require Import C01.Codec C01.CodecProofs C01.Builtins C01.BuiltinsProofs C01.VariantProofs
  C01.Types C01.TypesProofs.
Open Scope Z_scope.

Definition byte_list (bs : bytes) : Prop := Forall is_byte bs.

Definition post {A} (Q : A -> Prop) (m : M A) : Prop :=
  forall bs, byte_list bs ->
    match run m bs with Ok (a, rest) => Q a /\ byte_list rest | Err _ => True | Panic _ => False end.

Lemma post_ret {A} (Q : A -> Prop) a : Q a -> post Q (ret a).
Proof. intros H bs Hb. cbn. auto. Qed.
Lemma post_fail {A} (Q : A -> Prop) e : post Q (fail e).
Proof. intros bs Hb. exact I. Qed.
Lemma post_bind {A C} (Q : A -> Prop) (R : C -> Prop) (m : M A) (f : A -> M C) :
  post Q m -> (forall a, Q a -> post R (f a)) -> post R (bind m f).
Proof.
  intros Hm Hf bs Hb. rewrite run_bind. specialize (Hm bs Hb).
  destruct (run m bs) as [[a rest]|e|p]; [|exact I|exact Hm]. destruct Hm as [Hq Hr]. apply (Hf a Hq rest Hr).
Qed.
Lemma post_weaken {A} (Q R : A -> Prop) m : (forall a, Q a -> R a) -> post Q m -> post R m.
Proof.
  intros H Hm bs Hb. specialize (Hm bs Hb). destruct (run m bs) as [[a rest]|e|p]; auto.
  destruct Hm. split; auto.
Qed.
Lemma post_if {A} (Q : A -> Prop) (c : bool) m1 m2 :
  (c = true -> post Q m1) -> (c = false -> post Q m2) -> post Q (if c then m1 else m2).
Proof. destruct c; auto. Qed.
Lemma post_alloc n : post (fun _ => True) (alloc n).
Proof. intros bs Hb. cbn. auto. Qed.
Lemma post_bump {A} (Q : A -> Prop) m : post Q m -> post Q (bump m).
Proof. intros Hm bs Hb. rewrite run_bump. apply Hm, Hb. Qed.
Lemma post_lock {A} (Q : A -> Prop) d body : (forall d', post Q (body d')) -> post Q (@lock A d body).
Proof. intros H. destruct d; [apply post_fail|]. apply post_bump, H. Qed.
Lemma post_take n : post (fun b => byte_list b /\ length b = n) (take n).
Proof.
  intros bs Hb. unfold run, take. destruct (Nat.ltb_spec (length bs) n); cbn; [exact I|].
  unfold byte_list in *. pose proof Hb as Hb'. rewrite <- (firstn_skipn n bs) in Hb'.
  apply Forall_app in Hb'. destruct Hb' as [H1 H2]. repeat split; auto. rewrite firstn_length. lia.
Qed.

Lemma le_dec_range bs : byte_list bs -> in_u (length bs) (le_dec bs).
Proof.
  induction 1 as [|b bs Hb Hbs IH]; unfold in_u in *.
  - cbn. lia.
  - cbn [le_dec length]. rewrite pow256. unfold is_byte in Hb. lia.
Qed.
Lemma signed_range n u : (0 < n)%nat -> in_u n u -> in_i n (signed n u).
Proof.
  intros Hn Hu. unfold signed, in_i, in_u in *. pose proof (half_pow n Hn).
  destruct (Z.ltb_spec u (2 ^ (8 * Z.of_nat n - 1))); lia.
Qed.
Lemma post_read_u n : post (in_u n) (read_u n).
Proof.
  unfold read_u. eapply post_bind; [apply post_take|]. intros b [Hb Hl]. apply post_ret.
  subst n. apply le_dec_range, Hb.
Qed.
Lemma post_read_i n : (0 < n)%nat -> post (in_i n) (read_i n).
Proof.
  intros Hn. unfold read_i. eapply post_bind; [apply post_take|]. intros b [Hb Hl]. apply post_ret.
  apply signed_range; [exact Hn|]. subst n. apply le_dec_range, Hb.
Qed.

Lemma post_dec_n {A} (Q : A -> Prop) n m : post Q m -> post (Forall Q) (dec_n n m).
Proof.
  intros Hm. induction n as [|n IH]; cbn [dec_n]; [apply post_ret; constructor|].
  eapply post_bind; [exact Hm|]. intros x Hx. eapply post_bind; [exact IH|]. intros xs Hxs.
  apply post_ret. constructor; assumption.
Qed.
Lemma dec_n_length {A} n (m : M A) bs xs rest : run (dec_n n m) bs = Ok (xs, rest) -> length xs = n.
Proof.
  revert bs xs rest. induction n as [|n IH]; intros bs xs rest; cbn [dec_n].
  - rewrite run_ret. intros H. inversion H. reflexivity.
  - rewrite run_bind. destruct (run m bs) as [[x r1]|e|p]; try discriminate.
    rewrite run_bind. destruct (run (dec_n n m) r1) as [[ys r2]|e|p] eqn:E; try discriminate.
    rewrite run_ret. intros H. inversion H; subst. cbn. f_equal. eapply IH, E.
Qed.
Lemma post_dec_n_len {A} (Q : A -> Prop) n m :
  post Q m -> post (fun xs => Forall Q xs /\ length xs = n) (dec_n n m).
Proof.
  intros Hm bs Hb. pose proof (post_dec_n Q n m Hm bs Hb) as H.
  destruct (run (dec_n n m) bs) as [[xs rest]|e|p] eqn:E; auto. destruct H as [H1 H2].
  repeat split; auto. eapply dec_n_length, E.
Qed.

Lemma in_i4_bounds v : in_i 4 v -> -2147483648 <= v < 2147483648.
Proof. unfold in_i. cbn. lia. Qed.

Lemma post_dec_array {A} (Q : A -> Prop) o esize m : post Q m ->
  post (fun v => match v with None => True | Some xs => Forall Q xs /\ Z.of_nat (length xs) < 2 ^ 31 end)
       (dec_array o esize m).
Proof.
  intros Hm. unfold dec_array. eapply post_bind; [apply post_read_i; lia|]. intros len Hlen.
  apply in_i4_bounds in Hlen.
  apply post_if; intros H1; [apply post_ret; exact I|].
  apply post_if; intros H2; [apply post_fail|]. apply post_if; intros H3; [apply post_fail|].
  apply Z.ltb_ge in H2.
  eapply post_bind; [apply post_alloc|]. intros _ _.
  eapply post_bind; [apply post_dec_n_len, Hm|]. intros xs [Hxs Hl]. apply post_ret.
  split; [exact Hxs|]. rewrite Hl. change (2 ^ 31) with 2147483648. lia.
Qed.

Lemma post_dec_opt {A} (Q : A -> Prop) (c : bool) m :
  post Q m -> post (fun x => match x with Some a => Q a | None => True end) (dec_opt c m).
Proof.
  intros Hm. unfold dec_opt. destruct c; [|apply post_ret; exact I].
  eapply post_bind; [exact Hm|]. intros a Ha. apply post_ret. exact Ha.
Qed.

(* ---- strings -------------------------------------------------------------------------------------------------- *)
Lemma post_dec_ustr limit utf8 :
  post (fun s => match s with None => True
                 | Some b => wf_bytes b /\ (utf8 = true -> utf8_valid b = true) end) (dec_ustr limit utf8).
Proof.
  unfold dec_ustr. eapply post_bind; [apply post_read_i; lia|]. intros len Hlen. apply in_i4_bounds in Hlen.
  apply post_if; intros H1; [apply post_ret; exact I|].
  apply post_if; intros H2; [apply post_fail|]. apply post_if; intros H3; [apply post_fail|].
  apply Z.ltb_ge in H2.
  eapply post_bind; [apply post_alloc|]. intros _ _.
  eapply post_bind; [apply post_take|]. intros b [Hb Hl].
  destruct utf8; cbn [andb].
  - destruct (utf8_valid b) eqn:E; cbn [negb]; [|apply post_fail]. apply post_ret.
    split; [split; [exact Hb|]|auto]. rewrite Hl. change (2 ^ 31) with 2147483648. lia.
  - apply post_ret. split; [split; [exact Hb|]|discriminate]. rewrite Hl. change (2 ^ 31) with 2147483648. lia.
Qed.
Lemma post_dec_str o : post wf_str (dec_str o).
Proof.
  eapply post_weaken; [|apply post_dec_ustr]. intros [b|] H; [|exact I]. destruct H as [H1 H2].
  split; [exact H1|apply H2; reflexivity].
Qed.
Lemma post_dec_bstr o : post wf_bstr (dec_bstr o).
Proof.
  eapply post_weaken; [|apply post_dec_ustr]. intros [b|] H; [|exact I]. apply H.
Qed.

(* ---- DateTime (client offset 0) ---------------------------------------------------------------------------------- *)
Lemma post_dec_date0 : post (in_i 8) (dec_date 0).
Proof.
  unfold dec_date. eapply post_bind; [apply post_read_i; lia|]. intros v Hv.
  apply in_i8_e in Hv. cbv zeta. rewrite Z.sub_0_r, Z.div_mul by lia.
  unfold I64MAX, END_TICKS, CHRONO_MIN_NS, CHRONO_MAX_NS. change (2 ^ 63 - 1) with 9223372036854775807.
  destruct (Z.eqb_spec v 9223372036854775807).
  - cbn. apply post_ret. apply in_i8_i. lia.
  - destruct (Z.ltb_spec (v * 100) (-8322956841600000000000)); [lia|].
    destruct (Z.ltb_spec 8221911350399999999999 (v * 100)); [lia|]. cbn [orb].
    apply post_ret. apply in_i8_i. lia.
Qed.

(* ---- NodeId, ExpandedNodeId, LocalizedText, ExtensionObject, DiagnosticInfo ---------------------------------------- *)
Ltac pbind := eapply post_bind; [ | intros ? ? ].

Lemma in_u_1_2 v : in_u 1 v -> in_u 2 v.
Proof. unfold in_u. cbn. lia. Qed.
Lemma in_u_1_4 v : in_u 1 v -> in_u 4 v.
Proof. unfold in_u. cbn. lia. Qed.
Lemma in_u_2_4 v : in_u 2 v -> in_u 4 v.
Proof. unfold in_u. cbn. lia. Qed.

Lemma post_nodeid_body o k : post wf_nodeid (dec_nodeid_body o k).
Proof.
  unfold dec_nodeid_body.
  apply post_if; intros _.
  { pbind; [apply post_read_u|]. apply post_ret. cbn. split; [unfold in_u; cbn; lia|apply in_u_1_4; assumption]. }
  apply post_if; intros _.
  { pbind; [apply post_read_u|]. pbind; [apply post_read_u|]. apply post_ret. cbn.
    split; [apply in_u_1_2|apply in_u_2_4]; assumption. }
  apply post_if; intros _.
  { pbind; [apply post_read_u|]. pbind; [apply post_read_u|]. apply post_ret. cbn. split; assumption. }
  apply post_if; intros _.
  { pbind; [apply post_read_u|]. pbind; [apply post_dec_str|]. apply post_ret. cbn. split; assumption. }
  apply post_if; intros _.
  { pbind; [apply post_read_u|]. pbind; [apply post_take|]. apply post_ret. cbn. split; assumption. }
  apply post_if; intros _.
  { pbind; [apply post_read_u|]. pbind; [apply post_dec_bstr|]. apply post_ret. cbn. split; assumption. }
  apply post_fail.
Qed.
Lemma post_dec_nodeid o : post wf_nodeid (dec_nodeid o).
Proof. unfold dec_nodeid. pbind; [apply post_read_u|]. apply post_nodeid_body. Qed.

Lemma post_dec_expnid o : post wf_expnid (dec_expnid o).
Proof.
  unfold dec_expnid. pbind; [apply post_read_u|]. pbind; [apply post_nodeid_body|].
  pbind; [apply (post_if wf_str); intros _; [apply post_dec_str|apply post_ret; exact I]|].
  pbind; [apply (post_if (in_u 4)); intros _; [apply post_read_u|apply post_ret; unfold in_u; cbn; lia]|].
  apply post_ret. cbn. auto.
Qed.

Lemma post_dec_ltext o : post (fun s => scalar_ty s = 21 /\ wf_scalar s) (dec_ltext o).
Proof.
  unfold dec_ltext. pbind; [apply post_read_u|].
  pbind; [apply (post_if wf_str); intros _; [apply post_dec_str|apply post_ret; exact I]|].
  pbind; [apply (post_if wf_str); intros _; [apply post_dec_str|apply post_ret; exact I]|].
  apply post_ret. cbn. auto.
Qed.

Lemma post_dec_ext o d : post (fun s => scalar_ty s = 22 /\ wf_scalar s) (dec_ext o d).
Proof.
  unfold dec_ext. apply post_lock. intros _.
  pbind; [apply post_dec_nodeid|]. pbind; [apply post_read_u|].
  apply post_if; intros _; [apply post_ret; cbn; auto|].
  apply post_if; intros _; [pbind; [apply post_dec_bstr|]; apply post_ret; cbn; auto|].
  apply post_if; intros _; [pbind; [apply post_dec_str|]; apply post_ret; cbn; auto|].
  apply post_fail.
Qed.

Lemma post_dec_diag o : forall d, post wf_diag (dec_diag o d).
Proof.
  induction d as [|d IH]; cbn [dec_diag]; [apply post_fail|]. apply post_bump.
  pbind; [apply post_read_u|].
  pbind; [apply post_dec_opt, post_read_i; lia|]. pbind; [apply post_dec_opt, post_read_i; lia|].
  pbind; [apply post_dec_opt, post_read_i; lia|]. pbind; [apply post_dec_opt, post_read_i; lia|].
  pbind; [apply post_dec_opt, post_dec_str|]. pbind; [apply post_dec_opt, post_read_u|].
  pbind; [apply post_dec_opt, IH|]. apply post_ret. cbn [wf_diag]. unfold wf_oi32. auto 10.
Qed.

(* ---- scalars ------------------------------------------------------------------------------------------------------ *)
Ltac scalar_branch o :=
  first
  [ apply post_dec_ltext
  | apply post_dec_ext
  | solve [unfold read_bool; eapply post_bind with (Q := fun _ : bool => True);
      [eapply post_bind; [apply post_read_u|intros; apply post_ret; exact I]|intros; apply post_ret; cbn; auto]]
  | solve [pbind; [apply post_read_u|]; pbind; [apply post_dec_str|]; apply post_ret; cbn; auto]
  | solve [pbind; [first [apply post_read_u | apply post_read_i; lia | apply post_dec_str | apply post_dec_bstr
                          | apply post_dec_date0 | apply post_take | apply post_dec_nodeid | apply post_dec_expnid
                          | apply post_dec_diag ]|]; apply post_ret; cbn; auto] ].

Lemma post_dec_scalar o d ty : offset_ns o = 0 ->
  post (fun s => scalar_ty s = ty /\ wf_scalar s) (dec_scalar o d ty).
Proof.
  intros Ho. unfold dec_scalar. rewrite Ho.
  repeat (apply post_if; intros Hty; [apply Z.eqb_eq in Hty; subst ty; scalar_branch o|clear Hty]).
  apply post_fail.
Qed.

(* ---- DataValue fields, Variant ---------------------------------------------------------------------------------- *)
Lemma post_dv_fields o (mv : M variant) : offset_ns o = 0 -> post wf_variant mv ->
  post (fun x => match fst x with Some w => wf_variant w | None => True end /\ wf_dvrest (snd x))
       (dec_dv_fields o mv).
Proof.
  intros Ho Hm. unfold dec_dv_fields. rewrite Ho.
  pbind; [apply post_read_u|]. pbind; [apply post_dec_opt, Hm|].
  pbind; [apply post_dec_opt, post_read_u|]. pbind; [apply post_dec_opt, post_dec_date0|].
  pbind; [apply post_dec_opt, post_read_u|]. pbind; [apply post_dec_opt, post_dec_date0|].
  pbind; [apply post_dec_opt, post_read_u|]. apply post_ret. cbn [fst snd]. split; [assumption|].
  unfold wf_dvrest. cbn [dv_status dv_src dv_srcp dv_srv dv_srvp].
  repeat split; try assumption.
  - destruct a2; [assumption|reflexivity].
  - destruct a2; cbn [is_some]; [assumption|exact I].
  - destruct a4; [assumption|reflexivity].
  - destruct a4; cbn [is_some]; [assumption|exact I].
Qed.

Definition elemQ (ty : Z) (v : variant) : Prop := wf_variant v /\ (known_ty ty = true -> elem_ok ty v).

Lemma existsb_zero_pos ds : Forall (in_u 4) ds -> existsb (fun x => x =? 0) ds = false ->
  Forall (fun x => 0 < x < 2 ^ 32) ds.
Proof.
  induction 1 as [|x xs Hx _ IH]; intros He; constructor.
  - cbn in He. apply orb_false_iff in He. destruct He as [H1 _]. apply Z.eqb_neq in H1.
    unfold in_u in Hx. change (2 ^ (8 * Z.of_nat 4)) with (2 ^ 32) in Hx. lia.
  - apply IH. cbn in He. apply orb_false_iff in He. apply He.
Qed.

Lemma post_dec_variant o : offset_ns o = 0 -> forall d, post wf_variant (dec_variant o d).
Proof.
  intros Ho.
  assert (Hstep : forall d, (forall d', d = S d' -> post wf_variant (dec_variant o d')) ->
                            post wf_variant (dec_variant o d)).
  { intros d IH.
    assert (Hdecv : forall ty, post (elemQ ty) (dec_value o d ty)).
    { intros ty. unfold dec_value, elemQ.
      apply post_if; intros H0; [apply post_ret; split; [exact I|]; apply Z.eqb_eq in H0; subst ty; discriminate|].
      apply post_if; intros H24.
      { apply Z.eqb_eq in H24. subst ty. destruct d as [|d']; [apply post_fail|]. apply post_bump.
        pbind; [apply (IH d' eq_refl)|]. apply post_ret. cbn. auto. }
      apply post_if; intros H23.
      { apply Z.eqb_eq in H23. subst ty. destruct d as [|d']; [apply post_fail|]. apply post_bump.
        pbind; [apply post_dv_fields; [exact Ho|apply (IH d' eq_refl)]|]. apply post_ret. cbn. auto. }
      apply post_if; intros H25.
      { pbind; [apply post_dec_scalar, Ho|]. apply post_ret. cbn. destruct H as [H1 H2]. auto. }
      apply post_ret. split; [exact I|]. unfold known_ty. apply Z.leb_gt in H25. intros Hk.
      apply andb_true_iff in Hk. destruct Hk as [_ Hk]. apply Z.leb_le in Hk. lia. }
    rewrite dec_variant_eq. pbind; [apply post_read_u|]. cbv zeta.
    assert (Hm : 0 <= a mod 64 < 64) by (apply Z.mod_pos_bound; lia).
    set (ty := a mod 64) in *.
    apply post_if; intros _.
    - pbind; [apply post_read_i; lia|]. apply in_i4_bounds in H0.
      apply post_if; intros _; [apply post_fail|].
      apply post_if; intros Hle0.
      { destruct (known_ty ty) eqn:Hk; [|apply post_fail]. apply post_ret. cbn [wf_variant].
        split; [exact Hk|]. split; [cbn; lia|]. split; [exact I|left; reflexivity]. }
      apply Z.leb_gt in Hle0.
      apply post_if; intros _; [apply post_fail|].
      pbind; [apply post_alloc|]. pbind; [apply post_dec_n_len, Hdecv|]. destruct H2 as [Hvals Hlen].
      assert (Hlen' : Z.of_nat (length a2) = a0) by (rewrite Hlen; apply Z2Nat.id; lia).
      apply post_if; intros H25; [apply post_fail|]. apply Z.ltb_ge in H25.
      assert (Hwf0 : ty <> 0 -> known_ty ty = true /\ Z.of_nat (length a2) < 2 ^ 31 /\
                Forall (fun x => elem_ok ty x /\ wf_variant x) a2).
      { intros Hne. assert (Hk : known_ty ty = true) by (unfold known_ty; apply andb_true_iff; split; apply Z.leb_le; lia).
        split; [exact Hk|]. split.
        - rewrite Hlen'. change (2 ^ 31) with 2147483648. lia.
        - eapply Forall_impl; [|exact Hvals]. intros x [Hx1 Hx2]. split; [apply Hx2, Hk|exact Hx1]. }
      apply post_if; intros _.
      + pbind; [apply post_dec_array, post_read_u|]. destruct a3 as [ds|]; [|apply post_fail].
        destruct H2 as [Hds Hdl].
        apply post_if; intros Hz; [apply post_fail|].
        destruct (u32_product ds) as [p|] eqn:Hp; [|apply post_fail].
        apply post_if; intros Hpe; [apply post_fail|]. apply negb_false_iff, Z.eqb_eq in Hpe.
        apply post_if; intros Hty0; [apply post_fail|]. apply Z.eqb_neq in Hty0.
        destruct (Hwf0 Hty0) as (Hk & Hl31 & Hall).
        apply post_ret. cbn [wf_variant]. split; [exact Hk|]. split; [exact Hl31|].
        split; [apply wf_all_forall, Hall|]. right. split; [apply existsb_zero_pos; assumption|].
        split; [exact Hdl|]. rewrite ?Hp. f_equal. lia.
      + apply post_if; intros Hty0; [apply post_fail|]. apply Z.eqb_neq in Hty0.
        destruct (Hwf0 Hty0) as (Hk & Hl31 & Hall).
        apply post_ret. cbn [wf_variant]. split; [exact Hk|]. split; [exact Hl31|].
        split; [apply wf_all_forall, Hall|exact I].
    - apply post_if; intros _; [apply post_fail|].
      eapply post_weaken; [|apply Hdecv]. intros v [Hv _]. exact Hv. }
  induction d as [|d IH]; apply Hstep.
  - intros d' H. discriminate.
  - intros d' H. inversion H; subst. exact IH.
Qed.

Lemma post_dec_dv o d : offset_ns o = 0 ->
  post (fun x => wf_dv x) (dec_dv o d).
Proof.
  intros Ho. unfold dec_dv. apply post_lock. intros d'.
  eapply post_weaken; [|apply post_dv_fields; [exact Ho|apply post_dec_variant, Ho]].
  intros [ov r] H. unfold wf_dv. cbn [fst snd wf_variant] in *. exact H.
Qed.

Lemma land_lt_pow2 a b k : 0 <= a -> 0 <= b < 2 ^ k -> 0 <= k -> 0 <= Z.land a b < 2 ^ k.
Proof.
  intros Ha Hb Hk. assert (H0 : 0 <= Z.land a b) by (apply Z.land_nonneg; lia). split; [exact H0|].
  destruct (Z.eq_dec (Z.land a b) 0) as [->|Hne]; [apply Z.pow_pos_nonneg; lia|].
  assert (Hbpos : 0 < b).
  { destruct (Z.eq_dec b 0) as [->|]; [rewrite Z.land_0_r in Hne; lia|lia]. }
  apply Z.log2_lt_pow2; [lia|]. pose proof (Z.log2_land a b Ha (proj1 Hb)).
  assert (Z.log2 b < k) by (apply Z.log2_lt_pow2; lia). lia.
Qed.

(* ---- every type descriptor ---------------------------------------------------------------------------------------- *)
Fixpoint ty_sane (t : ty) : Prop :=
  match t with
  | TArr t' => ty_sane t'
  | TStruct fs => (fix all (l : list ty) : Prop := match l with [] => True | f :: r => ty_sane f /\ all r end) fs
  | TEnum w _ => (0 < w)%nat
  | TEnumD w vals dflt => (0 < w)%nat /\ In dflt vals /\ (w = 1%nat -> in_u 1 dflt) /\ (w <> 1%nat -> in_i w dflt)
  | TFlags w b => (0 < w)%nat /\ 0 <= b < 2 ^ (8 * Z.of_nat w - 1)
  | _ => True
  end.

Theorem decoded_wf o d : offset_ns o = 0 -> forall t, ty_sane t -> post (wf_ty t) (dec_ty t o d).
Proof.
  intros Ho. induction t as [k| | |t IH|fs IH|w vals|w b|w vals dflt] using ty_ind'; intros Hs.
  - cbn [dec_ty]. pbind; [apply post_dec_scalar, Ho|]. apply post_ret. cbn. exact H.
  - cbn [dec_ty]. pbind; [apply post_dec_variant, Ho|]. apply post_ret. cbn. exact H.
  - cbn [dec_ty]. pbind; [apply post_dec_dv, Ho|]. apply post_ret. cbn [wf_ty]. destruct a. exact H.
  - cbn [dec_ty]. pbind; [apply post_dec_array, IH, Hs|]. apply post_ret. cbn [wf_ty]. exact H.
  - destruct (struct_unfold fs [] o d) as (_ & _ & _ & _ & _ & E). rewrite E.
    eapply post_bind with (Q := fun vs => wf_go fs vs).
    + cbn [ty_sane] in Hs. clear E. induction IH as [|f fs Hf Hfs IHfs]; [apply post_ret; exact I|].
      destruct Hs as [Hsf Hsfs].
      change (dec_go o d (f :: fs)) with (x <- dec_ty f o d ;; xs <- dec_go o d fs ;; ret (x :: xs)).
      pbind; [apply Hf, Hsf|]. pbind; [apply IHfs, Hsfs|]. apply post_ret. split; assumption.
    + intros vs Hvs. apply post_ret.
      destruct (struct_unfold fs vs o d) as (_ & _ & E3 & _). rewrite E3. exact Hvs.
  - cbn [dec_ty ty_sane] in *. eapply post_bind with (Q := fun z => (w = 1%nat -> in_u 1 z) /\ (w <> 1%nat -> in_i w z)).
    + destruct w as [|[|w]]; [lia| |]; cbn [read_enum].
      * eapply post_weaken; [|apply post_read_u]. intros z Hz. split; [auto|intros; lia].
      * eapply post_weaken; [|apply post_read_i; lia]. intros z Hz. split; [discriminate|auto].
    + intros z [H1 Hn]. destruct (existsb (Z.eqb z) vals) eqn:E; [|apply post_fail]. apply post_ret.
      cbn [wf_ty]. apply existsb_exists in E. destruct E as (y & Hy & Heq). apply Z.eqb_eq in Heq. subst y.
      auto.
  - cbn [dec_ty ty_sane] in *. destruct Hs as [Hw Hb]. pbind; [apply post_read_i, Hw|]. apply post_ret.
    cbn [wf_ty]. split; [exact Hw|].
    (* the masked value is below 2^(8w-1), so its signed reading is itself and masking again changes nothing *)
    assert (Hrange : 0 <= Z.land (wrap w a) b < 2 ^ (8 * Z.of_nat w - 1)).
    { apply land_lt_pow2; [apply wrap_in_u|exact Hb|lia]. }
    assert (Hsg : signed w (Z.land (wrap w a) b) = Z.land (wrap w a) b).
    { unfold signed. destruct (Z.ltb_spec (Z.land (wrap w a) b) (2 ^ (8 * Z.of_nat w - 1))); [reflexivity|lia]. }
    rewrite Hsg. split.
    + unfold in_i. lia.
    + assert (Hwr : wrap w (Z.land (wrap w a) b) = Z.land (wrap w a) b).
      { unfold wrap at 1. rewrite Z.mod_small; [reflexivity|]. pose proof (half_pow w Hw). lia. }
      rewrite Hwr, <- Z.land_assoc, Z.land_diag. exact Hsg.
  - cbn [dec_ty ty_sane] in *. destruct Hs as (Hw & Hin & Hd1 & Hdn).
    eapply post_bind with (Q := fun z => (w = 1%nat -> in_u 1 z) /\ (w <> 1%nat -> in_i w z)).
    + destruct w as [|[|w]]; [lia| |]; cbn [read_enum].
      * eapply post_weaken; [|apply post_read_u]. intros z Hz. split; [auto|intros; lia].
      * eapply post_weaken; [|apply post_read_i; lia]. intros z Hz. split; [discriminate|auto].
    + intros z [H1 Hn]. apply post_ret. cbn [wf_ty].
      destruct (existsb (Z.eqb z) vals) eqn:E.
      * apply existsb_exists in E. destruct E as (y & Hy & Heq). apply Z.eqb_eq in Heq. subst y. auto.
      * auto.
Qed.

(* ---- the generated descriptors are sane ----------------------------------------------------------------------------- *)
From OV Require Import Gen.C01ServiceTypes.
Fixpoint ty_saneb (t : ty) : bool :=
  match t with
  | TArr t' => ty_saneb t'
  | TStruct fs => (fix all (l : list ty) : bool := match l with [] => true | f :: r => ty_saneb f && all r end) fs
  | TEnum w _ => Nat.ltb 0 w
  | TEnumD w vals dflt => Nat.ltb 0 w && existsb (Z.eqb dflt) vals && (0 <=? dflt) && (dflt <? 128)
  | TFlags w b => Nat.ltb 0 w && (0 <=? b) && (b <? 2 ^ (8 * Z.of_nat w - 1))
  | _ => true
  end.
Lemma ty_saneb_ok : forall t, ty_saneb t = true -> ty_sane t.
Proof.
  induction t as [k| | |t IH|fs IH|w vals|w b|w vals dflt] using ty_ind'; cbn [ty_saneb ty_sane]; intros H; auto.
  - induction IH as [|f fs Hf Hfs IHfs]; [exact I|]. apply andb_true_iff in H. destruct H as [H1 H2].
    split; [apply Hf, H1|apply IHfs, H2].
  - apply Nat.ltb_lt in H. exact H.
  - apply andb_true_iff in H. destruct H as [H H3]. apply andb_true_iff in H. destruct H as [H1 H2].
    apply Nat.ltb_lt in H1. apply Z.leb_le in H2. apply Z.ltb_lt in H3. auto.
  - apply andb_true_iff in H. destruct H as [H H4]. apply andb_true_iff in H. destruct H as [H H3].
    apply andb_true_iff in H. destruct H as [H1 H2].
    apply Nat.ltb_lt in H1. apply Z.leb_le in H3. apply Z.ltb_lt in H4.
    apply existsb_exists in H2. destruct H2 as (y & Hy & Heq). apply Z.eqb_eq in Heq. subst y.
    split; [exact H1|]. split; [exact Hy|]. split.
    + intros ->. unfold in_u. cbn. lia.
    + intros Hne. unfold in_i.
      assert (2 ^ 7 <= 2 ^ (8 * Z.of_nat w - 1)) by (apply Z.pow_le_mono_r; lia). change (2 ^ 7) with 128 in *. lia.
Qed.
Lemma all_structs_sane : Forall ty_sane all_structs.
Proof.
  apply Forall_forall. intros t Ht. apply ty_saneb_ok.
  assert (H : forallb ty_saneb all_structs = true) by (vm_compute; reflexivity).
  rewrite forallb_forall in H. apply H, Ht.
Qed.

(* ---- consequences ------------------------------------------------------------------------------------------------- *)
From OV Require Import C01.Model C01.Proofs.

Theorem decoded_wf_run o d t bs : offset_ns o = 0 -> ty_sane t -> byte_list bs ->
  match Codec.run (dec_ty t o d) bs with
  | Ok (v, rest) => wf_ty t v /\ byte_list rest
  | Err _ => True
  | Panic _ => False
  end.
Proof. intros Ho Hs Hb. apply (decoded_wf o d Ho t Hs bs Hb). Qed.

Theorem oracle_bytes_holds t o bs : plain o -> ty_sane t -> byte_list bs ->
  oracle (CBytes t o bs) (Model.run (CBytes t o bs)) = true.
Proof.
  intros Hp Hs Hb. apply oracle_holds; [|reflexivity]. cbn [valid]. split; [exact Hp|].
  destruct Hp as (Ho & _). pose proof (decoded_wf_run o (depth0 o) t bs Ho Hs Hb) as H.
  split.
  - intros v rest E. rewrite E in H. apply H.
  - intros p E. rewrite E in H. exact H.
Qed.

(* whatever bytes a decoder accepts: re-encoding the decoded value and decoding that again (in front
   of any continuation) gives the normal form of the value and consumes exactly the re-encoding *)
Theorem accepted_bytes_roundtrip t o bs v rest more : plain o -> ty_sane t -> byte_list bs ->
  Codec.run (dec_ty t o (depth0 o)) bs = Ok (v, rest) -> fits_ty t o (depth0 o) v = true ->
  Codec.run (dec_ty t o (depth0 o)) (enc_ty t v ++ more) = Ok (norm_ty t v, more).
Proof.
  intros Hp Hs Hb E Hf. pose proof (decoded_wf_run o (depth0 o) t bs (proj1 Hp) Hs Hb) as H.
  rewrite E in H. destruct H as [Hw _]. apply (roundtrip t v o more Hw Hp Hf).
Qed.
