(* Reachability by rounds ([Model.reach]) computes exactly the reflexive-transitive closure. *)
From Coq Require Import List ZArith Bool Lia.
Import ListNotations.
From OV Require Import C28.Refs C28.RefsFacts C29.Model.
Open Scope Z_scope.

Inductive Reach (E : list edge) (a : Z) : Z -> Prop :=
| Reach_refl : Reach E a a
| Reach_step x b : Reach E a x -> In (x, b) E -> Reach E a b.

Definition closed (E : list edge) (S0 : list Z) : Prop :=
  forall s x, In s S0 -> In (s, x) E -> In x S0.

Lemma Reach_closed E a S0 : closed E S0 -> In a S0 -> forall x, Reach E a x -> In x S0.
Proof. intros Hc Ha x H. induction H as [|x b _ IH Hin]; [exact Ha|]. exact (Hc x b IH Hin). Qed.

Lemma Reach_trans E a b c : Reach E a b -> Reach E b c -> Reach E a c.
Proof. intros H1 H2. induction H2 as [|x d _ IH Hin]; [exact H1|]. exact (Reach_step E a x d IH Hin). Qed.

Definition fresh (E : list edge) (S0 : list Z) : list Z :=
  nodup Z.eq_dec (filter (fun t => negb (memZ t S0)) (map snd (filter (fun e => memZ (fst e) S0) E))).

Lemma expand_eq E S0 : expand E S0 = S0 ++ fresh E S0.
Proof. reflexivity. Qed.

Lemma fresh_In E S0 x : In x (fresh E S0) <-> ~ In x S0 /\ exists s, In s S0 /\ In (s, x) E.
Proof.
  unfold fresh. rewrite nodup_In, filter_In, in_map_iff, negb_true_iff, memZ_false. split.
  - intros [([s y] & Hy & Hin) Hn]. cbn in Hy. subst y. apply filter_In in Hin. destruct Hin as [Hin Hs].
    cbn in Hs. apply memZ_In in Hs. split; [exact Hn|]. exists s. auto.
  - intros [Hn (s & Hs & Hin)]. split; [|exact Hn]. exists (s, x). split; [reflexivity|].
    apply filter_In. split; [exact Hin|]. cbn. apply memZ_In. exact Hs.
Qed.

Lemma fresh_nil_closed E S0 : fresh E S0 = [] -> closed E S0.
Proof.
  intros Hf s x Hs Hin. destruct (in_dec Z.eq_dec x S0) as [H|H]; [exact H|].
  assert (In x (fresh E S0)) by (apply fresh_In; split; [exact H|exists s; auto]).
  rewrite Hf in H0. destruct H0.
Qed.

Lemma iter_fixed {A} (f : A -> A) x n : f x = x -> iter n f x = x.
Proof. intros H. induction n as [|n IH]; cbn; [reflexivity|]. rewrite H. exact IH. Qed.

Lemma NoDup_app'' {A} (l1 l2 : list A) :
  NoDup l1 -> NoDup l2 -> (forall x, In x l2 -> ~ In x l1) -> NoDup (l1 ++ l2).
Proof.
  induction l1 as [|a l1 IH]; cbn; intros H1 H2 Hd; [exact H2|].
  inversion H1; subst. constructor.
  - rewrite in_app_iff. intros [H|H]; [contradiction|]. apply (Hd a H). left. reflexivity.
  - apply IH; auto. intros x Hx Hin. apply (Hd x Hx). right. exact Hin.
Qed.

Lemma iter_closed E U : (forall e, In e E -> In (snd e) U) ->
  forall n S0, NoDup S0 -> incl S0 U -> (length U <= length S0 + n)%nat ->
  closed E (iter n (expand E) S0).
Proof.
  intros HU. induction n as [|n IH]; intros S0 Hnd Hincl Hlen; cbn [iter].
  - intros s x Hs Hin. destruct (in_dec Z.eq_dec x S0) as [H|H]; [exact H|]. exfalso.
    assert (Hn : NoDup (x :: S0)) by (constructor; assumption).
    assert (Hi : incl (x :: S0) U).
    { intros y [<-|Hy]; [apply (HU (s, x) Hin)|apply Hincl, Hy]. }
    pose proof (NoDup_incl_length Hn Hi) as L. cbn in L. lia.
  - destruct (fresh E S0) as [|y l] eqn:Ef.
    + assert (Hx : expand E S0 = S0) by (rewrite expand_eq, Ef; apply app_nil_r).
      rewrite Hx, (iter_fixed _ _ _ Hx). apply fresh_nil_closed. exact Ef.
    + apply IH.
      * rewrite expand_eq. apply NoDup_app''; [exact Hnd|apply NoDup_nodup|].
        intros x Hx. apply fresh_In in Hx. apply Hx.
      * rewrite expand_eq. intros x Hx. apply in_app_iff in Hx. destruct Hx as [Hx|Hx]; [apply Hincl, Hx|].
        apply fresh_In in Hx. destruct Hx as [_ (s & _ & Hin)]. apply (HU (s, x) Hin).
      * rewrite expand_eq, app_length, Ef. cbn [length]. lia.
Qed.

Lemma iter_incl E n : forall S0, incl S0 (iter n (expand E) S0).
Proof.
  induction n as [|n IH]; intros S0; cbn [iter]; [apply incl_refl|].
  intros x Hx. apply IH. rewrite expand_eq. apply in_app_iff. left. exact Hx.
Qed.

Lemma iter_sound E a n : forall S0, (forall x, In x S0 -> Reach E a x) ->
  forall x, In x (iter n (expand E) S0) -> Reach E a x.
Proof.
  induction n as [|n IH]; intros S0 HS x Hx; cbn [iter] in Hx; [apply HS, Hx|].
  apply (IH (expand E S0)); [|exact Hx]. intros y Hy. rewrite expand_eq in Hy.
  apply in_app_iff in Hy. destruct Hy as [Hy|Hy]; [apply HS, Hy|].
  apply fresh_In in Hy. destruct Hy as [_ (s & Hs & Hin)].
  exact (Reach_step E a s y (HS s Hs) Hin).
Qed.

Theorem reach_spec E a x : In x (reach E a) <-> Reach E a x.
Proof.
  unfold reach. split.
  - apply iter_sound. intros y [<-|[]]. constructor.
  - apply Reach_closed.
    + apply (iter_closed E (a :: map snd E)).
      * intros e He. right. apply in_map. exact He.
      * constructor; [intros []|constructor].
      * intros y [<-|[]]. left. reflexivity.
      * cbn [length]. rewrite map_length. unfold edge. lia.
    + apply iter_incl. left. reflexivity.
Qed.

Lemma reach_closed E a : closed E (reach E a).
Proof. intros s x Hs Hin. apply reach_spec. apply reach_spec in Hs. exact (Reach_step E a s x Hs Hin). Qed.
