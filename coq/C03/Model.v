(* C03 — configured decoding limits are enforced exactly: correspondence interface.

   * [CVal t v o]: a value whose string / byte string / array lengths lie around the limits of [o];
     the real encoder produces the bytes, the real decoder must accept iff every length is within
     its limit (and the nesting within the depth).
   * [CLen ctx L o payload]: raw bytes: a fixed prefix that leads the decoder to a length field
     (the context), the declared length L (any i32: negative, i32::MAX, ...) and a payload.
   * [CChunk o size body]: a chunk header "MSGF" with the declared size, followed by [body].
   * [CVArr nest ety dimsbit L o payload]: the length field of a Variant array of ANY element type
     (encoding mask ety, with or without the dimensions bit), at top level or nested (in a DataValue,
     in a Variant inside a Variant, in a DataValue inside a Variant, in the value field of the
     generated structure WriteValue), followed by [payload] (the harness puts L real elements there).
   No proofs here. *)
From Coq Require Import List ZArith Bool Lia.
Import ListNotations.
From OV Require Export C01.Codec C01.Builtins C01.Types Gen.C01ServiceTypes.
From OV Require Import C01.Model.
Open Scope Z_scope.

Inductive case :=
| CVal (t : ty) (v : uval) (o : opts)
| CLen (ctx : Z) (L : Z) (o : opts) (payload : bytes)
| CChunk (o : opts) (size : Z) (body : bytes)
| CVArr (nest : Z) (ety : Z) (dimsbit : bool) (L : Z) (o : opts) (payload : bytes).

(* which limit a context's length field is checked against *)
Inductive lim := LStr | LBStr | LArr.
Definition limit_of (o : opts) (l : lim) : Z :=
  match l with LStr => max_str o | LBStr => max_bstr o | LArr => max_arr o end.

(* context: (bytes before the length field, decoder, limit, bytes per item, depth locks the prefix
   needs, array elements the prefix itself declares) *)
Record ctxspec := mk_ctx {
  cx_prefix : bytes; cx_ty : ty; cx_lim : lim; cx_item : Z; cx_depth : Z; cx_arr : Z;
  cx_empty_ok : bool  (* Variant arrays: any length <= 0 is an empty array *) }.
Definition ctx_spec (ctx : Z) : ctxspec :=
  if ctx =? 1 then mk_ctx [] (TS 12) LStr 1 0 0 false                       (* String *)
  else if ctx =? 2 then mk_ctx [] (TS 15) LBStr 1 0 0 false                 (* ByteString *)
  else if ctx =? 3 then mk_ctx [12] TVar LStr 1 0 0 false                   (* Variant(String) *)
  else if ctx =? 4 then mk_ctx [15] TVar LBStr 1 0 0 false                  (* Variant(ByteString) *)
  else if ctx =? 5 then mk_ctx [] (TArr (TS 6)) LArr 4 0 0 false            (* read_array<i32> *)
  else if ctx =? 6 then mk_ctx [134] TVar LArr 4 0 0 true                   (* Variant Int32 array *)
  else if ctx =? 7 then mk_ctx [198; 1; 0; 0; 0; 7; 0; 0; 0] TVar LArr 4 0 1 false  (* dimensions *)
  else if ctx =? 8 then mk_ctx [1; 0; 0; 0] (TArr (TS 12)) LStr 1 0 1 false (* string in [String] *)
  else if ctx =? 9 then mk_ctx [3; 0; 0] (TS 17) LStr 1 0 0 false           (* NodeId string *)
  else if ctx =? 10 then mk_ctx [1; 12] TDV LStr 1 1 0 false                (* DataValue/Variant/String *)
  else if ctx =? 11 then mk_ctx [0; 0; 2] (TS 22) LStr 1 1 0 false          (* ExtensionObject xml body *)
  else if ctx =? 12 then mk_ctx [0; 0; 1] (TS 22) LBStr 1 1 0 false         (* ExtensionObject byte body *)
  else if ctx =? 13 then mk_ctx [2] (TS 21) LStr 1 0 0 false                (* LocalizedText text *)
  else if ctx =? 14 then mk_ctx [0; 0] (TS 20) LStr 1 0 0 false             (* QualifiedName name *)
  else if ctx =? 15 then mk_ctx [16] (TS 25) LStr 1 1 0 false               (* DiagnosticInfo info *)
  else if ctx =? 16 then mk_ctx [128; 0] (TS 18) LStr 1 0 0 false           (* ExpandedNodeId uri *)
  else if ctx =? 17 then mk_ctx [140; 1; 0; 0; 0] TVar LStr 1 0 1 false     (* string in Variant [String] *)
  else if ctx =? 18 then mk_ctx [24; 23; 1; 143; 1; 0; 0; 0] TVar LBStr 1 2 1 false
                                       (* Variant/Variant/DataValue/Variant [ByteString] element *)
  else if ctx =? 19 then mk_ctx [5; 0; 0] (TS 17) LBStr 1 0 0 false         (* NodeId opaque *)
  else if ctx =? 21 then mk_ctx [] (TS 16) LStr 1 0 0 false                 (* XmlElement *)
  else if ctx =? 22 then mk_ctx [1] (TS 21) LStr 1 0 0 false                (* LocalizedText locale *)
  else if ctx =? 23 then mk_ctx [16] TVar LStr 1 0 0 false                  (* Variant(XmlElement) *)
  else mk_ctx [] (TArr TVar) LArr 1 0 0 false.                              (* 20: read_array<Variant>, items Empty *)

(* nesting of a Variant: (bytes before the Variant's mask byte, decoder, depth locks needed) *)
Definition nest_spec (nest : Z) : bytes * ty * Z :=
  if nest =? 1 then ([1], TDV, 1)                                   (* DataValue.value *)
  else if nest =? 2 then ([24], TVar, 1)                            (* Variant in a Variant *)
  else if nest =? 3 then ([23; 1], TVar, 1)                         (* DataValue in a Variant *)
  else if nest =? 4 then ([0; 0; 13; 0; 0; 0; 255; 255; 255; 255; 1], T_WriteValue, 1)
                                         (* WriteValue{node_id, attribute_id, index_range null, value} *)
  else ([], TVar, 0).                                               (* 0: top level *)
Definition varr_mask (ety : Z) (dimsbit : bool) : Z := ety + 128 + (if dimsbit then 64 else 0).

Definition case_bytes (c : case) : bytes :=
  match c with
  | CVArr nest ety dimsbit L o payload =>
      fst (fst (nest_spec nest)) ++ [varr_mask ety dimsbit] ++ enc_i 4 L ++ payload
  | CVal t v o => enc_ty t v
  | CLen ctx L o payload => cx_prefix (ctx_spec ctx) ++ enc_i 4 L ++ payload
  | CChunk o size body => [77; 83; 71; 70] ++ enc_u 4 size ++ enc_u 4 1 ++ body
  end.

(* output: [0; consumed] accepted, [-1] rejected, [-3; stream position] chunk too large, [-2] panic;
   for an accepted chunk [0; consumed; data length] *)
Definition run (c : case) : list Z :=
  match c with
  | CChunk o size body =>
      let bs := case_bytes c in
      match Codec.run (dec_chunk o) bs with
      | Ok (data, rest) => [0; zlen bs - zlen rest; zlen data]
      | Err ELimit => [-3; 12]
      | Err _ => [-1]
      | Panic _ => [-2]
      end
  | _ =>
      let bs := case_bytes c in
      let (t, o) := match c with
                    | CVal t v o => (t, o)
                    | CLen ctx L o _ => (cx_ty (ctx_spec ctx), o)
                    | CChunk o _ _ => (TVar, o)
                    | CVArr nest _ _ _ o _ => (snd (fst (nest_spec nest)), o)
                    end in
      match Codec.run (dec_ty t o (depth0 o)) bs with
      | Ok (_, rest) => [0; zlen bs - zlen rest]
      | Err _ => [-1]
      | Panic _ => [-2]
      end
  end.

(* the payload holds L well-formed items (L bytes of valid UTF-8 / L bytes / L items of 4 bytes;
   for the dimension context every dimension is 1) *)
Definition payload_ok (ctx : Z) (L : Z) (payload : bytes) : bool :=
  let s := ctx_spec ctx in
  let need := Z.max 0 L * cx_item s in
  (need <=? zlen payload)
  && match cx_lim s with
     | LStr => utf8_valid (firstn (Z.to_nat need) payload)
     | LBStr => true
     | LArr => if ctx =? 7 then list_eqb (firstn (Z.to_nat need) payload)
                                         (concat (repeat [1; 0; 0; 0] (Z.to_nat (Z.max 0 L))))
               else if ctx =? 5 then true else if ctx =? 6 then true
               else list_eqb (firstn (Z.to_nat need) payload) (repeat 0 (Z.to_nat need))
     end.

(* The property: a declared length above its limit, or below -1, is rejected; one within the limit
   followed by enough well-formed items is accepted (and exactly those items are consumed);
   the context itself must be admissible (depth, enclosing array length). *)
Definition oracle (c : case) (out : list Z) : bool :=
  match c with
  | CVal t v o =>
      if fits_ty t o (depth0 o) v then list_eqb out [0; zlen (enc_ty t v)] else list_eqb out [-1]
  | CLen ctx L o payload =>
      let s := ctx_spec ctx in
      if (max_depth o <? cx_depth s) || (max_arr o <? cx_arr s) then list_eqb out [-1]
      else if cx_empty_ok s && (-1 <=? L) && (L <=? 0) then list_eqb out [0; zlen (cx_prefix s) + 4]
      else if L <? -1 then list_eqb out [-1]
      else if limit_of o (cx_lim s) <? L then list_eqb out [-1]
      else if (ctx =? 7) && (L =? -1) then list_eqb out [-1]       (* dimensions bit without dimensions *)
      else if payload_ok ctx L payload
           then list_eqb out [0; zlen (cx_prefix s) + 4 + Z.max 0 L * cx_item s]
           else match out with [-2] => false | _ => true end
  | CVArr nest ety dimsbit L o payload =>
      (* the Variant array length is checked against max_array_length whatever the element type and
         whatever the other two limits: above it (or below -1) rejected; an empty / null array of a
         known element type accepted, consuming exactly the length field; otherwise anything but a panic *)
      let pre := fst (fst (nest_spec nest)) in
      if max_depth o <? snd (nest_spec nest) then list_eqb out [-1]
      else if L <? -1 then list_eqb out [-1]
      else if L <=? 0 then
        (if known_ty ety then list_eqb out [0; zlen pre + 5] else list_eqb out [-1])
      else if max_arr o <? L then list_eqb out [-1]
      else match out with [-2] => false | _ => true end
  | CChunk o size body =>
      if (0 <? max_msg o) && (max_msg o <? size) then list_eqb out [-3; 12]
      else match out with [0; _; dl] => (dl =? Z.max size 12) | _ => false end
  end.

Definition known (c : case) : Z := 0.

Definition valid (c : case) : Prop :=
  match c with
  | CVal t v o => wf_ty t v /\ plain o
  | CLen ctx L o payload => 1 <= ctx <= 23 /\ in_i 4 L /\ plain o /\ Forall is_byte payload
                            /\ 0 <= max_str o /\ 0 <= max_bstr o /\ 0 <= max_arr o
  | CChunk o size body => in_u 4 size /\ Forall is_byte body /\ 0 <= max_msg o
  | CVArr nest ety dimsbit L o payload =>
      0 <= nest <= 4 /\ 0 <= ety < 64 /\ in_i 4 L /\ plain o /\ Forall is_byte payload
  end.
