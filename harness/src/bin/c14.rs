//! C14: token renewal.  The schedule is replayed on a REAL pair of `SecureChannel`s (client and
//! server role, symmetric Sign or SignAndEncrypt): messages are chunked and secured with
//! `apply_security` at the moments the transports do it, verified with
//! `verify_and_remove_security`, and a renewal performs the calls that
//! `SecureChannelService::open_secure_channel` (server) and
//! `SecureChannelState::{begin,end}_issue_or_renew_secure_channel` (client) perform.
#[path = "../util.rs"]
mod util;
use util::*;
use opcua::core::comms::{chunker::Chunker, secure_channel::{Role, SecureChannel}};
use opcua::core::supported_message::SupportedMessage;
use opcua::crypto::{CertificateStore, SecurityPolicy};
use opcua::sync::RwLock;
use opcua::types::*;
use std::collections::VecDeque;
use std::sync::Arc;

#[derive(Clone, Copy, Debug, PartialEq)]
pub enum Op { CSend, CRenew, SRecv, SWrite, CRecv }
pub struct Case { ops: Vec<Op>, mode: u8, policy: u8 }
pub struct P;

enum Frame { Msg(Vec<u8>), Opn(Vec<u8>) }      // Opn carries the nonce of its sender
enum Resp { Msg, Opn }

fn channel(role: Role, policy: SecurityPolicy, mode: MessageSecurityMode) -> SecureChannel {
    let store = Arc::new(RwLock::new(CertificateStore::new(std::path::Path::new("/tmp/verif-c14-pki"))));
    let mut c = SecureChannel::new(store, role, DecodingOptions::default());
    c.set_security_policy(policy);
    c.set_security_mode(mode);
    c.set_secure_channel_id(1);
    c.set_token_id(1);
    c
}
fn secure(ch: &SecureChannel, seq: u32, msg: &SupportedMessage) -> Vec<u8> {
    let chunks = Chunker::encode(seq, seq, 0, 0, ch, msg).unwrap();
    let mut dst = vec![0u8; chunks[0].data.len() + 4096];
    let n = ch.apply_security(&chunks[0], &mut dst).unwrap();
    dst.truncate(n);
    dst
}

fn exec_ops(c: &Case) -> Vec<i128> {
    let policy = [SecurityPolicy::Basic256Sha256, SecurityPolicy::Basic128Rsa15, SecurityPolicy::Aes256Sha256RsaPss][c.policy as usize % 3];
    let mode = if c.mode == 0 { MessageSecurityMode::Sign } else { MessageSecurityMode::SignAndEncrypt };
    let mut client = channel(Role::Client, policy, mode);
    let mut server = channel(Role::Server, policy, mode);
    // initial issue: nonces exchanged, keys derived on both sides
    client.create_random_nonce();
    server.create_random_nonce();
    let (cn, sn) = (client.local_nonce().to_vec(), server.local_nonce().to_vec());
    client.set_remote_nonce(&sn); server.set_remote_nonce(&cn);
    client.derive_keys(); server.derive_keys();
    let request: SupportedMessage = ReadRequest { request_header: RequestHeader::dummy(), max_age: 0.0, timestamps_to_return: TimestampsToReturn::Both, nodes_to_read: None }.into();
    let response: SupportedMessage = ReadResponse { response_header: ResponseHeader::null(), results: None, diagnostic_infos: None }.into();
    let (mut c2s, mut s2c, mut sq): (VecDeque<Frame>, VecDeque<Frame>, VecDeque<Resp>) = Default::default();
    let (mut renewing, mut seq, mut token) = (false, 1u32, 1u32);
    let mut out = Vec::new();
    for op in &c.ops {
        seq += 1;
        match op {
            Op::CSend => { c2s.push_back(Frame::Msg(secure(&client, seq, &request))); out.push(4); }
            Op::CRenew => {
                if renewing { out.push(3); } else {
                    // begin_issue_or_renew_secure_channel: a fresh client nonce goes into the request
                    client.create_random_nonce();
                    c2s.push_back(Frame::Opn(client.local_nonce().to_vec()));
                    renewing = true; out.push(4);
                }
            }
            Op::SRecv => match c2s.pop_front() {
                None => out.push(3),
                Some(Frame::Msg(b)) => match server.verify_and_remove_security(&b) { Ok(_) => { sq.push_back(Resp::Msg); out.push(1) } Err(_) => out.push(0) },
                Some(Frame::Opn(nonce)) => {
                    // open_secure_channel, request type Renew
                    token += 1;
                    server.set_token_id(token);
                    server.set_remote_nonce_from_byte_string(&ByteString::from(&nonce)).unwrap();
                    server.create_random_nonce();
                    server.derive_keys();
                    sq.push_back(Resp::Opn); out.push(2);
                }
            },
            Op::SWrite => match sq.pop_front() {
                None => out.push(3),
                Some(Resp::Msg) => { s2c.push_back(Frame::Msg(secure(&server, seq, &response))); out.push(4); }
                Some(Resp::Opn) => { s2c.push_back(Frame::Opn(server.local_nonce().to_vec())); out.push(4); }
            },
            Op::CRecv => match s2c.pop_front() {
                None => out.push(3),
                Some(Frame::Msg(b)) => match client.verify_and_remove_security(&b) { Ok(_) => out.push(1), Err(_) => out.push(0) },
                Some(Frame::Opn(nonce)) => {
                    // end_issue_or_renew_secure_channel
                    client.set_security_token(ChannelSecurityToken { channel_id: 1, token_id: client.token_id() + 1, created_at: DateTime::now(), revised_lifetime: 60000 });
                    client.set_remote_nonce_from_byte_string(&ByteString::from(&nonce)).unwrap();
                    client.derive_keys();
                    renewing = false; out.push(2);
                }
            },
        }
    }
    out
}

impl Property for P {
    type Case = Case;
    fn fixed(_tier: &str) -> Vec<Case> {
        use Op::*;
        let mut v = Vec::new();
        for (mode, policy) in [(0u8, 0u8), (1, 0), (0, 1), (1, 2)] {
            // quiescent renewal
            v.push(Case { ops: vec![CSend, SRecv, SWrite, CRecv, CRenew, SRecv, SWrite, CRecv, CSend, SRecv, SWrite, CRecv], mode, policy });
            // known class 1: a request secured between the renew request and its response
            v.push(Case { ops: vec![CRenew, CSend, SRecv, SRecv], mode, policy });
            // known class 2: a response queued before the switch and written after it
            v.push(Case { ops: vec![CSend, SRecv, CRenew, SRecv, SWrite, CRecv], mode, policy });
            // two renewals, traffic only when quiet
            v.push(Case { ops: vec![CRenew, SRecv, SWrite, CRecv, CSend, SRecv, SWrite, CRecv, CRenew, SRecv, SWrite, CRecv, CSend, SRecv, SWrite, CRecv], mode, policy });
        }
        v
    }
    fn gen(r: &mut Rng) -> Case {
        use Op::*;
        let n = 3 + r.below(28);
        // two generators: mostly-quiescent (renewals only when idle) and free interleavings
        let quiet = r.chance(1, 2);
        let mut ops = Vec::new();
        let (mut infl, mut renew_out) = (0i32, false);
        for _ in 0..n {
            let o = *r.pick(&[CSend, CSend, SRecv, SRecv, SWrite, SWrite, CRecv, CRecv, CRenew]);
            if quiet {
                match o {
                    CRenew => { if infl == 0 && !renew_out { ops.extend([CRenew, SRecv, SWrite, CRecv]); } }
                    CSend => { ops.push(CSend); infl += 1; }
                    SRecv | SWrite => ops.push(o),
                    CRecv => { ops.push(CRecv); }
                }
                if infl > 0 && r.chance(1, 2) { ops.extend([SRecv, SWrite, CRecv]); infl -= 1; }
                let _ = renew_out; renew_out = false;
            } else { ops.push(o); }
        }
        Case { ops, mode: r.below(2) as u8, policy: r.below(3) as u8 }
    }
    fn exec(c: &Case) -> Out {
        let out = match guarded(|| exec_ops(c)) { Ok(o) => o, Err(_) => vec![-2] };
        let renewals = c.ops.iter().filter(|o| **o == Op::CRenew).count();
        let tag = format!("{}-{}renew{}", if c.mode == 0 { "sign" } else { "encrypt" }, renewals.min(3), if out.contains(&0) { "-reject" } else { "" });
        let term = coq_list(&c.ops, |o| format!("{:?}", o));
        Out { tag, term, out }
    }
}
fn main() { run_main::<P>() }
