(* C36 — the executable oracle IS the property: whatever output it accepts (in particular the
   implementation's, which the driver feeds it) satisfies the exactly-once ledger, independently of
   the model. *)
From Coq Require Import List ZArith Bool Lia Permutation.
Import ListNotations.
From OV Require Import C36.Model C36.Proofs.
Open Scope Z_scope.

(* the oracle's ledger, with two ghost columns: the acknowledgement lists of the OBSERVED requests
   that succeeded, and the numbers received; [infl] holds the lists the observed in-flight requests
   carried *)
Fixpoint ledger (avail : list ack) (infl sent : list (list ack)) (recv : list ack)
                (c : case) (out : list Z)
  : option (list ack * list (list ack) * list (list ack) * list ack) :=
  match c with
  | [] => match out with [] => Some (avail, infl, sent, recv) | _ => None end
  | o :: c' =>
      match dec out with
      | None => None
      | Some (seen, out') =>
          match o with
          | Start =>
              match remove_all seen avail with
              | Some rest => ledger rest (infl ++ [seen]) sent recv c' out'
              | None => None
              end
          | RespOk k sub seq _ | RespOkBad k sub seq =>
              match infl with
              | [] => if ms_eqb seen avail then ledger avail infl sent recv c' out' else None
              | _ => let i := pick k (length infl) in
                     let avail' := avail ++ [(sub, seq)] in
                     if ms_eqb seen avail'
                     then ledger avail' (remove_nth i infl) (sent ++ [nth i infl []]) (recv ++ [(sub, seq)]) c' out'
                     else None
              end
          | RespErr k =>
              match infl with
              | [] => if ms_eqb seen avail then ledger avail infl sent recv c' out' else None
              | _ => let i := pick k (length infl) in
                     let avail' := avail ++ nth i infl [] in
                     if ms_eqb seen avail' then ledger avail' (remove_nth i infl) sent recv c' out' else None
              end
          | StartDown _ | SubAdd _ | SubDel _ | SubMod _ | SubPub _ =>
              if ms_eqb seen avail then ledger avail infl sent recv c' out' else None
          end
      end
  end.

(* the ledger is the oracle: it runs to the end exactly when the oracle accepts *)
Lemma oracle_ledger c : forall avail infl sent recv out,
  oracle_from avail infl c out =
  match ledger avail infl sent recv c out with Some _ => true | None => false end.
Proof.
  induction c as [|o c IH]; intros avail infl sent recv out.
  - cbn. destruct out; reflexivity.
  - cbn [oracle_from ledger]. destruct (dec out) as [[seen out']|]; [|reflexivity].
    destruct o as [|k sub seq data|k sub seq|k|kind|sub|sub|sub|sub].
    + destruct (remove_all seen avail); [apply IH|reflexivity].
    + destruct infl as [|x infl']; cbv zeta; (destruct (ms_eqb _ _); cbn [andb]; [apply IH|reflexivity]).
    + destruct infl as [|x infl']; cbv zeta; (destruct (ms_eqb _ _); cbn [andb]; [apply IH|reflexivity]).
    + destruct infl as [|x infl']; cbv zeta; (destruct (ms_eqb _ _); cbn [andb]; [apply IH|reflexivity]).
    + destruct (ms_eqb _ _); cbn [andb]; [apply IH|reflexivity].
    + destruct (ms_eqb _ _); cbn [andb]; [apply IH|reflexivity].
    + destruct (ms_eqb _ _); cbn [andb]; [apply IH|reflexivity].
    + destruct (ms_eqb _ _); cbn [andb]; [apply IH|reflexivity].
    + destruct (ms_eqb _ _); cbn [andb]; [apply IH|reflexivity].
Qed.

Ltac perm_count :=
  apply (proj2 (Permutation_count_occ adec _ _));
  let z := fresh "z" in
  intro z;
  repeat match goal with
         | H : Permutation _ _ |- _ =>
             let Hz := fresh "Hz" in
             pose proof (proj1 (Permutation_count_occ adec _ _) H z) as Hz; clear H
         end;
  repeat rewrite concat_app in *; cbn [concat] in *; repeat rewrite count_occ_app in *; cbn [count_occ] in *;
  repeat match goal with |- context [adec ?a z] => destruct (adec a z) end; lia.

Lemma ledger_inv c : forall avail infl sent recv out a i s r,
  ledger avail infl sent recv c out = Some (a, i, s, r) ->
  Permutation recv (concat sent ++ concat infl ++ avail) ->
  Permutation r (concat s ++ concat i ++ a).
Proof.
  induction c as [|o c IH]; intros avail infl sent recv out a i s r H P.
  - cbn in H. destruct out; [|discriminate]. inversion H; subst. exact P.
  - cbn [ledger] in H. destruct (dec out) as [[seen out']|]; [|discriminate].
    destruct o as [|k sub seq data|k sub seq|k|kind|sub|sub|sub|sub].
    + destruct (remove_all seen avail) as [rest|] eqn:E; [|discriminate].
      apply (IH _ _ _ _ _ _ _ _ _ H). apply remove_all_perm in E. perm_count.
    + destruct infl as [|x infl'].
      * destruct (ms_eqb seen avail); [|discriminate]. exact (IH _ _ _ _ _ _ _ _ _ H P).
      * cbv zeta in H. destruct (ms_eqb _ _); [|discriminate]. apply (IH _ _ _ _ _ _ _ _ _ H).
        pose proof (nth_remove_nth_perm [] (x :: infl') (pick k (length (x :: infl')))
                      (pick_lt k (length (x :: infl')) ltac:(cbn [length]; lia))) as Hn.
        perm_count.
    + destruct infl as [|x infl'].
      * destruct (ms_eqb seen avail); [|discriminate]. exact (IH _ _ _ _ _ _ _ _ _ H P).
      * cbv zeta in H. destruct (ms_eqb _ _); [|discriminate]. apply (IH _ _ _ _ _ _ _ _ _ H).
        pose proof (nth_remove_nth_perm [] (x :: infl') (pick k (length (x :: infl')))
                      (pick_lt k (length (x :: infl')) ltac:(cbn [length]; lia))) as Hn.
        perm_count.
    + destruct infl as [|x infl'].
      * destruct (ms_eqb seen avail); [|discriminate]. exact (IH _ _ _ _ _ _ _ _ _ H P).
      * cbv zeta in H. destruct (ms_eqb _ _); [|discriminate]. apply (IH _ _ _ _ _ _ _ _ _ H).
        pose proof (nth_remove_nth_perm [] (x :: infl') (pick k (length (x :: infl')))
                      (pick_lt k (length (x :: infl')) ltac:(cbn [length]; lia))) as Hn.
        perm_count.
    + destruct (ms_eqb seen avail); [|discriminate]. exact (IH _ _ _ _ _ _ _ _ _ H P).
    + destruct (ms_eqb seen avail); [|discriminate]. exact (IH _ _ _ _ _ _ _ _ _ H P).
    + destruct (ms_eqb seen avail); [|discriminate]. exact (IH _ _ _ _ _ _ _ _ _ H P).
    + destruct (ms_eqb seen avail); [|discriminate]. exact (IH _ _ _ _ _ _ _ _ _ H P).
    + destruct (ms_eqb seen avail); [|discriminate]. exact (IH _ _ _ _ _ _ _ _ _ H P).
Qed.

(* Any output the oracle accepts -- the implementation's included -- has a complete ledger in
   which every received number is in exactly one place: acknowledged by an observed request that
   succeeded, carried by an observed request still in flight, or waiting.  No reference to the
   model [run]. *)
Theorem oracle_sound c out : oracle c out = true ->
  exists a i s r, ledger [] [] [] [] c out = Some (a, i, s, r) /\
                  Permutation r (concat s ++ concat i ++ a).
Proof.
  unfold oracle. rewrite (oracle_ledger c [] [] [] [] out).
  destruct (ledger [] [] [] [] c out) as [[[[a i] s] r]|] eqn:E; [|discriminate].
  intros _. exists a, i, s, r. split; [reflexivity|].
  apply (ledger_inv c _ _ _ _ _ _ _ _ _ E). constructor.
Qed.

(* and what it accepts never acknowledges a number more often than it was received *)
Theorem oracle_sound_never_twice c out x : oracle c out = true ->
  match ledger [] [] [] [] c out with
  | Some (_, _, s, r) => (count_occ adec (concat s) x <= count_occ adec r x)%nat
  | None => False
  end.
Proof.
  intro H. destruct (oracle_sound c out H) as (a & i & s & r & E & P). rewrite E.
  pose proof (proj1 (Permutation_count_occ adec _ _) P x) as Hx. rewrite count_occ_app in Hx. lia.
Qed.
