From Coq Require Import List ZArith Bool Lia.
Import ListNotations.
From OV Require Import C37.Model.
Open Scope Z_scope.

Lemma list_eqb_refl l : list_eqb l l = true.
Proof. induction l as [|x l IH]; cbn; [reflexivity|]. rewrite Z.eqb_refl. exact IH. Qed.

Lemma list_eqb_eq a : forall b, list_eqb a b = true -> a = b.
Proof.
  induction a as [|x a IH]; intros [|y b] H; cbn in H; try discriminate; [reflexivity|].
  apply andb_true_iff in H as [H1 H2]. apply Z.eqb_eq in H1. f_equal; auto.
Qed.

Lemma DMAX_pos : 0 < DMAX. Proof. unfold DMAX. lia. Qed.
Lemma U32MAX_val : U32MAX = 4294967295. Proof. reflexivity. Qed.

(* the state after k steps in closed form, as long as the limit is not reached *)
Definition state_at (c : pcase) (k : nat) : st :=
  {| max_sleep := c_max c; max_retries := c_limit c;
     cur := delay (c_max c) (c_init c) k;
     count := Z.min U32MAX (c_count0 c + Z.of_nat k) |}.

Lemma delay_bounds mx d0 k : 0 <= mx <= DMAX -> 0 <= d0 <= DMAX -> 0 <= delay mx d0 k <= DMAX.
Proof. intros Hm Hd. induction k as [|k IH]; cbn [delay]; lia. Qed.

Lemma limit_reached_state_at c k : valid_p c ->
  limit_reached (state_at c k) = negb (in_limit c k).
Proof.
  intros (Hm & Hi & Hc & Hl). unfold limit_reached, in_limit, state_at; cbn.
  destruct (c_limit c) as [m|]; [|reflexivity].
  rewrite U32MAX_val in *.
  destruct (Z.leb_spec m (Z.min 4294967295 (c_count0 c + Z.of_nat k)));
  destruct (Z.ltb_spec (c_count0 c + Z.of_nat k) m); cbn; try reflexivity; lia.
Qed.

Lemma in_limit_mono c k : in_limit c (S k) = true -> in_limit c k = true.
Proof.
  unfold in_limit. destruct (c_limit c); [|reflexivity].
  intros H. apply Z.ltb_lt in H. apply Z.ltb_lt. lia.
Qed.

Lemma next_state_at c k : valid_p c -> in_limit c k = true ->
  next (state_at c k) = (Some (delay (c_max c) (c_init c) k), state_at c (S k)).
Proof.
  intros Hv Hin. unfold next. rewrite limit_reached_state_at by exact Hv. rewrite Hin. cbn [negb].
  destruct Hv as (Hm & Hi & Hc & Hl).
  pose proof (delay_bounds (c_max c) (c_init c) k Hm Hi) as Hd.
  unfold state_at; cbn [cur max_sleep max_retries count]. f_equal. f_equal.
  - cbn [delay]. unfold sat_mul2. lia.
  - unfold sat_inc. rewrite Nat2Z.inj_succ. lia.
Qed.

Lemma next_stuck c k : valid_p c -> in_limit c k = false ->
  next (state_at c k) = (None, state_at c k).
Proof.
  intros Hv Hin. unfold next. rewrite limit_reached_state_at by exact Hv. rewrite Hin. reflexivity.
Qed.

Lemma in_limit_false_later c k j : in_limit c k = false -> in_limit c (k + j) = false.
Proof.
  unfold in_limit. destruct (c_limit c); [|discriminate].
  intros H. apply Z.ltb_ge in H. apply Z.ltb_ge. lia.
Qed.

(* once the limit is reached the iterator answers None for ever *)
Lemma take_stuck c k : valid_p c -> in_limit c k = false ->
  forall n, take n (state_at c k) = repeat (-1) n.
Proof.
  intros Hv Hin n. induction n as [|n IH]; [reflexivity|].
  cbn [take]. rewrite next_stuck by assumption. cbn [repeat]. f_equal. exact IH.
Qed.

Lemma spec_stuck c k : in_limit c k = false ->
  forall n, map (spec_item c) (seq k n) = repeat (-1) n.
Proof.
  intros Hin n. revert k Hin. induction n as [|n IH]; intros k Hin; [reflexivity|].
  cbn [seq map repeat]. unfold spec_item at 1. rewrite Hin. f_equal.
  apply IH. replace (S k) with (k + 1)%nat by lia. apply in_limit_false_later. exact Hin.
Qed.

Lemma take_spec_p c : valid_p c -> forall n k,
  take n (state_at c k) = map (spec_item c) (seq k n).
Proof.
  intros Hv n. induction n as [|n IH]; intros k; [reflexivity|].
  destruct (in_limit c k) eqn:Hin.
  - cbn [take seq map]. rewrite next_state_at by assumption.
    unfold spec_item at 1. rewrite Hin. f_equal. apply IH.
  - rewrite take_stuck by assumption. symmetry. apply spec_stuck. exact Hin.
Qed.

Lemma init_is_state_at c : valid_p c -> init_state c = state_at c 0.
Proof.
  intros (Hm & Hi & Hc & Hl). unfold init_state, state_at. cbn [delay Z.of_nat]. f_equal. lia.
Qed.

(* main theorem: for every policy and every number of observed calls, the implementation model
   produces exactly the specified sequence; in particular there is no panic marker in it *)
Theorem run_eq_spec_p c : valid_p c -> run_p c = spec_p c.
Proof.
  intros Hv. unfold run_p, spec_p. rewrite init_is_state_at by exact Hv. apply take_spec_p. exact Hv.
Qed.


(* the statement's clauses, read off the specification *)

(* exactly `limit` delays (counted from a fresh policy), then None for ever; unbounded if unlimited *)
Theorem yields_iff_within_limit_p c k : valid_p c -> c_count0 c = 0 -> (k < Z.to_nat (c_n c))%nat ->
  nth k (run_p c) 0 <> -1 <->
  match c_limit c with Some m => Z.of_nat k < m | None => True end.
Proof.
  intros Hv H0 Hk. rewrite run_eq_spec_p by exact Hv. unfold spec_p.
  rewrite (nth_indep _ 0 (spec_item c 0)) by (rewrite map_length, seq_length; exact Hk).
  rewrite map_nth, seq_nth by exact Hk. cbn [plus].
  unfold spec_item, in_limit. rewrite H0.
  destruct Hv as (Hm & Hi & Hc & Hl).
  pose proof (delay_bounds (c_max c) (c_init c) k Hm Hi) as Hd.
  destruct (c_limit c) as [m|].
  - destruct (Z.ltb_spec (0 + Z.of_nat k) m); split; intro H'; try lia; try congruence.
  - split; [trivial|]. intros _. lia.
Qed.

(* first delay = initial; each later one = min(max, 2 * previous) *)
Theorem first_is_initial mx d0 : delay mx d0 0 = d0.
Proof. reflexivity. Qed.

Theorem later_doubles_capped mx d0 k : delay mx d0 (S k) = Z.min mx (2 * delay mx d0 k).
Proof. reflexivity. Qed.

Theorem no_panic_p c : valid_p c -> ~ In (-2) (run_p c).
Proof.
  intros Hv. rewrite run_eq_spec_p by exact Hv. unfold spec_p. intros Hin.
  apply in_map_iff in Hin as (k & Hk & _). unfold spec_item in Hk.
  destruct Hv as (Hm & Hi & _).
  pose proof (delay_bounds (c_max c) (c_init c) k Hm Hi).
  destruct (in_limit c k); lia.
Qed.

(* non-vacuity: the default policy is valid, and so is the extreme one *)
Example valid_default : valid_p (mk_pcase 30000000000 (Some 10) 500000000 0 12).
Proof. unfold valid_p, DMAX, U32MAX; cbn; lia. Qed.
Example valid_extreme : valid_p (mk_pcase DMAX None DMAX U32MAX 5).
Proof. unfold valid_p, DMAX, U32MAX; cbn; lia. Qed.
Example default_sequence :
  run_p (mk_pcase 30000000000 (Some 10) 500000000 0 12) =
  [500000000; 1000000000; 2000000000; 4000000000; 8000000000; 16000000000;
   30000000000; 30000000000; 30000000000; 30000000000; -1; -1].
Proof. vm_compute. reflexivity. Qed.

(* the pinned code before the fix violated the property: an initial delay above DMAX/2 panics on
   the first call, and an unlimited policy panics on call 2^32 in builds with overflow checks *)
Theorem legacy_refuted_mul :
  exists c, valid_p c /\ In (-2) (Legacy.take (Z.to_nat (c_n c)) (init_state c)).
Proof.
  exists (mk_pcase DMAX (Some 3) (DMAX / 2 + 1) 0 2). split.
  - unfold valid_p, DMAX, U32MAX; cbn; lia.
  - vm_compute. left. reflexivity.
Qed.

Theorem legacy_refuted_count :
  exists c, valid_p c /\ In (-2) (Legacy.take (Z.to_nat (c_n c)) (init_state c)).
Proof.
  exists (mk_pcase 1000 None 10 U32MAX 1). split.
  - unfold valid_p, DMAX, U32MAX; cbn; lia.
  - vm_compute. left. reflexivity.
Qed.

(* ---------- the case interface: constructors, second iterator, connect loop ---------- *)

(* the connect loop, from the closed-form state after k delays *)
Lemma connect_state_at c : valid_p c -> forall fuel k,
  let '(a, g, ds) := connect fuel (state_at c k) in
  (forall j, (j < fuel)%nat -> in_limit c (k + j) = true) ->
  a = Z.of_nat fuel /\ g = 0 /\ ds = map (fun j => delay (c_max c) (c_init c) j) (seq k fuel).
Proof.
  intros Hv fuel. induction fuel as [|f IH]; intros k.
  - cbn. intros _. repeat split.
  - cbn [connect]. destruct (in_limit c k) eqn:Hin.
    + rewrite next_state_at by assumption.
      specialize (IH (S k)). destruct (connect f (state_at c (S k))) as [[a g] ds].
      intros Hall. destruct IH as (Ha & Hg & Hd).
      { intros j Hj. replace (S k + j)%nat with (k + S j)%nat by lia. apply Hall. lia. }
      subst. split; [lia|]. split; [reflexivity|]. reflexivity.
    + rewrite next_stuck by assumption. intros Hall.
      specialize (Hall 0%nat ltac:(lia)). rewrite Nat.add_0_r in Hall. congruence.
Qed.

Lemma connect_gives_up c : valid_p c -> forall fuel k y,
  (forall j, (j < y)%nat -> in_limit c (k + j) = true) -> in_limit c (k + y) = false ->
  (y < fuel)%nat ->
  connect fuel (state_at c k) =
  (Z.of_nat y + 1, 1, map (fun j => delay (c_max c) (c_init c) j) (seq k y)).
Proof.
  intros Hv fuel. induction fuel as [|f IH]; intros k y Hall Hstop Hy; [lia|].
  cbn [connect]. destruct y as [|y].
  - rewrite Nat.add_0_r in Hstop. rewrite next_stuck by assumption. reflexivity.
  - assert (Hin : in_limit c k = true).
    { specialize (Hall 0%nat ltac:(lia)). rewrite Nat.add_0_r in Hall. exact Hall. }
    rewrite next_state_at by assumption.
    rewrite (IH (S k) y).
    + cbn [seq map]. f_equal. f_equal. lia.
    + intros j Hj. replace (S k + j)%nat with (k + S j)%nat by lia. apply Hall. lia.
    + replace (S k + y)%nat with (k + S y)%nat by lia. exact Hstop.
    + lia.
Qed.

(* AsyncSecureChannel::connect against a server that refuses every attempt: with a fresh policy
   of limit m it makes exactly m + 1 attempts, sleeps exactly the policy's m delays in order,
   and gives up; with an unlimited policy it never gives up *)
Theorem connect_limited c m fuel : valid_p c -> c_count0 c = 0 -> c_limit c = Some m ->
  (Z.to_nat m < fuel)%nat ->
  connect fuel (init_state c) =
  (m + 1, 1, map (fun j => delay (c_max c) (c_init c) j) (seq 0 (Z.to_nat m))).
Proof.
  intros Hv H0 Hl Hf. rewrite init_is_state_at by exact Hv.
  assert (Hm : 0 <= m) by (destruct Hv as (_ & _ & _ & Hlim); rewrite Hl in Hlim; lia).
  rewrite (connect_gives_up c Hv fuel 0 (Z.to_nat m)).
  - f_equal. f_equal. lia.
  - intros j Hj. unfold in_limit. rewrite Hl, H0. apply Z.ltb_lt. cbn [plus]. lia.
  - unfold in_limit. rewrite Hl, H0. apply Z.ltb_ge. cbn [plus]. lia.
  - exact Hf.
Qed.

Theorem connect_unlimited c fuel : valid_p c -> c_limit c = None ->
  let '(a, g, ds) := connect fuel (init_state c) in a = Z.of_nat fuel /\ g = 0.
Proof.
  intros Hv Hl. rewrite init_is_state_at by exact Hv.
  pose proof (connect_state_at c Hv fuel 0%nat) as H.
  destruct (connect fuel (state_at c 0)) as [[a g] ds].
  destruct H as (Ha & Hg & _); [|split; assumption].
  intros j _. unfold in_limit. rewrite Hl. reflexivity.
Qed.

Lemma connect_spec p : valid_p p -> enc_connect (connect (Z.to_nat (c_n p)) (init_state p)) = spec_connect p.
Proof.
  intros Hv. rewrite init_is_state_at by exact Hv. unfold spec_connect.
  destruct (c_limit p) as [m|] eqn:Hl.
  - destruct Hv as (Hm & Hi & Hc & Hlim). rewrite Hl in Hlim.
    assert (Hv : valid_p p) by (unfold valid_p; rewrite Hl; tauto).
    cbv zeta. destruct (Z.ltb_spec (Z.max 0 (m - c_count0 p)) (c_n p)) as [Hlt|Hge].
    + rewrite (connect_gives_up p Hv _ 0 (Z.to_nat (Z.max 0 (m - c_count0 p)))).
      * cbn [enc_connect]. f_equal. lia.
      * intros j Hj. unfold in_limit. rewrite Hl. apply Z.ltb_lt. cbn [plus]. lia.
      * unfold in_limit. rewrite Hl. apply Z.ltb_ge. cbn [plus]. lia.
      * lia.
    + pose proof (connect_state_at p Hv (Z.to_nat (c_n p)) 0%nat) as H.
      destruct (connect (Z.to_nat (c_n p)) (state_at p 0)) as [[a g] ds].
      destruct H as (Ha & Hg & _).
      * intros j Hj. unfold in_limit. rewrite Hl. apply Z.ltb_lt. cbn [plus]. lia.
      * subst. cbn [enc_connect]. f_equal; try reflexivity; lia.
  - pose proof (connect_state_at p Hv (Z.to_nat (c_n p)) 0%nat) as H.
    destruct (connect (Z.to_nat (c_n p)) (state_at p 0)) as [[a g] ds].
    destruct H as (Ha & Hg & _).
    + intros j _. unfold in_limit. rewrite Hl. reflexivity.
    + subst. cbn [enc_connect]. f_equal; try reflexivity; lia.
Qed.

Theorem run_eq_spec c : valid c -> run c = spec c.
Proof.
  intros (Hv & _). unfold run, spec. destruct (c_connect c).
  - apply connect_spec. exact Hv.
  - apply run_eq_spec_p. exact Hv.
Qed.

Theorem oracle_holds c : valid c -> oracle c (run c) = true.
Proof. intros Hv. unfold oracle. rewrite run_eq_spec by exact Hv. apply list_eqb_refl. Qed.

Theorem no_panic c : valid c -> ~ In (-2) (run c).
Proof.
  intros (Hv & _). unfold run. destruct (c_connect c).
  - rewrite connect_spec by exact Hv. unfold spec_connect.
    destruct (c_limit (policy_of c)); cbv zeta; [destruct (_ <? _)|]; cbn [In]; lia.
  - apply no_panic_p. exact Hv.
Qed.

(* every constructor builds a valid policy from valid arguments *)
Lemma policy_of_valid h pre b p : valid_p p ->
  match h with Config l => -1 <= l <= 2147483647 | _ => True end ->
  valid_p (policy_of (mk_case h pre b p)).
Proof.
  intros (Hm & Hi & Hc & Hl) Hh. unfold policy_of, valid_p, MS, DMAX, U32MAX in *. cbn [c_how c_p].
  destruct h; cbn [c_max c_limit c_init c_count0]; repeat split; try lia; try exact Hl.
  destruct (Z.ltb_spec l 0); [trivial|lia].
Qed.

(* the pinned connect loop (back-off created inside the loop) never gave up for any limit > 0 and
   always slept the initial delay *)
Theorem legacy_connect_refuted :
  exists c, valid_p c /\ c_count0 c = 0 /\ c_limit c = Some 2 /\
            LegacyConnect.connect 10 (init_state c) = (10, 0, repeat (c_init c) 10) /\
            connect 10 (init_state c) = (3, 1, [c_init c; 2 * c_init c]).
Proof.
  exists (mk_pcase 30000 (Some 2) 500 0 10). repeat split; try (unfold valid_p, DMAX, U32MAX; cbn; lia).
Qed.

Example valid_case_connect : valid (mk_case (Config 3) 0 true (mk_pcase 2000000 None 1000000 0 6)).
Proof. unfold valid, valid_p, DMAX, U32MAX; cbn; lia. Qed.
Example run_case_connect : run (mk_case (Config 3) 0 true (mk_pcase 2000000 None 1000000 0 6)) = [4; 1].
Proof. vm_compute. reflexivity. Qed.
Example run_case_never : run (mk_case Never 2 false (mk_pcase 5 None 7 0 2)) = [-1; -1].
Proof. vm_compute. reflexivity. Qed.
