(* The codec law for the hand-written Argument structure, and the refutation of its byte_len before
   the fix. *)
From Coq Require Import List ZArith Bool Lia.
Import ListNotations.
From OV Require Import C01.Codec C01.CodecProofs C01.Builtins C01.BuiltinsProofs C01.VariantProofs C01.Argument.
Open Scope Z_scope.

Lemma dec_scalar_21 o d : dec_scalar o d 21 = dec_ltext o.
Proof. reflexivity. Qed.

Lemma u4_array_law o dims rest :
  (match dims with None => True | Some ds => Forall (in_u 4) ds /\ Z.of_nat (length ds) < 2 ^ 31 end) ->
  run (dec_array o 4 (read_u 4)) (enc_array (enc_u 4) dims ++ rest) =
  match chk_array o (fun _ : Z => None) dims with None => Ok (dims, rest) | Some e => Err e end.
Proof.
  intros H.
  rewrite (run_dec_array (enc_u 4) (read_u 4) (in_u 4) (fun _ => None) (fun x => x)
             (fun a r Ha => run_read_u 4 a r Ha) o 4 dims rest H).
  destruct (chk_array o (fun _ : Z => None) dims); [reflexivity|].
  destruct dims; [rewrite map_id|]; reflexivity.
Qed.

Theorem arg_codec_ok : codec_ok arg_codec.
Proof.
  intros [name dt rank dims desc] (Hn & Hdt & Hr & Hd & Hty & Hdesc).
  unfold arg_codec. cbn [enc dec blen wf chk norm enc_arg len_arg chk_arg norm_arg].
  assert (Hr' : -2147483648 <= rank < 2147483648) by (unfold in_i in Hr; cbn in Hr; lia).
  split; [|split].
  - rewrite !app_length, !Nat2Z.inj_add, enc_i_length, <- enc_ustr_length, <- enc_nodeid_length by exact Hdt.
    rewrite <- scalar_length by exact Hdesc.
    destruct (Z.ltb_spec 0 rank).
    + destruct (Hd H) as (ds & -> & Hl & Hf). unfold len_array, enc_array.
      rewrite app_length, enc_i_length, Nat2Z.inj_add.
      rewrite <- (concat_length_sum (enc_u 4) (fun _ => 4)) by (intros; rewrite enc_u_length; reflexivity). lia.
    + rewrite enc_u_length. lia.
  - repeat (apply Forall_app; split).
    + apply enc_ustr_bytes, wf_str_bytes, Hn.
    + apply enc_nodeid_bytes, Hdt.
    + apply enc_i_bytes.
    + destruct (0 <? rank); [|apply enc_u_bytes]. unfold enc_array.
      destruct dims; [|apply enc_i_bytes]. apply Forall_app. split; [apply enc_i_bytes|].
      apply concat_bytes. intros; apply enc_u_bytes.
    + apply scalar_bytes, Hdesc.
  - intros o d rest Ho. unfold dec_arg. rewrite <- !app_assoc.
    rewrite run_bind, run_dec_str by exact Hn. destruct (chk_ustr (max_str o) name); [reflexivity|].
    cbn [seq_chk]. rewrite run_bind, run_dec_nodeid by exact Hdt. destruct (chk_nodeid o dt); [reflexivity|].
    cbn [seq_chk]. rewrite run_bind, run_read_i by (try lia; exact Hr). rewrite run_bind.
    destruct (0 <? rank) eqn:Er.
    + apply Z.ltb_lt in Er. destruct (Hd Er) as (ds & -> & Hl & Hf).
      rewrite u4_array_law by (split; [exact Hf|rewrite Hl; change (2 ^ 31) with 2147483648; lia]).
      destruct (chk_array o (fun _ : Z => None) (Some ds)); [reflexivity|]. cbn [seq_chk].
      rewrite Hl, Z.eqb_refl. cbn [negb andb].
      rewrite run_bind, <- dec_scalar_21 with (d := O), <- Hty, scalar_law by assumption.
      destruct (chk_scalar o 0 desc); reflexivity.
    + change (enc_u 4 0) with (enc_array (enc_u 4) (Some [])).
      rewrite u4_array_law by (split; [constructor|cbn; lia]).
      destruct (chk_array o (fun _ : Z => None) (Some [])); [reflexivity|]. cbn [seq_chk andb].
      rewrite run_bind, <- dec_scalar_21 with (d := O), <- Hty, scalar_law by assumption.
      destruct (chk_scalar o 0 desc); reflexivity.
Qed.

(* before the fix: for value_rank <= 0 with non-empty dimensions byte_len exceeded the bytes written *)
Lemma legacy_arg_refuted :
  let a := Arg (Some []) (NId 255 (INum 223)) (-1) (Some [65536]) (SLText None None) in
  wf_arg a /\ LegacyArg.len_arg a = 21 /\ Z.of_nat (length (enc_arg a)) = 17 /\ len_arg a = 17.
Proof.
  cbv zeta. split; [|split; [|split]]; try reflexivity.
  cbn. unfold wf_bytes, in_u, in_i. cbn.
  repeat match goal with
         | |- _ /\ _ => split
         | |- Forall _ _ => constructor
         | |- True => exact I
         | |- _ = _ => reflexivity
         | |- _ -> _ => intros; lia
         | |- _ => lia
         end.
Qed.
