From Coq Require Import List ZArith Bool Lia.
Import ListNotations.
From OV Require Import C28.Refs C29.Model.
Open Scope Z_scope.

Definition cycle2 : case :=
  mk_case [1; 2; 44; 45; 46; 47; 49] [1; 2]
          [(44, 45, 46); (44, 45, 47); (47, 45, 49); (1, 47, 2); (2, 47, 1)] 1 true.

Example cycle2_ok : valid cycle2 /\ oracle cycle2 (run cycle2) = true.
Proof. split; vm_compute; reflexivity. Qed.
