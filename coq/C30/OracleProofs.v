(* C30 — proofs.  Part 2: the executable oracle (a ledger of remaining references per live
   continuation point) accepts the model's own output for every valid case: a refinement between
   the code-shaped store (snapshots, start indices, time stamps, lazy expiry, FIFO eviction) and
   the ledger. *)
From Coq Require Import List ZArith Bool Arith Lia.
Import ListNotations.
From OV Require Import C30.Model C30.Proofs.
Open Scope Z_scope.

Definition validb (now : Z) (c : cp) : bool := now <=? cp_lm c.
Definition abs (c : cp) : lcp := (cp_id c, (skipn (cp_start c) (cp_refs c), cp_k c)).

(* time stamps never decrease along the store *)
Fixpoint mono (l : list cp) : Prop :=
  match l with
  | [] => True
  | c :: l' => Forall (fun x => cp_lm c <= cp_lm x) l' /\ mono l'
  end.

Lemma mono_sublist : forall l' l, sublist l' l -> mono l -> mono l'.
Proof.
  intros l' l H. induction H; cbn; intro Hm; auto.
  - destruct Hm. auto.
  - destruct Hm as [H1 H2]. split; auto. eapply sublist_Forall; eauto.
Qed.

Lemma mono_app_one : forall l c, mono l -> Forall (fun x => cp_lm x <= cp_lm c) l -> mono (l ++ [c]).
Proof.
  induction l as [|x l IH]; intros c Hm Hf; cbn.
  - split; auto.
  - destruct Hm as [H1 H2]. inversion Hf; subst. split.
    + apply Forall_app. split; auto.
    + apply IH; auto.
Qed.

Lemma lastn_cons_short : forall A n (x : A) l, (n <= length l)%nat -> lastn n (x :: l) = lastn n l.
Proof.
  intros A n x l H. unfold lastn. cbn [length].
  replace (S (length l) - n)%nat with (S (length l - n))%nat by lia. reflexivity.
Qed.
Lemma lastn_all : forall A n (l : list A), (length l <= n)%nat -> lastn n l = l.
Proof. intros A n l H. unfold lastn. replace (length l - n)%nat with 0%nat by lia. reflexivity. Qed.

Lemma filter_all : forall A (p : A -> bool) l, Forall (fun x => p x = true) l -> filter p l = l.
Proof. induction l as [|x l IH]; intro H; cbn; auto. inversion H; subst. rewrite H2, IH; auto. Qed.

Lemma filter_lastn : forall now n l, mono l -> Forall (fun c => cp_lm c <= now) l ->
  filter (validb now) (lastn n l) = lastn n (filter (validb now) l).
Proof.
  intros now n. induction l as [|c l IH]; intros Hm Hf; [reflexivity|].
  destruct Hm as [H1 H2]. inversion Hf as [|? ? Hc Hl]; subst.
  destruct (le_lt_dec n (length l)) as [Hn|Hn].
  - rewrite lastn_cons_short by exact Hn. rewrite IH by auto. cbn [filter].
    destruct (validb now c) eqn:V; [|reflexivity].
    (* c valid: everything after it is valid too *)
    assert (Hall : Forall (fun x => validb now x = true) l).
    { unfold validb in *. apply Z.leb_le in V. eapply Forall_impl; [|exact H1].
      cbn. intros x Hx. apply Z.leb_le. lia. }
    rewrite (filter_all _ _ _ Hall). symmetry. apply lastn_cons_short. exact Hn.
  - rewrite lastn_all by (cbn; lia). symmetry. apply lastn_all.
    pose proof (sublist_length _ _ _ (sublist_filter _ (validb now) (c :: l))). cbn [length] in *. lia.
Qed.

(* ---- ledger and store ---------------------------------------------------------------------- *)
Lemma take_led_abs : forall id l,
  take_led id (map abs l) =
  match take_cp id l with
  | Some (c, rest) => Some (skipn (cp_start c) (cp_refs c), cp_k c, map abs rest)
  | None => None
  end.
Proof.
  intros id. induction l as [|x l IH]; cbn; auto.
  destruct (cp_id x =? id); auto. rewrite IH. destruct (take_cp id l) as [[c rest]|]; auto.
Qed.

Lemma take_n_app : forall (l rest : list Z), take_n (length l) (l ++ rest) = Some (l, rest).
Proof. induction l as [|x l IH]; intro rest; cbn; auto. rewrite IH. reflexivity. Qed.

Lemma list_eqb_refl : forall l, list_eqb l l = true.
Proof. induction l as [|x l IH]; cbn; auto. rewrite Z.eqb_refl, IH. reflexivity. Qed.

Record Rel (s : st) (o : ost) : Prop := {
  Rel_hubs : o_hubs o = hubs s;
  Rel_next : o_next o = next_id s;
  Rel_led : o_led o = map abs (filter (validb (lm s)) (store s));
  Rel_mono : mono (store s);
  Rel_inv : inv s;
  Rel_legacy : legacy_del s = false }.

Lemma Forall_valid_filter : forall now l, Forall (fun x => validb now x = true) (filter (validb now) l).
Proof. intros. apply Forall_forall. intros x Hx. apply filter_In in Hx. tauto. Qed.

(* reference_description_to_browse_result against the ledger *)
Lemma page_sim : forall s o refs st0 k tail bad,
  Rel s o -> (st0 <= length refs)%nat -> (0 < k)%nat ->
  exists o', check_result o (Some (skipn st0 refs)) bad k (enc_bres (snd (page_r s refs st0 k)) ++ tail) = Some (o', tail)
             /\ Rel (fst (page_r s refs st0 k)) o'.
Proof.
  intros s o refs st0 k tail bad HR Hst Hk. unfold page_r.
  destruct (length refs <? st0)%nat eqn:E0; [apply Nat.ltb_lt in E0; lia|].
  assert (Hlen : length (skipn st0 refs) = (length refs - st0)%nat) by apply skipn_length.
  destruct ((0 <? k)%nat && (k <? length refs - st0)%nat) eqn:C; cbn [fst snd enc_bres].
  - apply andb_true_iff in C. destruct C as [C1 C2]. apply Nat.ltb_lt in C2.
    unfold check_result. cbn [app]. cbn [Z.eqb andb].
    assert (Hn : 0 <=? Z.of_nat (length (firstn k (skipn st0 refs))) = true) by (apply Z.leb_le; lia).
    rewrite Hn, Nat2Z.id, take_n_app.
    assert (Hk2 : (k <? length (skipn st0 refs))%nat = true) by (apply Nat.ltb_lt; lia). rewrite Hk2.
    rewrite list_eqb_refl, (Rel_next s o HR), Z.eqb_refl. cbn [andb].
    eexists; split; [reflexivity|].
    destruct HR as [H1 H2 H3 H4 H5 H6].
    pose proof (inv_lm s H5) as Hlm.
    constructor; cbn [o_hubs o_led o_next hubs next_id store lm with_store legacy_del]; auto.
    + unfold add_cp. rewrite filter_app, map_app. cbn [filter validb cp_lm map].
      unfold validb at 2. cbn [cp_lm]. rewrite Z.leb_refl. cbn [map abs cp_id cp_start cp_refs cp_k].
      rewrite filter_lastn by auto. rewrite H3.
      unfold lastn. rewrite <- !skipn_map, !map_length. unfold abs at 3. cbn [cp_id cp_start cp_refs cp_k].
      rewrite skipn_add. reflexivity.
    + unfold add_cp. apply mono_app_one.
      * eapply mono_sublist; [apply sublist_lastn | auto].
      * cbn [cp_lm]. eapply sublist_Forall; [apply sublist_lastn | exact Hlm].
    + apply inv_add; auto; lia.
  - unfold check_result. cbn [app]. cbn [Z.eqb andb].
    assert (Hn : 0 <=? Z.of_nat (length (skipn st0 refs)) = true) by (apply Z.leb_le; lia).
    rewrite Hn, Nat2Z.id, take_n_app.
    assert (Hk2 : (k <? length (skipn st0 refs))%nat = false).
    { apply Nat.ltb_ge. apply andb_false_iff in C. destruct C as [C|C].
      - apply Nat.ltb_ge in C. lia.
      - apply Nat.ltb_ge in C. lia. }
    rewrite Hk2, list_eqb_refl. cbn [Z.eqb andb]. eexists; split; [reflexivity | exact HR].
Qed.

Lemma Rel_sub_valid : forall s o l',
  Rel s o -> sublist l' (store s) ->
  Rel (with_store s l' (next_id s)) (mk_ost (o_hubs o) (map abs (filter (validb (lm s)) l')) (o_next o)).
Proof.
  intros s o l' [H1 H2 H3 H4 H5 H6] Hs. constructor; cbn; auto.
  - eapply mono_sublist; eauto.
  - apply inv_sub; auto.
Qed.

(* browse_node against the ledger *)
Lemma browse_one_sim : forall s o d k tail, Rel s o -> (0 < k)%nat ->
  exists o', check_browse k o [d] (enc_bres (snd (browse_one_r k s d)) ++ tail) = Some (o', tail)
             /\ Rel (fst (browse_one_r k s d)) o'.
Proof.
  intros s o d k tail HR Hk. unfold browse_one_r, check_browse. rewrite (Rel_hubs s o HR).
  destruct (nth_hub (hubs s) (d_hub d)) as [g|].
  - destruct (page_sim s o (full_of g d) 0 k tail 1 HR ltac:(lia) Hk) as [o' [A B]].
    cbn [skipn] in A. rewrite A. eauto.
  - cbn. eauto.
Qed.

(* browse_from_continuation_point against the ledger; the store has just been expired *)
Lemma next_one_sim : forall s o id tail, Rel s o ->
  Forall (fun c => validb (lm s) c = true) (store s) ->
  exists o', check_next o [id] (enc_bres (snd (next_one_r s id)) ++ tail) = Some (o', tail)
             /\ Rel (fst (next_one_r s id)) o'
             /\ Forall (fun c => validb (lm (fst (next_one_r s id))) c = true) (store (fst (next_one_r s id))).
Proof.
  intros s o id tail HR Hall. unfold next_one_r, check_next.
  rewrite (Rel_led s o HR), (filter_all _ _ _ Hall), take_led_abs.
  destruct (take_cp id (store s)) as [[c rest]|] eqn:T.
  - destruct (take_cp_some _ _ _ _ T) as [l1 [l2 [A [B C]]]].
    assert (Hsub : sublist rest (store s)) by (rewrite A, B; apply sublist_remove_mid).
    assert (Hc : In c (store s)) by (rewrite A; apply in_or_app; right; left; reflexivity).
    pose proof (inv_start s (Rel_inv s o HR)) as Hs. rewrite Forall_forall in Hs. destruct (Hs c Hc) as [Hst Hk].
    assert (Hrest : Forall (fun c => validb (lm s) c = true) rest) by (eapply sublist_Forall; eauto).
    pose proof (Rel_sub_valid s o rest HR Hsub) as HR'. rewrite (filter_all _ _ _ Hrest) in HR'.
    destruct (page_sim _ _ (cp_refs c) (cp_start c) (cp_k c) tail 2 HR' Hst Hk) as [o' [P1 P2]].
    rewrite P1. exists o'. split; [reflexivity|]. split; [exact P2|].
    (* the store after paging: rest, possibly with a new valid point *)
    unfold page_r. destruct (length (cp_refs c) <? cp_start c)%nat; [exact Hrest|].
    destruct ((0 <? cp_k c)%nat && (cp_k c <? length (cp_refs c) - cp_start c)%nat); cbn [fst]; [|exact Hrest].
    cbn [store lm with_store]. unfold add_cp. apply Forall_app. split.
    + eapply sublist_Forall; [apply sublist_lastn | exact Hrest].
    + constructor; [|constructor]. unfold validb. cbn. apply Z.leb_refl.
  - cbn. exists o. split; [reflexivity|]. split; [exact HR | exact Hall].
Qed.

Lemma check_browse_cons : forall k o d ds out,
  check_browse k o (d :: ds) out =
  match check_browse k o [d] out with Some (o', out') => check_browse k o' ds out' | None => None end.
Proof.
  intros. cbn [check_browse].
  destruct (check_result o match nth_hub (o_hubs o) (d_hub d) with Some g => Some (full_of g d) | None => None end 1 k out)
    as [[o' out']|]; reflexivity.
Qed.

Lemma check_next_cons : forall o id l out,
  check_next o (id :: l) out =
  match check_next o [id] out with Some (o', out') => check_next o' l out' | None => None end.
Proof.
  intros. cbn [check_next].
  destruct (match take_led id (o_led o) with
            | Some (rest, k, led') => check_result (mk_ost (o_hubs o) led' (o_next o)) (Some rest) 2 k out
            | None => check_result o None 2 0%nat out
            end) as [[o' out']|]; reflexivity.
Qed.

Lemma enc_results_cons : forall r rs, enc_results (r :: rs) = enc_bres r ++ enc_results rs.
Proof. reflexivity. Qed.

Lemma browse_thread_sim : forall k ds s o tail, Rel s o -> (0 < k)%nat ->
  exists o', check_browse k o ds (enc_results (snd (thread_r (browse_one_r k) s ds)) ++ tail) = Some (o', tail)
             /\ Rel (fst (thread_r (browse_one_r k) s ds)) o'.
Proof.
  intros k. induction ds as [|d ds IH]; intros s o tail HR Hk.
  - cbn. eauto.
  - cbn [thread_r]. destruct (browse_one_r k s d) as [s1 r1] eqn:B.
    destruct (thread_r (browse_one_r k) s1 ds) as [s2 rs] eqn:T. cbn [fst snd].
    rewrite enc_results_cons, <- app_assoc, check_browse_cons.
    destruct (browse_one_sim s o d k (enc_results rs ++ tail) HR Hk) as [o1 [A1 A2]].
    rewrite B in A1, A2. cbn [fst snd] in A1, A2. rewrite A1.
    destruct (IH s1 o1 tail A2 Hk) as [o2 [C1 C2]]. rewrite T in C1, C2. cbn [fst snd] in C1, C2.
    eauto.
Qed.

Lemma next_thread_sim : forall l s o tail, Rel s o ->
  Forall (fun c => validb (lm s) c = true) (store s) ->
  exists o', check_next o l (enc_results (snd (thread_r next_one_r s l)) ++ tail) = Some (o', tail)
             /\ Rel (fst (thread_r next_one_r s l)) o'.
Proof.
  induction l as [|id l IH]; intros s o tail HR Hall.
  - cbn. eauto.
  - cbn [thread_r]. destruct (next_one_r s id) as [s1 r1] eqn:B.
    destruct (thread_r next_one_r s1 l) as [s2 rs] eqn:T. cbn [fst snd].
    rewrite enc_results_cons, <- app_assoc, check_next_cons.
    destruct (next_one_sim s o id (enc_results rs ++ tail) HR Hall) as [o1 [A1 [A2 A3]]].
    rewrite B in A1, A2, A3. cbn [fst snd] in A1, A2, A3. rewrite A1.
    destruct (IH s1 o1 tail A2 A3) as [o2 [C1 C2]]. rewrite T in C1, C2. cbn [fst snd] in C1, C2.
    eauto.
Qed.

Lemma store_ok_inv : forall s, inv s -> store_ok (len_store s) = true.
Proof.
  intros s Hi. unfold store_ok, len_store. pose proof (inv_len s Hi).
  apply andb_true_iff. split; apply Z.leb_le; lia.
Qed.

Lemma eff_k_pos : forall k, 0 <= k -> (0 < eff_k k)%nat.
Proof.
  intros k Hk. unfold eff_k, MAX_REFS.
  destruct (k =? 0) eqn:E0; [lia|]. apply Z.eqb_neq in E0.
  destruct (255 <? k) eqn:E1; lia.
Qed.

Lemma Rel_expire : forall s o, Rel s o -> Rel (expire s) o /\
  Forall (fun c => validb (lm (expire s)) c = true) (store (expire s)).
Proof.
  intros s o HR. pose proof HR as [H1 H2 H3 H4 H5 H6]. split.
  - constructor; cbn; auto.
    + rewrite H3. f_equal. symmetry. apply filter_all. apply Forall_valid_filter.
    + eapply mono_sublist; [apply sublist_filter | auto].
    + apply expire_inv; auto.
  - cbn. apply Forall_valid_filter.
Qed.

(* an address-space modification: every stored point is now older than the address space *)
Lemma Rel_kill : forall s o hs, Rel s o ->
  Rel (mk_st hs (lm s + 1) (store s) (next_id s) (legacy_del s)) (kill o hs).
Proof.
  intros s o hs [H1 H2 H3 H4 H5 H6]. constructor; cbn; auto.
  - pose proof (inv_lm s H5) as Hl. clear - Hl. induction (store s) as [|c l IH]; cbn; auto.
    inversion Hl; subst. unfold validb at 1.
    destruct (lm s + 1 <=? cp_lm c) eqn:E; [apply Z.leb_le in E; lia|]. apply IH; auto.
  - apply inv_graph; auto. lia.
Qed.

Lemma filter_comm : forall A (p q : A -> bool) l, filter p (filter q l) = filter q (filter p l).
Proof.
  induction l as [|x l IH]; cbn; auto.
  destruct (q x) eqn:Q, (p x) eqn:P; cbn; rewrite ?Q, ?P, IH; reflexivity.
Qed.

Lemma filter_abs : forall (p : Z -> bool) l,
  filter (fun e : lcp => p (fst e)) (map abs l) = map abs (filter (fun c => p (cp_id c)) l).
Proof.
  induction l as [|x l IH]; cbn; auto. destruct (p (cp_id x)); cbn; rewrite IH; reflexivity.
Qed.

Lemma ostep_sim : forall s o op0 rest, Rel s o -> valid_op op0 ->
  exists o', ostep o op0 (snd (step s op0) ++ rest) = Some (o', rest) /\ Rel (fst (step s op0)) o'.
Proof.
  intros s o op0 rest HR Hv.
  pose proof (Rel_inv s o HR) as Hi. pose proof (store_ok_inv s Hi) as Hok.
  destruct op0 as [k ds | rel l | id | | h ty cls | h k | h k]; cbn [step].
  - (* Browse *)
    destruct Hv as [Hk _].
    destruct ds as [|d ds].
    { cbn [fst snd app ostep]. cbn [Z.eqb Pos.eqb]. rewrite Hok. eauto. }
    destruct (MAX_NODES <? length (d :: ds))%nat eqn:E.
    { cbn [fst snd app ostep]. cbn [Z.eqb Pos.eqb]. rewrite E, Hok. cbn [andb]. eauto. }
    unfold browse_r.
    destruct (browse_thread_sim (eff_k k) (d :: ds) s o (len_store (fst (thread_r (browse_one_r (eff_k k)) s (d :: ds))) :: rest)
                HR (eff_k_pos k Hk)) as [o' [A B]].
    pose proof (thread_inv _ (browse_one_r (eff_k k)) (fun s0 x H => browse_one_inv (eff_k k) s0 x H) (d :: ds) s Hi) as [I1 _].
    destruct (thread_r (browse_one_r (eff_k k)) s (d :: ds)) as [s' rs] eqn:T. cbn [fst snd] in *.
    unfold ostep. cbn [app].
    assert (N1 : Z.of_nat (length (d :: ds)) =? -1 = false) by (apply Z.eqb_neq; lia). rewrite N1.
    assert (N2 : Z.of_nat (length (d :: ds)) =? 0 = false) by (apply Z.eqb_neq; cbn [length]; lia).
    rewrite Z.eqb_refl, N2. cbn [negb andb].
    assert (N3 : (length (d :: ds) <=? MAX_NODES)%nat = true).
    { apply Nat.leb_le. apply Nat.ltb_ge in E. exact E. }
    rewrite N3. rewrite <- app_assoc. cbn [app]. rewrite A, (store_ok_inv s' I1). eauto.
  - (* BrowseNext *)
    destruct l as [|i l].
    { cbn [fst snd app ostep]. cbn [Z.eqb Pos.eqb]. rewrite Hok. cbn [andb]. eauto. }
    destruct rel.
    + (* release *)
      cbn [fst snd app ostep]. cbn [Z.eqb Pos.eqb andb].
      destruct (release_inv s (i :: l) Hi) as [I1 _]. rewrite (store_ok_inv _ I1).
      eexists; split; [reflexivity|].
      pose proof HR as [H1 H2 H3 H4 H5 H6]. constructor; cbn; auto.
      * rewrite H3. rewrite (filter_abs (fun x => negb (memZ x (i :: l)))). f_equal. apply filter_comm.
      * eapply mono_sublist; [apply sublist_filter | auto].
    + unfold next_r.
      destruct (Rel_expire s o HR) as [HRe Hall].
      destruct (next_thread_sim (known_ids (next_id s) (i :: l)) (expire s) o
                  (len_store (fst (thread_r next_one_r (expire s) (known_ids (next_id s) (i :: l)))) :: rest) HRe Hall)
        as [o' [A B]].
      pose proof (thread_inv _ next_one_r next_one_inv (known_ids (next_id s) (i :: l)) (expire s) (Rel_inv _ _ HRe)) as [I1 _].
      destruct (thread_r next_one_r (expire s) (known_ids (next_id s) (i :: l))) as [s' rs] eqn:T. cbn [fst snd] in *.
      unfold ostep. cbn [app]. rewrite Z.eqb_refl, (Rel_next s o HR).
      rewrite <- app_assoc. cbn [app]. rewrite A, (store_ok_inv s' I1). eauto.
  - (* BrowseNext of another session *)
    cbn [fst snd app ostep]. cbn [Z.eqb Pos.eqb andb]. rewrite Hok.
    assert (S0 : store_ok 0 = true) by reflexivity. rewrite S0. cbn [andb]. eauto.
  - (* AddNode *)
    cbn [fst snd app ostep]. rewrite Hok. eexists; split; [reflexivity|].
    rewrite (Rel_hubs s o HR). apply Rel_kill. exact HR.
  - (* AddRef *)
    unfold ostep. rewrite (Rel_hubs s o HR).
    destruct (nth_hub (hubs s) h) as [g|]; cbn [fst snd app]; rewrite Hok.
    + eexists; split; [reflexivity|]. apply Rel_kill. exact HR.
    + eauto.
  - (* DelRef *)
    unfold ostep. rewrite (Rel_hubs s o HR).
    destruct (nth_hub (hubs s) h) as [g|]; [|cbn [fst snd app]; rewrite Hok; eauto].
    destruct (g_fwd g) eqn:G; [cbn [fst snd app]; rewrite Hok; eauto|].
    rewrite (Rel_legacy s o HR). cbn [fst snd app]. rewrite Hok.
    eexists; split; [reflexivity|].
    pose proof (Rel_kill s o (update_nth (Z.to_nat h) (del_fwd k) (hubs s)) HR) as K.
    rewrite (Rel_legacy s o HR) in K. exact K.
  - (* DelNode *)
    unfold ostep. rewrite (Rel_hubs s o HR).
    destruct (nth_hub (hubs s) h) as [g|]; [|cbn [fst snd app]; rewrite Hok; eauto].
    destruct (g_fwd g) eqn:G; [cbn [fst snd app]; rewrite Hok; eauto|].
    rewrite (Rel_legacy s o HR). cbn [fst snd app]. rewrite Hok.
    eexists; split; [reflexivity|].
    pose proof (Rel_kill s o (update_nth (Z.to_nat h) (del_fwd k) (hubs s)) HR) as K.
    rewrite (Rel_legacy s o HR) in K. exact K.
Qed.

Lemma oracle_from_run : forall ops s o, Rel s o -> Forall valid_op ops ->
  oracle_from o ops (run_from s ops) = true.
Proof.
  induction ops as [|op0 ops IH]; intros s o HR Hv; [reflexivity|].
  inversion Hv as [|? ? Hv1 Hv2]; subst. cbn [run_from oracle_from].
  destruct (ostep_sim s o op0 (run_from (fst (step s op0)) ops) HR Hv1) as [o' [A B]].
  destruct (step s op0) as [s' out] eqn:S. cbn [fst snd] in *. rewrite A. apply IH; auto.
Qed.

Theorem oracle_holds : forall c, valid c -> oracle c (run c) = true.
Proof.
  intros c Hv. unfold oracle, run. apply oracle_from_run; [|exact Hv].
  constructor; cbn; auto. apply inv_init.
Qed.

(* ---- the theorems over reachable states ----------------------------------------------------- *)
Lemma reach_inv : forall b c ops, inv (exec (init_st b c) ops).
Proof. intros. apply exec_inv. apply inv_init. Qed.

Lemma legacy_exec : forall s ops, legacy_del (exec s ops) = legacy_del s.
Proof.
  intros s ops. revert s. unfold exec. induction ops as [|o ops IH]; intro s; cbn; auto.
  rewrite IH. apply legacy_step.
Qed.

Theorem pages_concat_reachable : forall c ops d k g fuel,
  let s := exec (init_st false c) ops in
  nth_hub (hubs s) (d_hub d) = Some g -> (length (full_of g d) <= fuel)%nat ->
  concat (snd (browse_pages fuel s d k)) = full_of g d.
Proof. intros. apply pages_concat; auto. apply reach_inv. Qed.

Theorem used_once : forall c ops id ops',
  let s := exec (init_st false c) ops in
  id < next_id s ->
  let s1 := exec (fst (next_r s [id])) ops' in
  next_r s1 [id] = (expire s1, [Res 2 0 None]).
Proof.
  intros c ops id ops' s Hlt s1. apply unusable_refused. apply unusable_exec.
  - apply next_r_inv. apply reach_inv.
  - apply used_unusable; auto. apply reach_inv.
Qed.

Theorem released_invalid : forall c ops l id ops',
  let s := exec (init_st false c) ops in
  In id l -> id < next_id s ->
  let s1 := exec (release_r s l) ops' in
  next_r s1 [id] = (expire s1, [Res 2 0 None]).
Proof.
  intros c ops l id ops' s Hin Hlt s1. apply unusable_refused. apply unusable_exec.
  - apply release_inv. apply reach_inv.
  - apply released_unusable; auto.
Qed.

Theorem modified_invalid : forall c ops o id ops',
  let s := exec (init_st false c) ops in
  (o = AddNode \/ hubs (fst (step s o)) <> hubs s) ->
  id < next_id s ->
  let s1 := exec (fst (step s o)) ops' in
  next_r s1 [id] = (expire s1, [Res 2 0 None]).
Proof.
  intros c ops o id ops' s Hmod Hlt s1. apply unusable_refused. apply unusable_exec.
  - apply step_inv. apply reach_inv.
  - apply modified_unusable; auto; [apply reach_inv|].
    destruct Hmod as [->|Hh]; [cbn; lia|].
    apply graph_change_bumps; auto. unfold s. rewrite legacy_exec. reflexivity.
Qed.

Theorem bounded : forall b c ops, (length (store (exec (init_st b c) ops)) <= 20)%nat.
Proof. intros. apply (inv_len _ (reach_inv b c ops)). Qed.

Theorem no_panic : forall b c ops,
  let s := exec (init_st b c) ops in
  (forall l, ~ In Panic (snd (next_r s l))) /\ (forall k ds, ~ In Panic (snd (browse_r k s ds))).
Proof.
  intros b c ops s. split; intros.
  - apply next_r_inv. apply reach_inv.
  - apply browse_r_inv. apply reach_inv.
Qed.

(* the witness of the defect that was repaired: a reference is deleted between Browse and BrowseNext *)
Definition legacy_witness : case :=
  mk_case [([(35, 1); (35, 2); (35, 4); (35, 8); (35, 1); (35, 2)], [])]
          [Browse 2 [mk_desc 0 0 0 false 0]; DelRef 0 0; Next false [1]].

Lemma legacy_witness_valid : valid legacy_witness.
Proof. repeat constructor; cbn; auto; lia. Qed.

Theorem legacy_refuted : exists c, valid c /\ oracle c (Legacy.run c) = false.
Proof. exists legacy_witness. split; [apply legacy_witness_valid | vm_compute; reflexivity]. Qed.

(* ---- examples: the hypotheses are inhabited by non-trivial cases ------------------------------ *)
Definition ex_case : case :=
  mk_case [([(35, 1); (47, 2); (46, 2); (49, 1); (48, 1); (41, 8); (47, 1)], [(35, 1); (47, 1)])] [].

Example ex_pages :
  (* HasComponent and subtypes, both directions, objects and variables, pages of 2 *)
  let s := exec (init_st false ex_case) [Browse 1 [mk_desc 0 0 0 false 0]; AddNode] in
  let d := mk_desc 0 2 47 true 3 in
  snd (browse_pages 10 s d 2) = [[2; 4]; [7; 502]] /\
  nth_hub (hubs s) 0 <> None /\ next_id s = 2.
Proof. vm_compute. repeat split; discriminate. Qed.

Example ex_used_once :
  let s := exec (init_st false ex_case) [Browse 2 [mk_desc 0 0 0 false 0]] in
  1 < next_id s /\ snd (next_r s [1]) = [Res 0 2 (Some [3; 4])] /\
  snd (next_r (fst (next_r s [1])) [1]) = [Res 2 0 None].
Proof. vm_compute. repeat split. Qed.

Example ex_modified :
  let s := exec (init_st false ex_case) [Browse 2 [mk_desc 0 0 0 false 0]] in
  hubs (fst (step s (DelRef 0 0))) <> hubs s /\ hubs (fst (step s (DelNode 0 3))) <> hubs s /\
  hubs (fst (step s (AddRef 0 35 1))) <> hubs s.
Proof. vm_compute. repeat split; discriminate. Qed.

Example ex_valid : valid (mk_case [([(35, 1); (35, 2); (35, 4)], [(47, 1)])]
                                  [Browse 1 [mk_desc 0 2 33 true 0]; Next false [1]; DelRef 0 0; Next false [2]; Next true [2]]).
Proof. repeat constructor; cbn; auto; lia. Qed.
