//! C28: the reference index (server/address_space/references.rs) against the set of references.
//! Runs the REAL `References` on a history of insert / delete-reference / delete-node operations,
//! then asks every query for every node of a small universe and dumps both maps (hook verif_dump).
#[path = "../util.rs"]
mod util;
use opcua::server::address_space::references::{Reference, References};
use opcua::types::NodeId;
use util::*;

#[derive(Clone, Debug)]
pub enum Op { Ins(u32, u32, u32), Del(u32, u32, u32), DelNode(u32) }
pub struct Case { univ: Vec<u32>, tys: Vec<u32>, ops: Vec<Op> }
pub struct P;

fn nid(k: u32) -> NodeId { NodeId::new(0, k) }
fn num(n: &NodeId) -> i128 {
    match (&n.identifier, n.namespace) {
        (opcua::types::Identifier::Numeric(v), 0) => *v as i128,
        _ => -99,
    }
}
fn pairs(v: Option<Vec<Reference>>) -> Vec<(i128, i128)> {
    let mut p: Vec<(i128, i128)> = v.unwrap_or_default().iter().map(|r| (num(&r.reference_type), num(&r.target_node))).collect();
    p.sort();
    p
}

pub fn observe(refs: &References, univ: &[u32], tys: &[u32], out: &mut Vec<i128>) {
    for n in univ {
        let p = pairs(refs.find_references(&nid(*n), None::<(NodeId, bool)>));
        out.push(p.len() as i128);
        for (a, b) in p { out.push(a); out.push(b); }
    }
    for n in univ {
        let p = pairs(refs.find_inverse_references(&nid(*n), None::<(NodeId, bool)>));
        out.push(p.len() as i128);
        for (a, b) in p { out.push(a); out.push(b); }
    }
    for s in univ { for t in univ { for ty in tys {
        out.push(refs.has_reference(&nid(*s), &nid(*t), nid(*ty)) as i128);
    } } }
    out.push(-7);
    let (mut fwd, mut inv) = refs.verif_dump();
    fwd.sort_by_key(|(k, _)| num(k));
    for (k, b) in fwd {
        out.push(num(&k)); out.push(b.len() as i128);
        for r in b { out.push(num(&r.reference_type)); out.push(num(&r.target_node)); }
    }
    out.push(-8);
    inv.sort_by_key(|(k, _)| num(k));
    for (k, l) in inv {
        let mut l: Vec<i128> = l.iter().map(num).collect();
        l.sort();
        out.push(num(&k)); out.push(l.len() as i128);
        out.extend(l);
    }
}

fn op_term(o: &Op) -> String {
    match o {
        Op::Ins(s, t, ty) => format!("Ins {} {} {}", s, t, ty),
        Op::Del(s, t, ty) => format!("Del {} {} {}", s, t, ty),
        Op::DelNode(n) => format!("DelNode {}", n),
    }
}

fn case(n: u32, t: u32, ops: Vec<Op>) -> Case { Case { univ: (1..=n).collect(), tys: (1..=t).collect(), ops } }

impl Property for P {
    type Case = Case;
    fn fixed(tier: &str) -> Vec<Case> {
        use Op::*;
        let mut v = vec![
            case(3, 1, vec![]),
            case(3, 2, vec![Ins(1, 2, 1), Ins(1, 2, 1), Ins(1, 2, 2), Ins(1, 3, 1)]),
            // the defect fixed by "fix: deleting one reference also removed the opposite-direction
            // reference": a->b, b->a, a->c, delete a->b   (b->a must survive)
            case(3, 1, vec![Ins(1, 2, 1), Ins(2, 1, 1), Ins(1, 3, 1), Del(1, 2, 1)]),
            case(2, 1, vec![Ins(1, 2, 1), Ins(2, 1, 1), Del(1, 2, 1)]),
            case(2, 2, vec![Ins(1, 2, 1), Ins(2, 1, 2), Del(1, 2, 1), DelNode(1)]),
            // two types towards the same target: deleting one keeps the inverse entry
            case(2, 2, vec![Ins(1, 2, 1), Ins(1, 2, 2), Del(1, 2, 1), Del(1, 2, 1), Del(1, 2, 2)]),
            // self reference: insert_reference panics, nothing is added
            case(2, 1, vec![Ins(1, 1, 1), Ins(1, 2, 1), Ins(2, 2, 1), Del(1, 1, 1)]),
            // delete node with references in both directions and a bystander
            case(4, 2, vec![Ins(1, 2, 1), Ins(2, 1, 1), Ins(3, 1, 2), Ins(1, 4, 2), Ins(3, 4, 1), DelNode(1), DelNode(1)]),
            case(3, 1, vec![DelNode(2), Del(1, 2, 1), Ins(1, 2, 1), Del(2, 1, 1), Del(1, 2, 1)]),
        ];
        if tier == "thorough" {
            // every history of length <= 3 over 2 nodes x 1 type (incl. self references) + all of length 2 over 3 nodes
            let mut alpha = Vec::new();
            for s in 1..=2 { for t in 1..=2 { alpha.push(Ins(s, t, 1)); alpha.push(Del(s, t, 1)); } }
            for n in 1..=2 { alpha.push(DelNode(n)); }
            for a in &alpha { for b in &alpha { for c in &alpha {
                v.push(case(2, 1, vec![a.clone(), b.clone(), c.clone()]));
            } } }
        }
        v
    }
    fn gen(r: &mut Rng) -> Case {
        let n = 2 + r.below(4) as u32;          // 2..5 nodes
        let t = 1 + r.below(3) as u32;          // 1..3 reference types
        let maxlen = if r.chance(1, 5) { 24 } else { 12 };
        let len = 1 + r.below(maxlen);
        let mut ops: Vec<Op> = Vec::new();
        let mut live: Vec<(u32, u32, u32)> = Vec::new();   // only to bias the generator
        for _ in 0..len {
            let s = 1 + r.below(n as u64) as u32;
            let mut tg = 1 + r.below(n as u64) as u32;
            if tg == s && !r.chance(1, 12) { tg = if s == n { 1 } else { s + 1 }; }
            let ty = 1 + r.below(t as u64) as u32;
            let k = r.below(100);
            let op = if k < 45 { Op::Ins(s, tg, ty) }
                else if k < 55 && !live.is_empty() { let (a, b, c) = *r.pick(&live); Op::Ins(b, a, c) }      // opposite direction
                else if k < 80 && !live.is_empty() { let (a, b, c) = *r.pick(&live); Op::Del(a, b, c) }      // existing reference
                else if k < 86 { Op::Del(s, tg, ty) }
                else if k < 96 { Op::DelNode(s) }
                else { Op::Ins(s, tg, ty) };
            match &op {
                Op::Ins(a, b, c) => if a != b && !live.contains(&(*a, *b, *c)) { live.push((*a, *b, *c)) },
                Op::Del(a, b, c) => live.retain(|x| x != &(*a, *b, *c)),
                Op::DelNode(a) => live.retain(|x| x.0 != *a && x.1 != *a),
            }
            ops.push(op);
        }
        case(n, t, ops)
    }
    fn exec(c: &Case) -> Out {
        let mut refs = References::default();
        let mut out = Vec::new();
        let (mut opp, mut selfref, mut dn) = (false, false, false);
        let mut seen: Vec<(u32, u32)> = Vec::new();
        for o in &c.ops {
            match o {
                Op::Ins(s, t, ty) => {
                    if s == t { selfref = true; }
                    if seen.contains(&(*t, *s)) { opp = true; }
                    seen.push((*s, *t));
                    match guarded(|| refs.insert_reference(&nid(*s), &nid(*t), &nid(*ty))) {
                        Ok(()) => out.push(0),
                        Err(_) => out.push(-2),
                    }
                }
                Op::Del(s, t, ty) => match guarded(|| refs.delete_reference(&nid(*s), &nid(*t), nid(*ty))) {
                    Ok(b) => out.push(b as i128),
                    Err(_) => out.push(-2),
                },
                Op::DelNode(n) => { dn = true; match guarded(|| refs.delete_node_references(&nid(*n))) {
                    Ok(b) => out.push(b as i128),
                    Err(_) => out.push(-2),
                } }
            }
        }
        out.push(-1);
        observe(&refs, &c.univ, &c.tys, &mut out);
        let tag = format!("{}{}{}{}",
            if c.ops.is_empty() { "trivial-empty" } else { "history" },
            if opp { "-opposite" } else { "" }, if dn { "-delnode" } else { "" }, if selfref { "-self" } else { "" });
        let term = format!("(mk_case {} {} {})", zlist(c.univ.iter().map(|x| *x as i128)), zlist(c.tys.iter().map(|x| *x as i128)),
            coq_list(&c.ops, op_term));
        Out { tag, term, out }
    }
}
fn main() { run_main::<P>() }
