(* C31 — browse path translation finds exactly the matching nodes
   (lib/src/server/address_space/relative_path.rs find_nodes_relative_path / follow_relative_path,
   address_space/references.rs find_references / find_inverse_references / reference_type_matches,
   services/view.rs translate_browse_paths_to_node_ids).

   The address space is a list of nodes (id, browse name) and a list of reference triples
   (source, reference type, target).  Node ids are numeric: namespace * 2^32 + value, 0 = null.
   Browse names are (namespace, code), code 0 = the null string.

   [legacy] = true is the code before "fix: browse path elements with a non-standard reference
   type followed every reference" (the filter was dropped unless the id was one of the standard
   namespace 0 reference types). *)
From Coq Require Import List ZArith Bool Lia.
From OV Require Import Gen.C34RefTypes.
Import ListNotations.
Open Scope Z_scope.

Record gnode := mk_gnode { g_id : Z; g_bns : Z; g_bname : Z }.
Definition ref := (Z * Z * Z)%type.
Record elem := mk_elem { e_reftype : Z; e_inv : bool; e_sub : bool; e_tns : Z; e_tname : Z }.
Record case := mk_case { c_nodes : list gnode; c_refs : list ref; c_start : Z; c_path : option (list elem) }.

Definition find_node (ns : list gnode) (id : Z) : option gnode := find (fun n => g_id n =? id) ns.
Definition mem (x : Z) (l : list Z) : bool := existsb (Z.eqb x) l.

(* ---- the implementation ------------------------------------------------------------------ *)
(* References::reference_type_matches, include_subtypes = true: the stack search for [target]
   from [cur] along HasSubtype references.  The real loop keeps no visited set: it terminates
   exactly when no cycle is reachable, and then it has visited every HasSubtype path from [cur];
   here the depth is bounded by the number of references (a shortest path never repeats one). *)
Fixpoint subtype_search (fuel : nat) (rs : list ref) (cur target : Z) : bool :=
  if cur =? target then true else
  match fuel with
  | O => false
  | S f => existsb (fun r => let '(s, t, d) := r in
                             if s =? cur then if t =? HasSubtype then subtype_search f rs d target else false else false) rs
  end.
Definition reference_type_matches (rs : list ref) (ty sub : Z) (incl : bool) : bool :=
  if ty =? sub then true else if incl then subtype_search (length rs) rs ty sub else false.

Definition is_reftype (t : Z) : bool := existsb (Z.eqb t) reference_type_ids.
(* the reference filter of follow_relative_path: None = every reference *)
Definition filter_of (legacy : bool) (e : elem) : option (Z * bool) :=
  if legacy then (if is_reftype (e_reftype e) then Some (e_reftype e, e_sub e) else None)
  else (if e_reftype e =? 0 then None else Some (e_reftype e, e_sub e)).
Definition passes (rs : list ref) (flt : option (Z * bool)) (t : Z) : bool :=
  match flt with None => true | Some (ty, incl) => reference_type_matches rs ty t incl end.

(* find_references / find_inverse_references: the far ends of the node's references that pass *)
Definition neighbours (rs : list ref) (flt : option (Z * bool)) (inv : bool) (n : Z) : list Z :=
  flat_map (fun r => let '(s, t, d) := r in
                     if inv then (if d =? n then if passes rs flt t then [s] else [] else [])
                     else (if s =? n then if passes rs flt t then [d] else [] else [])) rs.

Definition name_matches (ns : list gnode) (e : elem) (m : Z) : bool :=
  match find_node ns m with
  | Some x => (g_bns x =? e_tns e) && (g_bname x =? e_tname e)
  | None => false
  end.

(* remove repetitions, keeping first occurrences (the HashSet of follow_relative_path) *)
Fixpoint dedup (l : list Z) : list Z :=
  match l with
  | [] => []
  | x :: l' => x :: filter (fun y => negb (y =? x)) (dedup l')
  end.

(* follow_relative_path *)
Definition follow (legacy : bool) (c : case) (e : elem) (n : Z) : list Z :=
  dedup (filter (name_matches (c_nodes c) e) (neighbours (c_refs c) (filter_of legacy e) (e_inv e) n)).

Definition target_null (e : elem) : bool := (e_tns e =? 0) && (e_tname e =? 0).

(* the loop of find_nodes_relative_path: Err code, or the list of matching nodes *)
Fixpoint walk (legacy : bool) (c : case) (es : list elem) (cur : list Z) : Z + list Z :=
  match es with
  | [] => inr cur
  | e :: es' =>
      if target_null e then inl 3
      else let next := flat_map (follow legacy c e) cur in
           match next with
           | [] => inr []          (* break: matching_nodes was drained *)
           | _ => walk legacy c es' next
           end
  end.

(* status: 0 Good, 1 BadNodeIdUnknown, 2 BadNothingToDo, 3 BadBrowseNameInvalid, 4 BadNoMatch *)
Definition translate (legacy : bool) (c : case) : Z * list Z :=
  match c_path c with
  | None => (2, [])
  | Some es =>
      match find_node (c_nodes c) (c_start c) with
      | None => (1, [])
      | Some _ =>
          match es with
          | [] => (2, [])
          | _ => match walk legacy c es [c_start c] with
                 | inl code => (code, [])
                 | inr [] => (4, [])
                 | inr l => (0, l)
                 end
          end
      end
  end.

(* sorted distinct *)
Fixpoint insert_sorted (x : Z) (l : list Z) : list Z :=
  match l with
  | [] => [x]
  | y :: l' => if x <? y then x :: l else if x =? y then l else y :: insert_sorted x l'
  end.
Definition sort_set (l : list Z) : list Z := fold_right insert_sorted [] l.
Definition len {A} (l : list A) : Z := Z.of_nat (length l).

Definition run_with (legacy : bool) (c : case) : list Z :=
  let '(st, l) := translate legacy c in
  let s := sort_set l in
  st :: len s :: s ++ [len l].
Definition run (c : case) : list Z := run_with false c.

(* ---- the specification -------------------------------------------------------------------- *)
(* closure of HasSubtype by saturation: the set reachable from [ty] after k rounds *)
Definition subtype_round (rs : list ref) (set : list Z) : list Z :=
  set ++ flat_map (fun r => let '(s, t, d) := r in
                            if t =? HasSubtype then if mem s set then if mem d set then [] else [d] else [] else []) rs.
Fixpoint subtype_closure (k : nat) (rs : list ref) (set : list Z) : list Z :=
  match k with O => set | S k' => subtype_closure k' rs (subtype_round rs set) end.

(* type_ok: no reference type given (null), the type itself, or one of its subtypes when requested *)
Definition type_ok (rs : list ref) (e : elem) (t : Z) : bool :=
  if e_reftype e =? 0 then true
  else if t =? e_reftype e then true
  else if e_sub e then mem t (subtype_closure (length rs) rs [e_reftype e]) else false.

(* one step: m is reached from n by element e *)
Definition step_ok (c : case) (e : elem) (n m : Z) : bool :=
  if name_matches (c_nodes c) e m then
    existsb (fun r => let '(s, t, d) := r in
                      if (if e_inv e then (d =? n) && (s =? m) else (s =? n) && (d =? m)) then type_ok (c_refs c) e t else false) (c_refs c)
  else false.

(* candidates for a step: every id that occurs in a reference *)
Definition universe (c : case) : list Z := flat_map (fun r => let '(s, _, d) := r in [s; d]) (c_refs c).
Definition spec_step (c : case) (e : elem) (set : list Z) : list Z :=
  filter (fun m => existsb (fun n => step_ok c e n m) set) (universe c).
Definition spec_set (c : case) (es : list elem) : list Z := fold_left (fun set e => spec_step c e set) es [c_start c].

(* is the request one for which the property defines a result set? *)
Definition well_formed (c : case) : bool :=
  match c_path c with
  | Some (e :: es) => match find_node (c_nodes c) (c_start c) with
                      | Some _ => forallb (fun e => negb (target_null e)) (e :: es)
                      | None => false
                      end
  | _ => false
  end.

Fixpoint list_eqb (a b : list Z) : bool :=
  match a, b with
  | [], [] => true
  | x :: a', y :: b' => (x =? y) && list_eqb a' b'
  | _, _ => false
  end.

(* out = status :: n :: sorted distinct targets ++ [number returned] *)
Definition oracle (c : case) (out : list Z) : bool :=
  match out with
  | st :: n :: rest =>
      if (st <? 0) || (n <? 0) then false else
      let targets := firstn (Z.to_nat n) rest in
      let expected := if well_formed c then sort_set (spec_set c (match c_path c with Some es => es | None => [] end)) else [] in
      (Z.of_nat (length rest) =? n + 1) &&
      match expected with
      | [] => negb (st =? 0) && (n =? 0)
      | _ => (st =? 0) && list_eqb targets expected
      end
  | _ => false
  end.

Definition known (c : case) : Z := 0.

Definition valid (c : case) : Prop := True.
