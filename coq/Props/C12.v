(* C12 — Sequence numbers increase by one per chunk and replays are rejected.  Statements only.

   Histories: any list of client sends (SendBuffer), server sends (MessageWriter) and messages
   presented to the receiver (chunks of earlier messages in any selection and order, or forged
   chunks with arbitrary header fields); sender counters may start anywhere in u32.
   [exec c (init c) ops = Some s]: the history ran without a panic and ended in state s. *)
From Coq Require Import List ZArith Sorted Lia.
Import ListNotations.
From OV Require Import C12.Model C12.Proofs.
Open Scope Z_scope.

(* --- sender ------------------------------------------------------------------------------ *)
(* Over any history, the j-th chunk the client's send buffer put on the wire carries the number
   start + 1 + j (so: exactly one more than the chunk before it), within u32. *)
Theorem C12_client_nth : forall c ops s j,
  valid c -> Forall valid_op ops -> exec c (init c) ops = Some s ->
  (j < length (cl_emitted s))%nat ->
  ch_seq (nth j (cl_emitted s) ch0) = c_cseq0 c + 1 + Z.of_nat j /\
  ch_seq (nth j (cl_emitted s) ch0) <= U32MAX.
Proof. exact client_nth. Qed.
Print Assumptions C12_client_nth.

(* The same for the server's message writer. *)
Theorem C12_server_nth : forall c ops s j,
  valid c -> Forall valid_op ops -> exec c (init c) ops = Some s ->
  (j < length (sv_emitted s))%nat ->
  ch_seq (nth j (sv_emitted s) ch0) = c_sseq0 c + 1 + Z.of_nat j /\
  ch_seq (nth j (sv_emitted s) ch0) <= U32MAX.
Proof. exact server_nth. Qed.
Print Assumptions C12_server_nth.

(* Request ids strictly increase from request to request, hence are unique per request ... *)
Theorem C12_request_ids_increase : forall c ops s,
  valid c -> Forall valid_op ops -> exec c (init c) ops = Some s ->
  StronglySorted Z.lt (cl_ids s) /\ NoDup (cl_ids s).
Proof. exact request_ids_increase. Qed.
Print Assumptions C12_request_ids_increase.

(* ... and every chunk of a message carries the id assigned to that message. *)
Theorem C12_one_id_per_message : forall c s n id l s',
  step c s (CSend n) = (OSent id l, Some s') ->
  id = cl_id s + 1 /\ Forall (fun p => snd p = id) l /\ cl_ids s' = cl_ids s ++ [id].
Proof. exact one_id_per_message. Qed.
Print Assumptions C12_one_id_per_message.

(* The hypothesis "fewer than 2^32 chunks and requests": a history whose demand fits into the
   counters never panics ... *)
Theorem C12_no_panic_in_range : forall c,
  (let '(a, b, d) := demand (c_ops c) in
   c_cseq0 c + a <= U32MAX /\ c_id0 c + b <= U32MAX /\ c_sseq0 c + d <= U32MAX) ->
  exists s, exec c (init c) (c_ops c) = Some s.
Proof. exact no_panic_in_range. Qed.
Print Assumptions C12_no_panic_in_range.

(* ... and the wrap is explicit: a sender that has run out of numbers stops (overflow panic of a
   build with overflow checks) instead of reusing a number. *)
Theorem C12_sender_wrap : forall c s,
  (forall n, cl_alive s = true -> (U32MAX < cl_id s + 1 \/ U32MAX < cl_seq s + Z.max 1 n) ->
             step c s (CSend n) = (OPanic, None)) /\
  (forall rid big, sv_alive s = true -> U32MAX < sv_seq s + 1 ->
             step c s (SSend rid big) = (OPanic, None)).
Proof. intros c s. split; [apply client_wrap | apply server_wrap]. Qed.
Print Assumptions C12_sender_wrap.

(* --- receiver ---------------------------------------------------------------------------- *)
(* The receiver (Chunker::validate_chunks under the transports' high-water mark) accepts a message
   exactly when: first number greater than the high-water mark, numbers consecutive, one request
   id, and (once the channel has an id) every chunk carries the channel's id; the new high-water
   mark is then the number of the last chunk. *)
Theorem C12_accept_iff : forall last chan l x,
  Forall (fun c => ch_seq c <= U32MAX) l ->
  (receive last chan l = VOk x <-> spec_accept last chan l = true /\ x = last_seq l).
Proof. exact receive_ok_iff. Qed.
Print Assumptions C12_accept_iff.

(* The high-water mark never decreases, over any history from any state. *)
Theorem C12_high_water_monotone : forall c ops s s', exec c s ops = Some s' -> r_last s <= r_last s'.
Proof. exact high_water_monotone. Qed.
Print Assumptions C12_high_water_monotone.

(* After any history: a message is accepted only if each of its numbers is greater than every
   number of every message accepted before. *)
Theorem C12_accept_only_greater : forall c ops s l x,
  valid c -> Forall valid_op ops -> exec c (init c) ops = Some s ->
  Forall (fun ch => ch_seq ch <= U32MAX) l ->
  receive (r_last s) (c_rchan c) l = VOk x ->
  forall m old new, In m (accepted s) -> In old m -> In new l -> ch_seq old < ch_seq new.
Proof. exact accept_only_greater. Qed.
Print Assumptions C12_accept_only_greater.

(* The numbers of all accepted chunks, in order of acceptance, strictly increase. *)
Theorem C12_accepted_increasing : forall c ops s,
  valid c -> Forall valid_op ops -> exec c (init c) ops = Some s ->
  StronglySorted Z.lt (map ch_seq (concat (accepted s))).
Proof. exact accepted_increasing. Qed.
Print Assumptions C12_accepted_increasing.

(* After any history, any previously accepted message presented again is rejected
   (BadSequenceNumberInvalid), whatever the receiver's channel id. *)
Theorem C12_replay_rejected : forall c ops s m chan,
  valid c -> Forall valid_op ops -> exec c (init c) ops = Some s ->
  In m (accepted s) -> receive (r_last s) chan m = VErr 1.
Proof. exact replay_rejected. Qed.
Print Assumptions C12_replay_rejected.

(* Non-vacuity of acceptance: a message a sender put on the wire, presented whole and in order to a
   receiver on the same channel (or one that has no id yet) whose high-water mark is still below
   it, is accepted and moves the high-water mark to its last number. *)
Theorem C12_in_order_accepted : forall c ops s m,
  exec c (init c) ops = Some s -> In m (sent s) ->
  r_last s < ch_seq (hd ch0 m) -> (c_rchan c = 0 \/ c_rchan c = c_schan c) ->
  receive (r_last s) (c_rchan c) m = VOk (last_seq m).
Proof. exact in_order_accepted. Qed.
Print Assumptions C12_in_order_accepted.

(* --- correspondence ---------------------------------------------------------------------- *)
(* The executable oracle applied to the implementation's observations holds on the model for
   every history (including histories that exhaust the senders' counters). *)
Theorem C12_oracle : forall c, valid c -> known c = 0 -> oracle c (run c) = true.
Proof. exact oracle_holds. Qed.
Print Assumptions C12_oracle.

(* The code before the fix: plain u32 arithmetic in the receiver. *)
Theorem C12_legacy_refuted :
  (spec_accept 10 7 [mk_chunk U32MAX 5 7] = true /\ Legacy.receive 10 7 [mk_chunk U32MAX 5 7] = VPanic) /\
  Legacy.receive 10 7 [mk_chunk U32MAX 5 7; mk_chunk 0 5 7] = VPanic /\
  Legacy.receive U32MAX 7 [mk_chunk U32MAX 5 7] = VPanic.
Proof. exact legacy_refuted. Qed.
Print Assumptions C12_legacy_refuted.

(* --- the hypotheses are satisfiable by non-trivial histories -------------------------------- *)
Definition ex_case : case :=
  mk_case 1000 0 0 0 7 7 0
    [CSend 3; Recv [Sent 0 0; Sent 0 1; Sent 0 2]; SSend 1001 0; CSend 2; Recv [Sent 2 0; Sent 2 1];
     Recv [Sent 0 0; Sent 0 1; Sent 0 2]; Recv [Sent 2 1; Sent 2 0]].

Example ex_valid : valid ex_case.
Proof.
  unfold valid, u32, U32MAX, ex_case; cbn [c_id0 c_cseq0 c_sseq0 c_maxchunks c_schan c_rchan c_last0 c_ops].
  repeat split; try lia.
  repeat (constructor; [cbn; unfold u32, U32MAX; try lia; try exact I; repeat constructor|]). constructor.
Qed.

Example ex_runs : exists s, exec ex_case (init ex_case) (c_ops ex_case) = Some s /\
  length (cl_emitted s) = 5%nat /\ length (accepted s) = 2%nat /\ cl_ids s = [1001; 1002] /\ r_last s = 5.
Proof. eexists. split; [vm_compute; reflexivity|]. vm_compute. repeat split. Qed.

Example ex_in_range :
  let '(a, b, d) := demand (c_ops ex_case) in
  c_cseq0 ex_case + a <= U32MAX /\ c_id0 ex_case + b <= U32MAX /\ c_sseq0 ex_case + d <= U32MAX.
Proof. vm_compute. repeat split; congruence. Qed.

Example ex_run : run ex_case =
  [0; 1001; 3; 1; 1001; 2; 1001; 3; 1001;  0; 3; 0; 3;  0; 1001; 1; 1; 1001;
   0; 1002; 2; 4; 1002; 5; 1002;  0; 5; 0; 5;  1; 5; 1; 5;  1; 5; 1; 5].
Proof. vm_compute. reflexivity. Qed.
