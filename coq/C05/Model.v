(* C05 -- relative path text form (lib/src/types/relative_path.rs).

   Executable model of the code as committed in the repository (after the fix commits named in
   known_findings.d/C05.jsonl):
     printer  : From<&RelativePath> for String, From<&RelativePathElement> for String,
                relative_path_reference_type, escape_browse_name, default_browse_name_resolver
     parser   : RelativePath::from_str (tokeniser loop), RelativePathElement::from_str (element
                pattern as a hand-written prioritised recogniser), target_name, unescape_browse_name,
                default_node_resolver.
   Strings are lists of Unicode scalar values (Z); String::len is the UTF-8 length [ulen].
   Every Rust panic site is an explicit [Panic].  The pre-fix code is in [Legacy].  No proofs here. *)
From Coq Require Import String Ascii List ZArith Bool.
From OV Require Import Gen.C05Tables.
Import ListNotations.
Open Scope Z_scope.

Definition str := list Z.

Fixpoint str_of_string (s : string) : str :=
  match s with
  | EmptyString => []
  | String a r => Z.of_N (N_of_ascii a) :: str_of_string r
  end.

Fixpoint str_eqb (a b : str) : bool :=
  match a, b with
  | [], [] => true
  | x :: a', y :: b' => (x =? y) && str_eqb a' b'
  | _, _ => false
  end.

Definition is_nil {A} (l : list A) : bool := match l with [] => true | _ => false end.

(* ---- data ----------------------------------------------------------------------------------- *)
(* Identifier: Numeric(u32) | String(UAString, may be null) | Guid / ByteString (content irrelevant
   here: IOpaque 0 / IOpaque 1) *)
Inductive ident := INum (n : Z) | IStr (s : option str) | IOpaque (k : Z).
Record nodeid := mk_nid { nid_ns : Z; nid_id : ident }.
(* QualifiedName { namespace_index, name : UAString (None = null) } *)
Record qname := mk_qn { qn_ns : Z; qn_name : option str }.
(* RelativePathElement { reference_type_id, is_inverse, include_subtypes, target_name } *)
Record elem := mk_el { el_ref : nodeid; el_inv : bool; el_sub : bool; el_tgt : qname }.

Inductive outcome (A : Type) := Ok (a : A) | Err | Panic.
Arguments Ok {A} a.
Arguments Err {A}.
Arguments Panic {A}.

(* ---- constants ------------------------------------------------------------------------------ *)
(* '&' 38  '/' 47  '.' 46  '<' 60  '>' 62  ':' 58  '#' 35  '!' 33 ; BROWSE_NAME_RESERVED_CHARS in order *)
Definition reserved : str := [38; 47; 46; 60; 62; 58; 35; 33].
Definition is_reserved (c : Z) : bool := existsb (Z.eqb c) reserved.
Definition MAX_TOKEN_LEN : Z := 256.
Definition MAX_ELEMENTS : Z := 32.
Definition HIERARCHICAL : Z := 33.
Definition AGGREGATES : Z := 44.

(* ---- the two resolver tables (generated from the source) ------------------------------------ *)
Definition name_table : list (str * Z) := map (fun p => (str_of_string (fst p), snd p)) node_resolver_table.
Definition id_table : list (Z * str) := map (fun p => (fst p, str_of_string (snd p))) browse_name_table.

Fixpoint lookup_name_in (t : list (str * Z)) (s : str) : option Z :=
  match t with
  | [] => None
  | (n, k) :: t' => if str_eqb n s then Some k else lookup_name_in t' s
  end.
Definition lookup_name := lookup_name_in name_table.

Fixpoint lookup_id_in (t : list (Z * str)) (k : Z) : option str :=
  match t with
  | [] => None
  | (i, n) :: t' => if i =? k then Some n else lookup_id_in t' k
  end.
Definition lookup_id := lookup_id_in id_table.

(* default_node_resolver: always Some *)
Definition node_resolver (ns : Z) (name : str) : option nodeid :=
  Some (if ns =? 0 then
          match lookup_name name with
          | Some k => mk_nid 0 (INum k)
          | None => mk_nid 0 (IStr (Some name))
          end
        else mk_nid ns (IStr (Some name))).

(* default_browse_name_resolver (UAString::as_ref of a null string is the empty string) *)
Definition browse_name_of (n : nodeid) : option str :=
  match nid_id n with
  | IStr None => Some []
  | IStr (Some s) => Some s
  | INum k => if nid_ns n =? 0 then lookup_id k else None
  | IOpaque _ => None
  end.

(* ---- escape / unescape: sequential String::replace passes ----------------------------------- *)
(* str::replace(c, "&c"): every occurrence of the character *)
Definition replace_char (c : Z) (s : str) : str :=
  flat_map (fun x => if x =? c then [38; c] else [x]) s.
Definition escape (s : str) : str := fold_left (fun r c => replace_char c r) reserved s.

(* str::replace("&c", "c"): leftmost non-overlapping occurrences of the two-character pattern *)
Fixpoint unrep (c : Z) (s : str) : str :=
  match s with
  | [] => []
  | a :: t =>
      match t with
      | [] => [a]
      | b :: t' => if (a =? 38) && (b =? c) then c :: unrep c t' else a :: unrep c t
      end
  end.
Definition unescape (s : str) : str := fold_left (fun r c => unrep c r) reserved s.

(* ---- numbers -------------------------------------------------------------------------------- *)
Definition dg (x : Z) : Z := 48 + x mod 10.
(* Display of a u16 *)
Definition show_num (n : Z) : str :=
  if n <? 10 then [dg n]
  else if n <? 100 then [dg (n / 10); dg n]
  else if n <? 1000 then [dg (n / 100); dg (n / 10); dg n]
  else if n <? 10000 then [dg (n / 1000); dg (n / 100); dg (n / 10); dg n]
  else [dg (n / 10000); dg (n / 1000); dg (n / 100); dg (n / 10); dg n].

Definition is_digit (c : Z) : bool := (48 <=? c) && (c <=? 57).
(* str::parse::<u16> of a non-empty string of ASCII digits *)
Definition parse_u16 (d : str) : option Z :=
  let v := fold_left (fun a c => 10 * a + (c - 48)) d 0 in
  if v <=? 65535 then Some v else None.

(* ---- printer -------------------------------------------------------------------------------- *)
Definition nodeid_is_num (n : nodeid) (k : Z) : bool :=
  (nid_ns n =? 0) && match nid_id n with INum j => j =? k | _ => false end.

(* relative_path_reference_type with default_browse_name_resolver; the unwrap comes first *)
Definition print_reftype (e : elem) : outcome str :=
  match browse_name_of (el_ref e) with
  | None => Panic
  | Some bn =>
      let short :=
        if el_sub e && negb (el_inv e) then
          if nodeid_is_num (el_ref e) HIERARCHICAL then [47]
          else if nodeid_is_num (el_ref e) AGGREGATES then [46] else []
        else [] in
      if negb (is_nil short) then Ok short
      else Ok ([60] ++ (if el_sub e then [] else [35]) ++ (if el_inv e then [33] else [])
               ++ (if nid_ns (el_ref e) =? 0 then escape bn
                   else show_num (nid_ns (el_ref e)) ++ [58] ++ escape bn)
               ++ [62])
  end.

Definition print_target (q : qname) : str :=
  match qn_name q with
  | None => []
  | Some s => show_num (qn_ns q) ++ [58] ++ escape s
  end.

Definition print_elem (e : elem) : outcome str :=
  match print_reftype e with
  | Ok r => Ok (r ++ print_target (el_tgt e))
  | Err => Err
  | Panic => Panic
  end.

Fixpoint print_path (p : list elem) : outcome str :=
  match p with
  | [] => Ok []
  | e :: p' =>
      match print_elem e with
      | Ok s => match print_path p' with Ok r => Ok (s ++ r) | Err => Err | Panic => Panic end
      | Err => Err
      | Panic => Panic
      end
  end.

(* ---- parser: target_name -------------------------------------------------------------------- *)
Fixpoint span_digits (s : str) : str * str :=
  match s with
  | [] => ([], [])
  | c :: t => if is_digit c then let '(d, r) := span_digits t in (c :: d, r) else ([], s)
  end.

(* the nsidx group (one or more ASCII digits, then a colon) at the start of s: (digits, rest) *)
Definition take_nsidx (s : str) : option (str * str) :=
  let '(d, r) := span_digits s in
  match d, r with
  | _ :: _, c :: r' => if c =? 58 then Some (d, r') else None
  | _, _ => None
  end.

(* the target-name pattern (Gen.C05Tables.target_pattern): optional nsidx group, then the name group
   takes everything; always matches at offset 0 *)
Definition target_name (s : str) : outcome qname :=
  match take_nsidx s with
  | Some (d, r) =>
      match parse_u16 d with
      | None => Err
      | Some n => Ok (mk_qn n (if is_nil r then None else Some (unescape r)))
      end
  | None => Ok (mk_qn 0 (if is_nil s then None else Some (unescape s)))
  end.

(* ---- parser: the element pattern ------------------------------------------------------------ *)
(* captures: which alternative of reftype matched (47 '/', 46 '.', 60 '<..>'), flags, nsidx, name,
   target (the target group always participates) *)
Record caps := mk_caps { cp_kind : Z; cp_flags : option str; cp_nsidx : option str;
                         cp_name : option str; cp_target : str }.

(* the repeated part of the name group: the longest run of units, a unit being a character other
   than & and >, or & followed by any character; (matched, rest) *)
Fixpoint span_units (s : str) : str * str :=
  match s with
  | [] => ([], [])
  | c :: t =>
      if c =? 62 then ([], s)
      else if c =? 38 then
        match t with
        | [] => ([], s)
        | x :: t' => let '(m, r) := span_units t' in (38 :: x :: m, r)
        end
      else let '(m, r) := span_units t in (c :: m, r)
  end.

Definition name_rest (pre t : str) : option (str * str) :=
  let '(m, r) := span_units t in
  match r with
  | c :: r' => if c =? 62 then Some (pre ++ m, r') else None
  | [] => None
  end.

(* the name group followed by the closing bracket, at the start of s: the first unit may not be
   one of # ! ; result (name, rest after the bracket) *)
Definition take_name (s : str) : option (str * str) :=
  match s with
  | [] => None
  | c :: t =>
      if (c =? 35) || (c =? 33) || (c =? 62) then None
      else if c =? 38 then
        match t with
        | [] => None
        | x :: t' => name_rest [38; x] t'
        end
      else name_rest [c] t
  end.

Fixpoint strip_prefix (p s : str) : option str :=
  match p, s with
  | [], _ => Some s
  | a :: p', b :: s' => if a =? b then strip_prefix p' s' else None
  | _ :: _, [] => None
  end.

(* one way through the bracket alternative after its opening bracket: flags group present with the
   given text or absent, nsidx group present or absent *)
Definition match_after_flags (fl : option str) (wantns : bool) (t1 : str) : option caps :=
  match (if wantns then
           match take_nsidx t1 with Some (d, r) => Some (Some d, r) | None => None end
         else Some (None, t1)) with
  | None => None
  | Some (ns, t2) =>
      match take_name t2 with
      | None => None
      | Some (nm, tg) => Some (mk_caps 60 fl ns (Some nm) tg)
      end
  end.

Definition match_bracket (alt : option str * bool) (t : str) : option caps :=
  let '(fl, wantns) := alt in
  match (match fl with Some f => strip_prefix f t | None => Some t end) with
  | None => None
  | Some t1 => match_after_flags fl wantns t1
  end.

(* the order in which a backtracking matcher explores the optional groups:
   flags '#', '!', '#!', none; for each, namespace index present, then absent *)
Definition bracket_alts : list (option str * bool) :=
  [ (Some [35], true); (Some [35], false); (Some [33], true); (Some [33], false);
    (Some [35; 33], true); (Some [35; 33], false); (None, true); (None, false) ].

Fixpoint first_some {A B} (f : A -> option B) (l : list A) : option B :=
  match l with
  | [] => None
  | a :: l' => match f a with Some b => Some b | None => first_some f l' end
  end.

(* the element pattern (Gen.C05Tables.element_pattern) at the start of s; the target group, with the
   s flag, takes everything that is left *)
Definition match_here (s : str) : option caps :=
  match s with
  | [] => None
  | c :: t =>
      if c =? 47 then Some (mk_caps 47 None None None t)
      else if c =? 46 then Some (mk_caps 46 None None None t)
      else if c =? 60 then first_some (fun a => match_bracket a t) bracket_alts
      else None
  end.

(* Regex::captures: unanchored, leftmost match *)
Fixpoint find_match (s : str) : option caps :=
  match match_here s with
  | Some c => Some c
  | None => match s with [] => None | _ :: t => find_match t end
  end.

(* RelativePathElement::from_str after a successful match *)
Definition elem_of_caps (c : caps) : outcome elem :=
  match target_name (cp_target c) with
  | Err => Err
  | Panic => Panic
  | Ok tn =>
      if cp_kind c =? 47 then Ok (mk_el (mk_nid 0 (INum HIERARCHICAL)) false true tn)
      else if cp_kind c =? 46 then Ok (mk_el (mk_nid 0 (INum AGGREGATES)) false true tn)
      else
        match (match cp_flags c with
               | None => Ok (true, false)
               | Some f => if str_eqb f [35] then Ok (false, false)
                           else if str_eqb f [33] then Ok (true, true)
                           else if str_eqb f [35; 33] then Ok (false, true)
                           else Panic     (* panic!("Error in regular expression for flags") *)
               end) with
        | Err => Err
        | Panic => Panic
        | Ok (sub, inv) =>
            match cp_name c with
            | None => Panic                (* captures.name("name").unwrap() *)
            | Some nm =>
                let bn := unescape nm in
                match (match cp_nsidx c with
                       | Some d => if str_eqb d [48] || is_nil d then Ok (node_resolver 0 bn)
                                   else match parse_u16 d with
                                        | Some n => Ok (node_resolver n bn)
                                        | None => Err
                                        end
                       | None => Ok (node_resolver 0 bn)
                       end) with
                | Err => Err
                | Panic => Panic
                | Ok None => Err
                | Ok (Some id) => Ok (mk_el id inv sub tn)
                end
            end
        end
  end.

Definition parse_elem (tok : str) : outcome elem :=
  match find_match tok with
  | None => Err
  | Some c => elem_of_caps c
  end.

(* ---- parser: the tokeniser loop of RelativePath::from_str ----------------------------------- *)
Definition utf8_len (c : Z) : Z :=
  if c <? 128 then 1 else if c <? 2048 then 2 else if c <? 65536 then 3 else 4.
Definition ulen (s : str) : Z := fold_right (fun c a => utf8_len c + a) 0 s.

Definition is_sep (c : Z) : bool := (c =? 47) || (c =? 46) || (c =? 60).

Section Tokeniser.
  Variable pe : str -> outcome elem.      (* RelativePathElement::from_str *)

  (* the code after the loop (also reached by the `break`) *)
  Definition finish (els : list elem) (token : str) : outcome (list elem) :=
    if is_nil token then Ok els
    else if Z.of_nat (length els) =? MAX_ELEMENTS then Err
    else match pe token with
         | Ok e => Ok (els ++ [e])
         | Err => Err
         | Panic => Panic
         end.

  Fixpoint tok_loop (cs : str) (els : list elem) (token : str) (esc : bool) : outcome (list elem) :=
    match cs with
    | [] => finish els token
    | c :: cs' =>
        if esc then
          let token' := token ++ [c] in
          if MAX_TOKEN_LEN <? ulen token' then Err else tok_loop cs' els token' false
        else if c =? 38 then
          let token' := token ++ [c] in
          if MAX_TOKEN_LEN <? ulen token' then Err else tok_loop cs' els token' true
        else if is_sep c then
          if is_nil token then
            (if MAX_TOKEN_LEN <? ulen [c] then Err else tok_loop cs' els [c] false)
          else if Z.of_nat (length els) =? MAX_ELEMENTS then finish els token   (* break *)
          else match pe token with
               | Ok e => if MAX_TOKEN_LEN <? ulen [c] then Err else tok_loop cs' (els ++ [e]) [c] false
               | Err => Err
               | Panic => Panic
               end
        else
          let token' := token ++ [c] in
          if MAX_TOKEN_LEN <? ulen token' then Err else tok_loop cs' els token' false
    end.
End Tokeniser.

Definition parse (s : str) : outcome (list elem) := tok_loop parse_elem s [] [] false.

(* ---- the pre-fix code ------------------------------------------------------------------------ *)
(* The patterns of the pinned code: the name group was one character other than # ! followed by
   dot-star, then the closing bracket (greedy: the name runs to the last closing bracket of its
   line); the nsidx group of the target-name pattern was a single character out of 0-9 and +;
   there was no s flag, so a dot did not match a newline; the reference type name was not
   unescaped. *)
Module Legacy.
  Fixpoint line (s : str) : str :=       (* dot-star without the s flag *)
    match s with
    | [] => []
    | c :: t => if c =? 10 then [] else c :: line t
    end.

  Definition take_nsidx1 (s : str) : option (str * str) :=   (* one character out of 0-9 and +, then a colon *)
    match s with
    | c :: k :: r => if (k =? 58) && (is_digit c || (c =? 43)) then Some ([c], r) else None
    | _ => None
    end.

  Definition target_name (s : str) : outcome qname :=
    match take_nsidx1 s with
    | Some (d, r) =>
        match (if str_eqb d [43] then None else parse_u16 d) with
        | None => Err
        | Some n => Ok (mk_qn n (if is_nil (line r) then None else Some (unescape (line r))))
        end
    | None => Ok (mk_qn 0 (if is_nil (line s) then None else Some (unescape (line s))))
    end.

  (* split l at its last '>' : (before, after) *)
  Fixpoint split_last_gt (l : str) : option (str * str) :=
    match l with
    | [] => None
    | c :: t =>
        match split_last_gt t with
        | Some (b, a) => Some (c :: b, a)
        | None => if c =? 62 then Some ([], t) else None
        end
    end.

  (* the greedy name group, the closing bracket, the target group *)
  Definition take_name (s : str) : option (str * str) :=
    match s with
    | [] => None
    | c :: t =>
        if (c =? 35) || (c =? 33) then None
        else match split_last_gt (line t) with
             | Some (b, a) => Some (c :: b, line a)
             | None => None
             end
    end.

  Definition match_bracket (alt : option str * bool) (t : str) : option caps :=
    let '(fl, wantns) := alt in
    match (match fl with Some f => strip_prefix f t | None => Some t end) with
    | None => None
    | Some t1 =>
        match (if wantns then
                 match take_nsidx t1 with Some (d, r) => Some (Some d, r) | None => None end
               else Some (None, t1)) with
        | None => None
        | Some (ns, t2) =>
            match take_name t2 with
            | None => None
            | Some (nm, tg) => Some (mk_caps 60 fl ns (Some nm) tg)
            end
        end
    end.

  Definition match_here (s : str) : option caps :=
    match s with
    | [] => None
    | c :: t =>
        if c =? 47 then Some (mk_caps 47 None None None (line t))
        else if c =? 46 then Some (mk_caps 46 None None None (line t))
        else if c =? 60 then first_some (fun a => match_bracket a t) bracket_alts
        else None
    end.

  Fixpoint find_match (s : str) : option caps :=
    match match_here s with
    | Some c => Some c
    | None => match s with [] => None | _ :: t => find_match t end
    end.

  Definition elem_of_caps (c : caps) : outcome elem :=
    match target_name (cp_target c) with
    | Err => Err
    | Panic => Panic
    | Ok tn =>
        if cp_kind c =? 47 then Ok (mk_el (mk_nid 0 (INum HIERARCHICAL)) false true tn)
        else if cp_kind c =? 46 then Ok (mk_el (mk_nid 0 (INum AGGREGATES)) false true tn)
        else
          match (match cp_flags c with
                 | None => Ok (true, false)
                 | Some f => if str_eqb f [35] then Ok (false, false)
                             else if str_eqb f [33] then Ok (true, true)
                             else if str_eqb f [35; 33] then Ok (false, true)
                             else Panic
                 end) with
          | Err => Err
          | Panic => Panic
          | Ok (sub, inv) =>
              match cp_name c with
              | None => Panic
              | Some bn =>
                  match (match cp_nsidx c with
                         | Some d => if str_eqb d [48] || is_nil d then Ok (node_resolver 0 bn)
                                     else match parse_u16 d with
                                          | Some n => Ok (node_resolver n bn)
                                          | None => Err
                                          end
                         | None => Ok (node_resolver 0 bn)
                         end) with
                  | Err => Err
                  | Panic => Panic
                  | Ok None => Err
                  | Ok (Some id) => Ok (mk_el id inv sub tn)
                  end
              end
          end
    end.

  Definition parse_elem (tok : str) : outcome elem :=
    match find_match tok with
    | None => Err
    | Some c => elem_of_caps c
    end.

  Definition parse (s : str) : outcome (list elem) := tok_loop parse_elem s [] [] false.
End Legacy.

(* ---- correspondence interface ---------------------------------------------------------------- *)
(* a case: a path to print and parse back, or an arbitrary string to parse *)
Inductive case := CPath (p : list elem) | CStr (s : str).

Definition enc_ostr (s : option str) : list Z :=
  match s with None => [-1] | Some v => Z.of_nat (length v) :: v end.
Definition enc_nid (n : nodeid) : list Z :=
  nid_ns n :: match nid_id n with
              | INum k => [0; k]
              | IStr s => 1 :: enc_ostr s
              | IOpaque k => [2; k]
              end.
Definition b2z (b : bool) : Z := if b then 1 else 0.
Definition enc_elem (e : elem) : list Z :=
  enc_nid (el_ref e) ++ [b2z (el_inv e); b2z (el_sub e); qn_ns (el_tgt e)] ++ enc_ostr (qn_name (el_tgt e)).
Definition enc_path (p : list elem) : list Z :=
  0 :: Z.of_nat (length p) :: flat_map enc_elem p.
(* parse result: -2 panic, -1 error, 0 :: n :: elements *)
Definition enc_result (r : outcome (list elem)) : list Z :=
  match r with Panic => [-2] | Err => [-1] | Ok p => enc_path p end.

(* CPath: [-2] if the printer panics, else  length :: printed code points ++ parse result
   CStr : parse result *)
Definition run (c : case) : list Z :=
  match c with
  | CPath p =>
      match print_path p with
      | Ok s => Z.of_nat (length s) :: s ++ enc_result (parse s)
      | _ => [-2]
      end
  | CStr s => enc_result (parse s)
  end.

(* ---- the property ---------------------------------------------------------------------------- *)
(* size in UTF-8 bytes of the text of one element, written directly (not through the printer) *)
Definition esc_size (s : str) : Z :=
  fold_right (fun c a => utf8_len c + (if is_reserved c then 1 else 0) + a) 0 s.
Definition num_size (n : Z) : Z :=
  if n <? 10 then 1 else if n <? 100 then 2 else if n <? 1000 then 3 else if n <? 10000 then 4 else 5.
Definition reftype_size (e : elem) : Z :=
  let r := el_ref e in
  if el_sub e && negb (el_inv e) && (nodeid_is_num r HIERARCHICAL || nodeid_is_num r AGGREGATES) then 1
  else 2 + (if el_sub e then 0 else 1) + (if el_inv e then 1 else 0)
       + (if nid_ns r =? 0 then 0 else num_size (nid_ns r) + 1)
       + match browse_name_of r with Some bn => esc_size bn | None => 0 end.
Definition target_size (q : qname) : Z :=
  match qn_name q with None => 0 | Some s => num_size (qn_ns q) + 1 + esc_size s end.
Definition elem_size (e : elem) : Z := reftype_size e + target_size (el_tgt e).

(* the documented limits of the parser: at most 32 elements, each at most 256 bytes of text *)
Definition over_limit (p : list elem) : bool :=
  (MAX_ELEMENTS <? Z.of_nat (length p)) || existsb (fun e => MAX_TOKEN_LEN <? elem_size e) p.

(* the oracle: the parse result found in the implementation's output is the ORIGINAL path
   (a rejection is accepted only for a path outside the parser's documented limits); an arbitrary
   string yields a path or an error, never a panic *)
Definition oracle (c : case) (out : list Z) : bool :=
  match c with
  | CPath p =>
      match out with
      | n :: t =>
          (0 <=? n) && (n <=? Z.of_nat (length t)) &&
          let res := skipn (Z.to_nat n) t in
          (str_eqb res (enc_path p) || (over_limit p && str_eqb res [-1]))
      | [] => false
      end
  | CStr _ =>
      match out with
      | [-1] => true
      | 0 :: _ => true
      | _ => false
      end
  end.

(* ---- known findings -------------------------------------------------------------------------- *)
(* class 1: a reference type the default browse name resolver does not know (numeric id outside the
   table or in a namespace other than 0, Guid and ByteString ids): the printer panics *)
Definition unprintable (e : elem) : bool :=
  match nid_id (el_ref e) with
  | INum k => negb (nid_ns (el_ref e) =? 0) || negb (existsb (fun p => fst p =? k) id_table)
  | IStr _ => false
  | IOpaque _ => true
  end.
(* class 2: a String identifier in namespace 0 that spells one of the standard reference type names
   prints like the numeric id and parses back as the numeric id *)
Definition aliasing (e : elem) : bool :=
  (nid_ns (el_ref e) =? 0) &&
  match nid_id (el_ref e) with
  | IStr (Some s) => existsb (fun p => str_eqb (fst p) s) name_table
  | _ => false
  end.
Definition known (c : case) : Z :=
  match c with
  | CPath p => if existsb unprintable p then 1 else if existsb aliasing p then 2 else 0
  | CStr _ => 0
  end.

(* ---- well-formed inputs ---------------------------------------------------------------------- *)
(* namespace indices are u16; a target name is either null (then its namespace index is 0, the text
   form has no place for it) or a non-empty string; a String reference type identifier is non-empty *)
Definition wf_elem (e : elem) : Prop :=
  0 <= nid_ns (el_ref e) <= 65535 /\ 0 <= qn_ns (el_tgt e) <= 65535 /\
  match qn_name (el_tgt e) with None => qn_ns (el_tgt e) = 0 | Some s => s <> [] end /\
  match nid_id (el_ref e) with IStr None => False | IStr (Some s) => s <> [] | _ => True end.

Definition valid (c : case) : Prop :=
  match c with
  | CPath p => Forall wf_elem p
  | CStr _ => True
  end.
