(* C15 — no service is processed before the handshake or after channel close.

   Model of the server connection FSM as the code has it (lib/src/server/comms/tcp_transport.rs:
   wait_for_hello, the reading loop's dispatch, process_hello, process_chunk / process_final_chunk
   for single-chunk messages; secure_channel_service.rs: open_secure_channel / close_secure_channel;
   core/comms/chunker.rs: the channel id check of validate_chunks), after
   "fix: server dispatched MSG/CLO chunks before any OpenSecureChannel had been issued".
   SecurityPolicy None, well-formed frame contents, consecutive sequence numbers.

   No proofs in this file. *)
From Coq Require Import List ZArith Bool Lia.
Import ListNotations.
Open Scope Z_scope.

(* frames a peer may send.  FHel: protocol version, buffer sizes >= 8196?, endpoint url accepted?
   FOpn: renew (else issue), client protocol version.  FMsg: kind 0 = GetEndpoints (sessionless),
   1 = Read without a session; does the chunk carry the channel id the server assigned?
   FClo likewise.  FAck: an ACK frame (any non-HEL non-chunk frame). *)
Inductive frame :=
| FHel (pv : Z) (bufs_ok url_ok : bool)
| FOpn (renew : bool) (pv : Z)
| FMsg (kind : Z) (cid_ok : bool)
| FClo (cid_ok : bool)
| FAck.

(* status classes of the reading loop's result *)
Definition S_OK : Z := 0.
Definition S_COMM : Z := 12.          (* BadCommunicationError *)
Definition S_CHANNEL : Z := 13.       (* BadSecureChannelIdInvalid *)
Definition S_CLOSED : Z := 14.        (* BadConnectionClosed (CloseSecureChannel) *)
Definition S_UNEXPECTED : Z := 15.    (* BadUnexpectedError *)
Definition S_URL : Z := 16.           (* BadTcpEndpointUrlInvalid *)
Definition S_VERSION : Z := 17.       (* BadProtocolVersionUnsupported *)
Definition S_OTHER : Z := 19.         (* any other error: BadSequenceNumberInvalid for a replayed sequence number *)

(* response classes queued for the writer *)
Definition R_ACK : Z := 1.
Definition R_OPN : Z := 2.            (* OpenSecureChannelResponse *)
Definition R_SERVICE : Z := 3.        (* a service response *)
Definition R_FAULT : Z := 4.          (* ServiceFault *)

Inductive phase := WaitingHello | ProcessMessages | Finished.

Record st := mk_st {
  ph : phase;
  hello_pv : Z;        (* client_protocol_version *)
  issued : bool;       (* SecureChannelState.issued *)
  chan : Z;            (* SecureChannel.secure_channel_id (0 until a token is issued) *)
  last_chan : Z }.     (* SecureChannelState.last_secure_channel_id *)

Definition init : st := mk_st WaitingHello 0 false 0 0.

Definition finish (s : st) : st := mk_st Finished (hello_pv s) (issued s) (chan s) (last_chan s).

(* one frame: new state, status, responses.  [guard] says whether process_final_chunk refuses
   MSG/CLO until a token was issued (the fix). *)
Definition step_gen (guard : bool) (s : st) (f : frame) : st * Z * list Z :=
  match ph s with
  | Finished => (s, S_UNEXPECTED, [])
  | WaitingHello =>
      match f with
      | FHel pv bufs_ok url_ok =>
          if negb url_ok then (finish s, S_URL, [])
          else if negb bufs_ok then (finish s, S_COMM, [])
          else if 0 <? pv then (finish s, S_VERSION, [])
          else (mk_st ProcessMessages pv (issued s) (chan s) (last_chan s), S_OK, [R_ACK])
      | _ => (finish s, S_COMM, [])
      end
  | ProcessMessages =>
      match f with
      | FHel _ _ _ | FAck => (finish s, S_COMM, [])
      | FOpn renew pv0 =>
          (* validate_chunks: the client follows the assigned channel id, so the check passes.
             pv0 >= 1000 stands for protocol version pv0 - 1000 in a request whose security mode is
             Invalid: it is answered with a ServiceFault and issues nothing (an Issue has taken a
             channel id from the counter by then) *)
          if negb ((if 1000 <=? pv0 then pv0 - 1000 else pv0) =? hello_pv s) then (s, S_OK, [R_FAULT])
          else if renew then
            if negb (issued s) then (finish s, S_UNEXPECTED, [])
            else if 1000 <=? pv0 then (s, S_OK, [R_FAULT])
            else (mk_st ProcessMessages (hello_pv s) true (chan s) (last_chan s), S_OK, [R_OPN])
          else
            if 1000 <=? pv0 then (mk_st ProcessMessages (hello_pv s) (issued s) (chan s) (last_chan s + 1), S_OK, [R_FAULT])
            else (mk_st ProcessMessages (hello_pv s) true (last_chan s + 1) (last_chan s + 1), S_OK, [R_OPN])
      | FMsg kind cid_ok =>
          (* kind 2: a message that carries the sequence number of the chunk sent before it (0 if
             there was none) -- a replay; refused whatever happened in between, a renewal included
             (validate_chunks looks at the first sequence number before anything else) *)
          if kind =? 2 then (finish s, S_OTHER, [])
          else if negb (chan s =? 0) && negb cid_ok then (finish s, S_CHANNEL, [])
          else if guard && negb (issued s) then (finish s, S_CHANNEL, [])
          else (s, S_OK, [if kind =? 0 then R_SERVICE else R_FAULT])
      | FClo cid_ok =>
          if negb (chan s =? 0) && negb cid_ok then (finish s, S_CHANNEL, [])
          else if guard && negb (issued s) then (finish s, S_CHANNEL, [])
          else (finish s, S_CLOSED, [])
      end
  end.

(* the reading loop: frames are processed until one fails; trace of (frame, status, responses) *)
Fixpoint trace_gen (guard : bool) (s : st) (fs : list frame) : list (frame * Z * list Z) :=
  match fs with
  | [] => []
  | f :: r =>
      let '(s', status, resp) := step_gen guard s f in
      (f, status, resp) :: (if status =? S_OK then trace_gen guard s' r else [])
  end.

Definition step := step_gen true.
Definition trace := trace_gen true init.

Definition render_rec (r : frame * Z * list Z) : list Z :=
  let '(_, status, resp) := r in status :: Z.of_nat (length resp) :: resp.

Definition all_ok (t : list (frame * Z * list Z)) : bool :=
  forallb (fun r => let '(_, status, _) := r in status =? S_OK) t.

Definition render (t : list (frame * Z * list Z)) : list Z :=
  concat (map render_rec t) ++ [-1; if all_ok t then 0 else 1].

Module Legacy.
  (* before the fix: no guard *)
  Definition trace := trace_gen false init.
End Legacy.

(* ---- correspondence interface ------------------------------------------------------------- *)
Definition case := list frame.

Definition run (c : case) : list Z := render (trace c).

(* parse an implementation output back into per-frame records *)
Fixpoint parse (fuel : nat) (fs : list frame) (out : list Z)
  : option (list (frame * Z * list Z) * Z) :=
  match fuel with
  | O => None
  | S fuel' =>
      match out with
      | a :: b :: rest =>
          if a =? -1 then match rest with [] => Some ([], b) | _ => None end   (* end marker, finished? *)
          else
            (* a record: status a, b responses *)
            match fs with
            | [] => None
            | f :: fs' =>
                if (b <? 0) || (Z.of_nat (length rest) <? b) then None
                else
                  match parse fuel' fs' (skipn (Z.to_nat b) rest) with
                  | Some (t, fin) => Some ((f, a, firstn (Z.to_nat b) rest) :: t, fin)
                  | None => None
                  end
            end
      | _ => None
      end
  end.

Definition is_hel (f : frame) : bool := match f with FHel _ _ _ => true | _ => false end.
Definition is_opn (f : frame) : bool := match f with FOpn _ _ => true | _ => false end.
Definition is_service (f : frame) : bool := match f with FMsg _ _ | FClo _ => true | _ => false end.
Definition is_clo (f : frame) : bool := match f with FClo _ => true | _ => false end.

Definition resp_eqb (a b : list Z) : bool :=
  (Z.of_nat (length a) =? Z.of_nat (length b)) && forallb (fun p => fst p =? snd p) (combine a b).

(* the property on an observed trace, as a scan that remembers only what was OBSERVED so far:
   acked  — an ACK was sent (in answer to a HEL);
   opened — an OpenSecureChannelResponse was sent in answer to an OPN.
   (1) until acked, the only response ever sent is one ACK to a HEL, and a non-HEL frame closes
       the connection without any response;
   (2) until opened, a MSG/CLO frame gets no response and closes the connection;
   (3) a frame that failed, and any CLO, is the last one processed. *)
Definition head_check (acked opened : bool) (f : frame) (status : Z) (resp : list Z) : bool :=
  let c1 := if acked then true
            else if is_hel f then resp_eqb resp [] || ((status =? S_OK) && resp_eqb resp [R_ACK])
            else negb (status =? S_OK) && resp_eqb resp [] in
  let c2 := if opened then true
            else if is_service f then negb (status =? S_OK) && resp_eqb resp [] else true in
  let c3 := if is_clo f then negb (status =? S_OK) && resp_eqb resp [] else true in
  c1 && c2 && c3.
Definition acked_next (acked : bool) (f : frame) (status : Z) (resp : list Z) : bool :=
  acked || (is_hel f && (status =? S_OK) && resp_eqb resp [R_ACK]).
Definition opened_next (opened : bool) (f : frame) (status : Z) (resp : list Z) : bool :=
  opened || (is_opn f && (status =? S_OK) && resp_eqb resp [R_OPN]).

Fixpoint scan (acked opened : bool) (t : list (frame * Z * list Z)) : bool :=
  match t with
  | [] => true
  | (f, status, resp) :: r =>
      (match r with [] => true | _ => (status =? S_OK) && negb (is_clo f) end) &&
      head_check acked opened f status resp &&
      scan (acked_next acked f status resp) (opened_next opened f status resp) r
  end.

Definition oracle (c : case) (out : list Z) : bool :=
  match parse (S (length out)) c out with
  | None => false
  | Some (t, fin) =>
      scan false false t &&
      (* every frame is processed unless the connection closed, and it is closed iff a frame failed *)
      (if all_ok t then (fin =? 0) && (Z.of_nat (length t) =? Z.of_nat (length c)) else fin =? 1)
  end.

Definition known (c : case) : Z := 0.
Definition valid (c : case) : Prop := True.
