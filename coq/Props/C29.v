(* C29 — Deleting a node terminates and leaves no dangling references.  Statements only.

   [astate] = (node ids, model of `References`); [delete] is the model of AddressSpace::delete
   with delete_fuel's fuel = number of nodes + 1; [tmA f ty] = "ty is Aggregates or one of its
   subtypes" as References::reference_type_matches decides it in the forward map f;
   F r y / R r y = the forward bucket / referenced-by set of y (empty when absent). *)
From Coq Require Import List ZArith.
Import ListNotations.
From OV Require Import C28.Refs C28.RefsFacts C28.RefsProofs.
From OV Require Import C29.Model C29.Reach C29.TypeMatch C29.DeleteTerm C29.DeleteChar C29.Proofs.
Open Scope Z_scope.

(* Termination, for EVERY state (any node set, any content of the two reference maps, cycles of
   aggregating references, cycles of HasSubtype references): the recursion never needs more than
   (number of nodes + 1) levels, and more fuel gives the same result. *)
Theorem C29_terminates : forall st n dtr,
  exists b st', delete st n dtr = Some (b, st') /\
                forall j, delete_fuel (j + S (length (nodes st))) dtr st n = Some (b, st').
Proof. exact delete_terminates. Qed.
Print Assumptions C29_terminates.

(* The search through HasSubtype references inside find_aggregates_of always finishes within
   tm_fuel iterations, for every forward map (cycles included) ... *)
Theorem C29_type_match_terminates : forall f ty sub include_subtypes,
  reference_type_matches_opt f ty sub include_subtypes <> None.
Proof. exact type_matches_total. Qed.
Print Assumptions C29_type_match_terminates.

(* ... and decides reachability along HasSubtype references. *)
Theorem C29_type_match_correct : forall f ty sub,
  reference_type_matches f ty sub true = true <-> RReach (sub_rel f) ty sub.
Proof. exact type_matches_spec. Qed.
Print Assumptions C29_type_match_correct.

(* What delete(target, delete_target_references = true) leaves behind, from any state satisfying
   the index invariant in which neither the target nor a node is an aggregating reference type:
   there is a set D of deleted ids such that the target is in D, exactly the nodes in D are gone,
   exactly the references from or to an id in D are gone (forward map and inverse index), D is
   closed under "node aggregated by a node of" (an id that is not a node has no children: only its
   references are removed) and is the least such set. *)
Theorem C29_effect : forall st0 target b st',
  Inv (rs st0) ->
  (forall d, d = target \/ In d (nodes st0) -> tmA (fwd (rs st0)) d = false) ->
  delete st0 target true = Some (b, st') ->
  exists D,
    In target D /\ incl D (target :: nodes st0) /\
    nodes st' = filter (fun x => negb (memZ x D)) (nodes st0) /\
    Inv (rs st') /\
    (forall y r, In r (F (rs st') y) <-> In r (F (rs st0) y) /\ ~ In y D /\ ~ In (snd r) D) /\
    (forall d, In d D -> R (rs st') d = [] /\ forall y, ~ In d (R (rs st') y)) /\
    (forall x r, In x D -> In x (nodes st0) -> In r (F (rs st0) x) ->
                 tmA (fwd (rs st0)) (fst r) = true -> In (snd r) (nodes st0) -> In (snd r) D) /\
    (forall C, closedset st0 C -> In target C -> incl D C).
Proof. exact delete_effect. Qed.
Print Assumptions C29_effect.

(* The returned flag: the node existed, or (with delete_target_references) it had references. *)
Theorem C29_return_value : forall st n dtr b st', Inv (rs st) ->
  delete st n dtr = Some (b, st') ->
  (b = true <-> In n (nodes st) \/ (dtr = true /\ (F (rs st) n <> [] \/ R (rs st) n <> []))).
Proof. exact delete_returns. Qed.
Print Assumptions C29_return_value.

(* The check oracle holds of the model on every well-formed case: the run returns, and the surviving
   nodes and references are the ones computed by the specification (doomed set = reachability by
   rounds over aggregating references between nodes). *)
Theorem C29_oracle : forall c, valid c -> known c = 0 -> oracle c (run c) = true.
Proof. intros c Hv _. exact (oracle_holds c Hv). Qed.
Print Assumptions C29_oracle.

(* Before "fix: deleting a node recursed for ever on cycles of aggregating references": on two
   nodes that are components of each other the recursion exceeds every depth. *)
Theorem C29_legacy_refuted :
  valid cycle2 /\
  (forall k, Legacy.delete_fuel k true (st_of cycle2) (c_target cycle2) = None) /\
  oracle cycle2 (run cycle2) = true.
Proof. exact legacy_recursion_refuted. Qed.
Print Assumptions C29_legacy_refuted.

(* Before "fix: reference type matching looped for ever on a cycle of HasSubtype references". *)
Theorem C29_legacy_type_cycle_refuted :
  (forall k, Legacy.tm_loop k f_cycle 35 [44] = None) /\
  reference_type_matches_opt f_cycle 44 35 true = Some false.
Proof. exact legacy_type_cycle_refuted. Qed.
Print Assumptions C29_legacy_type_cycle_refuted.
