(* Round trip / limit law for the built-in types (everything except Variant and DataValue, which
   are in VariantProofs.v). *)
From Coq Require Import List ZArith Bool Lia.
Import ListNotations.
From OV Require Import C01.Codec C01.CodecProofs C01.Builtins.
Open Scope Z_scope.

Definition law {A} (m : M A) (e : bytes) (ck : option err) (n : A) : Prop :=
  forall rest, run m (e ++ rest) = match ck with None => Ok (n, rest) | Some er => Err er end.

(* ---- DateTime ------------------------------------------------------------------------------------ *)
Lemma I64MAX_val : I64MAX = 9223372036854775807. Proof. reflexivity. Qed.
Lemma in_i8 v : in_i 8 v <-> -9223372036854775808 <= v < 9223372036854775808.
Proof. unfold in_i. change (2 ^ (8 * Z.of_nat 8 - 1)) with 9223372036854775808. lia. Qed.
Lemma in_i8_e v : in_i 8 v -> -9223372036854775808 <= v < 9223372036854775808.
Proof. apply (proj1 (in_i8 v)). Qed.
Lemma in_i8_i v : -9223372036854775808 <= v < 9223372036854775808 -> in_i 8 v.
Proof. apply (proj2 (in_i8 v)). Qed.

Lemma run_dec_date t rest : in_i 8 t ->
  run (dec_date 0) (enc_date t ++ rest) = Ok (norm_date t, rest).
Proof.
  intros Ht. apply in_i8_e in Ht. unfold dec_date, enc_date, norm_date.
  rewrite run_bind.
  set (t' := if t <? 0 then 0 else if END_TICKS <? t then I64MAX else t).
  assert (Ht' : in_i 8 t').
  { apply in_i8_i. subst t'. rewrite I64MAX_val. unfold END_TICKS.
    destruct (Z.ltb_spec t 0); [lia|]. destruct (Z.ltb_spec 2650467743990000000 t); lia. }
  rewrite run_read_i by (try lia; exact Ht'). subst t'.
  rewrite I64MAX_val. unfold END_TICKS, CHRONO_MIN_NS, CHRONO_MAX_NS.
  destruct (Z.ltb_spec t 0).
  - cbn. reflexivity.
  - destruct (Z.ltb_spec 2650467743990000000 t).
    + cbn. reflexivity.
    + destruct (Z.eqb_spec t 9223372036854775807); [lia|].
      rewrite Z.sub_0_r, Z.div_mul by lia.
      destruct (Z.ltb_spec (t * 100) (-8322956841600000000000)); [lia|].
      destruct (Z.ltb_spec 8221911350399999999999 (t * 100)); [lia|]. reflexivity.
Qed.
Lemma enc_date_length t : length (enc_date t) = 8%nat. Proof. apply enc_i_length. Qed.

(* ---- NodeId --------------------------------------------------------------------------------------- *)
Definition nkind (n : nodeid) : Z :=
  match n with
  | NId ns (INum v) => if (ns =? 0) && (v <=? 255) then 0 else if (ns <=? 255) && (v <=? 65535) then 1 else 2
  | NId _ (IStr _) => 3 | NId _ (IGuid _) => 4 | NId _ (IBStr _) => 5
  end.
Definition nbody (n : nodeid) : bytes :=
  match n with
  | NId ns (INum v) =>
      if (ns =? 0) && (v <=? 255) then [v]
      else if (ns <=? 255) && (v <=? 65535) then [ns] ++ enc_u 2 v
      else enc_u 2 ns ++ enc_u 4 v
  | NId ns (IStr s) => enc_u 2 ns ++ enc_ustr s
  | NId ns (IGuid g) => enc_u 2 ns ++ g
  | NId ns (IBStr b) => enc_u 2 ns ++ enc_ustr b
  end.
Lemma enc_nodeid_flags_split f n : enc_nodeid_flags f n = (f + nkind n) :: nbody n.
Proof.
  destruct n as [ns [v|s|g|b]]; cbn [enc_nodeid_flags nkind nbody]; try reflexivity.
  destruct ((ns =? 0) && (v <=? 255)); [rewrite Z.add_0_r; reflexivity|].
  destruct ((ns <=? 255) && (v <=? 65535)); reflexivity.
Qed.
Lemma nkind_range n : 0 <= nkind n <= 5.
Proof.
  destruct n as [ns [v|s|g|b]]; cbn; try lia.
  destruct ((ns =? 0) && (v <=? 255)); [lia|]. destruct ((ns <=? 255) && (v <=? 65535)); lia.
Qed.

Lemma in_u_1 v : in_u 1 v <-> 0 <= v < 256. Proof. unfold in_u. cbn. lia. Qed.
Lemma in_u_2 v : in_u 2 v <-> 0 <= v < 65536. Proof. unfold in_u. cbn. lia. Qed.
Lemma in_u_4 v : in_u 4 v <-> 0 <= v < 4294967296. Proof. unfold in_u. cbn. lia. Qed.
Lemma in_u_1_e v : in_u 1 v -> 0 <= v < 256. Proof. apply (proj1 (in_u_1 v)). Qed.
Lemma in_u_1_i v : 0 <= v < 256 -> in_u 1 v. Proof. apply (proj2 (in_u_1 v)). Qed.
Lemma in_u_2_e v : in_u 2 v -> 0 <= v < 65536. Proof. apply (proj1 (in_u_2 v)). Qed.
Lemma in_u_2_i v : 0 <= v < 65536 -> in_u 2 v. Proof. apply (proj2 (in_u_2 v)). Qed.
Lemma in_u_4_e v : in_u 4 v -> 0 <= v < 4294967296. Proof. apply (proj1 (in_u_4 v)). Qed.
Lemma in_u_4_i v : 0 <= v < 4294967296 -> in_u 4 v. Proof. apply (proj2 (in_u_4 v)). Qed.

Lemma nb0 o : dec_nodeid_body o 0 = (v <- read_u 1 ;; ret (NId 0 (INum v))). Proof. reflexivity. Qed.
Lemma nb1 o : dec_nodeid_body o 1 = (ns <- read_u 1 ;; v <- read_u 2 ;; ret (NId ns (INum v))). Proof. reflexivity. Qed.
Lemma nb2 o : dec_nodeid_body o 2 = (ns <- read_u 2 ;; v <- read_u 4 ;; ret (NId ns (INum v))). Proof. reflexivity. Qed.
Lemma nb3 o : dec_nodeid_body o 3 = (ns <- read_u 2 ;; s <- dec_str o ;; ret (NId ns (IStr s))). Proof. reflexivity. Qed.
Lemma nb4 o : dec_nodeid_body o 4 = (ns <- read_u 2 ;; g <- take 16 ;; ret (NId ns (IGuid g))). Proof. reflexivity. Qed.
Lemma nb5 o : dec_nodeid_body o 5 = (ns <- read_u 2 ;; b <- dec_bstr o ;; ret (NId ns (IBStr b))). Proof. reflexivity. Qed.
Ltac nb := first [rewrite nb0 | rewrite nb1 | rewrite nb2 | rewrite nb3 | rewrite nb4 | rewrite nb5].

Lemma run_nodeid_body o n rest : wf_nodeid n ->
  run (dec_nodeid_body o (nkind n)) (nbody n ++ rest) =
  match chk_nodeid o n with None => Ok (n, rest) | Some e => Err e end.
Proof.
  intros Hw. destruct n as [ns [v|s|g|b]]; cbn [nkind nbody wf_nodeid chk_nodeid] in *.
  - destruct Hw as [Hns Hv]. apply in_u_2_e in Hns. apply in_u_4_e in Hv.
    destruct (Z.eqb_spec ns 0); cbn [andb].
    + destruct (Z.leb_spec v 255).
      * subst ns. nb. rewrite run_bind. cbn [app].
        rewrite run_read_byte by (unfold is_byte; lia). reflexivity.
      * destruct (Z.leb_spec ns 255); [|lia]. cbn [andb]. destruct (Z.leb_spec v 65535).
        -- nb. rewrite run_bind. cbn [app].
           rewrite run_read_byte by (unfold is_byte; lia).
           rewrite run_bind, run_read_u by (apply in_u_2_i; lia). reflexivity.
        -- nb. rewrite <- app_assoc, run_bind.
           rewrite run_read_u by (apply in_u_2_i; lia).
           rewrite run_bind, run_read_u by (apply in_u_4_i; lia). reflexivity.
    + destruct (Z.leb_spec ns 255); cbn [andb].
      * destruct (Z.leb_spec v 65535).
        -- nb. rewrite run_bind. cbn [app].
           rewrite run_read_byte by (unfold is_byte; lia).
           rewrite run_bind, run_read_u by (apply in_u_2_i; lia). reflexivity.
        -- nb. rewrite <- app_assoc, run_bind.
           rewrite run_read_u by (apply in_u_2_i; lia).
           rewrite run_bind, run_read_u by (apply in_u_4_i; lia). reflexivity.
      * nb. rewrite <- app_assoc, run_bind.
        rewrite run_read_u by (apply in_u_2_i; lia).
        rewrite run_bind, run_read_u by (apply in_u_4_i; lia). reflexivity.
  - destruct Hw as [Hns Hs]. nb.
    rewrite <- app_assoc, run_bind, run_read_u by exact Hns.
    rewrite run_bind, run_dec_str by exact Hs. destruct (chk_ustr (max_str o) s); reflexivity.
  - destruct Hw as [Hns [Hg Hl]]. nb.
    rewrite <- app_assoc, run_bind, run_read_u by exact Hns.
    rewrite run_bind, (run_take_n 16) by exact Hl. reflexivity.
  - destruct Hw as [Hns Hs]. nb.
    rewrite <- app_assoc, run_bind, run_read_u by exact Hns.
    rewrite run_bind, run_dec_bstr by exact Hs. destruct (chk_ustr (max_bstr o) b); reflexivity.
Qed.

Lemma run_dec_nodeid o n rest : wf_nodeid n ->
  run (dec_nodeid o) (enc_nodeid n ++ rest) =
  match chk_nodeid o n with None => Ok (n, rest) | Some e => Err e end.
Proof.
  intros Hw. unfold dec_nodeid, enc_nodeid. rewrite enc_nodeid_flags_split, run_bind. cbn [app].
  pose proof (nkind_range n). rewrite run_read_byte by (unfold is_byte; lia).
  rewrite Z.add_0_l. apply run_nodeid_body. exact Hw.
Qed.

Lemma nbody_length n : wf_nodeid n -> len_nodeid n = 1 + Z.of_nat (length (nbody n)).
Proof.
  intros Hw. destruct n as [ns [v|s|g|b]]; cbn [len_nodeid nbody wf_nodeid] in *.
  - destruct ((ns =? 0) && (v <=? 255)); [reflexivity|].
    destruct ((ns <=? 255) && (v <=? 65535)); [reflexivity|]. reflexivity.
  - rewrite app_length, enc_u_length, Nat2Z.inj_add, <- enc_ustr_length. lia.
  - destruct Hw as [_ [_ Hl]]. rewrite app_length, enc_u_length, Hl. reflexivity.
  - rewrite app_length, enc_u_length, Nat2Z.inj_add, <- enc_ustr_length. lia.
Qed.
Lemma nbody_bytes n : wf_nodeid n -> Forall is_byte (nbody n).
Proof.
  intros Hw. destruct n as [ns [v|s|g|b]]; cbn [nbody wf_nodeid] in *.
  - destruct Hw as [Hns Hv]. apply in_u_2_e in Hns. apply in_u_4_e in Hv.
    destruct (Z.eqb_spec ns 0); cbn [andb].
    + destruct (Z.leb_spec v 255); [repeat constructor; lia|].
      destruct (Z.leb_spec ns 255); cbn [andb].
      * destruct (Z.leb_spec v 65535); [constructor; [unfold is_byte; lia|apply enc_u_bytes]|].
        apply Forall_app. split; apply enc_u_bytes.
      * apply Forall_app. split; apply enc_u_bytes.
    + destruct (Z.leb_spec ns 255); cbn [andb].
      * destruct (Z.leb_spec v 65535); [constructor; [unfold is_byte; lia|apply enc_u_bytes]|].
        apply Forall_app. split; apply enc_u_bytes.
      * apply Forall_app. split; apply enc_u_bytes.
  - apply Forall_app. split; [apply enc_u_bytes|]. apply enc_ustr_bytes, wf_str_bytes, Hw.
  - apply Forall_app. split; [apply enc_u_bytes|]. apply Hw.
  - apply Forall_app. split; [apply enc_u_bytes|]. apply enc_ustr_bytes, wf_bstr_bytes, Hw.
Qed.
Lemma enc_nodeid_length n : wf_nodeid n -> len_nodeid n = Z.of_nat (length (enc_nodeid n)).
Proof.
  intros Hw. unfold enc_nodeid. rewrite enc_nodeid_flags_split, (nbody_length n Hw).
  cbn [length]. lia.
Qed.
Lemma enc_nodeid_bytes n : wf_nodeid n -> Forall is_byte (enc_nodeid n).
Proof.
  intros Hw. unfold enc_nodeid. rewrite enc_nodeid_flags_split. constructor; [|apply nbody_bytes, Hw].
  pose proof (nkind_range n). unfold is_byte. lia.
Qed.

(* ---- ExpandedNodeId --------------------------------------------------------------------------------- *)
Lemma expnid_flag_facts (u s : bool) k : 0 <= k <= 5 ->
  let b := bit u 7 + bit s 6 + k in
  is_byte b /\ b mod 16 = k /\ Z.testbit b 7 = u /\ Z.testbit b 6 = s.
Proof.
  intros Hk. assert (Hc : k = 0 \/ k = 1 \/ k = 2 \/ k = 3 \/ k = 4 \/ k = 5) by lia.
  destruct Hc as [-> | [-> | [-> | [-> | [-> | ->]]]]]; destruct u, s; cbn; unfold is_byte; repeat split; lia.
Qed.

Lemma run_dec_expnid o e rest : wf_expnid e ->
  run (dec_expnid o) (enc_expnid e ++ rest) =
  match chk_expnid o e with None => Ok (e, rest) | Some er => Err er end.
Proof.
  intros Hw. destruct e as [n uri srv]. destruct Hw as (Hn & Hu & Hs).
  unfold dec_expnid, enc_expnid, chk_expnid. rewrite enc_nodeid_flags_split.
  destruct (expnid_flag_facts (is_some uri) (negb (srv =? 0)) (nkind n) (nkind_range n))
    as (Hb & Hm & H7 & H6).
  rewrite run_bind. cbn [app]. rewrite run_read_byte by exact Hb.
  rewrite Hm, <- app_assoc, run_bind, run_nodeid_body by exact Hn.
  destruct (chk_nodeid o n); [reflexivity|]. cbn [seq_chk].
  rewrite H7, H6, run_bind. destruct uri as [u|]; cbn [is_some].
  - rewrite <- app_assoc, run_dec_str by exact Hu. destruct (chk_ustr (max_str o) (Some u)); [reflexivity|].
    rewrite run_bind. destruct (Z.eqb_spec srv 0); cbn [negb].
    + subst srv. reflexivity.
    + rewrite run_read_u by exact Hs. reflexivity.
  - cbn [app]. rewrite run_ret, run_bind. destruct (Z.eqb_spec srv 0); cbn [negb chk_ustr].
    + subst srv. reflexivity.
    + rewrite run_read_u by exact Hs. reflexivity.
Qed.

Lemma enc_expnid_length e : wf_expnid e -> len_expnid e = Z.of_nat (length (enc_expnid e)).
Proof.
  destruct e as [n uri srv]. intros (Hn & Hu & Hs). unfold len_expnid, enc_expnid.
  rewrite enc_nodeid_flags_split, (nbody_length n Hn). cbn [length app].
  rewrite !app_length, !Nat2Z.inj_succ, !Nat2Z.inj_add.
  destruct uri; cbn [is_some]; [rewrite <- enc_ustr_length|];
    destruct (srv =? 0); cbn [length]; rewrite ?enc_u_length; lia.
Qed.
Lemma enc_expnid_bytes e : wf_expnid e -> Forall is_byte (enc_expnid e).
Proof.
  destruct e as [n uri srv]. intros (Hn & Hu & Hs). unfold enc_expnid.
  rewrite enc_nodeid_flags_split.
  destruct (expnid_flag_facts (is_some uri) (negb (srv =? 0)) (nkind n) (nkind_range n)) as (Hb & _).
  cbn [app]. constructor; [exact Hb|]. apply Forall_app. split; [apply nbody_bytes, Hn|].
  apply Forall_app. split.
  - destruct uri; cbn [is_some]; [|constructor]. apply enc_ustr_bytes, (wf_str_bytes _ Hu).
  - destruct (srv =? 0); [constructor|apply enc_u_bytes].
Qed.

(* ---- LocalizedText ----------------------------------------------------------------------------------- *)
Lemma two_flag_facts (a b : bool) :
  let m := bit a 0 + bit b 1 in is_byte m /\ Z.testbit m 0 = a /\ Z.testbit m 1 = b.
Proof. destruct a, b; cbn; unfold is_byte; repeat split; lia. Qed.

Lemma wf_norm_part s : wf_str s -> wf_str (norm_part s).
Proof. unfold norm_part. destruct (nonempty s); [auto|]. intros _. exact I. Qed.
Lemma chk_norm_part_empty limit s : nonempty s = false -> chk_ustr limit (norm_part s) = None.
Proof. unfold norm_part. intros ->. reflexivity. Qed.

Lemma run_dec_ltext o loc txt rest : wf_str loc -> wf_str txt ->
  run (dec_ltext o) (enc_ltext loc txt ++ rest) =
  match seq_chk (chk_ustr (max_str o) (norm_part loc)) (chk_ustr (max_str o) (norm_part txt)) with
  | None => Ok (SLText (norm_part loc) (norm_part txt), rest)
  | Some e => Err e
  end.
Proof.
  intros Hl Ht. unfold dec_ltext, enc_ltext.
  destruct (two_flag_facts (nonempty loc) (nonempty txt)) as (Hb & H0 & H1).
  rewrite run_bind. cbn [app]. rewrite run_read_byte by exact Hb. rewrite H0, H1.
  unfold norm_part. rewrite run_bind. destruct (nonempty loc).
  - rewrite <- app_assoc, run_dec_str by exact Hl.
    destruct (chk_ustr (max_str o) loc); [reflexivity|]. cbn [seq_chk]. rewrite run_bind.
    destruct (nonempty txt).
    + rewrite run_dec_str by exact Ht. destruct (chk_ustr (max_str o) txt); reflexivity.
    + reflexivity.
  - cbn [app]. rewrite run_ret, run_bind. cbn [chk_ustr seq_chk]. destruct (nonempty txt).
    + rewrite run_dec_str by exact Ht. destruct (chk_ustr (max_str o) txt); reflexivity.
    + reflexivity.
Qed.
Lemma enc_ltext_length loc txt : len_ltext loc txt = Z.of_nat (length (enc_ltext loc txt)).
Proof.
  unfold len_ltext, enc_ltext. cbn [app length]. rewrite app_length, Nat2Z.inj_succ, Nat2Z.inj_add.
  destruct (nonempty loc), (nonempty txt); rewrite <- ?enc_ustr_length; cbn [length]; lia.
Qed.
Lemma enc_ltext_bytes loc txt : wf_str loc -> wf_str txt -> Forall is_byte (enc_ltext loc txt).
Proof.
  intros Hl Ht. unfold enc_ltext. destruct (two_flag_facts (nonempty loc) (nonempty txt)) as (Hb & _).
  cbn [app]. constructor; [exact Hb|]. apply Forall_app.
  split; [destruct (nonempty loc)|destruct (nonempty txt)]; try constructor;
    apply enc_ustr_bytes, wf_str_bytes; assumption.
Qed.

(* ---- ExtensionObject ---------------------------------------------------------------------------------- *)
Lemma run_dec_ext o d n b rest : wf_nodeid n -> wf_eobody b ->
  run (dec_ext o d) (enc_ext n b ++ rest) =
  match (match d with O => Some EDepth | S _ => seq_chk (chk_nodeid o n) (chk_eobody o b) end) with
  | None => Ok (SExt n b, rest)
  | Some e => Err e
  end.
Proof.
  intros Hn Hb. unfold dec_ext, enc_ext. rewrite run_lock. destruct d; [reflexivity|].
  rewrite <- app_assoc, run_bind, run_dec_nodeid by exact Hn.
  destruct (chk_nodeid o n); [reflexivity|]. cbn [seq_chk]. rewrite run_bind.
  destruct b as [|bs|s]; cbn [app chk_eobody wf_eobody] in *;
    rewrite run_read_byte by (unfold is_byte; lia); cbn [Z.eqb Pos.eqb].
  - reflexivity.
  - rewrite run_bind, run_dec_bstr by exact Hb. destruct (chk_ustr (max_bstr o) bs); reflexivity.
  - rewrite run_bind, run_dec_str by exact Hb. destruct (chk_ustr (max_str o) s); reflexivity.
Qed.
Lemma enc_ext_length n b : wf_nodeid n -> len_ext n b = Z.of_nat (length (enc_ext n b)).
Proof.
  intros Hn. unfold len_ext, enc_ext. rewrite app_length, Nat2Z.inj_add, <- enc_nodeid_length by exact Hn.
  destruct b; cbn [length]; rewrite ?Nat2Z.inj_succ, <- ?enc_ustr_length; lia.
Qed.
Lemma enc_ext_bytes n b : wf_nodeid n -> wf_eobody b -> Forall is_byte (enc_ext n b).
Proof.
  intros Hn Hb. unfold enc_ext. apply Forall_app. split; [apply enc_nodeid_bytes, Hn|].
  destruct b; cbn [wf_eobody] in Hb; constructor; try (unfold is_byte; lia); try constructor.
  - apply enc_ustr_bytes, wf_bstr_bytes, Hb.
  - apply enc_ustr_bytes, wf_str_bytes, Hb.
Qed.

(* ---- optional fields ------------------------------------------------------------------------------------ *)
Lemma run_dec_opt {A} (m : M A) (f : A -> bytes) (x : option A) rest (ck : option err) :
  (forall a, x = Some a -> run m (f a ++ rest) = match ck with None => Ok (a, rest) | Some e => Err e end) ->
  (x = None -> ck = None) ->
  run (dec_opt (is_some x) m) (enc_opt f x ++ rest) =
  match ck with None => Ok (x, rest) | Some e => Err e end.
Proof.
  intros Hs Hn. destruct x as [a|]; cbn [is_some dec_opt enc_opt].
  - rewrite run_bind, (Hs a eq_refl). destruct ck; reflexivity.
  - rewrite (Hn eq_refl). reflexivity.
Qed.

(* ---- DiagnosticInfo --------------------------------------------------------------------------------------- *)
Lemma seven_flag_facts (b0 b1 b2 b3 b4 b5 b6 : bool) :
  let m := bit b0 0 + bit b1 1 + bit b2 2 + bit b3 3 + bit b4 4 + bit b5 5 + bit b6 6 in
  is_byte m /\ Z.testbit m 0 = b0 /\ Z.testbit m 1 = b1 /\ Z.testbit m 2 = b2 /\ Z.testbit m 3 = b3
  /\ Z.testbit m 4 = b4 /\ Z.testbit m 5 = b5 /\ Z.testbit m 6 = b6.
Proof.
  destruct b0, b1, b2, b3, b4, b5, b6; cbn; unfold is_byte; repeat split; lia.
Qed.

Lemma in_i_4 v : in_i 4 v <-> -2147483648 <= v < 2147483648.
Proof. unfold in_i. cbn. lia. Qed.

Lemma run_opt_i32 x rest : wf_oi32 x ->
  run (dec_opt (is_some x) (read_i 4)) (enc_opt (enc_i 4) x ++ rest) = Ok (x, rest).
Proof.
  intros Hx. apply (run_dec_opt (read_i 4) (enc_i 4) x rest None); [|reflexivity].
  intros a ->. apply run_read_i; [lia|exact Hx].
Qed.

Lemma run_dec_diag o : forall d x rest, wf_diag x ->
  run (dec_diag o d) (enc_diag x ++ rest) =
  match chk_diag o d x with None => Ok (x, rest) | Some e => Err e end.
Proof.
  induction d as [|d IH]; intros x rest Hw; [reflexivity|].
  destruct x as [sym ns loc ltxt info status inner].
  cbn [wf_diag] in Hw. destruct Hw as (H1 & H2 & H3 & H4 & H5 & H6 & H7).
  cbn [dec_diag enc_diag chk_diag]. rewrite run_bump.
  destruct (seven_flag_facts (is_some sym) (is_some ns) (is_some ltxt) (is_some loc) (is_some info)
              (is_some status) (is_some inner)) as (Hb & T0 & T1 & T2 & T3 & T4 & T5 & T6).
  rewrite run_bind. cbn [app]. rewrite run_read_byte by exact Hb.
  rewrite T0, T1, T2, T3, T4, T5, T6.
  rewrite <- !app_assoc.
  rewrite run_bind, run_opt_i32 by exact H1.
  rewrite run_bind, run_opt_i32 by exact H2.
  rewrite run_bind, run_opt_i32 by exact H3.
  rewrite run_bind, run_opt_i32 by exact H4.
  rewrite run_bind.
  rewrite (run_dec_opt (dec_str o) enc_ustr info _
             (match info with Some s => chk_ustr (max_str o) s | None => None end)).
  2:{ intros a ->. apply run_dec_str. exact H5. }
  2:{ intros ->. reflexivity. }
  destruct (match info with Some s => chk_ustr (max_str o) s | None => None end); [reflexivity|].
  cbn [seq_chk]. rewrite run_bind.
  rewrite (run_dec_opt (read_u 4) (enc_u 4) status _ None).
  2:{ intros a ->. apply run_read_u. exact H6. }
  2:{ reflexivity. }
  rewrite run_bind. destruct inner as [y|]; cbn [is_some dec_opt].
  - rewrite run_bind, IH by exact H7. destruct (chk_diag o d y); reflexivity.
  - reflexivity.
Qed.

Lemma olen_enc_opt {A} (f : A -> bytes) (g : A -> Z) x :
  (forall a, x = Some a -> g a = Z.of_nat (length (f a))) -> olen g x = Z.of_nat (length (enc_opt f x)).
Proof. destruct x; cbn; intros H; [apply H; reflexivity|reflexivity]. Qed.

Lemma diag_ind' (P : diag -> Prop)
  (H : forall a b c e f g h, match h with Some y => P y | None => True end -> P (Diag a b c e f g h)) :
  forall x, P x.
Proof. fix F 1. intros [a b c e f g h]. apply H. destruct h as [y|]; [apply F|exact I]. Qed.

Lemma enc_diag_length x : wf_diag x -> len_diag x = Z.of_nat (length (enc_diag x)).
Proof.
  induction x as [sym ns loc ltxt info status inner IH] using diag_ind'. intros Hw.
  cbn [wf_diag] in Hw. destruct Hw as (H1 & H2 & H3 & H4 & H5 & H6 & H7).
  cbn [len_diag enc_diag]. cbn [app length]. rewrite !app_length, Nat2Z.inj_succ, !Nat2Z.inj_add.
  rewrite <- !(olen_enc_opt (enc_i 4) (fun _ => 4)) by (intros; rewrite enc_i_length; reflexivity).
  rewrite <- (olen_enc_opt enc_ustr len_ustr) by (intros; apply enc_ustr_length).
  rewrite <- (olen_enc_opt (enc_u 4) (fun _ => 4)) by (intros; rewrite enc_u_length; reflexivity).
  destruct inner as [y|]; [rewrite <- (IH H7)|cbn [length]]; lia.
Qed.

Lemma enc_opt_bytes {A} (f : A -> bytes) x :
  (forall a, x = Some a -> Forall is_byte (f a)) -> Forall is_byte (enc_opt f x).
Proof. destruct x; cbn; intros H; [apply H; reflexivity|constructor]. Qed.

Lemma enc_diag_bytes x : wf_diag x -> Forall is_byte (enc_diag x).
Proof.
  induction x as [sym ns loc ltxt info status inner IH] using diag_ind'. intros Hw.
  cbn [wf_diag] in Hw. destruct Hw as (H1 & H2 & H3 & H4 & H5 & H6 & H7).
  cbn [enc_diag].
  destruct (seven_flag_facts (is_some sym) (is_some ns) (is_some ltxt) (is_some loc) (is_some info)
              (is_some status) (is_some inner)) as (Hb & _).
  cbn [app]. constructor; [exact Hb|].
  repeat (apply Forall_app; split); try (apply enc_opt_bytes; intros; apply enc_i_bytes).
  - apply enc_opt_bytes. intros a ->. apply enc_ustr_bytes, wf_str_bytes, H5.
  - apply enc_opt_bytes. intros; apply enc_u_bytes.
  - destruct inner; [apply IH, H7|constructor].
Qed.
