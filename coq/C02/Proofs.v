(* C02 — totality, depth and allocation bounds of the decoders. *)
From Coq Require Import List ZArith Bool Lia.
Import ListNotations.
From OV Require Import C01.Codec C01.CodecProofs C01.Builtins C01.Types.
Open Scope Z_scope.

(* the code before the fix: the recursion depth of DiagnosticInfo::decode grows with the input *)
Lemma legacy_diag_depth o n :
  st_depth (snd (Legacy.dec_diag o (S n) (repeat 64 n ++ [0]))) = Z.of_nat n + 1.
Proof.
  induction n as [|n IH].
  - reflexivity.
  - change (repeat 64 (S n) ++ [0]) with (64 :: (repeat 64 n ++ [0])).
    remember (S n) as k. cbn [Legacy.dec_diag]. subst k.
    unfold bump, bind at 1. unfold read_u, bind at 1, take. cbn [length Nat.ltb Nat.leb firstn skipn].
    cbn [ret le_dec]. cbn [Z.testbit Z.add Z.mul Pos.add Pos.mul Z.testbit Pos.testbit Z.pos_sub].
Abort.
