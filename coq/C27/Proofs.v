(* C27 — proofs.  The scheduling theorems are proved for Subscriptions::tick with ANY
   per-subscription tick function that keeps a subscription's id and priority ([stick], a
   section variable); they are then instantiated with the model of Subscription::tick. *)
From Coq Require Import List ZArith Bool Lia Permutation Sorted.
Import ListNotations.
From OV Require Import C21.SysLemmas C27.Model.
Open Scope Z_scope.

(* ----------------------------------------------------------------- lists of priorities *)
Lemma ni_cons2 a b l : non_increasing (a :: b :: l) = (b <=? a) && non_increasing (b :: l).
Proof. reflexivity. Qed.
Lemma tr_cons2 a b l :
  two_runs (a :: b :: l) = if b <=? a then two_runs (b :: l) else non_increasing (b :: l).
Proof. reflexivity. Qed.

Lemma non_increasing_app a b :
  non_increasing a = true -> non_increasing b = true ->
  (forall x y, In x a -> In y b -> y <= x) -> non_increasing (a ++ b) = true.
Proof.
  induction a as [|x a IH]; intros Ha Hb Hab; [exact Hb|].
  destruct a as [|x' a'].
  - cbn [app]. destruct b as [|y b']; [reflexivity|].
    rewrite ni_cons2, Hb.
    assert (y <= x) by (apply Hab; left; reflexivity).
    destruct (Z.leb_spec y x); [reflexivity|lia].
  - rewrite ni_cons2 in Ha. apply andb_true_iff in Ha as [H1 H2].
    change ((x :: x' :: a') ++ b) with (x :: x' :: (a' ++ b)). rewrite ni_cons2, H1. cbn [andb].
    apply (IH H2 Hb). intros u v Hu Hv. apply Hab; [right; exact Hu | exact Hv].
Qed.

Lemma non_increasing_const x l : (forall y, In y l -> y = x) -> non_increasing l = true.
Proof.
  induction l as [|a l IH]; intros H; [reflexivity|].
  destruct l as [|b l']; [reflexivity|].
  rewrite ni_cons2, IH by (intros y Hy; apply H; right; exact Hy).
  rewrite (H a) by (left; reflexivity). rewrite (H b) by (right; left; reflexivity).
  rewrite Z.leb_refl. reflexivity.
Qed.

Lemma two_runs_of_non_increasing l : non_increasing l = true -> two_runs l = true.
Proof.
  induction l as [|a l IH]; [reflexivity|]. destruct l as [|b l']; [reflexivity|].
  rewrite ni_cons2, tr_cons2. intros H. apply andb_true_iff in H as [H1 H2].
  rewrite H1. apply IH. exact H2.
Qed.

Lemma two_runs_app a b :
  non_increasing a = true -> non_increasing b = true -> two_runs (a ++ b) = true.
Proof.
  induction a as [|x a IH]; intros Ha Hb; [apply two_runs_of_non_increasing; exact Hb|].
  destruct a as [|x' a'].
  - cbn [app]. destruct b as [|y b']; [reflexivity|]. rewrite tr_cons2.
    destruct (y <=? x); [apply two_runs_of_non_increasing; exact Hb | exact Hb].
  - rewrite ni_cons2 in Ha. apply andb_true_iff in Ha as [H1 H2].
    change ((x :: x' :: a') ++ b) with (x :: x' :: (a' ++ b)). rewrite tr_cons2, H1.
    apply (IH H2 Hb).
Qed.

(* ------------------------------------------------------------- the stable priority sort *)
Definition desc (a b : Z * Z) : Prop := snd b <= snd a.

Lemma ins_prio_sorted x l : StronglySorted desc l -> StronglySorted desc (ins_prio x l).
Proof.
  induction l as [|y r IH]; intros Hs; cbn [ins_prio].
  - constructor; constructor.
  - inversion Hs as [|y' r' Hr Hall]; subst.
    destruct (Z.ltb_spec (snd x) (snd y)) as [Hlt|Hge].
    + constructor; [apply IH; exact Hr|].
      eapply Permutation_Forall; [symmetry; apply ins_prio_perm|].
      constructor; [unfold desc; lia | exact Hall].
    + constructor; [exact Hs|].
      constructor; [unfold desc; lia|].
      eapply Forall_impl; [|exact Hall]. unfold desc. intros a Ha. lia.
Qed.

Lemma sorted_pairs_sorted subs : StronglySorted desc (sorted_pairs subs).
Proof.
  unfold sorted_pairs. induction subs as [|s r IH]; cbn [map fold_right]; [constructor|].
  apply ins_prio_sorted. exact IH.
Qed.

Lemma prio_order_sorted (P : Z -> Z) subs :
  (forall s, In s subs -> s_prio s = P (s_id s)) ->
  StronglySorted (fun a b => P b <= P a) (prio_order subs).
Proof.
  intros HP. unfold prio_order. fold (sorted_pairs subs).
  assert (Hall : Forall (fun e => snd e = P (fst e)) (sorted_pairs subs)).
  { eapply Permutation_Forall; [symmetry; apply sorted_pairs_perm|].
    apply Forall_forall. intros e He. apply in_map_iff in He as (s & E & Hs). subst e.
    cbn [fst snd]. apply HP. exact Hs. }
  pose proof (sorted_pairs_sorted subs) as Hs.
  induction Hs as [|e l Hl IH Hfa]; cbn [map]; [constructor|].
  inversion Hall as [|e' l' He Hl']; subst.
  constructor; [apply IH; exact Hl'|].
  apply Forall_forall. intros i Hi. apply in_map_iff in Hi as (e' & E & He'). subst i.
  rewrite Forall_forall in Hfa, Hl'. specialize (Hfa e' He'). unfold desc in Hfa.
  rewrite <- (Hl' e' He'), <- He. exact Hfa.
Qed.

(* pair_up_spec, tick_ids_cons, tick_ids_no_reqs, after_step*, tick_ids_frame, tick_ids_subs:
   see C21/SysLemmas.v (shared with C21) *)
Lemma transmit_subs : forall tx rt, resp_subs (snd (transmit tx rt)) = tx_ids tx.
Proof.
  induction tx as [|[[id q] m] r IH]; intros rt; [reflexivity|].
  cbn [transmit]. destruct (transmit r _) as [rt2 rs] eqn:E. cbn [snd resp_subs flat_map tx_ids map fst app].
  f_equal. specialize (IH (rt_insert (id, m_seq m) m rt)). rewrite E in IH. exact IH.
Qed.

Section Scheduling.
Variable stick : sub -> list Z -> Z -> bool -> bool -> option sub.
Hypothesis stick_static : forall s vars now timer rq s',
  stick s vars now timer rq = Some s' -> s_id s' = s_id s /\ s_prio s' = s_prio s.
Variables (vars : list Z) (now : Z) (timer : bool).

(* the scheduling theorem for one round: the subscriptions are visited in the order [idl],
   which is sorted by non-increasing priority P *)
Lemma tick_ids_prio (P : Z -> Z) : forall idl subs reqs subs' reqs' tx,
  StronglySorted (fun a b => P b <= P a) idl -> NoDup idl -> NoDup (ids subs) ->
  tick_ids_g stick idl subs reqs vars now timer = Some (subs', reqs', tx) ->
  (forall i, In i (tx_ids tx) -> In i idl) /\
  non_increasing (map P (tx_ids tx)) = true /\
  (forall i s', In i (tx_ids tx) -> In s' subs' -> In (s_id s') idl -> P i < P (s_id s') ->
                s_notifs s' = []).
Proof.
  induction idl as [|id r IH]; intros subs reqs subs' reqs' tx Hsort Hnd Hnds H.
  - cbn in H. inversion H; subst. repeat split; [intros i []|intros i s' []].
  - inversion Hsort as [|a l Hsr Hall]; subst. inversion Hnd as [|a l Hnotin Hndr]; subst.
    apply tick_ids_cons in H as (s & s1 & tx1 & reqs1 & ns & tx2 & Hf & Hs & Hp & Hr & ->).
    pose proof (stick_static _ _ _ _ _ _ Hs) as [Hid Hpr].
    pose proof (find_sub_some _ _ _ Hf) as [Hin Hsid].
    fold (after_step id s1 ns subs) in Hr.
    pose proof (after_step_nodup id s1 ns subs Hnds) as Hnd1.
    destruct (IH _ _ _ _ _ Hsr Hndr Hnd1 Hr) as (A & B & C).
    destruct (pair_up_spec _ _ _ _ _ _ Hp) as (P1 & P2 & P3).
    rewrite Forall_forall in Hall.
    unfold tx_ids in *. rewrite map_app. repeat split.
    + intros i Hi. apply in_app_iff in Hi as [Hi|Hi]; [left; symmetry; apply P1; exact Hi | right; apply A; exact Hi].
    + rewrite map_app. apply non_increasing_app.
      * apply (non_increasing_const (P id)). intros y Hy. apply in_map_iff in Hy as (i & <- & Hi).
        f_equal. apply P1. exact Hi.
      * exact B.
      * intros x y Hx Hy. apply in_map_iff in Hx as (i & <- & Hi). apply in_map_iff in Hy as (j & <- & Hj).
        rewrite (P1 i Hi). apply Hall. apply A. exact Hj.
    + intros i s' Hi Hs' Hidl Hlt. apply in_app_iff in Hi as [Hi|Hi].
      * (* answered subscription is the head: every other id of the order has priority <= *)
        rewrite (P1 i Hi) in Hlt. destruct Hidl as [E|Hidl]; [rewrite <- E in Hlt; lia|].
        specialize (Hall _ Hidl). cbn in Hall. lia.
      * destruct Hidl as [E|Hidl]; [|apply (C i s' Hi Hs' Hidl Hlt)].
        (* the head subscription was visited before [i] was answered: requests were left
           after its turn, so its queue was drained, and nobody touched it afterwards *)
        assert (Hreq : reqs1 <> []).
        { intros ->. apply tick_ids_no_reqs in Hr as [-> _]. destruct Hi. }
        specialize (P2 Hreq). subst ns.
        pose proof (tick_ids_subs stick stick_static _ _ _ _ _ _ _ _ _ Hr) as (N1 & _ & _).
        pose proof (find_sub_in subs' s' (N1 Hnd1) Hs') as Hfs'.
        rewrite <- E in Hfs'.
        rewrite (tick_ids_frame stick stick_static _ _ _ _ _ _ _ _ _ id Hr Hnotin) in Hfs'.
        unfold after_step in Hfs'. destruct (_ && _).
        -- rewrite find_remove_same in Hfs' by exact Hnds. discriminate.
        -- assert (Hid2 : s_id (set_notifs s1 []) = id) by (cbn; congruence).
           rewrite <- Hid2 in Hfs' at 1. rewrite find_replace_same in Hfs'.
           ++ inversion Hfs'. reflexivity.
           ++ rewrite Hid2. unfold ids. rewrite <- Hsid. apply in_map. exact Hin.
Qed.

End Scheduling.

(* Subscriptions::tick as a whole *)
Section Rounds.
Variable stick : sub -> list Z -> Z -> bool -> bool -> option sub.
Hypothesis stick_static : forall s vars now timer rq s',
  stick s vars now timer rq = Some s' -> s_id s' = s_id s /\ s_prio s' = s_prio s.

Lemma sys_tick_prio (P : Z -> Z) y timer y' rs :
  NoDup (ids (y_subs y)) -> (forall s, In s (y_subs y) -> s_prio s = P (s_id s)) ->
  sys_tick_g prio_order stick y timer = Some (y', rs) ->
  non_increasing (map P (resp_subs rs)) = true /\
  (forall i s', In i (resp_subs rs) -> In s' (y_subs y') -> P i < P (s_id s') -> s_notifs s' = []) /\
  NoDup (ids (y_subs y')) /\ y_nextsub y' = y_nextsub y /\
  (forall s', In s' (y_subs y') -> exists s, In s (y_subs y) /\ s_id s' = s_id s /\ s_prio s' = s_prio s).
Proof.
  intros Hnd HP. unfold sys_tick_g, bind.
  destruct (tick_ids_g stick _ _ _ _ _ _) as [[[subs reqs] tx]|] eqn:E; [|discriminate].
  destruct (transmit tx (y_retrans y)) as [rt rs'] eqn:Et. intros H; inversion H; subst. clear H.
  cbn [y_subs y_nextsub set_retrans set_reqs set_subs].
  pose proof (transmit_subs tx (y_retrans y)) as Hrs. rewrite Et in Hrs. cbn [snd] in Hrs. rewrite Hrs.
  pose proof (prio_order_perm (y_subs y)) as Hperm.
  assert (Hnd' : NoDup (prio_order (y_subs y))).
  { eapply Permutation_NoDup; [symmetry; exact Hperm | exact Hnd]. }
  destruct (tick_ids_prio stick stick_static _ _ _ P _ _ _ _ _ _
              (prio_order_sorted P _ HP) Hnd' Hnd E) as (A & B & C).
  destruct (tick_ids_subs stick stick_static _ _ _ _ _ _ _ _ _ E) as (N1 & N2 & N3).
  repeat split; auto.
  intros i s' Hi Hs' Hlt. apply (C i s' Hi Hs'); [|exact Hlt].
  eapply Permutation_in; [symmetry; exact Hperm|]. apply N2. unfold ids. apply in_map. exact Hs'.
Qed.
End Rounds.

Lemma sub_tick_keeps s vars now timer rq s' :
  sub_tick s vars now timer rq = Some s' -> s_id s' = s_id s /\ s_prio s' = s_prio s.
Proof. intros H. apply sub_tick_static in H. destruct H as (H1 & H2 & _). auto. Qed.

(* --------------------------------------------------------------- invariant of a history *)
(* set_nth (C21/Sys.v) *)
Lemma set_nth_length {A} (x : A) : forall n l, length (set_nth n x l) = length l.
Proof.
  induction n as [|n IH]; intros [|a l]; cbn [set_nth length]; try reflexivity.
  rewrite IH. reflexivity.
Qed.
Lemma nth_set_nth_same {A} (x d : A) : forall n l, (n < length l)%nat -> nth n (set_nth n x l) d = x.
Proof.
  induction n as [|n IH]; intros [|a l] H; cbn [length] in H; try lia; cbn [set_nth nth]; [reflexivity|].
  apply IH. lia.
Qed.
Lemma nth_set_nth_other {A} (x d : A) : forall n m l, n <> m -> nth m (set_nth n x l) d = nth m l d.
Proof.
  induction n as [|n IH]; intros m [|a l] H; cbn [set_nth]; try reflexivity.
  - destruct m; [congruence | reflexivity].
  - destruct m; [reflexivity|]. cbn [nth]. apply IH. congruence.
Qed.

Lemma prios_after_snoc pre h : prios_after (pre ++ [h]) = prio_step (prios_after pre) h.
Proof. unfold prios_after. rewrite fold_left_app. reflexivity. Qed.

(* the state y agrees with the requested priorities ps *)
Definition Inv (ps : list Z) (y : sys) : Prop :=
  NoDup (ids (y_subs y)) /\
  y_nextsub y = 1 + len ps /\
  (forall s, In s (y_subs y) -> 1 <= s_id s < y_nextsub y /\ s_prio s = pr ps (s_id s)).

(* a system change that keeps next id and only keeps / drops / statically-equal-replaces subs *)
Definition sub_step (y y' : sys) : Prop :=
  (NoDup (ids (y_subs y)) -> NoDup (ids (y_subs y'))) /\ y_nextsub y' = y_nextsub y /\
  (forall s', In s' (y_subs y') -> exists s, In s (y_subs y) /\ s_id s' = s_id s /\ s_prio s' = s_prio s).

Lemma sub_step_refl y : sub_step y y.
Proof. repeat split; auto. intros s' H. exists s'. auto. Qed.

Lemma sub_step_eq y y' : y_subs y' = y_subs y -> y_nextsub y' = y_nextsub y -> sub_step y y'.
Proof. intros E1 E2. unfold sub_step. rewrite E1, E2. repeat split; auto. intros s' H. exists s'. auto. Qed.

Lemma sub_step_trans a b c : sub_step a b -> sub_step b c -> sub_step a c.
Proof.
  intros (A1 & A2 & A3) (B1 & B2 & B3). repeat split; [auto | congruence |].
  intros s' Hs'. destruct (B3 s' Hs') as (s1 & H1 & E1 & E2). destruct (A3 s1 H1) as (s0 & H0 & F1 & F2).
  exists s0. repeat split; [exact H0 | congruence | congruence].
Qed.

Lemma Inv_sub_step ps y y' : Inv ps y -> sub_step y y' -> Inv ps y'.
Proof.
  intros (I1 & I2 & I3) (S1 & S2 & S3). unfold Inv.
  split; [auto|]. split; [congruence|].
  intros s H. destruct (S3 s H) as (s0 & H0 & E1 & E2). destruct (I3 s0 H0) as (J1 & J2).
  rewrite S2, E1, E2. split; [lia | exact J2].
Qed.

Lemma sub_step_only_subs y subs :
  (NoDup (ids (y_subs y)) -> NoDup (ids subs)) ->
  (forall s', In s' subs -> exists s, In s (y_subs y) /\ s_id s' = s_id s /\ s_prio s' = s_prio s) ->
  sub_step y (set_subs y subs).
Proof. intros H1 H2. repeat split; assumption. Qed.

Lemma replace_sub_step y s s' :
  find_sub (s_id s) (y_subs y) = Some s -> s_id s' = s_id s -> s_prio s' = s_prio s ->
  sub_step y (set_subs y (replace_sub s' (y_subs y))).
Proof.
  intros Hf E1 E2. apply sub_step_only_subs.
  - rewrite ids_replace. auto.
  - intros x Hx. apply in_replace_sub in Hx as [->|Hx].
    + exists s. apply find_sub_some in Hf as [Hin _]. auto.
    + exists x. auto.
Qed.

Lemma remove_sub_step y id : sub_step y (set_subs y (remove_sub id (y_subs y))).
Proof.
  apply sub_step_only_subs; [apply nodup_remove|].
  intros x Hx. exists x. split; [eapply in_remove_sub; exact Hx | auto].
Qed.

Lemma sys_tick_sub_step y timer y' rs : sys_tick y timer = Some (y', rs) -> sub_step y y'.
Proof.
  unfold sys_tick, sys_tick_g, bind.
  destruct (tick_ids_g sub_tick _ _ _ _ _ _) as [[[subs reqs] tx]|] eqn:E; [|discriminate].
  destruct (transmit tx (y_retrans y)) as [rt rs'] eqn:Et. intros H; inversion H; subst.
  destruct (tick_ids_subs sub_tick sub_tick_keeps _ _ _ _ _ _ _ _ _ E) as (N1 & N2 & N3).
  repeat split; assumption.
Qed.

Lemma expire_sub_step y : sub_step y (fst (expire y)).
Proof. apply sub_step_eq; reflexivity. Qed.

(* ------------------------------------------------------------ the oracle on one operation *)
Lemma none_starved_intro ps answered (subs : list sub) :
  (forall i s', In i answered -> In s' subs -> pr ps i < pr ps (s_id s') -> s_notifs s' = []) ->
  none_starved ps answered (map (fun s => (s_id s, s_state s, len (s_notifs s))) subs) = true.
Proof.
  intros H. unfold none_starved. apply forallb_forall. intros i Hi. apply forallb_forall.
  intros t Ht. apply in_map_iff in Ht as (s' & <- & Hs').
  destruct (Z.ltb_spec (pr ps i) (pr ps (s_id s'))) as [Hlt|Hge]; [|reflexivity].
  rewrite (H i s' Hi Hs' Hlt). reflexivity.
Qed.

Lemma resp_subs_app a b : resp_subs (a ++ b) = resp_subs a ++ resp_subs b.
Proof. unfold resp_subs. apply flat_map_app. Qed.

Lemma resp_subs_faults (f : req -> resp) l :
  (forall q, exists rid st, f q = RFault rid st) -> resp_subs (map f l) = [].
Proof.
  intros Hf. induction l as [|q l IH]; [reflexivity|]. cbn [map resp_subs flat_map].
  destruct (Hf q) as (rid & st & ->). exact IH.
Qed.

Lemma expire_subs y : resp_subs (snd (expire y)) = [].
Proof. unfold expire. cbn [snd]. apply resp_subs_faults. intros q. eauto. Qed.

Lemma tick_round ps y timer y' rs :
  NoDup (ids (y_subs y)) -> (forall s, In s (y_subs y) -> s_prio s = pr ps (s_id s)) ->
  sys_tick y timer = Some (y', rs) ->
  non_increasing (map (pr ps) (resp_subs rs)) = true /\
  none_starved ps (resp_subs rs) (sn_subs (snapshot y')) = true.
Proof.
  intros Hnd HP H.
  destruct (sys_tick_prio sub_tick sub_tick_keeps (pr ps) _ _ _ _ Hnd HP H) as (A & B & _).
  split; [exact A|]. unfold snapshot. cbn [sn_subs]. apply none_starved_intro. exact B.
Qed.

Lemma NoDup_app_intro_single {A} (l : list A) x : NoDup l -> ~ In x l -> NoDup (l ++ [x]).
Proof.
  intros Hl Hx. eapply Permutation_NoDup; [apply Permutation_cons_append|]. constructor; assumption.
Qed.

(* the operations of C21/Sys.v *)
Lemma step_ok ps o y opix y1 st m rs :
  Inv ps y -> step y opix o = Some (y1, st, m, rs) ->
  Inv (prio_step ps (HOp o)) y1 /\
  check_op (prio_step ps (HOp o)) (HOp o) (snapshot y) (mk_opres st m rs (snapshot y1)) = true.
Proof.
  intros HI Hstep. pose proof HI as (I1 & I2 & I3).
  assert (HP : forall s, In s (y_subs y) -> s_prio s = pr ps (s_id s)) by (intros s Hs; apply I3; exact Hs).
  unfold step, step_g in Hstep. destruct o; unfold check_op; cbn [prio_step o_resps o_snap].
  - (* OWrite *)
    destruct (_ || _); inversion Hstep; subst; (split; [|reflexivity]);
    (eapply Inv_sub_step; [exact HI | (apply sub_step_eq; reflexivity)]).
  - (* OTick *)
    destruct (expire (set_now y (y_now y + dt))) as [ye rs1] eqn:Ee. unfold bind in Hstep.
    destruct (sys_tick ye true) as [[y2 rs2]|] eqn:Et; [|discriminate].
    cbn [fst snd] in Hstep. injection Hstep as <- <- <- <-.
    assert (Hye : y_subs ye = y_subs y /\ y_nextsub ye = y_nextsub y).
    { unfold expire in Ee. inversion Ee. split; reflexivity. }
    destruct Hye as [Hs Hn].
    assert (Hrs1 : resp_subs rs1 = []).
    { pose proof (expire_subs (set_now y (y_now y + dt))) as H. rewrite Ee in H. exact H. }
    split.
    + eapply Inv_sub_step; [exact HI |].
      apply sys_tick_sub_step in Et. destruct Et as (T1 & T2 & T3). rewrite Hs, Hn in *.
      repeat split; assumption.
    + rewrite resp_subs_app, Hrs1. cbn [app]. apply andb_true_iff.
      apply (tick_round ps ye true y2 rs2); [rewrite Hs; exact I1 | rewrite Hs; exact HP | exact Et].
  - (* OPublish *)
    unfold publish_g in Hstep. unfold bind in Hstep. cbn [y_subs y_reqs set_now set_nextrid y_nextrid] in Hstep.
    set (y0 := set_nextrid (set_now y (y_now y + dt)) (y_nextrid y + 1)) in *.
    assert (Hqf : queue_full (snapshot y) = (len (y_subs y) * 2 <=? len (y_reqs y))).
    { unfold queue_full, snapshot. cbn [sn_subs sn_reqs]. unfold len. rewrite !map_length.
      f_equal. lia. }
    destruct (is_nil (y_subs y)) eqn:Enil.
    { inversion Hstep; subst. split.
      - eapply Inv_sub_step; [exact HI | (apply sub_step_eq; reflexivity)].
      - cbn. destruct (queue_full _); reflexivity. }
    destruct (len (y_subs y) * 2 <=? len (y_reqs y)) eqn:Efull.
    + (* two rounds *)
      rewrite Hqf.
      destruct (sys_tick y0 false) as [[ya rsa]|] eqn:Eta; [|discriminate].
      assert (Hsa : sub_step y ya).
      { apply sys_tick_sub_step in Eta. destruct Eta as (T1 & T2 & T3). repeat split; assumption. }
      pose proof (tick_round ps y0 false ya rsa I1 HP Eta) as [Ra _].
      destruct (len (y_subs y) * 2 <=? len (y_reqs ya)).
      * injection Hstep as <- <- <- <-. split.
        -- eapply Inv_sub_step; [exact HI | exact Hsa].
        -- apply two_runs_of_non_increasing. exact Ra.
      * destruct (process_acks (y_subs ya) acks (y_retrans ya)) as [results rt] eqn:Ea.
        set (yb := set_reqs (set_retrans ya rt) _) in *.
        destruct (sys_tick yb false) as [[yc rsc]|] eqn:Etc; [|discriminate].
        cbn [fst snd] in Hstep. injection Hstep as <- <- <- <-.
        assert (Hia : Inv ps ya) by (eapply Inv_sub_step; [exact HI | exact Hsa]).
        destruct Hia as (J1 & J2 & J3).
        assert (HPb : forall s, In s (y_subs yb) -> s_prio s = pr ps (s_id s)) by (intros s Hs; apply J3; exact Hs).
        pose proof (tick_round ps yb false yc rsc J1 HPb Etc) as [Rc _].
        split.
        -- apply sys_tick_sub_step in Etc.
           eapply Inv_sub_step; [exact HI |].
           eapply sub_step_trans; [exact Hsa|]. destruct Etc as (T1 & T2 & T3). repeat split; assumption.
        -- rewrite resp_subs_app, map_app. apply two_runs_app; assumption.
    + (* one round *)
      rewrite Hqf. change (y_reqs y0) with (y_reqs y) in Hstep. rewrite Efull in Hstep.
      destruct (process_acks (y_subs y0) acks (y_retrans y0)) as [results rt] eqn:Ea.
      set (yb := set_reqs (set_retrans y0 rt) _) in *.
      destruct (sys_tick yb false) as [[yc rsc]|] eqn:Etc; [|discriminate].
      cbn [fst snd app] in Hstep. injection Hstep as <- <- <- <-.
      split.
      * apply sys_tick_sub_step in Etc. eapply Inv_sub_step; [exact HI |].
        destruct Etc as (T1 & T2 & T3). repeat split; assumption.
      * apply andb_true_iff. apply (tick_round ps yb false yc rsc I1 HP Etc).
  - (* OCreateSub: the new id gets the requested priority, the others keep theirs *)
    inversion Hstep; subst. clear Hstep. split; [|reflexivity].
    unfold Inv. cbn [y_subs y_nextsub set_nextsub set_subs].
    assert (Hn : 1 <= y_nextsub y) by (rewrite I2; unfold len; lia).
    unfold ids. rewrite map_app. cbn [map s_id]. repeat split.
    + apply NoDup_app_intro_single. { exact I1. }
      intros Hin. apply in_map_iff in Hin as (s & E & Hs). destruct (I3 s Hs) as [? _]. lia.
    + rewrite I2. unfold len. rewrite app_length, Nat2Z.inj_add. cbn [length]. lia.
    + apply in_app_iff in H as [H|[<-|[]]]; [destruct (I3 s H); lia | cbn [s_id]; lia].
    + apply in_app_iff in H as [H|[<-|[]]]; [destruct (I3 s H); lia | cbn [s_id]; lia].
    + apply in_app_iff in H as [H|[<-|[]]].
      * destruct (I3 s H) as [Hr Hp]. rewrite Hp. unfold pr. rewrite app_nth1; [reflexivity|].
        rewrite I2 in Hr. unfold len in Hr. lia.
      * cbn [s_id s_prio]. unfold pr.
        rewrite I2. unfold len. replace (1 + Z.of_nat (length ps) - 1) with (Z.of_nat (length ps)) by lia.
        rewrite Nat2Z.id, app_nth2 by lia. rewrite Nat.sub_diag. reflexivity.
  - (* ODeleteSub *)
    destruct (has_sub sub (y_subs y)); inversion Hstep; subst; (split; [|reflexivity]);
    (eapply Inv_sub_step; [exact HI | ]); [apply remove_sub_step | (apply sub_step_eq; reflexivity)].
  - (* OCreateItem *)
    destruct (find_sub sub (y_subs y)) as [s|] eqn:Ef.
    + pose proof (find_sub_some _ _ _ Ef) as [_ Hid]. rewrite <- Hid in Ef.
      destruct (_ || _); inversion Hstep; subst; (split; [|reflexivity]);
      (eapply Inv_sub_step; [exact HI | ]); (eapply replace_sub_step; [exact Ef | reflexivity | reflexivity]).
    + inversion Hstep; subst. split; [|reflexivity].
      eapply Inv_sub_step; [exact HI | (apply sub_step_eq; reflexivity)].
  - (* ODeleteItem *)
    destruct (find_sub sub (y_subs y)) as [s|] eqn:Ef.
    + pose proof (find_sub_some _ _ _ Ef) as [_ Hid]. rewrite <- Hid in Ef.
      destruct (existsb _ _); inversion Hstep; subst; (split; [|reflexivity]);
      (eapply Inv_sub_step; [exact HI | ]); (eapply replace_sub_step; [exact Ef | reflexivity | reflexivity]).
    + inversion Hstep; subst. split; [|reflexivity].
      eapply Inv_sub_step; [exact HI | (apply sub_step_eq; reflexivity)].
  - (* ORepublish *)
    destruct (find_sub sub (y_subs y)) as [s|] eqn:Ef.
    + pose proof (find_sub_some _ _ _ Ef) as [_ Hid]. rewrite <- Hid in Ef.
      destruct (rt_find _ _); inversion Hstep; subst; (split; [|reflexivity]);
      (eapply Inv_sub_step; [exact HI | ]);
      [eapply replace_sub_step; [exact Ef | reflexivity | reflexivity] | (apply sub_step_eq; reflexivity)].
    + inversion Hstep; subst. split; [|reflexivity].
      eapply Inv_sub_step; [exact HI | (apply sub_step_eq; reflexivity)].
  - (* OSetPublishing *)
    destruct (find_sub sub (y_subs y)) as [s|] eqn:Ef.
    + pose proof (find_sub_some _ _ _ Ef) as [_ Hid]. rewrite <- Hid in Ef.
      inversion Hstep; subst; (split; [|reflexivity]);
      (eapply Inv_sub_step; [exact HI | ]); (eapply replace_sub_step; [exact Ef | reflexivity | reflexivity]).
    + inversion Hstep; subst. split; [|reflexivity].
      eapply Inv_sub_step; [exact HI | (apply sub_step_eq; reflexivity)].
Qed.

(* what is in the map after a replacement, for distinct ids *)
Lemma in_replace_sub_strong s' : forall subs x,
  NoDup (ids subs) -> In x (replace_sub s' subs) -> x = s' \/ (In x subs /\ s_id x <> s_id s').
Proof.
  induction subs as [|a r IH]; intros x Hnd Hx; [destruct Hx|].
  cbn [replace_sub] in Hx. cbn [ids map] in Hnd. inversion Hnd as [|? ? Ha Hr]; subst.
  destruct (Z.eqb_spec (s_id a) (s_id s')) as [E|E].
  - destruct Hx as [Hx|Hx]; [left; symmetry; exact Hx|].
    right. split; [right; exact Hx|]. intros Ex. apply Ha. rewrite E, <- Ex. apply in_map. exact Hx.
  - destruct Hx as [Hx|Hx]; [subst x; right; split; [left; reflexivity | exact E]|].
    destruct (IH x Hr Hx) as [->|[H1 H2]]; [left; reflexivity | right; split; [right; exact H1 | exact H2]].
Qed.

(* ModifySubscription: the modified subscription gets the requested priority in the state exactly
   when the specification records it; every other live subscription keeps its priority *)
Lemma modify_ok ps id prio interval kac life y opix y1 st m rs :
  Inv ps y -> hstep y opix (HModifySub id prio interval kac life) = Some (y1, st, m, rs) ->
  Inv (prio_step ps (HModifySub id prio interval kac life)) y1 /\ rs = [].
Proof.
  intros (I1 & I2 & I3) Hstep. unfold hstep, hstep_g in Hstep. cbn [prio_step].
  destruct (find_sub id (y_subs y)) as [s|] eqn:Ef.
  - (* live: 1 <= id <= len ps *)
    injection Hstep as <- <- <- <-. split; [|reflexivity].
    destruct (find_sub_some _ _ _ Ef) as [Hin Hid]. destruct (I3 s Hin) as [Hr _].
    rewrite Hid, I2 in Hr.
    assert (Hb : (1 <=? id) && (id <=? len ps) = true) by (apply andb_true_iff; split; lia).
    rewrite Hb. unfold Inv. cbn [y_subs y_nextsub set_subs].
    split; [rewrite ids_replace; exact I1|].
    split; [rewrite I2; unfold len; rewrite set_nth_length; reflexivity|].
    intros x Hx. apply (in_replace_sub_strong _ _ _ I1) in Hx as [->|[Hx Hne]].
    + cbn [modify_sub s_id s_prio]. rewrite Hid. split; [rewrite I2; lia|].
      unfold pr. rewrite nth_set_nth_same; [reflexivity|]. unfold len in Hr. lia.
    + cbn [modify_sub s_id] in Hne. rewrite Hid in Hne.
      destruct (I3 x Hx) as [Hxr Hxp]. split; [exact Hxr|].
      rewrite Hxp. unfold pr. rewrite nth_set_nth_other; [reflexivity|]. rewrite I2 in Hxr. lia.
  - (* unknown id: the state is unchanged; an entry may be overwritten but it belongs to no
       live subscription *)
    injection Hstep as <- <- <- <-. split; [|reflexivity].
    apply find_sub_none in Ef.
    destruct ((1 <=? id) && (id <=? len ps)) eqn:Hb; [|repeat split; auto; apply I3; assumption].
    apply andb_true_iff in Hb as [Hb1 Hb2].
    unfold Inv. split; [exact I1|]. split; [rewrite I2; unfold len; rewrite set_nth_length; reflexivity|].
    intros x Hx. destruct (I3 x Hx) as [Hxr Hxp]. split; [exact Hxr|].
    rewrite Hxp. unfold pr. rewrite nth_set_nth_other; [reflexivity|].
    assert (s_id x <> id) by (intros E; apply Ef; rewrite <- E; unfold ids; apply in_map; exact Hx).
    rewrite I2 in Hxr. lia.
Qed.

(* every operation of a history keeps the invariant and satisfies the oracle *)
Lemma hstep_ok ps h y opix y1 st m rs :
  Inv ps y -> hstep y opix h = Some (y1, st, m, rs) ->
  Inv (prio_step ps h) y1 /\
  check_op (prio_step ps h) h (snapshot y) (mk_opres st m rs (snapshot y1)) = true.
Proof.
  intros HI Hs. destruct h as [o|id prio interval kac life].
  - exact (step_ok ps o y opix y1 st m rs HI Hs).
  - destruct (modify_ok _ _ _ _ _ _ _ _ _ _ _ _ HI Hs) as [HI1 ->]. split; [exact HI1|reflexivity].
Qed.

Lemma run_hops_ok : forall ops ps y opix,
  Inv ps y -> check_trace ps ops (snapshot y) (fst (run_hops y opix ops)) = true.
Proof.
  induction ops as [|h ops IH]; intros ps y opix HI; [reflexivity|].
  unfold run_hops in *. cbn [run_hops_g].
  destruct (hstep_g sys_tick y opix h) as [[[[y1 st] m] rs]|] eqn:Es; [|reflexivity].
  destruct (run_hops_g sys_tick y1 (opix + 1) ops) as [tr p] eqn:Er. cbn [fst check_trace o_snap].
  destruct (hstep_ok ps h y opix y1 st m rs HI Es) as [HI1 Hck]. rewrite Hck. cbn [andb].
  specialize (IH (prio_step ps h) y1 (opix + 1) HI1). rewrite Er in IH. exact IH.
Qed.

Lemma init_inv c : Inv [] (hinit c).
Proof. unfold Inv, hinit, init. cbn. split; [constructor|]. split; [reflexivity|]. intros s []. Qed.

Theorem oracle_holds c : oracle c (run c) = true.
Proof.
  unfold oracle, run. rewrite decode_enc. destruct (run_ev c) as [tr p] eqn:E.
  pose proof (run_hops_ok (h_ops c) [] (hinit c) 0 (init_inv c)) as H.
  unfold run_ev in E. rewrite E in H. exact H.
Qed.

(* ------------------------------------------------------- the round theorem, self-contained *)
(* priority of a subscription id in a state *)
Definition prio_in (y : sys) (id : Z) : Z :=
  match find_sub id (y_subs y) with Some s => s_prio s | None => 0 end.

Theorem round_served_by_priority
  (stick : sub -> list Z -> Z -> bool -> bool -> option sub)
  (stick_static : forall s vars now timer rq s',
     stick s vars now timer rq = Some s' -> s_id s' = s_id s /\ s_prio s' = s_prio s)
  y timer y' rs :
  NoDup (ids (y_subs y)) ->
  sys_tick_g prio_order stick y timer = Some (y', rs) ->
  non_increasing (map (prio_in y) (resp_subs rs)) = true /\
  (forall i s', In i (resp_subs rs) -> In s' (y_subs y') -> prio_in y i < s_prio s' -> s_notifs s' = []).
Proof.
  intros Hnd H.
  assert (HP : forall s, In s (y_subs y) -> s_prio s = prio_in y (s_id s)).
  { intros s Hs. unfold prio_in. rewrite (find_sub_in _ _ Hnd Hs). reflexivity. }
  destruct (sys_tick_prio stick stick_static (prio_in y) _ _ _ _ Hnd HP H) as (A & B & _ & _ & C).
  split; [exact A|]. intros i s' Hi Hs' Hlt. apply (B i s' Hi Hs').
  destruct (C s' Hs') as (s0 & H0 & E1 & E2). rewrite E1, <- (HP s0 H0), <- E2. exact Hlt.
Qed.

(* the state after a history *)
Fixpoint run_state (y : sys) (opix : Z) (ops : list hop) : option sys :=
  match ops with
  | [] => Some y
  | h :: r => match hstep y opix h with
              | Some (y1, _, _, _) => run_state y1 (opix + 1) r
              | None => None
              end
  end.

Lemma run_state_inv : forall ops pre y opix y',
  Inv (prios_after pre) y -> run_state y opix ops = Some y' -> Inv (prios_after (pre ++ ops)) y'.
Proof.
  induction ops as [|h ops IH]; intros pre y opix y' HI H.
  - cbn in H. inversion H; subst. rewrite app_nil_r. exact HI.
  - cbn [run_state] in H. destruct (hstep y opix h) as [[[[y1 st] m] rs]|] eqn:Es; [|discriminate].
    destruct (hstep_ok _ h y opix y1 st m rs HI Es) as [HI1 _].
    rewrite <- prios_after_snoc in HI1.
    replace (pre ++ h :: ops) with ((pre ++ [h]) ++ ops) by (rewrite <- app_assoc; reflexivity).
    apply (IH (pre ++ [h]) y1 (opix + 1) y' HI1 H).
Qed.

Lemma reachable_inv c k y' :
  run_state (hinit c) 0 (firstn k (h_ops c)) = Some y' -> Inv (prios_after (firstn k (h_ops c))) y'.
Proof. intros H. exact (run_state_inv _ [] _ _ _ (init_inv c) H). Qed.

(* the distinct-id premise holds in every state a history can reach *)
Theorem reachable_distinct_ids c k y' :
  run_state (hinit c) 0 (firstn k (h_ops c)) = Some y' -> NoDup (ids (y_subs y')).
Proof. intros H. destruct (reachable_inv c k y' H) as [Hnd _]. exact Hnd. Qed.

(* in every state a history can reach, the priority of every live subscription is the one the
   client asked for last (at creation or in a later ModifySubscription) *)
Theorem reachable_priorities c k y' :
  run_state (hinit c) 0 (firstn k (h_ops c)) = Some y' ->
  forall s, In s (y_subs y') -> s_prio s = prio_at (firstn k (h_ops c)) (s_id s).
Proof. intros H s Hs. destruct (reachable_inv c k y' H) as (_ & _ & I3). apply I3. exact Hs. Qed.

(* hence: a scheduling round started from any reachable state (whatever the clock, the request
   queue and the retransmission queue are by then) serves by the priorities requested last *)
Theorem history_round c k y y2 timer y' rs :
  run_state (hinit c) 0 (firstn k (h_ops c)) = Some y ->
  y_subs y2 = y_subs y ->
  sys_tick y2 timer = Some (y', rs) ->
  let P := prio_at (firstn k (h_ops c)) in
  non_increasing (map P (resp_subs rs)) = true /\
  (forall i s', In i (resp_subs rs) -> In s' (y_subs y') -> P i < P (s_id s') -> s_notifs s' = []).
Proof.
  intros H E Ht P. destruct (reachable_inv c k y H) as (I1 & _ & I3).
  assert (HP : forall s, In s (y_subs y2) -> s_prio s = P (s_id s)) by (rewrite E; intros s Hs; apply I3; exact Hs).
  rewrite <- E in I1.
  destruct (sys_tick_prio sub_tick sub_tick_keeps P _ _ _ _ I1 HP Ht) as (A & B & _).
  split; [exact A | exact B].
Qed.

(* non-vacuity *)
Example witness_two_priorities_ready :
  let y := mk_sys 2000 [0] [mk_req 1 2000 0 []]
             [mk_sub 1 1000 1000 3 1 [] 3 990 3 true true 2 1 2 1000 [mk_msg 1 1000 1 [(2, 0, 0)]];
              mk_sub 2 1000 1000 3 200 [] 3 990 3 true true 2 1 2 1000 [mk_msg 1 1000 1 [(3, 0, 0)]]]
             [] 3 2 in
  NoDup (ids (y_subs y)) /\
  option_map (fun r => resp_subs (snd r)) (sys_tick y false) = Some [2].
Proof. split; [repeat constructor; cbn; intuition lia | vm_compute; reflexivity]. Qed.

(* the design-round witness: priorities 1 and 200 both have data, one request *)
Definition witness : case :=
  mk_hist 1 (map HOp [OCreateSub 1 1000 3 1000 true; OCreateSub 200 1000 3 1000 true;
             OCreateItem 1 0 2 (-1) 4 true; OCreateItem 2 0 2 (-1) 4 true;
             OTick 0; OTick 1000; OPublish 0 0 []; OWrite 0 5; OTick 1000; OTick 1000]).

Lemma legacy_refuted : oracle witness (Legacy.run witness) = false.
Proof. vm_compute. reflexivity. Qed.
Example witness_ok : oracle witness (run witness) = true.
Proof. vm_compute. reflexivity. Qed.

(* a priority changed between two rounds: A (10), B (200), C (100) all have data; the first
   request goes to B; then A is modified to 250 and the next request must go to A, the third to C *)
Definition witness_modify : case :=
  mk_hist 1 [HOp (OCreateSub 10 1000 3 1000 true); HOp (OCreateSub 200 1000 3 1000 true);
             HOp (OCreateSub 100 1000 3 1000 true);
             HOp (OCreateItem 1 0 2 (-1) 4 true); HOp (OCreateItem 2 0 2 (-1) 4 true);
             HOp (OCreateItem 3 0 2 (-1) 4 true);
             HOp (OTick 0); HOp (OTick 1000); HOp (OPublish 0 0 []);
             HModifySub 1 250 1000 3 1000; HOp (OPublish 0 0 []); HOp (OPublish 0 0 [])].

Definition answered_per_op (out : list Z) : list (list Z) :=
  match decode out with Some (tr, _) => map (fun r => resp_subs (o_resps r)) tr | None => [] end.

Example witness_modify_order :
  answered_per_op (run witness_modify) = [[]; []; []; []; []; []; []; []; [2]; []; [1]; [3]] /\
  oracle witness_modify (run witness_modify) = true.
Proof. vm_compute. split; reflexivity. Qed.

(* the state after the ModifySubscription of [witness_modify]: subscription 1 is scheduled with
   the priority requested last (non-vacuity of reachable_priorities / history_round) *)
Example witness_modify_state :
  match run_state (hinit witness_modify) 0 (firstn 10 (h_ops witness_modify)) with
  | Some y => map (fun s => (s_id s, s_prio s)) (y_subs y) = [(1, 250); (2, 200); (3, 100)] /\
              map (prio_at (firstn 10 (h_ops witness_modify))) [1; 2; 3] = [250; 200; 100] /\
              map (prio_at (firstn 9 (h_ops witness_modify))) [1; 2; 3] = [10; 200; 100]
  | None => False
  end.
Proof. vm_compute. repeat split; reflexivity. Qed.

(* a server that ignores the new priority answers C before A and is rejected by the oracle *)
Lemma no_prio_change_refuted :
  answered_per_op (NoPrioChange.run witness_modify) = [[]; []; []; []; []; []; []; []; [2]; []; [3]; [1]] /\
  oracle witness_modify (NoPrioChange.run witness_modify) = false.
Proof. vm_compute. split; reflexivity. Qed.
