//! Shared by the C08 / C09 harnesses: a receiving channel case, chunk builders (hand-made
//! symmetric and OPN chunks, mutations) and `exec_case`, which feeds the chunks to the real
//! `SecureChannel::verify_and_remove_security` under `guarded` and computes the transcript of the
//! external primitives on the slices the receive path hands them.
#![allow(dead_code)]
use crate::chan::*;
use crate::util::*;
use opcua::core::comms::chunker::Chunker;
use opcua::core::comms::message_chunk::MessageChunk;
use opcua::core::comms::secure_channel::{Role, SecureChannel};
use opcua::crypto::{aeskey::AesKey, pkey::{KeySize, PrivateKey}, x509::X509, SecurityPolicy};
use opcua::types::{status_code::StatusCode, ByteString};

pub struct Case {
    pub policy: usize, pub mode: usize, pub chan_id: u32,
    pub rid: usize, pub sid: usize, pub has_cert: bool, pub has_pkey: bool, pub has_keys: bool,
    pub start: u32, pub chunks: Vec<Vec<u8>>, pub validate: bool, pub tag: String,
    /// seed of the peer's nonce used by the receiver when deriving keys (11 = the keys `sym_chunk` secures with)
    pub peer_nonce: u8,
    /// put the channel's policy back before every chunk (C08: every chunk meets the same channel state)
    pub reset_policy: bool,
    /// C08: chunks fed to the channel, in order, before EVERY judged chunk (after the policy was put back);
    /// they are reported once, ahead of the judged chunks
    pub pre: Vec<Vec<u8>>,
    /// C08: the receiver derived keys once before, with this peer nonce seed (a token that has since been renewed)
    pub pre_nonce: Option<u8>,
}

// ---------------------------------------------------------------- status classes
pub fn class(s: StatusCode) -> i128 {
    let sec = [StatusCode::BadSecurityChecksFailed, StatusCode::BadCertificateInvalid, StatusCode::BadNoValidCertificates,
        StatusCode::BadSecurityPolicyRejected, StatusCode::BadSequenceNumberInvalid, StatusCode::BadSecureChannelIdInvalid,
        StatusCode::BadNonceInvalid, StatusCode::BadSecureChannelClosed, StatusCode::BadCertificateUseNotAllowed];
    if sec.contains(&s) { 2 } else { 1 }
}

// ---------------------------------------------------------------- model view of bytes
pub fn opaque(id: usize, n: usize) -> Vec<u8> {
    let mut v = vec![(id % 256) as u8, ((id / 256) % 256) as u8];
    v.resize(n.max(2), 238);
    v.truncate(n);
    v
}
/// run-length encode into `L [..]` / `Rp n v` segments
pub fn segs(bs: &[u8]) -> String {
    let mut out: Vec<String> = Vec::new();
    let mut lit: Vec<u8> = Vec::new();
    let mut i = 0;
    while i < bs.len() {
        let mut j = i;
        while j < bs.len() && bs[j] == bs[i] { j += 1; }
        if j - i >= 6 {
            if !lit.is_empty() { out.push(format!("L {}", zbytes(&lit))); lit.clear(); }
            out.push(format!("Rp {} {}", j - i, bs[i]));
        } else { lit.extend_from_slice(&bs[i..j]); }
        i = j;
    }
    if !lit.is_empty() { out.push(format!("L {}", zbytes(&lit))); }
    format!("[{}]", out.join("; "))
}

// ---------------------------------------------------------------- little helpers to build chunks
pub fn hdr(t: &[u8; 3], f: u8, size: u32, chan: u32) -> Vec<u8> {
    let mut v = t.to_vec(); v.push(f); v.extend(size.to_le_bytes()); v.extend(chan.to_le_bytes()); v
}
pub fn bstr(b: Option<&[u8]>) -> Vec<u8> {
    match b { None => (-1i32).to_le_bytes().to_vec(), Some(x) => { let mut v = (x.len() as i32).to_le_bytes().to_vec(); v.extend_from_slice(x); v } }
}
pub fn set_size(v: &mut Vec<u8>) { if v.len() >= 8 { let n = v.len() as u32; v[4..8].copy_from_slice(&n.to_le_bytes()); } }

pub fn sym_keys(policy: usize) -> (Vec<u8>, Vec<u8>, Vec<u8>) {
    // the keys the peer (sender) secures with = what the receiver verifies with: derive on a scratch channel
    let (s, _r) = channel_pair(policy, 2, 0, 1, true, 1, 1, &nonce_for(policy, 11), &nonce_for(policy, 77));
    s.verif_derived_keys().0.unwrap()
}

/// a symmetric chunk built by hand: explicit padding bytes, valid or broken MAC, encrypted if asked
pub fn sym_chunk(policy: usize, encrypt: bool, t: &[u8; 3], chan: u32, token: u32, seq: u32, req: u32, body: &[u8],
             padding: &[u8], good_mac: bool) -> Vec<u8> {
    let p = POLICIES[policy];
    let ss = p.symmetric_signature_size();
    let (sk, ek, iv) = sym_keys(policy);
    let mut v = hdr(t, b'F', 0, chan);
    v.extend(token.to_le_bytes()); v.extend(seq.to_le_bytes()); v.extend(req.to_le_bytes());
    v.extend_from_slice(body); v.extend_from_slice(padding);
    let total = (v.len() + ss) as u32;
    v[4..8].copy_from_slice(&total.to_le_bytes());
    let mut sig = vec![0u8; ss];
    let _ = p.symmetric_sign(&sk, &v, &mut sig);
    if !good_mac { sig[0] ^= 1; }
    v.extend(sig);
    if encrypt && (v.len() - 16) % 16 == 0 {
        let key = AesKey::new(p, &ek);
        let mut dst = vec![0u8; v.len() + 32];
        let n = key.encrypt(&v[16..], &iv, &mut dst).unwrap();
        v.truncate(16); v.extend_from_slice(&dst[..n]);
    }
    v
}
/// padding as the sender writes it for a symmetric chunk (one size byte)
pub fn good_sym_padding(body_len: usize, ss: usize) -> Vec<u8> {
    let es = 8 + body_len + ss + 1;
    let p = 1 + if es % 16 == 0 { 0 } else { 16 - es % 16 };
    vec![(p - 1) as u8; p]
}

#[derive(Clone)]
pub enum Cert { Null, Garbage(usize), Of(usize) }
#[derive(Clone)]
pub enum Thumb { Null, Of(usize), Wrong, Len(usize) }
#[derive(Clone)]
pub enum Enc {
    Garbage(usize),
    /// plain text = sequence header + body + padding + signature by `signer` over the headers and the plain text before it
    Plain { body: usize, padding: Vec<u8>, signer: usize, good_sig: bool, to: usize },
}
pub fn uri_bytes(kind: usize, policy: usize, r: &mut Rng) -> Option<Vec<u8>> {
    match kind {
        0 => Some(POLICIES[policy].to_uri().as_bytes().to_vec()),
        1 => None,
        2 => Some(b"http://opcfoundation.org/UA/SecurityPolicy#Nope".to_vec()),
        3 => Some(vec![0xff, 0xfe, 0x80, 0x41]),                   // invalid UTF-8
        4 => Some("http://opcfoundation.org/UA/SecurityPolicy#Basic256\u{e9}".as_bytes().to_vec()), // valid UTF-8, unknown
        _ => Some(rb(r, 12, 0)),
    }
}
pub fn opn_chunk(policy: usize, uri: Option<Vec<u8>>, cert: &Cert, thumb: &Thumb, enc: &Enc, chan: u32, seq: u32, req: u32, r: &mut Rng) -> Vec<u8> {
    let certb: Option<Vec<u8>> = match cert {
        Cert::Null => None, Cert::Garbage(n) => Some(r.bytes(*n)),
        Cert::Of(i) => Some(ident(*i).cert.as_byte_string().as_ref().to_vec()),
    };
    let thumbb: Option<Vec<u8>> = match thumb {
        Thumb::Null => None, Thumb::Of(i) => Some(ident(*i).cert.thumbprint().value().to_vec()),
        Thumb::Wrong => Some(r.bytes(20)), Thumb::Len(n) => Some(r.bytes(*n)),
    };
    let mut v = hdr(b"OPN", b'F', 0, chan);
    v.extend(bstr(uri.as_deref())); v.extend(bstr(certb.as_deref())); v.extend(bstr(thumbb.as_deref()));
    let hs = v.len();
    match enc {
        Enc::Garbage(n) => { v.extend(r.bytes(*n)); set_size(&mut v); }
        Enc::Plain { body, padding, signer, good_sig, to } => {
            let p = if policy == 0 { SecurityPolicy::Basic256Sha256 } else { POLICIES[policy] };
            let signer_key = ident(*signer).key();
            let sks = signer_key.size();
            let pk = ident(*to).cert.public_key().unwrap();
            let mut plain = seq.to_le_bytes().to_vec(); plain.extend(req.to_le_bytes());
            plain.extend((0..*body).map(|i| (i * 7 + 3) as u8)); plain.extend_from_slice(padding);
            let cts = pk.calculate_cipher_text_size(plain.len() + sks, p.asymmetric_encryption_padding());
            let total = (hs + cts) as u32;
            v[4..8].copy_from_slice(&total.to_le_bytes());
            let mut data = v.clone(); data.extend_from_slice(&plain);
            let mut sig = vec![0u8; sks];
            let _ = p.asymmetric_sign(&signer_key, &data, &mut sig);
            if !*good_sig { sig[5] ^= 0x40; }
            plain.extend(sig);
            let mut dst = vec![0u8; cts + 1024];
            match guarded(|| p.asymmetric_encrypt(&pk, &plain, &mut dst)) {
                Ok(Ok(n)) => v.extend_from_slice(&dst[..n]),
                _ => v.extend(r.bytes(cts)),
            }
        }
    }
    v
}
/// padding as the sender writes it for an asymmetric chunk encrypted to identity `to`
pub fn good_asym_padding(policy: usize, body: usize, signer: usize, to: usize) -> Vec<u8> {
    let p = if policy == 0 { SecurityPolicy::Basic256Sha256 } else { POLICIES[policy] };
    let pk = ident(to).cert.public_key().unwrap();
    let pbs = pk.plain_text_block_size(p.asymmetric_encryption_padding());
    let sks = ident(signer).cert.public_key().unwrap().size();
    let mp = if pk.size() <= 256 { 1 } else { 2 };
    let es = 8 + body + sks + mp;
    let n = mp + if es % pbs == 0 { 0 } else { pbs - es % pbs };
    if mp == 1 { vec![(n - 1) as u8; n] } else { let mut v = vec![((n - 2) & 0xff) as u8; n - 1]; v.push(((n - 2) >> 8) as u8); v }
}

pub fn plain_chunk(t: &[u8; 3], f: u8, chan: u32, token: u32, seq: u32, req: u32, body: &[u8]) -> Vec<u8> {
    let mut v = hdr(t, f, 0, chan);
    v.extend(token.to_le_bytes()); v.extend(seq.to_le_bytes()); v.extend(req.to_le_bytes()); v.extend_from_slice(body);
    set_size(&mut v); v
}

pub fn rb(r: &mut Rng, n: u64, plus: usize) -> Vec<u8> { let k = plus + r.below(n) as usize; r.bytes(k) }

pub fn mutate(v: &mut Vec<u8>, r: &mut Rng) -> &'static str {
    match r.below(9) {
        0 => "asis",
        1 => { let n = r.below(v.len() as u64 + 1) as usize; v.truncate(n); set_size(v); "trunc" }
        2 => { let n = r.below(v.len() as u64 + 1) as usize; v.truncate(n); "trunc-nosize" }
        3 => { let n = 1 + r.below(40) as usize; v.extend(r.bytes(n)); set_size(v); "extend" }
        4 => { if !v.is_empty() { let i = r.below(v.len() as u64) as usize; v[i] ^= 1 << r.below(8); } "flip" }
        5 => { if v.len() >= 8 { let x = r.next() as u32 >> r.below(32); v[4..8].copy_from_slice(&x.to_le_bytes()); } "size" }
        6 => { let n = 1 + r.below(15) as usize; let l = v.len().saturating_sub(n); v.truncate(l); set_size(v); "drop" }
        7 => { let keep = (16 + r.below(40) as usize).min(v.len()); v.truncate(keep); set_size(v); "short" }
        _ => { if v.len() > 24 { let i = 12 + r.below(12) as usize; v[i] = r.next() as u8; } "hdrbyte" }
    }
}

pub fn mk_case(policy: usize, mode: usize, chunks: Vec<Vec<u8>>, tag: &str) -> Case {
    Case { policy, mode, chan_id: 5, rid: 1, sid: 0, has_cert: policy != 0, has_pkey: policy != 0, has_keys: policy != 0,
           start: 1, chunks, validate: false, tag: tag.to_string(), peer_nonce: 11, reset_policy: false, pre: Vec::new(), pre_nonce: None }
}


pub fn exec_case(c: &Case) -> (String, Vec<i128>) {
        // ----- the receiving channel
        let role = if c.rid % 2 == 1 { Role::Server } else { Role::Client };
        let mut ch: SecureChannel = bare_channel(role);
        ch.set_security_policy(POLICIES[c.policy]);
        ch.set_security_mode(MODES[c.mode]);
        ch.set_secure_channel_id(c.chan_id);
        ch.set_token_id(9);
        if c.has_cert { ch.set_cert(Some(ident(c.rid).cert.clone())); }
        if c.has_pkey { ch.set_private_key(Some(ident(c.rid).key())); }
        ch.set_remote_cert(Some(ident(c.sid).cert.clone()));
        let mut verkey: Option<Vec<u8>> = None;
        let mut deckey: Option<(Vec<u8>, Vec<u8>)> = None;
        if c.has_keys && c.policy != 0 {
            // receiver's nonces mirror the sender's (see sym_keys): local = 77, remote = 11
            ch.set_local_nonce(&nonce_for(c.policy, 77));
            if let Some(pn) = c.pre_nonce {
                // the token before the renewal
                ch.set_remote_nonce(&nonce_for(c.policy, pn));
                ch.derive_keys();
            }
            ch.set_remote_nonce(&nonce_for(c.policy, c.peer_nonce));
            ch.derive_keys();
            let rk = ch.verif_derived_keys().1.unwrap();
            verkey = Some(rk.0.clone()); deckey = Some((rk.1.clone(), rk.2.clone()));
        }
        let own_ks: Option<usize> = if c.has_cert { Some(ident(c.rid).cert.public_key().unwrap().size()) } else { None };
        let pkey: Option<PrivateKey> = if c.has_pkey { Some(ident(c.rid).key()) } else { None };

        // ----- run the real code
        let mut out: Vec<i128> = Vec::new();
        let mut received: Option<Vec<MessageChunk>> = Some(Vec::new());
        let mut policy_now = c.policy;
        // transcript pieces (model view)
        let mut t_certs: Vec<String> = Vec::new();
        let mut t_rsa: Vec<String> = Vec::new();
        let mut t_ver: Vec<String> = Vec::new();
        let mut t_aes: Vec<String> = Vec::new();
        let mut t_utf8: Vec<String> = Vec::new();
        let mut views: Vec<String> = Vec::new();
        let mut pre_views: Vec<String> = Vec::new();
        // opaque regions are numbered by first appearance of their (real) content, so that the same
        // certificate / block / signature gets the same placeholder in every chunk of the case
        let mut ids: std::collections::HashMap<Vec<u8>, usize> = std::collections::HashMap::new();
        let mut id_of = move |b: &[u8]| -> usize { let n = ids.len(); *ids.entry(b.to_vec()).or_insert(300 + n) };
        for (is_pre, real) in c.pre.iter().map(|x| (true, x)).chain(c.chunks.iter().map(|x| (false, x))) {
            // -- the oracle pass: find the slices the receive path hands to the primitives
            let mut view = real.clone();
            if real.len() >= 12 && &real[..3] == b"OPN" {
                let mut pos = 12usize;
                let mut fields: Vec<Option<(usize, usize)>> = Vec::new();
                let mut ok = true;
                for _ in 0..3 {
                    if pos + 4 > real.len() { ok = false; break; }
                    let l = i32::from_le_bytes([real[pos], real[pos + 1], real[pos + 2], real[pos + 3]]);
                    pos += 4;
                    if l == -1 { fields.push(None); continue; }
                    if l < -1 || (l as usize) > (1 << 24) || pos + l as usize > real.len() { ok = false; break; }
                    fields.push(Some((pos, l as usize))); pos += l as usize;
                }
                if ok {
                    // uri: UTF-8 validity
                    if let Some((a, n)) = fields[0] {
                        let u = &real[a..a + n];
                        if !u.iter().all(|b| *b < 128) { t_utf8.push(format!("({}, {})", segs(u), coq_bool(std::str::from_utf8(u).is_ok()))); }
                    }
                    // certificate
                    let mut vkey: Option<(usize, usize, X509)> = None;
                    if let Some((a, n)) = fields[1] {
                        let parsed = X509::from_byte_string(&ByteString::from(real[a..a + n].to_vec())).ok().and_then(|x| x.public_key().ok().map(|k| (x, k)));
                        if n >= 24 { let id = id_of(&real[a..a + n]); view[a..a + n].copy_from_slice(&opaque(id, n)); }
                        let res = match &parsed {
                            Some((x, k)) => {
                                let id = (0..6).find(|i| IDENT_READY(*i) && ident(*i).cert.as_byte_string() == x.as_byte_string()).map(|i| i + 1).unwrap_or(99);
                                vkey = Some((id, k.size(), x.clone()));
                                format!("(Some ({}, {}))", id, k.size())
                            }
                            None => "None".to_string(),
                        };
                        t_certs.push(format!("({}, {})", segs(&view[a..a + n]), res));
                    }
                    // cipher text blocks under the own private key
                    // whole key-size blocks of cipher text are opaque in the model's view, whether or not
                    // they are going to be decrypted
                    {
                        let ksv = pkey.as_ref().map(|k| k.size()).or(own_ks).unwrap_or(256);
                        let n = real.len() - pos;
                        for b in 0..n / ksv {
                            let id = id_of(&real[pos + b * ksv..pos + (b + 1) * ksv]);
                            view[pos + b * ksv..pos + (b + 1) * ksv].copy_from_slice(&opaque(id, ksv));
                        }
                    }
                    if let (Some(pk), true) = (&pkey, true) {
                        let ks = pk.size();
                        let ct = &real[pos..];
                        let hdr_pol = fields[0].map(|(a, n)| SecurityPolicy::from_uri(std::str::from_utf8(&real[a..a + n]).unwrap_or(""))).unwrap_or(SecurityPolicy::Unknown);
                        if ct.len() % ks == 0 && hdr_pol != SecurityPolicy::Unknown && hdr_pol != SecurityPolicy::None {
                            let nb = ct.len() / ks;
                            let mut plains: Vec<Option<Vec<u8>>> = Vec::new();
                            for b in 0..nb {
                                let blk = &ct[b * ks..(b + 1) * ks];
                                let mut dst = vec![0u8; ks];
                                let res = guarded(|| pk.private_decrypt(blk, &mut dst, hdr_pol.asymmetric_encryption_padding()));
                                plains.push(match res { Ok(Ok(n)) => Some(dst[..n].to_vec()), _ => None });
                            }
                            // model view of the whole plain text: the signature region becomes a placeholder
                            let all_ok = plains.iter().all(|p| p.is_some());
                            let mut whole: Vec<u8> = plains.iter().flatten().flatten().cloned().collect();
                            let mut whole_view = whole.clone();
                            if all_ok {
                                if let Some((kid, vks, x)) = &vkey {
                                    if whole.len() >= *vks {
                                        let so = whole.len() - *vks;
                                        let sid_ = id_of(&whole[so..]);
                                        whole_view[so..].copy_from_slice(&opaque(sid_, *vks));
                                        // does the signature verify (same primitive, same slices)?
                                        let mut data = real[..pos].to_vec(); data.extend_from_slice(&whole[..so]);
                                        let verified = x.public_key().ok().map(|k| hdr_pol.asymmetric_verify_signature(&k, &data, &whole[so..], None).is_ok()).unwrap_or(false);
                                        if verified {
                                            let mut dview = view[..pos].to_vec(); dview.extend_from_slice(&whole_view[..so]);
                                            let (a, b) = checksum(&dview);
                                            t_ver.push(format!("({}, {}, {}, {})", kid, a, b, segs(&whole_view[so..])));
                                        }
                                    }
                                }
                            }
                            whole.clear();
                            let mut off = 0usize;
                            for (b, p) in plains.iter().enumerate() {
                                let key = segs(&view[pos + b * ks..pos + (b + 1) * ks]);
                                match p {
                                    Some(pl) => {
                                        let pv = if all_ok { whole_view[off..off + pl.len()].to_vec() } else { pl.clone() };
                                        off += pl.len();
                                        t_rsa.push(format!("({}, (Some {}))", key, segs(&pv)));
                                    }
                                    None => t_rsa.push(format!("({}, None)", key)),
                                }
                            }
                        }
                    }
                }
            } else if real.len() >= 16 && (&real[..3] == b"MSG" || &real[..3] == b"CLO") {
                // AES under the remote keys, for the policy the channel has now
                if let (Some((ek, iv)), 2) = (&deckey, c.mode) {
                    let ct = &real[16..];
                    if ct.len() % 16 == 0 && !ct.is_empty() {
                        let key = AesKey::new(POLICIES[c.policy], ek);
                        let mut dst = vec![0u8; ct.len() + 32];
                        if let Ok(Ok(n)) = guarded(|| key.decrypt(ct, iv, &mut dst)) {
                            t_aes.push(format!("({}, {})", segs(ct), segs(&dst[..n])));
                        }
                    }
                }
            }
            if is_pre { pre_views.push(segs(&view)); } else { views.push(segs(&view)); }

            // -- the real receive path
            if is_pre {
                // reported once, threaded from the channel's configured policy
                if pre_views.len() == 1 { ch.set_security_policy(POLICIES[c.policy]); }
                match guarded(|| ch.verify_and_remove_security(real)) {
                    Ok(Ok(rc)) => { out.push(0); out.push(rc.data.len() as i128); }
                    Ok(Err(e)) => { out.push(class(e)); out.push(-1); }
                    Err(_) => { out.push(-2); out.push(-1); }
                }
                continue;
            }
            if c.reset_policy {
                ch.set_security_policy(POLICIES[c.policy]);
                for p in &c.pre { let _ = guarded(|| ch.verify_and_remove_security(p)); }
                policy_now = c.policy;
            }
            match guarded(|| ch.verify_and_remove_security(real)) {
                Ok(Ok(rc)) => { out.push(0); out.push(rc.data.len() as i128); if let Some(l) = received.as_mut() { l.push(rc); } }
                Ok(Err(e)) => { out.push(class(e)); out.push(-1); received = None; }
                Err(_) => { out.push(-2); out.push(-1); received = None; }
            }
            policy_now = POLICIES.iter().position(|p| *p == ch.security_policy()).unwrap_or(0);
        }
        if c.validate {
            match &received {
                Some(l) => match guarded(|| Chunker::validate_chunks(c.start, &ch, l)) {
                    Ok(Ok(last)) => { out.push(0); out.push(last as i128); }
                    Ok(Err(e)) => { out.push(class(e)); out.push(-1); }
                    Err(_) => { out.push(-2); out.push(-1); }
                },
                None => { out.push(-1); out.push(-1); }
            }
        }
        let thumb = if c.has_cert { format!("(Some {})", zbytes(ident(c.rid).cert.thumbprint().value())) } else { "None".into() };
        // the same slice (unmodified certificate, cipher text block, ...) occurs in many chunks of a sweep
        for t in [&mut t_certs, &mut t_rsa, &mut t_ver, &mut t_aes, &mut t_utf8] {
            let mut seen = std::collections::HashSet::new();
            t.retain(|e| seen.insert(e.clone()));
        }
        let term = format!("(mk_case {} {} {} {} {} {} {} {} [{}] {} (mk_tr [{}] [{}] [{}] [{}] [{}]))",
            pol_name(c.policy), mode_name(c.mode), c.chan_id, thumb,
            coq_opt(&own_ks, |k| format!("{}", k)),
            match &pkey { Some(k) => format!("(Some ({}, {}))", c.rid + 1, k.size()), None => "None".into() },
            coq_opt(&verkey, |k| zbytes(k)), c.start, views.join("; "), coq_bool(c.validate),
            t_certs.join("; "), t_rsa.join("; "), t_ver.join("; "), t_aes.join("; "), t_utf8.join("; "));
        PRE_VIEWS.with(|p| *p.borrow_mut() = pre_views);
        (term, out)
}
thread_local! { pub static PRE_VIEWS: std::cell::RefCell<Vec<String>> = std::cell::RefCell::new(Vec::new()); }

#[allow(non_snake_case)]
fn IDENT_READY(_i: usize) -> bool { true }
