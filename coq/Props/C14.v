(* C14 — Security token renewal never breaks a healthy channel.  Statements only.
   The faithful model REFUTES the property (two schedules); what is proved is
   (1) the refutations, (2) that outside those two schedule classes — in particular for every
   quiescent renewal — no correctly secured message is ever rejected, for any number of
   renewals and any interleaving. *)
From Coq Require Import List ZArith Bool.
Import ListNotations.
From OV Require Import C14.Model C14.Proofs Gen.C14Facts.
Open Scope Z_scope.

Theorem C14_known_1_refuted : exists c, known c = 1 /\ oracle c (run c) = false.
Proof. exact known_1_refuted. Qed.
Print Assumptions C14_known_1_refuted.

Theorem C14_known_2_refuted : exists c, known c = 2 /\ oracle c (run c) = false.
Proof. exact known_2_refuted. Qed.
Print Assumptions C14_known_2_refuted.

Theorem C14_no_reject_outside_known_partial : forall c : case,
  known c = 0 -> ~ In 0 (run c) /\ length (run c) = length c.
Proof. exact no_reject_outside_known. Qed.
Print Assumptions C14_no_reject_outside_known_partial.

(* The second sentence of the property in the model: a frame secured under keys of a token the
   receiver never issued is never accepted -- on every schedule, racy or not. *)
Theorem C14_forged_never_accepted : forall c : case, ~ In 6 (run c).
Proof. exact forged_never_accepted. Qed.
Print Assumptions C14_forged_never_accepted.

(* A quiescent renewal always succeeds and leaves both endpoints on the same, next, token with
   empty links, from any in-sync idle state (so after any number of earlier renewals). *)
Theorem C14_quiescent_renewal_resyncs_partial : forall s : st,
  ce s = se s -> renewing s = false -> c2s s = [] -> sq s = [] -> s2c s = [] ->
  let s1 := fst (step s CRenew) in let s2 := fst (step s1 SRecv) in
  let s3 := fst (step s2 SWrite) in let s4 := fst (step s3 CRecv) in
  run_from s [CRenew; SRecv; SWrite; CRecv] = [4; 2; 4; 2] /\
  ce s4 = ce s + 1 /\ se s4 = ce s4 /\ renewing s4 = false /\ c2s s4 = [] /\ sq s4 = [] /\ s2c s4 = [].
Proof. exact quiescent_renewal_resyncs. Qed.
Print Assumptions C14_quiescent_renewal_resyncs_partial.

(* After any history outside the two racy classes, once the links and the server's queue have
   drained both endpoints hold the same token and no renewal is outstanding. *)
Theorem C14_drained_means_in_sync_partial : forall c : case,
  let s := fold_left (fun s o => fst (step s o)) c init in
  known c = 0 -> c2s s = [] -> sq s = [] -> s2c s = [] -> ce s = se s /\ renewing s = false.
Proof. exact drained_means_in_sync. Qed.
Print Assumptions C14_drained_means_in_sync_partial.

(* The two known classes are exact, not over-approximations: after ANY history outside them, a
   request the client secures while its renew request is outstanding finds the server on the next
   token when it arrives (after the frames ahead of it), whatever happens on the other link, and
   is rejected; and a response written ahead of a queued renew response finds the client still on
   an earlier token and is rejected. *)
Theorem C14_class1_exact : forall c : case, known c = 0 -> renewing (after c) = true ->
  let s := after c in
  let s2 := srecv_n (length (c2s s)) (fst (step s CSend)) in
  racy s CSend = 1 /\ se s2 = ce s + 1 /\ snd (step s2 SRecv) = 0.
Proof. exact class1_exact. Qed.
Print Assumptions C14_class1_exact.

Theorem C14_class2_exact : forall (c : case) (r : list resp),
  known c = 0 -> sq (after c) = RMsg :: r -> has_ropn r = true ->
  let s := after c in
  let s2 := crecv_n (length (s2c s)) (fst (step s SWrite)) in
  racy s SWrite = 2 /\ ce s2 < se s /\ snd (step s2 CRecv) = 0.
Proof. exact class2_exact. Qed.
Print Assumptions C14_class2_exact.

Theorem C14_oracle : forall c : case, known c = 0 -> oracle c (run c) = true.
Proof. exact oracle_holds. Qed.
Print Assumptions C14_oracle.

(* facts about the current source the model rests on (regenerated on every run).  The last one
   scopes known class 1: a request that finds the token due waits for the renewal (it performs it
   or awaits the renewal lock, which is held until the response has been applied), so the schedule
   [CRenew; CSend; ..] is open only to a request that passed the due-check before the renewal
   began -- not to every request entering send() while a renewal is in flight. *)
Theorem C14_source_facts : single_key_slot = true /\ server_switches_on_request = true /\
  client_switches_on_response = true /\ no_token_id_check_on_receive = true /\
  due_request_waits_for_renewal = true /\
  (* the renew request installs the client nonce the new keys are built from; the client applies
     token, server nonce and keys in one locked step, in end_issue_or_renew_secure_channel only *)
  renew_request_installs_client_nonce = true /\ client_switch_is_one_locked_step = true /\
  (* the server derives the new keys once, from the nonce of this request and a fresh nonce of its
     own that it returns, under the channel's write lock, and refuses a repeated client nonce *)
  server_renew_uses_fresh_nonces = true /\ server_switch_under_channel_lock = true /\
  (* the windows of the two known classes: both sides secure a message when their transport task
     takes it from its queue, not when the caller hands it over *)
  server_secures_when_written = true /\ client_secures_when_dequeued = true /\
  single_verification_path = true.
Proof. repeat split; reflexivity. Qed.
Print Assumptions C14_source_facts.
