(* C42 — from the Variant lemma to every built-in value, the oracle theorem, refutations. *)
From Coq Require Import List ZArith Bool Lia.
From OV Require Import C42.Text C42.Flt C42.Model C42.TextLaws C42.DateLaws C42.StructLaws C42.Proofs.
Import ListNotations.
Open Scope Z_scope.

(* ---- enough fuel ---------------------------------------------------------------------------------- *)
Lemma tdepth_obj_in k x fs : In (k, x) fs -> (tdepth x < tdepth (TObj fs))%nat.
Proof.
  intro H. cbn [tdepth].
  set (f := fun kx : str * tree => let '(_, x0) := kx in tdepth x0).
  pose proof (proj1 (list_max_le (map f fs) (list_max (map f fs))) (le_n _)) as Hall.
  rewrite Forall_forall in Hall.
  specialize (Hall (f (k, x)) (in_map f fs (k, x) H)). cbn in Hall. lia.
Qed.

Lemma in_fields k t l : In (k, Some t) l -> In (k, t) (fields l).
Proof.
  induction l as [|[k' [t'|]] r IH]; cbn [fields In]; intro H.
  - contradiction.
  - destruct H as [H|H]; [left; congruence | right; auto].
  - destruct H as [H|H]; [discriminate | auto].
Qed.

Fixpoint ddepth_le (d : diag) : (ddepth d <= tdepth (diag_tree d))%nat.
Proof.
  destruct d as [sym ns loc lt info isc [d'|]].
  - specialize (ddepth_le d'). cbn [ddepth diag_tree].
    assert (H : (tdepth (diag_tree d') <
                 tdepth (TObj (fields [(kAdditionalInfo, otree ustr_tree info);
                   (kInnerDiagnosticInfo, Some (diag_tree d')); (kInnerStatusCode, otree tint isc);
                   (kLocale, otree tint loc); (kLocalizedText, otree tint lt);
                   (kNamespaceUri, otree tint ns); (kSymbolicId, otree tint sym)])))%nat).
    { apply (tdepth_obj_in kInnerDiagnosticInfo). apply in_fields. right. left. reflexivity. }
    lia.
  - cbn [ddepth diag_tree tdepth]. lia.
Qed.

Lemma mkv_depth ty body : (tdepth body < tdepth (mkv ty body))%nat.
Proof. unfold mkv. apply (tdepth_obj_in kBody). left. reflexivity. Qed.

Lemma dv_depth t r : (tdepth t < tdepth (dv_tree (Some t) r))%nat.
Proof.
  destruct r as [status sts sps vts vps]. cbn [dv_tree].
  apply (tdepth_obj_in kValue). apply in_fields. do 5 right. left. reflexivity.
Qed.

Lemma vdepth_le : forall n v t, (vdepth v <= n)%nat -> variant_tree now v = Some t ->
  (vdepth v <= S (tdepth t))%nat.
Proof.
  induction n as [|n IH]; intros v t Hn Ht.
  { pose proof (vdepth_pos v). lia. }
  destruct v as [ | | | | | | | | | | | | | | | | | | | | | | | [v'|] r | v' | d | ];
    cbn [vdepth] in *; try lia.
  - cbn [variant_tree] in Ht. destruct (variant_tree now v') as [t'|] eqn:E; [|discriminate].
    injection Ht as <-. specialize (IH v' t' ltac:(lia) E).
    pose proof (dv_depth t' r). pose proof (mkv_depth 23 (dv_tree (Some t') r)). lia.
  - cbn [variant_tree] in Ht. destruct (variant_tree now v') as [t'|] eqn:E; [|discriminate].
    injection Ht as <-. specialize (IH v' t' ltac:(lia) E).
    pose proof (mkv_depth 24 t'). lia.
  - cbn [variant_tree] in Ht. injection Ht as <-.
    pose proof (ddepth_le d). pose proof (mkv_depth 25 (diag_tree d)). lia.
Qed.

(* ---- NaN payloads ------------------------------------------------------------------------------------ *)
Lemma v_norm_id : forall n v, (vdepth v <= n)%nat -> v_has_nan v = false -> v_norm v = v.
Proof.
  induction n as [|n IH]; intros v Hn H.
  { pose proof (vdepth_pos v). lia. }
  destruct v as [ | | | | | | | | | | b w | b | | | | | | | | | | | | [v'|] r | v' | | ];
    cbn [v_norm v_has_nan vdepth] in *; try reflexivity.
  - rewrite H. reflexivity.
  - rewrite H. reflexivity.
  - rewrite IH by (assumption || lia). reflexivity.
  - rewrite IH by (assumption || lia). reflexivity.
Qed.
Lemma norm_id a : has_nan a = false -> norm a = a.
Proof.
  destruct a as [ | | | | | | | | | [v|] r | v | | ]; cbn [norm has_nan]; intro H; try reflexivity.
  - rewrite (v_norm_id (vdepth v) v) by (assumption || lia). reflexivity.
  - rewrite (v_norm_id (vdepth v) v) by (assumption || lia). reflexivity.
Qed.

(* ---- every built-in ------------------------------------------------------------------------------------ *)
Definition no_known (a : value) : Prop :=
  match a with
  | ADataValue (Some v) _ => v_has_array v = false /\ v_has_both v = false
  | AVariant v => v_has_array v = false /\ v_has_both v = false
  | AXNodeId x => x_both x = false
  | _ => True
  end.

Lemma known_0 a : known (CVal a) = 0 ->
  no_known a /\ (forall t, to_tree now a = Some t -> text_readable t = true).
Proof.
  unfold known. intro H.
  set (v := match a with ADataValue v r => VDataValue v r | AVariant v => v | AXNodeId x => VXNodeId x | _ => VEmpty end) in *.
  destruct (v_has_array v) eqn:Ea; [discriminate|].
  destruct (v_has_both v) eqn:Eb; [discriminate|].
  destruct (DEPTH_LIMIT <? json_depth a) eqn:Ed; [discriminate|].
  split.
  - destruct a as [ | | | | | | | | | [v0|] r | v0 | | ]; cbn [no_known]; subst v; cbn [v_has_array v_has_both] in *; auto.
  - intros t Ht. unfold json_depth in Ed. rewrite Ht in Ed. unfold text_readable.
    apply Z.ltb_ge in Ed. apply Z.leb_le. exact Ed.
Qed.

Theorem value_rt a : inscope a = true -> no_known a ->
  exists t, to_tree now a = Some t /\ of_tree now (fuel_for t) (kind a) t = Some (norm a).
Proof.
  intros Hin Hk.
  destruct a as [s | b | g | t | n | x | z | q | l | [v|] r | v | e | d];
    cbn [inscope to_tree kind norm no_known] in *.
  - eexists; split; [reflexivity|]. unfold of_tree. rewrite ustr_rt. reflexivity.
  - eexists; split; [reflexivity|]. unfold of_tree. rewrite bstr_rt by exact Hin. reflexivity.
  - eexists; split; [reflexivity|]. unfold of_tree, guid_tree. cbn [guid_of]. rewrite guid_rt by exact Hin. reflexivity.
  - eexists; split; [reflexivity|]. unfold of_tree, date_tree. cbn [date_of]. rewrite date_rt by exact Hin. reflexivity.
  - eexists; split; [reflexivity|]. unfold of_tree. rewrite nodeid_rt by exact Hin. reflexivity.
  - eexists; split; [reflexivity|]. unfold of_tree. rewrite xnodeid_rt by assumption. reflexivity.
  - eexists; split; [reflexivity|]. unfold of_tree, status_of. rewrite int_rt by exact Hin. reflexivity.
  - eexists; split; [reflexivity|]. unfold of_tree. rewrite qname_rt by exact Hin. reflexivity.
  - eexists; split; [reflexivity|]. unfold of_tree. rewrite ltext_rt. reflexivity.
  - (* DataValue with a value *)
    cbn [variant_ok] in Hin. apply andb_true_iff in Hin as [Hv Hr]. destruct Hk as [Ha Hb].
    destruct (variant_rt (vdepth v) v (le_n _) Hv Ha Hb) as (t' & Ht' & Hnn & _).
    rewrite Ht'. eexists; split; [reflexivity|].
    pose proof (vdepth_le (vdepth v) v t' (le_n _) Ht') as Hfuel.
    pose proof (dv_depth t' r) as Hdd.
    destruct (variant_rt (fuel_for (dv_tree (Some t') r)) v ltac:(unfold fuel_for; lia) Hv Ha Hb)
      as (t'' & Ht'' & _ & Hof).
    rewrite Ht' in Ht''. injection Ht'' as <-.
    unfold of_tree, dvalue_of.
    pose proof (dvrest_rt (Some t') r Hr) as Hdv.
    destruct (dv_tree (Some t') r) as [| | | | |fs] eqn:Edv; try contradiction.
    destruct Hdv as [Hrest Hval]. rewrite Hval, Hrest.
    assert (Ho : opt_of (variant_of now (fuel_for (TObj fs))) (Some t') = Some (Some (v_norm v))).
    { unfold opt_of. destruct t'; try congruence; rewrite Hof; reflexivity. }
    rewrite Ho. reflexivity.
  - (* DataValue without a value *)
    cbn [variant_ok] in Hin. eexists; split; [reflexivity|].
    unfold of_tree, dvalue_of.
    pose proof (dvrest_rt None r Hin) as Hdv.
    destruct (dv_tree None r) as [| | | | |fs] eqn:Edv; try contradiction.
    destruct Hdv as [Hrest Hval]. rewrite Hval, Hrest. reflexivity.
  - (* Variant *)
    destruct Hk as [Ha Hb].
    destruct (variant_rt (vdepth v) v (le_n _) Hin Ha Hb) as (t' & Ht' & _ & _).
    pose proof (vdepth_le (vdepth v) v t' (le_n _) Ht') as Hfuel.
    destruct (variant_rt (fuel_for t') v ltac:(unfold fuel_for; lia) Hin Ha Hb) as (t'' & Ht'' & _ & Hof).
    rewrite Ht' in Ht''. injection Ht'' as <-.
    exists t'. split; [exact Ht'|]. unfold of_tree. rewrite Hof. reflexivity.
  - eexists; split; [reflexivity|]. unfold of_tree. rewrite extobj_rt by exact Hin. reflexivity.
  - eexists; split; [reflexivity|]. unfold of_tree.
    rewrite diag_rt by (exact Hin || (pose proof (ddepth_le d); unfold fuel_for; lia)). reflexivity.
Qed.

(* distinct values have distinct JSON (null and empty in particular) *)
Corollary to_tree_injective a b : inscope a = true -> inscope b = true -> no_known a -> no_known b ->
  kind a = kind b -> to_tree now a = to_tree now b -> norm a = norm b.
Proof.
  intros Ha Hb Ka Kb Hk He.
  destruct (value_rt a Ha Ka) as (ta & Hta & Hofa). destruct (value_rt b Hb Kb) as (tb & Htb & Hofb).
  rewrite Hta, Htb in He. injection He as <-. rewrite Hk, Hofb in Hofa. congruence.
Qed.

(* ---- the oracle ------------------------------------------------------------------------------------------ *)
Lemma list_eqb_refl l : list_eqb l l = true.
Proof. induction l as [|x l IH]; [reflexivity|]. cbn [list_eqb]. rewrite Z.eqb_refl. exact IH. Qed.

Lemma skipn_zlen (e rest : list Z) : skipn (Z.to_nat (zlen e)) (e ++ rest) = rest.
Proof.
  unfold zlen. rewrite Nat2Z.id. induction e as [|x e IH]; [reflexivity|]. cbn [length skipn app]. exact IH.
Qed.

Theorem oracle_holds c : valid c -> known c = 0 -> oracle c (run c) = true.
Proof.
  destruct c as [a | k t]; [|reflexivity].
  cbn [valid]. intros Hin Hk. apply known_0 in Hk as [Hnk Htxt].
  destruct (value_rt a Hin Hnk) as (t & Ht & Hof).
  unfold oracle, run, run_with. rewrite Hin, Ht, Hof. cbn [negb].
  rewrite skipn_zlen. rewrite (Htxt t Ht).
  replace (rust_eq a (norm a)) with (negb (has_nan a)).
  - destruct (has_nan a); cbn [negb]; apply list_eqb_refl.
  - unfold rust_eq. destruct (has_nan a) eqn:E.
    + rewrite andb_false_r. reflexivity.
    + rewrite norm_id by exact E. rewrite list_eqb_refl. reflexivity.
Qed.

(* ---- refutations ------------------------------------------------------------------------------------------ *)
Definition w_array : case := CVal (AVariant (VArray [1; 2; 3] None)).
Definition w_both : case := CVal (AXNodeId (XNodeId (NodeId 3 (INum 5)) (Some [117; 114; 110; 58; 120]) 0)).
Definition w_deep : case := CVal (AVariant (vnest 127 VEmpty)).
Lemma known_1_refuted : exists c, known c = 1 /\ valid c /\ oracle c (run c) = false.
Proof. exists w_array. repeat split; vm_compute; reflexivity. Qed.
Lemma known_2_refuted : exists c, known c = 2 /\ valid c /\ oracle c (run c) = false.
Proof. exists w_both. repeat split; vm_compute; reflexivity. Qed.
Lemma known_3_refuted : exists c, known c = 3 /\ valid c /\ oracle c (run c) = false.
Proof. exists w_deep. repeat split; vm_compute; reflexivity. Qed.

(* the four repaired defects: the pre-fix model fails the oracle on an in-scope value outside every
   known class, the repaired one passes *)
Definition legacy_fails (c : case) : Prop :=
  valid c /\ known c = 0 /\ oracle c (Legacy.run c) = false /\ oracle c (run c) = true.
Definition w_xuri : case := CVal (AXNodeId (XNodeId (NodeId 0 (INum 5)) (Some [117; 114; 110; 58; 120]) 0)).
Definition w_f32max : case := CVal (AVariant (VFloat 2139095039 5183643170655547384)).
Definition w_xmlnull : case := CVal (AVariant (VXml None)).
Definition w_diagnull : case := CVal (ADiag (Diag None None None None (Some None) None None)).
Lemma legacy_refuted_xuri : legacy_fails w_xuri.
Proof. repeat split; vm_compute; reflexivity. Qed.
Lemma legacy_refuted_f32max : legacy_fails w_f32max.
Proof. repeat split; vm_compute; reflexivity. Qed.
Lemma legacy_refuted_xmlnull : legacy_fails w_xmlnull.
Proof. repeat split; vm_compute; reflexivity. Qed.
Lemma legacy_refuted_diagnull : legacy_fails w_diagnull.
Proof. repeat split; vm_compute; reflexivity. Qed.

(* ---- corollaries stated in Props/C42.v -------------------------------------------------------------- *)
Lemma value_rt_exact a : inscope a = true -> no_known a -> has_nan a = false ->
  exists t, to_tree now a = Some t /\ of_tree now (fuel_for t) (kind a) t = Some a.
Proof.
  intros Hi Hk Hn. destruct (value_rt a Hi Hk) as (t & Ht & Hof).
  exists t. split; [exact Ht|]. rewrite Hof, (norm_id a Hn). reflexivity.
Qed.

Lemma null_is_not_empty :
  to_tree now (AString None) <> to_tree now (AString (Some [])) /\
  to_tree now (ABytes None) <> to_tree now (ABytes (Some [])) /\
  to_tree now (AVariant (VString None)) <> to_tree now (AVariant (VString (Some []))) /\
  to_tree now (AVariant (VXml None)) <> to_tree now (AVariant (VXml (Some []))) /\
  to_tree now (AVariant (VByteString None)) <> to_tree now (AVariant (VByteString (Some []))) /\
  to_tree now (ADiag (Diag None None None None None None None)) <>
    to_tree now (ADiag (Diag None None None None (Some None) None None)).
Proof. repeat split; discriminate. Qed.

Lemma text_primitives :
  (forall z, I64MIN <= z <= I64MAX -> parse_int true I64MIN I64MAX (show_int z) = Some z) /\
  (forall z, 0 <= z <= U64MAX -> parse_int false 0 U64MAX (show_int z) = Some z) /\
  (forall bs, Forall byte bs -> b64_decode (b64_encode bs) = Some bs) /\
  (forall g, length g = 16%nat -> Forall byte g -> parse_guid (guid_text g) = Some g) /\
  (forall t, 0 <= t <= ENDTIMES_TICKS -> t mod TICKS_PER_MS = 0 -> parse_date (date_text t) = Some t).
Proof.
  split; [|split; [|split; [|split]]].
  - intros z H. apply parse_show_signed; unfold I64MIN, I64MAX in *; lia.
  - intros z H. apply parse_show_unsigned; unfold U64MAX in *; lia.
  - exact b64_roundtrip.
  - exact guid_roundtrip.
  - exact date_roundtrip.
Qed.

Lemma example_scope :
  let a := ADataValue (Some (VVariant (VXNodeId (XNodeId (NodeId 0 (IStr (Some [120]))) (Some [117]) 7))))
                      (DVRest (Some 2147549184) (Some 0) (Some 65535) (Some ENDTIMES_TICKS) None) in
  inscope a = true /\ no_known a /\ has_nan a = false /\ known (CVal a) = 0.
Proof. repeat split; vm_compute; reflexivity. Qed.
