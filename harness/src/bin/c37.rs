//! C37: reconnect back-off (client/retry.rs) through the `verif_backoff` hook.
#[path = "../util.rs"]
mod util;
use util::*;
use opcua::client::retry::SessionRetryPolicy;
use std::time::Duration;

#[derive(Clone, Copy, Debug, PartialEq)]
pub enum How { New, Infinity, Never, Default, Config(i32) }
/// how: the way the policy object is obtained; pre: delays drawn from a first iterator of the same
/// policy object before the observed one is created; connect: observe the real
/// AsyncSecureChannel::connect loop (through Client::get_server_endpoints_from_url) against a
/// listener that drops every connection, for at most n attempts, instead of n calls of next().
pub struct Case { how: How, pre: u32, connect: bool, max: Duration, limit: Option<u32>, init: Duration, count0: u32, n: u32 }
pub struct P;

fn builder(l: i32, max: Duration, init: Duration) -> opcua::client::Client {
    opcua::client::ClientBuilder::new()
        .application_name("verif").application_uri("urn:verif")
        .pki_dir("/tmp/verif-c37-pki").create_sample_keypair(false).trust_server_certs(true)
        .session_retry_limit(l).session_retry_max(max).session_retry_initial(init)
        .client().unwrap()
}

/// The real connect loop against a server that fails every attempt: a local listener accepts and
/// drops each connection.  Returns [attempts observed (at most cap), 1 if connect gave up].
fn connect_attempts(l: i32, max: Duration, init: Duration, cap: u32) -> Vec<i128> {
    use std::sync::atomic::{AtomicU32, Ordering};
    use std::sync::Arc;
    let rt = tokio::runtime::Builder::new_current_thread().enable_all().build().unwrap();
    rt.block_on(async move {
        let listener = tokio::net::TcpListener::bind("127.0.0.1:0").await.unwrap();
        let port = listener.local_addr().unwrap().port();
        let count = Arc::new(AtomicU32::new(0));
        let (tx, mut rx) = tokio::sync::mpsc::unbounded_channel::<()>();
        let c2 = count.clone();
        let acc = tokio::spawn(async move {
            loop {
                let Ok((sock, _)) = listener.accept().await else { break };
                drop(sock);
                let k = c2.fetch_add(1, Ordering::SeqCst) + 1;
                if k > cap { let _ = tx.send(()); break; }
            }
        });
        let client = builder(l, max, init);
        let url = format!("opc.tcp://127.0.0.1:{}/", port);
        let fut = client.get_server_endpoints_from_url(url);
        let r = if cap == 0 { vec![0, 0] } else {
            tokio::select! {
                biased;
                _ = rx.recv() => vec![cap as i128, 0],
                // an attempt beyond the cap was made: the loop was still trying after `cap` attempts
                r = fut => { let k = count.load(Ordering::SeqCst); if r.is_ok() { vec![-4] } else if k > cap { vec![cap as i128, 0] } else { vec![k as i128, 1] } }
                _ = tokio::time::sleep(Duration::from_secs(10)) => vec![-3, count.load(Ordering::SeqCst) as i128],
            }
        };
        acc.abort();
        r
    })
}

fn ns(d: Duration) -> i128 { d.as_secs() as i128 * 1_000_000_000 + d.subsec_nanos() as i128 }
fn dur(r: &mut Rng) -> Duration {
    match r.below(8) {
        0 => Duration::ZERO,
        1 => Duration::MAX,
        2 => Duration::new(u64::MAX / 2, r.below(1_000_000_000) as u32), // around MAX/2
        3 => Duration::new(u64::MAX / 2 + r.below(3), 999_999_999 - r.below(3) as u32),
        4 => Duration::from_millis(r.below(100_000)),
        5 => Duration::new(r.next() >> r.below(64), r.below(1_000_000_000) as u32),
        6 => Duration::from_nanos(r.below(1000)),
        _ => Duration::from_secs(r.below(3600)),
    }
}

fn pc(max: Duration, limit: Option<u32>, init: Duration, count0: u32, n: u32) -> Case {
    Case { how: How::New, pre: 0, connect: false, max, limit, init, count0, n }
}

impl Property for P {
    type Case = Case;
    fn fixed(tier: &str) -> Vec<Case> {
        let ms = Duration::from_millis;
        let mut v = vec![
            pc(ms(30000), Some(10), ms(500), 0, 12),
            pc(ms(3000), None, ms(500), 0, 20),
            pc(ms(30000), Some(0), ms(500), 0, 3),
            // initial delay above Duration::MAX / 2: `current_sleep * 2` overflowed before the fix
            pc(Duration::MAX, Some(3), Duration::new(u64::MAX / 2 + 1, 0), 0, 4),
            pc(Duration::MAX, None, Duration::MAX, 0, 4),
            pc(Duration::from_secs(5), None, Duration::MAX, 0, 4),
            // unlimited policy after u32::MAX delays: `retry_count += 1` overflowed before the fix
            pc(ms(1000), None, ms(10), u32::MAX, 3),
            pc(ms(1000), None, ms(10), u32::MAX - 1, 4),
            pc(ms(1000), Some(u32::MAX), ms(10), u32::MAX - 2, 5),
            pc(Duration::ZERO, Some(4), Duration::ZERO, 0, 6),
            pc(Duration::ZERO, Some(4), ms(7), 0, 6),
        ];
        // every constructor, with max != initial so that a swap shows, and a second iterator of
        // the same policy object after the first one was used up
        for pre in [0u32, 13] {
            v.push(Case { how: How::Infinity, pre, connect: false, max: ms(700), limit: Some(2), init: ms(3), count0: 0, n: 12 });
            v.push(Case { how: How::Never, pre, connect: false, max: ms(700), limit: None, init: ms(3), count0: 0, n: 3 });
            v.push(Case { how: How::Default, pre, connect: false, max: ms(700), limit: None, init: ms(3), count0: 0, n: 13 });
            v.push(Case { how: How::Config(-1), pre, connect: false, max: ms(700), limit: Some(1), init: ms(3), count0: 0, n: 12 });
            v.push(Case { how: How::Config(0), pre, connect: false, max: ms(700), limit: None, init: ms(3), count0: 0, n: 3 });
            v.push(Case { how: How::Config(1), pre, connect: false, max: ms(3), limit: None, init: ms(700), count0: 0, n: 3 });
            v.push(Case { how: How::Config(i32::MAX), pre, connect: false, max: ms(700), limit: None, init: ms(3), count0: i32::MAX as u32 - 2, n: 5 });
        }
        // the connect loop: before the fix the back-off was created inside the loop, so any limit
        // above 0 retried for ever with the initial delay
        for (l, n) in [(0i32, 3u32), (1, 4), (2, 3), (2, 2), (3, 6), (-1, 5), (4, 5), (4, 4)] {
            v.push(Case { how: How::Config(l), pre: 0, connect: true, max: ms(2), limit: None, init: ms(1), count0: 0, n });
        }
        if tier == "thorough" {
            // every limit -1..5 against every observation bound 0..7 (at, below and above limit + 1)
            for l in -1i32..=5 { for n in 0u32..=7 {
                v.push(Case { how: How::Config(l), pre: 0, connect: true, max: Duration::from_micros(700 + 100 * n as u64), limit: None, init: Duration::from_micros(300 + 50 * (l + 1) as u64), count0: 0, n });
            } }
        }
        v
    }
    fn gen(r: &mut Rng) -> Case {
        if r.chance(1, 12) {
            // connect loop: tiny real delays
            let l = r.below(6) as i32 - 1;
            return Case { how: How::Config(l), pre: 0, connect: true, max: Duration::from_micros(r.below(3000)), limit: None,
                          init: Duration::from_micros(r.below(2000)), count0: 0, n: r.below(7) as u32 };
        }
        let limit = match r.below(5) { 0 => None, 1 => Some(r.below(4) as u32), 2 => Some(u32::MAX - r.below(3) as u32), _ => Some(r.below(40) as u32) };
        let how = match r.below(10) {
            0 => How::Infinity, 1 => How::Never, 2 => How::Default,
            3 | 4 => How::Config(match limit { None => -1, Some(l) => l.min(i32::MAX as u32 - r.below(2) as u32) as i32 }),
            _ => How::New };
        // the effective limit decides where the interesting counter values are
        let eff = match how { How::New => limit, How::Infinity => None, How::Never => Some(0), How::Default => Some(10), How::Config(l) => if l < 0 { None } else { Some(l as u32) } };
        let count0 = match r.below(6) {
            0 => u32::MAX - r.below(4) as u32,
            1 => eff.map(|l| l.saturating_sub(r.below(3) as u32)).unwrap_or(0),
            _ => 0,
        };
        let pre = if r.chance(1, 3) { r.below(50) as u32 } else { 0 };
        Case { how, pre, connect: false, max: dur(r), limit, init: dur(r), count0, n: 1 + r.below(70) as u32 }
    }
    fn exec(c: &Case) -> Out {
        let out = if c.connect {
            let How::Config(l) = c.how else { panic!("connect cases use the client configuration") };
            connect_attempts(l, c.max, c.init, c.n)
        } else {
            let policy = match c.how {
                How::New => SessionRetryPolicy::new(c.max, c.limit, c.init),
                How::Infinity => SessionRetryPolicy::infinity(c.max, c.init),
                How::Never => SessionRetryPolicy::never(),
                How::Default => SessionRetryPolicy::default(),
                How::Config(l) => builder(l, c.max, c.init).verif_session_retry_policy(),
            };
            let mut out = Vec::new();
            // a first iterator of the same policy object, used before the observed one exists
            let mut first = policy.verif_backoff(0);
            let mut pre_ok = true;
            for _ in 0..c.pre { if guarded(|| { first.next(); }).is_err() { pre_ok = false; break; } }
            if !pre_ok { out.push(-2); }
            let mut it = policy.verif_backoff(c.count0);
            for _ in 0..c.n {
                if !pre_ok { break; }
                match guarded(|| it.next()) {
                    Ok(Some(d)) => out.push(ns(d)),
                    Ok(None) => out.push(-1),
                    Err(_) => { out.push(-2); break; }
                }
            }
            out
        };
        let tag = format!("{}{}{}{}{}",
            match c.how { How::New => "new", How::Infinity => "infinity", How::Never => "never", How::Default => "default", How::Config(_) => "config" },
            if c.connect { "-connect" } else { "" },
            if c.pre > 0 { "-second" } else { "" },
            if ns(c.init) * 2 > ns(Duration::MAX) { "-hugeinit" } else if c.init > c.max { "-init>max" } else { "" },
            if c.count0 > u32::MAX - 4 { "-countnearmax" } else { "" });
        let how = match c.how { How::New => "New".to_string(), How::Infinity => "Infinity".to_string(), How::Never => "Never".to_string(), How::Default => "Default".to_string(), How::Config(l) => format!("(Config {})", z(l as i128)) };
        let term = format!("(mk_case {} {} {} (mk_pcase {} {} {} {} {}))", how, z(c.pre as i128), c.connect,
            z(ns(c.max)), coq_opt(&c.limit, |l| z(*l as i128)), z(ns(c.init)), z(c.count0 as i128), z(c.n as i128));
        Out { tag, term, out }
    }
}
fn main() { run_main::<P>() }
