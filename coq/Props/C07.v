(* C07 — Any message survives chunking and channel security unchanged.  Statements only.

   The theorems are about the channel model of C07/Chan.v (Chunker::encode / validate_chunks /
   decode, MessageChunk::new / body_size_from_message_size, SecureChannel::apply_security /
   verify_and_remove_security / padding_size / verify_padding, the RSA block loops), for EVERY
   choice of the external primitives [P] (HMAC, AES, RSA, signatures, X509, UTF-8) that satisfies
   the laws collected in [link] (RoundTrip.v): MAC and signature lengths, AES and RSA decryption
   inverting encryption, cipher text lengths, the receiver holding the keys the sender uses. *)
From Coq Require Import List ZArith Bool.
Import ListNotations.
From OV Require Import C07.Chan C07.ChanProofs C07.RoundTrip C07.Encode C07.Model C07.Proofs.
Open Scope Z_scope.

(* The whole path, for every policy, mode, chunk type, in-range key sizes (inside [link]),
   max_chunk_size 0 or >= 8196 and every non-empty message: encode produces chunks numbered
   seq, seq+1, ... with one request id and the final flag exactly on the last one; each chunk,
   secured by the sender and passed through verify_and_remove_security of the receiver, comes out
   byte-identical; no secured chunk exceeds max_chunk_size; validate_chunks accepts the received
   chunks and decode reassembles exactly the message bytes. *)
Theorem C07_end_to_end : forall (P : prims) (fx : fixes),
  fx_pad_sign fx = true -> fx_budget fx = true -> fx_opn_budget fx = true ->
  forall (S : sender) (R : receiver), link P S R ->
  forall (t : mtype) (req seq max : Z) (data : bytes),
  0 <= req < U32 -> data <> [] -> len data <= 1073741824 -> 0 <= seq -> seq + len data < U32 ->
  (max = 0 \/ src_min_chunk <= max) ->
  exists parts,
    let cs := mk_chunks S t seq req parts in
    encode fx S t seq req max data = Ok cs /\ parts <> [] /\ concat parts = data /\
    (forall i b, nth_error parts i = Some b ->
       let plain := new_chunk S t (if Nat.eqb (Datatypes.S i) (length parts) then 1 else 0) (seq + Z.of_nat i) req b in
       nth_error cs i = Some plain /\
       exists sec, apply_security P fx S t plain = Ok sec /\
                   recv P fx R sec = (Ok plain, r_policy R) /\
                   (0 < max -> len sec <= max)) /\
    validate_chunks P fx R seq cs = Ok (seq + Z.of_nat (length parts) - 1) /\
    decode P R cs = Ok data.
Proof. exact end_to_end. Qed.
Print Assumptions C07_end_to_end.

(* The server's writer.  MessageWriter::write chunks with Chunker::encode(last_sent + 1, request id,
   .., the send buffer size negotiated for the connection in HEL / ACK) -- [writer_chunks true] --
   so every clause above holds of what the writer emits; stated explicitly: the chunks are numbered
   from last_sent + 1, pass the receiver unchanged, reassemble to the response, and EVERY SECURED
   CHUNK THE WRITER EMITS IS AT MOST THE NEGOTIATED SIZE. *)
Theorem C07_writer : forall (P : prims) (fx : fixes),
  fx_pad_sign fx = true -> fx_budget fx = true -> fx_opn_budget fx = true ->
  forall (S : sender) (R : receiver), link P S R ->
  forall (t : mtype) (req last negotiated : Z) (data : bytes),
  0 <= req < U32 -> data <> [] -> len data <= 1073741824 -> 0 <= last -> last + 1 + len data < U32 ->
  src_min_chunk <= negotiated ->
  exists parts,
    let cs := mk_chunks S t (last + 1) req parts in
    writer_chunks true fx S t last req negotiated data = Ok cs /\ parts <> [] /\ concat parts = data /\
    (forall i b, nth_error parts i = Some b ->
       let plain := new_chunk S t (if Nat.eqb (Datatypes.S i) (length parts) then 1 else 0) (last + 1 + Z.of_nat i) req b in
       nth_error cs i = Some plain /\
       exists sec, apply_security P fx S t plain = Ok sec /\
                   recv P fx R sec = (Ok plain, r_policy R) /\
                   len sec <= negotiated) /\
    validate_chunks P fx R (last + 1) cs = Ok (last + 1 + Z.of_nat (length parts) - 1) /\
    decode P R cs = Ok data.
Proof. exact writer_ok. Qed.
Print Assumptions C07_writer.

(* the repaired code is an instance: [current] has the three fixes *)
Theorem C07_current_fixed : fx_pad_sign current = true /\ fx_budget current = true /\ fx_opn_budget current = true.
Proof. repeat split; reflexivity. Qed.
Print Assumptions C07_current_fixed.

(* One chunk through the channel, with the exact size on the wire (closed form [secured_size]). *)
Theorem C07_recv_send : forall (P : prims) (fx : fixes), fx_pad_sign fx = true ->
  forall (S : sender) (R : receiver), link P S R ->
  forall (t : mtype) (fin seq req : Z) (body : bytes),
  fin = 0 \/ fin = 1 \/ fin = 2 -> len body <= 1073741824 ->
  let plain := new_chunk S t fin seq req body in
  exists sec, apply_security P fx S t plain = Ok sec /\
              recv P fx R sec = (Ok plain, r_policy R) /\
              len sec = secured_size S t (len body).
Proof. exact recv_send. Qed.
Print Assumptions C07_recv_send.

(* The header fields the receiver reads back from a chunk made by MessageChunk::new. *)
Theorem C07_shape : forall (P : prims) (S : sender) (R : receiver), link P S R ->
  forall (t : mtype) (fin seq req : Z) (body : bytes),
  fin = 0 \/ fin = 1 \/ fin = 2 -> 0 <= seq < U32 -> 0 <= req < U32 -> len body <= 1073741824 ->
  exists inf, chunk_info P (r_limits R) (new_chunk S t fin seq req body) = Ok inf /\
    h_type (i_hdr inf) = t /\ h_final (i_hdr inf) = fin /\ h_chan (i_hdr inf) = s_chan S /\
    h_size (i_hdr inf) = len (new_chunk S t fin seq req body) /\
    i_seq inf = seq /\ i_req inf = req /\ i_body inf = body.
Proof.
  intros P S R L t fin seq req body Hf Hs Hr Hb. eexists. split; [apply (chunk_info_plain P S R L t fin seq req body Hf Hs Hr Hb)|].
  repeat split; reflexivity.
Qed.
Print Assumptions C07_shape.

(* The body budget: body_size_from_message_size yields k >= 1 and every body of at most k bytes
   gives a secured chunk of at most max_chunk_size bytes. *)
Theorem C07_budget : forall (P : prims) (fx : fixes),
  fx_pad_sign fx = true -> fx_budget fx = true -> fx_opn_budget fx = true ->
  forall (S : sender) (R : receiver), link P S R -> forall (t : mtype) (max : Z), src_min_chunk <= max ->
  exists k, body_budget fx S t max = Ok k /\ 1 <= k /\ forall b, 0 <= b <= k -> secured_size S t b <= max.
Proof. exact budget_ok. Qed.
Print Assumptions C07_budget.

(* Arithmetic core: the padded encrypted range is a whole number of blocks, the padding is less
   than a block above the minimum. *)
Theorem C07_padding_block : forall pbs es, 0 < pbs -> 0 <= es ->
  let ps := if es mod pbs =? 0 then 0 else pbs - es mod pbs in
  (es + ps) mod pbs = 0 /\ 0 <= ps <= pbs - 1.
Proof. exact padding_block. Qed.
Print Assumptions C07_padding_block.

(* verify_padding finds and strips exactly the padding add_space_for_padding_and_signature wrote:
   one-byte form (key size <= 256 bytes, symmetric chunks) and two-byte form (larger keys). *)
Theorem C07_padding_strip : forall fx a b p ks,
  (ks <= 256 -> 1 <= p <= 256 -> verify_padding fx (a ++ padding_bytes p 1 ++ b) ks (len a + p) = Ok (len a)) /\
  (256 < ks -> 2 <= p <= 65537 -> verify_padding fx (a ++ padding_bytes p 2 ++ b) ks (len a + p) = Ok (len a)).
Proof. intros. split; [apply verify_padding_one|apply verify_padding_two]. Qed.
Print Assumptions C07_padding_strip.

(* The RSA block loops: private_decrypt inverts public_encrypt for any plain text length, and the
   cipher text has the computed size. *)
Theorem C07_rsa_blocks : forall (P : prims) (fx : fixes) (key : Z) (pol : policy) (pbs ks : Z),
  0 < pbs -> 0 < ks ->
  (forall blk, len blk <= pbs -> len (p_rsa_enc P key pol blk) = ks) ->
  (forall blk, len blk <= pbs -> p_rsa_dec P key pol (p_rsa_enc P key pol blk) = Some blk) ->
  forall src, rsa_decrypt P fx key ks pol (rsa_encrypt P key pol pbs src) = Ok src /\
              len (rsa_encrypt P key pol pbs src) = cipher_text_size pbs ks (len src).
Proof. intros. split; [apply rsa_roundtrip|apply rsa_encrypt_len]; assumption. Qed.
Print Assumptions C07_rsa_blocks.

(* data.chunks(k) is a partition into pieces of 1..k bytes. *)
Theorem C07_partition : forall k l, 1 <= k ->
  concat (chunks_of k l) = l /\ Forall (fun p => 1 <= len p <= k) (chunks_of k l).
Proof. intros. split; [apply chunks_of_concat|apply chunks_of_parts]; assumption. Qed.
Print Assumptions C07_partition.

(* The laws are satisfiable: the executable stand-ins used by the correspondence run (including
   the real HMAC in byte-exact cases) satisfy them for every valid case. *)
Theorem C07_link_satisfiable : forall c, valid c -> link (toy_prims (c_exact c)) (sender_of c) (receiver_of c).
Proof. exact case_link. Qed.
Print Assumptions C07_link_satisfiable.

(* The correspondence oracle (the property as a predicate on an observed run) holds of the model
   for every valid case. *)
Theorem C07_oracle : forall c, valid c -> known c = 0 -> oracle c (run c) = true.
Proof. exact oracle_holds. Qed.
Print Assumptions C07_oracle.

(* The code before each of the three fix: commits violates the property. *)
Theorem C07_legacy_refuted_padding : exists c, valid c /\ oracle c (Legacy.run_padding c) = false.
Proof. exists w_padding. exact legacy_padding_refuted. Qed.
Print Assumptions C07_legacy_refuted_padding.

Theorem C07_legacy_refuted_budget : exists c, valid c /\ oracle c (Legacy.run_budget c) = false.
Proof. exists w_budget. exact legacy_budget_refuted. Qed.
Print Assumptions C07_legacy_refuted_budget.

Theorem C07_legacy_refuted_opn_budget : exists c, valid c /\ oracle c (Legacy.run_opn_budget c) = false.
Proof. exists w_opn_budget. exact legacy_opn_budget_refuted. Qed.
Print Assumptions C07_legacy_refuted_opn_budget.

(* before "server responses were never chunked": the writer passed max_chunk_size 0 and a 9000 byte
   response left as one chunk of more than the negotiated 8196 bytes; the repaired writer chunks it *)
Theorem C07_legacy_refuted_writer :
  exists c, valid c /\ oracle c (Legacy.run_writer c) = false /\ oracle c (run c) = true.
Proof. exists w_writer. exact legacy_writer_refuted. Qed.
Print Assumptions C07_legacy_refuted_writer.

(* the hypotheses are satisfiable by concrete non-trivial cases *)
Example C07_valid_example : valid w_padding /\ valid w_budget /\ valid w_opn_budget.
Proof. repeat split; vm_compute; reflexivity. Qed.
