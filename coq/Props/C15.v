(* C15 — No service is processed before the handshake or after channel close.  Statements only.

   [trace fs] is the model of the server connection (reading loop + process_hello +
   process_chunk/process_final_chunk + secure channel service, SecurityPolicy None) run on the
   frame sequence fs from a fresh connection: one record (frame, status, responses queued) per
   frame processed; processing stops at the first frame whose status is not S_OK (the loop's `?`,
   after which the transport is finished).  Every theorem is for ALL frame sequences (induction). *)
From Coq Require Import List ZArith.
Import ListNotations.
From OV Require Import C15.Model C15.Proofs.
Open Scope Z_scope.

(* a non-HEL first frame closes the connection with no response, and nothing after it is processed *)
Theorem C15_first_frame_must_be_hello : forall f fs, is_hel f = false ->
  trace (f :: fs) = [(f, S_COMM, [])].
Proof. exact first_frame_must_be_hello. Qed.
Print Assumptions C15_first_frame_must_be_hello.

(* the connection answers nothing until it has acknowledged a HEL: whatever response is ever
   queued, the ACK to a HEL was queued at that frame or earlier *)
Theorem C15_nothing_before_hello_ack : forall fs i r,
  nth_error (trace fs) i = Some r -> rresp r <> [] ->
  exists j r', (j <= i)%nat /\ nth_error (trace fs) j = Some r' /\
               is_hel (rframe r') = true /\ rstatus r' = S_OK /\ rresp r' = [R_ACK].
Proof. exact nothing_before_hello_ack. Qed.
Print Assumptions C15_nothing_before_hello_ack.

(* no MSG or CLO frame is processed successfully or answered unless an OPN frame was answered
   with an OpenSecureChannelResponse strictly earlier on this connection *)
Theorem C15_no_service_before_open : forall fs i r,
  nth_error (trace fs) i = Some r -> is_service (rframe r) = true ->
  rstatus r = S_OK \/ rresp r <> [] ->
  exists j r', (j < i)%nat /\ nth_error (trace fs) j = Some r' /\
               is_opn (rframe r') = true /\ rstatus r' = S_OK /\ rresp r' = [R_OPN].
Proof. exact no_service_before_open. Qed.
Print Assumptions C15_no_service_before_open.

(* a CLO frame gets no response and is the last frame the connection processes *)
Theorem C15_nothing_after_close : forall fs i r,
  nth_error (trace fs) i = Some r -> is_clo (rframe r) = true ->
  rresp r = [] /\ length (trace fs) = S i.
Proof. exact nothing_after_close. Qed.
Print Assumptions C15_nothing_after_close.

(* the decidable form used by the correspondence run holds on every model trace *)
Theorem C15_oracle : forall c, valid c -> known c = 0 -> oracle c (run c) = true.
Proof. intros c _ _. apply oracle_trace. Qed.
Print Assumptions C15_oracle.

(* the code before the fix answered a service request straight after HEL/ACK *)
Theorem C15_legacy_refuted :
  render (Legacy.trace legacy_witness) = [0; 1; 1; 0; 1; 3; -1; 0] /\
  oracle legacy_witness (render (Legacy.trace legacy_witness)) = false.
Proof. exact legacy_refuted. Qed.
Print Assumptions C15_legacy_refuted.
