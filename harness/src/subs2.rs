//! Shared driver for C21 / C27 / C40: runs an operation list against the REAL subscription
//! machinery of one session (server::session::Session + services::subscription +
//! subscriptions::{subscriptions,subscription,monitored_item}) with explicit `now` values and a
//! private address space of Int32 variables, and prints the canonical observation after every
//! operation.  The Coq side is coq/C21/Sys.v (`case`, `run`).
#![allow(dead_code)]
use super::util::*;
use chrono::TimeZone;
use opcua::server::address_space::{variable::Variable, AddressSpace};
use opcua::server::builder::ServerBuilder;
use opcua::server::state::ServerState as SrvState;
use opcua::server::services::subscription::verif as svc;
use opcua::server::session::Session;
use opcua::server::subscriptions::subscription::Subscription;
use opcua::sync::RwLock;
use opcua::types::service_types::*;
use opcua::types::status_code::StatusCode;
use opcua::types::*;
use opcua::core::supported_message::SupportedMessage;
use std::sync::Arc;

#[derive(Clone, Debug)]
pub enum Op {
    /// set variable `v` to Int32 `x`
    Write { v: i64, x: i64 },
    /// now += dt; expire stale requests; timer tick (as the subscription timer task does)
    Tick { dt: i64 },
    /// now += dt; publish request (timeout hint, acknowledgements (sub, seq))
    Publish { dt: i64, hint: i64, acks: Vec<(i64, i64)> },
    CreateSub { prio: i64, interval: i64, kac: i64, life: i64, enabled: bool },
    DeleteSub { sub: i64 },
    CreateItem { sub: i64, var: i64, mode: i64, samp: i64, qsize: i64, discard_oldest: bool },
    DeleteItem { sub: i64, item: i64 },
    Republish { sub: i64, seq: i64 },
    SetPublishing { sub: i64, enabled: bool },
}

pub struct Case { pub nvars: i64, pub ops: Vec<Op> }

pub fn op_term(o: &Op) -> String {
    let zz = |v: i64| z(v as i128);
    match o {
        Op::Write { v, x } => format!("OWrite {} {}", zz(*v), zz(*x)),
        Op::Tick { dt } => format!("OTick {}", zz(*dt)),
        Op::Publish { dt, hint, acks } => format!("OPublish {} {} {}", zz(*dt), zz(*hint),
            coq_list(acks, |a| format!("({}, {})", zz(a.0), zz(a.1)))),
        Op::CreateSub { prio, interval, kac, life, enabled } => format!("OCreateSub {} {} {} {} {}",
            zz(*prio), zz(*interval), zz(*kac), zz(*life), coq_bool(*enabled)),
        Op::DeleteSub { sub } => format!("ODeleteSub {}", zz(*sub)),
        Op::CreateItem { sub, var, mode, samp, qsize, discard_oldest } => format!("OCreateItem {} {} {} {} {} {}",
            zz(*sub), zz(*var), zz(*mode), zz(*samp), zz(*qsize), coq_bool(*discard_oldest)),
        Op::DeleteItem { sub, item } => format!("ODeleteItem {} {}", zz(*sub), zz(*item)),
        Op::Republish { sub, seq } => format!("ORepublish {} {}", zz(*sub), zz(*seq)),
        Op::SetPublishing { sub, enabled } => format!("OSetPublishing {} {}", zz(*sub), coq_bool(*enabled)),
    }
}
pub fn case_term(c: &Case) -> String {
    format!("(mk_case {} {})", z(c.nvars as i128), coq_list(&c.ops, op_term))
}

/// status classes shared with Sys.v
pub fn class(s: StatusCode) -> i128 {
    if s == StatusCode::Good { 0 }
    else if s == StatusCode::BadSequenceNumberUnknown { 1 }
    else if s == StatusCode::BadSubscriptionIdInvalid { 2 }
    else if s == StatusCode::BadMessageNotAvailable { 3 }
    else if s == StatusCode::BadTimeout { 4 }
    else if s == StatusCode::BadTooManyPublishRequests { 5 }
    else if s == StatusCode::BadNoSubscription { 6 }
    else if s == StatusCode::BadMonitoredItemIdInvalid { 7 }
    else if s == StatusCode::BadNodeIdUnknown { 8 }
    else { 99 }
}

thread_local! {
    static SERVER_STATE: Arc<RwLock<SrvState>> = {
        let dir = std::env::temp_dir().join(format!("subs2-pki-{}", std::process::id()));
        let server = ServerBuilder::new_anonymous("subs2").pki_dir(dir).server().expect("server");
        server.server_state()
    };
}

fn base() -> DateTimeUtc { chrono::Utc.with_ymd_and_hms(2020, 1, 1, 0, 0, 0).unwrap() }
fn at(ms: i64) -> DateTimeUtc { base() + chrono::Duration::milliseconds(ms) }
fn ms_of(t: &DateTime) -> i128 {
    let b = DateTime::from(base());
    ((t.ticks() - b.ticks()) / 10_000) as i128
}
fn u32c(v: i64) -> u32 { v.clamp(0, u32::MAX as i64) as u32 }
fn var_id(v: i64) -> NodeId { NodeId::new(1, format!("v{}", v)) }

/// canonical message: seq, publish time (ms since base), kind (0 keep-alive, 1 data, 2 status
/// change, 3 other), number of values, then (client handle, value, overflow bit) per value,
/// stably sorted by client handle (HashMap iteration order of the items is not observable)
fn msg_out(m: &NotificationMessage, out: &mut Vec<i128>) {
    out.push(m.sequence_number as i128);
    out.push(ms_of(&m.publish_time));
    let opts = DecodingOptions::default();
    let mut data: Vec<(i128, i128, i128)> = Vec::new();
    let kind = match &m.notification_data {
        None => 0,
        Some(_) => match m.notifications(&opts) {
            Some((dcs, evs)) if evs.is_empty() => {
                for dc in dcs { for mi in dc.monitored_items.unwrap_or_default() {
                    let v = match mi.value.value { Some(Variant::Int32(v)) => v as i128, _ => -999_999 };
                    let ovf = match mi.value.status { Some(s) if s.contains(StatusCode::OVERFLOW) => 1, _ => 0 };
                    data.push((mi.client_handle as i128, v, ovf));
                } }
                1
            }
            Some(_) => 3,
            None => 2,
        },
    };
    data.sort_by_key(|d| d.0);
    out.push(kind);
    out.push(data.len() as i128);
    for d in data { out.push(d.0); out.push(d.1); out.push(d.2); }
}

pub struct World {
    session: Arc<RwLock<Session>>,
    space: Arc<RwLock<AddressSpace>>,
    now: i64,
    next_sub: u32,
    next_rid: u32,
}

impl World {
    pub fn new(nvars: i64) -> World {
        let server_state = SERVER_STATE.with(|s| s.clone());
        let session = Arc::new(RwLock::new(Session::new(server_state)));
        let mut space = AddressSpace::default();
        for v in 0..nvars {
            let id = var_id(v);
            let name = format!("v{}", v);
            let _ = space.insert(Variable::new(&id, name.as_str(), name.as_str(), 0i32), None::<&[(&NodeId, &NodeId, opcua::server::address_space::types::ReferenceDirection)]>);
        }
        World { session, space: Arc::new(RwLock::new(space)), now: 0, next_sub: 1, next_rid: 1 }
    }

    fn responses(&self, out: &mut Vec<i128>) {
        let rs = self.session.write().verif_take_publish_responses();
        let rs: Vec<_> = rs.map(|q| q.into_iter().collect()).unwrap_or_default();
        out.push(rs.len() as i128);
        for r in rs {
            match r.response {
                SupportedMessage::PublishResponse(p) => {
                    out.push(1);
                    out.push(r.request_id as i128);
                    out.push(p.subscription_id as i128);
                    out.push(p.more_notifications as i128);
                    let avail = p.available_sequence_numbers.clone().unwrap_or_default();
                    out.push(avail.len() as i128);
                    for a in avail { out.push(a as i128); }
                    let res = p.results.clone().unwrap_or_default();
                    out.push(res.len() as i128);
                    for s in res { out.push(class(s)); }
                    msg_out(&p.notification_message, out);
                }
                SupportedMessage::ServiceFault(f) => {
                    out.push(2);
                    out.push(r.request_id as i128);
                    out.push(class(f.response_header.service_result));
                }
                _ => { out.push(3); }
            }
        }
    }

    fn snapshot(&self, out: &mut Vec<i128>) {
        let mut s = self.session.write();
        let ids = s.verif_subscription_ids();
        out.push(ids.len() as i128);
        for id in ids {
            let sub = s.verif_subscription_mut(id).unwrap();
            out.push(id as i128);
            out.push(sub.verif_state() as i128);
            out.push(sub.verif_notifications().len() as i128);
        }
        let keys = s.verif_retransmission_keys();
        out.push(keys.len() as i128);
        for k in keys { out.push(k.0 as i128); out.push(k.1 as i128); }
        let reqs = s.verif_publish_request_ids();
        out.push(reqs.len() as i128);
        for r in reqs { out.push(r as i128); }
        // how many of the pending notifications of each subscription carry data
        let ids = s.verif_subscription_ids();
        out.push(ids.len() as i128);
        for id in ids {
            let sub = s.verif_subscription_mut(id).unwrap();
            let n = sub.verif_notifications().iter().filter(|m| {
                m.notification_data.is_some() && m.notifications(&DecodingOptions::default()).is_some()
            }).count();
            out.push(n as i128);
        }
    }

    /// one operation; appends marker 7, status, optional republished message, responses, snapshot
    fn step(&mut self, opix: usize, o: &Op, out: &mut Vec<i128>) {
        let mut status: i128 = 0;
        let mut rmsg: Option<NotificationMessage> = None;
        match o {
            Op::Write { v, x } => {
                let t = DateTime::from(at(self.now));
                let ok = self.space.write().set_variable_value(var_id(*v), *x as i32, &t, &t);
                status = if ok { 0 } else { 8 };
            }
            Op::Tick { dt } => {
                self.now += *dt;
                let now = at(self.now);
                let mut s = self.session.write();
                let a = self.space.read();
                s.verif_expire_stale_publish_requests(&now);
                let r = s.verif_tick_subscriptions(&now, &a);
                status = match r { Ok(()) => 0, Err(e) => class(e) };
            }
            Op::Publish { dt, hint, acks } => {
                self.now += *dt;
                let now = at(self.now);
                let rid = self.next_rid;
                self.next_rid += 1;
                let mut header = RequestHeader::new(&NodeId::null(), &DateTime::from(now), rid);
                header.timeout_hint = u32c(*hint);
                let request = PublishRequest {
                    request_header: header,
                    subscription_acknowledgements: if acks.is_empty() { None } else {
                        Some(acks.iter().map(|a| SubscriptionAcknowledgement { subscription_id: u32c(a.0), sequence_number: u32c(a.1) }).collect())
                    },
                };
                let r = svc::async_publish(&now, self.session.clone(), self.space.clone(), rid, &request);
                status = match r {
                    None => 0,
                    Some(SupportedMessage::ServiceFault(f)) => class(f.response_header.service_result),
                    Some(_) => 98,
                };
            }
            Op::CreateSub { prio, interval, kac, life, enabled } => {
                let id = self.next_sub;
                self.next_sub += 1;
                let diagnostics = Arc::new(RwLock::new(opcua::server::diagnostics::ServerDiagnostics::default()));
                let mut sub = Subscription::new(diagnostics, id, *enabled, *interval as f64, u32c(*life), u32c(*kac), (*prio).clamp(0, 255) as u8);
                sub.verif_set_last_time_publishing_interval_elapsed(&at(self.now));
                self.session.write().verif_insert_subscription(id, sub);
                status = id as i128;
            }
            Op::DeleteSub { sub } => {
                let request = DeleteSubscriptionsRequest { request_header: RequestHeader::dummy(), subscription_ids: Some(vec![u32c(*sub)]) };
                status = match svc::delete_subscriptions(self.session.clone(), &request) {
                    SupportedMessage::DeleteSubscriptionsResponse(r) => class(r.results.unwrap()[0]),
                    _ => 98,
                };
            }
            Op::CreateItem { sub, var, mode, samp, qsize, discard_oldest } => {
                let now = at(self.now);
                let server_state = SERVER_STATE.with(|s| s.clone());
                let server_state = server_state.read();
                let a = self.space.read();
                let mut s = self.session.write();
                // CreateMonitoredItems service: unknown subscription -> BadSubscriptionIdInvalid
                status = match s.verif_subscription_mut(u32c(*sub)) {
                    None => -(10 + 2),
                    Some(subscription) => {
                        let request = MonitoredItemCreateRequest {
                            item_to_monitor: ReadValueId { node_id: var_id(*var), attribute_id: AttributeId::Value as u32, index_range: UAString::null(), data_encoding: QualifiedName::null() },
                            monitoring_mode: match mode { 0 => MonitoringMode::Disabled, 1 => MonitoringMode::Sampling, _ => MonitoringMode::Reporting },
                            requested_parameters: MonitoringParameters {
                                client_handle: opix as u32,
                                sampling_interval: *samp as f64,
                                filter: ExtensionObject::null(),
                                queue_size: u32c(*qsize),
                                discard_oldest: *discard_oldest,
                            },
                        };
                        let r = subscription.create_monitored_items(&server_state, &a, &now, TimestampsToReturn::Neither, &[request]);
                        if r[0].status_code == StatusCode::Good { r[0].monitored_item_id as i128 } else { -(10 + class(r[0].status_code)) }
                    }
                };
            }
            Op::DeleteItem { sub, item } => {
                let mut s = self.session.write();
                // DeleteMonitoredItems service: unknown subscription -> BadSubscriptionIdInvalid
                status = match s.verif_subscription_mut(u32c(*sub)) {
                    None => 2,
                    Some(subscription) => class(subscription.delete_monitored_items(&[u32c(*item)])[0]),
                };
            }
            Op::Republish { sub, seq } => {
                let request = RepublishRequest { request_header: RequestHeader::dummy(), subscription_id: u32c(*sub), retransmit_sequence_number: u32c(*seq) };
                match svc::republish(self.session.clone(), &request) {
                    SupportedMessage::RepublishResponse(r) => { status = 0; rmsg = Some(r.notification_message); }
                    SupportedMessage::ServiceFault(f) => status = class(f.response_header.service_result),
                    _ => status = 98,
                }
            }
            Op::SetPublishing { sub, enabled } => {
                let request = SetPublishingModeRequest { request_header: RequestHeader::dummy(), publishing_enabled: *enabled, subscription_ids: Some(vec![u32c(*sub)]) };
                status = match svc::set_publishing_mode(self.session.clone(), &request) {
                    SupportedMessage::SetPublishingModeResponse(r) => class(r.results.unwrap()[0]),
                    _ => 98,
                };
            }
        }
        out.push(7);
        out.push(status);
        match rmsg { None => out.push(0), Some(m) => { out.push(1); msg_out(&m, out); } }
        self.responses(out);
        self.snapshot(out);
    }
}

/// Add-only accessors for drivers that extend the operation set in their own file (C27's
/// ModifySubscription): the session, the server state, and one observed step.
impl World {
    pub fn session_handle(&self) -> Arc<RwLock<Session>> { self.session.clone() }
    pub fn server_state_handle() -> Arc<RwLock<SrvState>> { SERVER_STATE.with(|s| s.clone()) }
    /// one operation of the shared set, observation appended to `out` (see `step`)
    pub fn step_observed(&mut self, opix: usize, o: &Op, out: &mut Vec<i128>) { self.step(opix, o, out) }
    /// marker 7, `status`, the message slot (absent, or three numbers as seq / time / kind of a
    /// message without data), then the responses and the snapshot: the observation of an
    /// operation that the caller performed on `session_handle()` itself
    pub fn observe_external(&mut self, status: i128, slot: Option<[i128; 3]>, out: &mut Vec<i128>) {
        out.push(7);
        out.push(status);
        match slot { None => out.push(0), Some(v) => { out.push(1); out.extend_from_slice(&v); out.push(0); } }
        self.responses(out);
        self.snapshot(out);
    }
}

impl World {
    /// for simulation-guided generators: run one operation, return false on panic
    pub fn apply(&mut self, opix: usize, o: &Op) -> bool {
        let mut part = Vec::new();
        guarded(|| self.step(opix, o, &mut part)).is_ok()
    }
    pub fn retained(&self) -> Vec<(i64, i64)> {
        self.session.read().verif_retransmission_keys().into_iter().map(|k| (k.0 as i64, k.1 as i64)).collect()
    }
    pub fn live_subs(&self) -> Vec<i64> {
        self.session.read().verif_subscription_ids().into_iter().map(|k| k as i64).collect()
    }
    pub fn queued_requests(&self) -> usize { self.session.read().verif_publish_request_ids().len() }
}

/// Runs the whole case; a panic in the real code ends the output with the marker -2.
pub fn exec_case(c: &Case) -> Vec<i128> {
    let mut out = Vec::new();
    let mut w = World::new(c.nvars);
    for (k, o) in c.ops.iter().enumerate() {
        let mut part = Vec::new();
        match guarded(|| w.step(k, o, &mut part)) {
            Ok(()) => out.extend(part),
            Err(_) => { out.push(-2); break; }
        }
    }
    // a poisoned world is simply dropped; parking_lot locks do not poison
    out
}
