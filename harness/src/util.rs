//! Shared harness utilities: deterministic PRNG, Coq term formatting, panic capture, CLI driver.
//! Included by every property binary with `#[path = "../util.rs"] mod util;`.
#![allow(dead_code)]
use std::panic::{catch_unwind, AssertUnwindSafe};

/// SplitMix64: every random choice of a run derives from VERIF_SEED through this.
#[derive(Clone)]
pub struct Rng(pub u64);
impl Rng {
    pub fn new(seed: u64) -> Self { Rng(seed ^ 0x9E37_79B9_7F4A_7C15) }
    pub fn next(&mut self) -> u64 {
        self.0 = self.0.wrapping_add(0x9E37_79B9_7F4A_7C15);
        let mut z = self.0;
        z = (z ^ (z >> 30)).wrapping_mul(0xBF58_476D_1CE4_E5B9);
        z = (z ^ (z >> 27)).wrapping_mul(0x94D0_49BB_1331_11EB);
        z ^ (z >> 31)
    }
    /// uniform in 0..n (n > 0)
    pub fn below(&mut self, n: u64) -> u64 { if n == 0 { 0 } else { self.next() % n } }
    pub fn range(&mut self, lo: i64, hi: i64) -> i64 { lo + self.below((hi - lo + 1) as u64) as i64 }
    pub fn chance(&mut self, num: u64, den: u64) -> bool { self.below(den) < num }
    pub fn pick<'a, T>(&mut self, xs: &'a [T]) -> &'a T { &xs[self.below(xs.len() as u64) as usize] }
    pub fn bytes(&mut self, n: usize) -> Vec<u8> { (0..n).map(|_| self.next() as u8).collect() }
}
pub fn subseed(seed: u64, i: u64) -> u64 {
    let mut r = Rng::new(seed.wrapping_mul(0x2545_F491_4F6C_DD1D).wrapping_add(i));
    r.next()
}

/// Coq literal of an integer in Z scope
pub fn z(v: i128) -> String { if v < 0 { format!("({})", v) } else { format!("{}", v) } }
pub fn zlist<I: IntoIterator<Item = i128>>(vs: I) -> String {
    let v: Vec<String> = vs.into_iter().map(z).collect();
    format!("[{}]", v.join("; "))
}
pub fn zbytes(bs: &[u8]) -> String { zlist(bs.iter().map(|b| *b as i128)) }
pub fn coq_list<T, F: Fn(&T) -> String>(xs: &[T], f: F) -> String {
    let v: Vec<String> = xs.iter().map(f).collect();
    format!("[{}]", v.join("; "))
}
pub fn coq_bool(b: bool) -> &'static str { if b { "true" } else { "false" } }
pub fn coq_opt<T, F: Fn(&T) -> String>(x: &Option<T>, f: F) -> String {
    match x { None => "None".to_string(), Some(v) => format!("(Some {})", f(v)) }
}

/// Run `f`, mapping a panic to Err(message). The default hook is silenced by main().
pub fn guarded<T, F: FnOnce() -> T>(f: F) -> Result<T, String> {
    match catch_unwind(AssertUnwindSafe(f)) {
        Ok(v) => Ok(v),
        Err(e) => Err(if let Some(s) = e.downcast_ref::<&str>() { s.to_string() }
                      else if let Some(s) = e.downcast_ref::<String>() { s.clone() }
                      else { "panic".to_string() }),
    }
}

/// One executed case: tag (input class, for the distribution), the Coq term of the case,
/// and the implementation's canonical output.
pub struct Out { pub tag: String, pub term: String, pub out: Vec<i128> }

pub trait Property {
    type Case;
    /// deterministic boundary / regression cases (the corpus), run first
    fn fixed(tier: &str) -> Vec<Self::Case>;
    fn gen(r: &mut Rng) -> Self::Case;
    fn exec(c: &Self::Case) -> Out;
}

pub struct Args { pub seed: u64, pub n: u64, pub tier: String, pub ids: Option<Vec<String>> }

pub fn drive<P: Property>(a: &Args) {
    use std::io::Write;
    let stdout = std::io::stdout();
    let mut w = std::io::BufWriter::new(stdout.lock());
    let mut emit = |id: String, o: Out| {
        let _ = writeln!(w, "CASE\t{}\t{}\t{}\t{}", o.tag, o.term, zlist(o.out.iter().cloned()), id);
    };
    if let Some(ids) = &a.ids {
        let fixed = P::fixed(&a.tier);
        for id in ids {
            if let Some(k) = id.strip_prefix("fixed:") {
                if let Ok(k) = k.parse::<usize>() { if k < fixed.len() { emit(id.clone(), P::exec(&fixed[k])); } }
            } else if let Some(s) = id.strip_prefix("seed:") {
                if let Ok(s) = s.parse::<u64>() { let mut r = Rng::new(s); let c = P::gen(&mut r); emit(id.clone(), P::exec(&c)); }
            }
        }
        return;
    }
    for (k, c) in P::fixed(&a.tier).iter().enumerate() { emit(format!("fixed:{}", k), P::exec(c)); }
    for i in 0..a.n {
        let s = subseed(a.seed, i);
        let mut r = Rng::new(s);
        let c = P::gen(&mut r);
        emit(format!("seed:{}", s), P::exec(&c));
    }
}

/// CLI of every property binary:  cXX --seed S --n N [--tier quick|thorough] [--ids FILE]
pub fn run_main<P: Property>() {
    let argv: Vec<String> = std::env::args().collect();
    let mut a = Args { seed: 1, n: 100, tier: "quick".into(), ids: None };
    let mut i = 1;
    while i < argv.len() {
        match argv[i].as_str() {
            "--seed" if i + 1 < argv.len() => { a.seed = argv[i + 1].parse().unwrap_or(1); i += 2; }
            "--n" if i + 1 < argv.len() => { a.n = argv[i + 1].parse().unwrap_or(100); i += 2; }
            "--tier" if i + 1 < argv.len() => { a.tier = argv[i + 1].clone(); i += 2; }
            "--ids" if i + 1 < argv.len() => {
                let s = std::fs::read_to_string(&argv[i + 1]).unwrap_or_default();
                a.ids = Some(s.lines().map(|l| l.trim().to_string()).filter(|l| !l.is_empty()).collect());
                i += 2;
            }
            _ => { i += 1; }
        }
    }
    // panics are captured by `guarded`; keep stderr quiet
    std::panic::set_hook(Box::new(|_| {}));
    drive::<P>(&a);
}
