From Coq Require Import List ZArith Bool Lia.
Import ListNotations.
From OV Require Import C10.Model.
Open Scope Z_scope.

(* ---- the pending list ---------------------------------------------------------------------- *)

Lemma pend_bytes_app p q : pend_bytes (p ++ q) = pend_bytes p + pend_bytes q.
Proof. induction p as [|c p IH]; cbn [app pend_bytes fold_right]; [reflexivity|]. fold (pend_bytes (p ++ q)). fold (pend_bytes p). lia. Qed.

Lemma pend_count_app p q : pend_count (p ++ q) = pend_count p + pend_count q.
Proof. unfold pend_count. rewrite app_length. lia. Qed.

Lemma pend_count_nonneg p : 0 <= pend_count p.
Proof. unfold pend_count. lia. Qed.

(* the invariant: the pending list respects both limits (a limit of 0 is "no limit") *)
Definition within (l : lim) (p : list (Z * Z)) : Prop :=
  (max_chunks l = 0 \/ pend_count p <= max_chunks l) /\
  (max_size l = 0 \/ pend_bytes p <= max_size l).

Definition lim_ok (l : lim) : Prop := 0 <= max_chunks l /\ (max_size l = 0 \/ 8 <= max_size l).

Lemma within_nil l : lim_ok l -> within l [].
Proof. intros [H1 H2]. split; cbn; [right; exact H1|]. destruct H2 as [H2|H2]; [left; exact H2|right; lia]. Qed.

(* ---- one step preserves the invariant ------------------------------------------------------ *)

Lemma step_within l s f : lim_ok l -> within l (pend s) ->
  within l (pend (fst (step_gen true true l s f))).
Proof.
  intros Hl Hw. unfold step_gen. destruct f as [fin size seq dec|declared present].
  - destruct ((0 <? max_size l) && (max_size l <? size)); [exact Hw|].
    destruct (fin =? 2); [apply within_nil; exact Hl|].
    destruct (size <? HDR_SEC); [exact Hw|].
    cbn [andb].
    destruct ((0 <? max_chunks l) && (max_chunks l <? pend_count (pend s ++ [(size, seq)]))) eqn:H1;
      [apply within_nil; exact Hl|].
    destruct ((0 <? max_size l) && (max_size l <? pend_bytes (pend s ++ [(size, seq)]))) eqn:H2;
      [apply within_nil; exact Hl|].
    destruct (fin =? 1).
    + destruct (final (last_seq s) (pend s ++ [(size, seq)]) dec). apply within_nil; exact Hl.
    + cbn [fst pend]. destruct Hl as [Hc Hs]. split.
      * apply andb_false_iff in H1 as [H1|H1]; [left; apply Z.ltb_ge in H1; lia|right; apply Z.ltb_ge in H1; exact H1].
      * apply andb_false_iff in H2 as [H2|H2]; [left; apply Z.ltb_ge in H2; destruct Hs; lia|right; apply Z.ltb_ge in H2; exact H2].
  - destruct (present <=? 8); [exact Hw|].
    destruct (true && (0 <? max_size l) && (max_size l <? declared)); exact Hw.
Qed.

(* ---- the natural statements, for every reachable state ------------------------------------- *)

Definition rec_status (r : Z * Z * Z * Z) : Z := fst (fst (fst r)).
Definition rec_count (r : Z * Z * Z * Z) : Z := snd (fst (fst r)).
Definition rec_bytes (r : Z * Z * Z * Z) : Z := snd (fst r).

(* over any frame history the pending list stays within both limits *)
Theorem bounded_everywhere l : lim_ok l -> forall fs s, within l (pend s) ->
  forall r, In r (trace l s fs) ->
  (max_chunks l = 0 \/ rec_count r <= max_chunks l) /\ (max_size l = 0 \/ rec_bytes r <= max_size l).
Proof.
  intros Hl. induction fs as [|f fs IH]; intros s Hw r Hin; [destruct Hin|].
  unfold trace in *. cbn [trace_gen] in Hin.
  pose proof (step_within l s f Hl Hw) as Hw'.
  destruct (step_gen true true l s f) as [s' status]. cbn [fst] in Hw'.
  destruct Hin as [<-|Hin]; [exact Hw'|].
  destruct ((status =? S_OK) && negb (is_partial f)); [|destruct Hin].
  eapply IH; eauto.
Qed.

(* a chunk that would take the pending list over a limit is refused with an error *)
Theorem exceeding_is_refused l s fin size seq dec : fin <> 2 ->
  (0 < max_chunks l /\ max_chunks l < pend_count (pend s) + 1) \/
  (0 < max_size l /\ max_size l < pend_bytes (pend s) + size) ->
  let '(s', status) := step_gen true true l s (Chunk fin size seq dec) in
  is_ok status = false /\ closed s' = true.
Proof.
  intros Hfin Hex. unfold step_gen.
  destruct ((0 <? max_size l) && (max_size l <? size)); [cbv; split; reflexivity|].
  replace (fin =? 2) with false by (symmetry; apply Z.eqb_neq; exact Hfin).
  destruct (size <? HDR_SEC); [cbv; split; reflexivity|].
  cbn [andb]. rewrite pend_count_app, pend_bytes_app.
  change (pend_count [(size, seq)]) with 1. change (pend_bytes [(size, seq)]) with (size + 0).
  rewrite Z.add_0_r.
  destruct ((0 <? max_chunks l) && (max_chunks l <? pend_count (pend s) + 1)) eqn:H1; [cbv; split; reflexivity|].
  destruct ((0 <? max_size l) && (max_size l <? pend_bytes (pend s) + size)) eqn:H2; [cbv; split; reflexivity|].
  exfalso. destruct Hex as [[Ha Hb]|[Ha Hb]].
  - apply andb_false_iff in H1 as [H1|H1]; apply Z.ltb_ge in H1; lia.
  - apply andb_false_iff in H2 as [H2|H2]; apply Z.ltb_ge in H2; lia.
Qed.

(* after an error nothing more is processed: a record whose status is an error is the last *)
Theorem error_is_last cg tg l : forall fs s i r, nth_error (trace_gen cg tg l s fs) i = Some r ->
  rec_status r <> S_OK -> length (trace_gen cg tg l s fs) = S i.
Proof.
  induction fs as [|f fs IH]; intros s i r Hn Hs; [destruct i; discriminate|].
  cbn [trace_gen] in *. destruct (step_gen cg tg l s f) as [s' status].
  destruct i as [|i].
  - cbn in Hn. inversion Hn; subst. cbn [rec_status fst] in Hs.
    replace (status =? S_OK) with false by (symmetry; apply Z.eqb_neq; exact Hs). reflexivity.
  - cbn [nth_error] in Hn. destruct ((status =? S_OK) && negb (is_partial f)); [|destruct i; discriminate].
    cbn [length]. f_equal. eapply IH; eauto.
Qed.

(* the codec refuses a declared size above the maximum as soon as the header is in; it does not
   wait for the bytes *)
Theorem oversize_declared_refused l s declared present :
  0 < max_size l -> max_size l < declared -> 8 < present ->
  step_gen true true l s (Partial declared present) =
  (mk_st (pend s) (last_seq s) true present, S_COMM).
Proof.
  intros H1 H2 H3. unfold step_gen.
  replace (present <=? 8) with false by (symmetry; apply Z.leb_gt; exact H3).
  replace (0 <? max_size l) with true by (symmetry; apply Z.ltb_lt; exact H1).
  replace (max_size l <? declared) with true by (symmetry; apply Z.ltb_lt; exact H2).
  reflexivity.
Qed.

(* ---- the oracle holds on every model trace ------------------------------------------------- *)

Lemma validate_from_cases : forall cs first i, In (validate_from first i cs) [S_OK; S_COMM; S_SECURITY].
Proof.
  induction cs as [|[a b] cs IH]; intros first i; cbn [validate_from]; [left; reflexivity|].
  destruct (a <? HDR_SEQ); [right; left; reflexivity|].
  destruct (negb (b =? first + i)); [right; right; left; reflexivity|]. apply IH.
Qed.

Lemma final_cases last cs dec :
  In (fst (final last cs dec)) [S_OK; S_COMM; S_SECURITY; S_SEQ; S_MALFORMED].
Proof.
  unfold final. destruct cs as [|[size0 seq0] rest]; [right; left; reflexivity|].
  destruct (size0 <? HDR_SEQ); [right; left; reflexivity|].
  destruct (seq0 <? last + 1); [cbn; auto|].
  pose proof (validate_from_cases ((size0, seq0) :: rest) seq0 0) as Hv.
  destruct (negb (validate_from seq0 0 ((size0, seq0) :: rest) =? S_OK)).
  - cbn [fst]. destruct Hv as [<-|[<-|[<-|[]]]]; cbn; auto.
  - destruct dec; cbn; auto 6.
Qed.

Lemma chunk_status_cases cg tg l s fin size seq dec :
  In (snd (step_gen cg tg l s (Chunk fin size seq dec)))
     [S_OK; S_COMM; S_SECURITY; S_SEQ; S_MALFORMED; S_TOO_LARGE].
Proof.
  unfold step_gen.
  repeat match goal with |- context [if ?c then _ else _] => destruct c end; cbn [snd]; try (cbn; auto 7).
  pose proof (final_cases (last_seq s) (pend s ++ [(size, seq)]) dec) as Hf.
  destruct (final (last_seq s) (pend s ++ [(size, seq)]) dec) as [st la]. cbn [fst snd] in *.
  destruct Hf as [<-|[<-|[<-|[<-|[<-|[]]]]]]; cbn; auto 7.
Qed.

Lemma step_status cg tg l s f : 0 <= snd (step_gen cg tg l s f).
Proof.
  destruct f as [fin size seq dec|declared present].
  - pose proof (chunk_status_cases cg tg l s fin size seq dec) as H.
    destruct H as [<-|[<-|[<-|[<-|[<-|[<-|[]]]]]]];
      unfold S_OK, S_COMM, S_SECURITY, S_SEQ, S_MALFORMED, S_TOO_LARGE; lia.
  - unfold step_gen. repeat match goal with |- context [if ?c then _ else _] => destruct c end; cbn [snd];
      unfold S_WAITING, S_COMM; lia.
Qed.

Lemma partial_not_ok cg tg l s d p : snd (step_gen cg tg l s (Partial d p)) <> S_OK.
Proof.
  unfold step_gen. repeat match goal with |- context [if ?c then _ else _] => destruct c end;
    cbn [snd]; discriminate.
Qed.

Lemma head_ok l s f : lim_ok l -> within l (pend s) -> frame_ok f = true ->
  let '(s', status) := step_gen true true l s f in
  head_check l (pend_count (pend s)) (pend_bytes (pend s)) f
    (status, pend_count (pend s'), pend_bytes (pend s'), buffered s') = true.
Proof.
  intros Hl Hw Hf. pose proof (step_within l s f Hl Hw) as Hw'.
  destruct (step_gen true true l s f) as [s' status] eqn:Hstep. cbn [fst] in Hw'.
  unfold head_check. apply andb_true_iff. split.
  - (* bounded *)
    destruct Hw' as [Hc Hb]. apply andb_true_iff. split.
    + apply orb_true_iff. destruct Hc as [Hc|Hc]; [left; apply Z.eqb_eq; exact Hc|right; apply Z.leb_le; exact Hc].
    + apply orb_true_iff.
      destruct (Z.eq_dec (max_size l) 0) as [Hz|Hnz]; [left; apply Z.eqb_eq; exact Hz|right].
      assert (Hs : 8 <= max_size l) by (destruct Hl as [_ [?|?]]; [contradiction|assumption]).
      assert (Hb' : pend_bytes (pend s') <= max_size l) by (destruct Hb; [contradiction|assumption]).
      apply andb_true_iff. split; [apply Z.leb_le; exact Hb'|].
      destruct (is_ok status) eqn:Hok; [|reflexivity]. cbn [negb orb]. apply Z.leb_le.
      (* a live connection: the codec buffer holds nothing, or an incomplete frame below the maximum *)
      unfold step_gen in Hstep. destruct f as [fin size seq dec|declared present].
      * repeat match type of Hstep with context [if ?c then _ else _] => destruct c eqn:? end;
          inversion Hstep; subst; cbn [buffered]; try discriminate Hok; try (lia).
        destruct (final (last_seq s) (pend s ++ [(size, seq)]) dec) as [st la]. inversion Hstep; subst.
        cbn [buffered]. lia.
      * cbn [frame_ok] in Hf. apply andb_true_iff in Hf as [Hf1 Hf2]. apply Z.leb_le in Hf1. apply Z.ltb_lt in Hf2.
        destruct (present <=? 8) eqn:H8; [inversion Hstep; subst; cbn [buffered]; apply Z.leb_le in H8; lia|].
        cbn [andb] in Hstep.
        destruct ((0 <? max_size l) && (max_size l <? declared)) eqn:Hm; inversion Hstep; subst; [discriminate Hok|].
        cbn [buffered]. apply andb_false_iff in Hm as [Hm|Hm]; apply Z.ltb_ge in Hm; lia.
  - (* exceeding a limit / declaring too much is answered with an error *)
    destruct f as [fin size seq dec|declared present].
    + destruct (negb (fin =? 2) && (((0 <? max_chunks l) && (max_chunks l <? pend_count (pend s) + 1)) ||
                                    ((0 <? max_size l) && (max_size l <? pend_bytes (pend s) + size)))) eqn:Hex;
        [|reflexivity].
      apply andb_true_iff in Hex as [Hfin Hex]. apply negb_true_iff, Z.eqb_neq in Hfin.
      assert (Hex' : (0 < max_chunks l /\ max_chunks l < pend_count (pend s) + 1) \/
                     (0 < max_size l /\ max_size l < pend_bytes (pend s) + size)).
      { apply orb_true_iff in Hex as [H|H]; apply andb_true_iff in H as [Ha Hb];
          apply Z.ltb_lt in Ha; apply Z.ltb_lt in Hb; auto. }
      pose proof (exceeding_is_refused l s fin size seq dec Hfin Hex') as H. rewrite Hstep in H.
      destruct H as [H _]. rewrite H. reflexivity.
    + destruct ((0 <? max_size l) && (max_size l <? declared) && (8 <? present)) eqn:Hex; [|reflexivity].
      apply andb_true_iff in Hex as [Hex H3]. apply andb_true_iff in Hex as [H1 H2].
      apply Z.ltb_lt in H1. apply Z.ltb_lt in H2. apply Z.ltb_lt in H3.
      rewrite (oversize_declared_refused l s declared present H1 H2 H3) in Hstep. inversion Hstep; subst.
      reflexivity.
Qed.

Lemma scan_trace l : lim_ok l -> forall fs s, within l (pend s) -> forallb frame_ok fs = true ->
  scan l (pend_count (pend s)) (pend_bytes (pend s)) fs (trace l s fs) = true.
Proof.
  intros Hl. induction fs as [|f fs IH]; intros s Hw Hf; [reflexivity|].
  cbn [forallb] in Hf. apply andb_true_iff in Hf as [Hf1 Hf2].
  unfold trace in *. cbn [trace_gen].
  pose proof (head_ok l s f Hl Hw Hf1) as Hh. pose proof (step_within l s f Hl Hw) as Hw'.
  destruct (step_gen true true l s f) as [s' status]. cbn [fst] in Hw'.
  cbn [scan]. rewrite Hh.
  destruct ((status =? S_OK) && negb (is_partial f)) eqn:Hc; [|destruct fs; reflexivity].
  rewrite (IH s' Hw' Hf2). destruct (trace_gen true true l s' fs); reflexivity.
Qed.

Lemma parse_render : forall t fuel fin, (forall r, In r t -> 0 <= rec_status r) -> (length t < fuel)%nat ->
  parse fuel (concat (map render_rec t) ++ [-1; fin]) = Some (t, fin).
Proof.
  induction t as [|[[[a b] c] d] t IH]; intros fuel fin Hst Hf.
  - destruct fuel; [cbn in Hf; lia|]. reflexivity.
  - destruct fuel; [cbn in Hf; lia|].
    cbn [map concat render_rec app parse].
    assert (H0 : 0 <= a) by (apply (Hst (a, b, c, d)); left; reflexivity).
    replace (a =? -1) with false by (symmetry; apply Z.eqb_neq; lia).
    rewrite IH; [reflexivity|intros r Hr; apply Hst; right; exact Hr|cbn in Hf; lia].
Qed.

Lemma trace_status_nonneg cg tg l : forall fs s r, In r (trace_gen cg tg l s fs) -> 0 <= rec_status r.
Proof.
  induction fs as [|f fs IH]; intros s r; [intros []|].
  cbn [trace_gen]. pose proof (step_status cg tg l s f) as Hs.
  destruct (step_gen cg tg l s f) as [s' status]. cbn [snd] in Hs.
  intros [<-|Hin]; [exact Hs|].
  destruct ((status =? S_OK) && negb (is_partial f)); [eapply IH; exact Hin|destruct Hin].
Qed.

Lemma trace_length_le cg tg l : forall fs s, (length (trace_gen cg tg l s fs) <= length fs)%nat.
Proof.
  induction fs as [|f fs IH]; intros s; [apply le_n|].
  cbn [trace_gen]. destruct (step_gen cg tg l s f) as [s' status].
  destruct ((status =? S_OK) && negb (is_partial f)); cbn [length]; [specialize (IH s')|]; lia.
Qed.

Lemma not_failed_complete cg tg l : forall fs s, partial_only_last fs = true ->
  failed (trace_gen cg tg l s fs) = false -> length (trace_gen cg tg l s fs) = length fs.
Proof.
  induction fs as [|f fs IH]; intros s Hp Hfl; [reflexivity|].
  cbn [trace_gen] in *. pose proof (partial_not_ok cg tg l s) as Hpn.
  destruct (step_gen cg tg l s f) as [s' status] eqn:Hstep.
  cbn [failed existsb] in Hfl. apply orb_false_iff in Hfl as [Hh Ht].
  apply negb_false_iff in Hh.
  destruct fs as [|f2 fs].
  - destruct ((status =? S_OK) && negb (is_partial f)); reflexivity.
  - cbn [partial_only_last] in Hp. apply andb_true_iff in Hp as [Hnp Hp]. rewrite Hnp in *.
    rewrite andb_true_r in *.
    destruct f as [fin size seq dec|d p]; [|discriminate Hnp].
    (* a chunk's status is never WAITING *)
    assert (Hw : status <> S_WAITING).
    { pose proof (chunk_status_cases cg tg l s fin size seq dec) as H. rewrite Hstep in H. cbn [snd] in H.
      destruct H as [<-|[<-|[<-|[<-|[<-|[<-|[]]]]]]]; discriminate. }
    destruct (status =? S_OK) eqn:Hs.
    + cbn [length]. f_equal. apply IH; [exact Hp|exact Ht].
    + exfalso. cbn [orb] in Hh. apply Z.eqb_eq in Hh. contradiction.
Qed.

Theorem oracle_trace c : valid c -> oracle c (run c) = true.
Proof.
  intros (Hmc & Hms & Hf & Hp). unfold oracle, run, render.
  set (l := mk_lim (c_mc c) (c_mms c)).
  assert (Hl : lim_ok l) by (split; assumption).
  rewrite parse_render.
  - pose proof (scan_trace l Hl (c_frames c) init (within_nil l Hl) Hf) as Hs.
    cbn [pend init pend_count pend_bytes length fold_right Z.of_nat] in Hs. rewrite Hs. cbn [andb].
    destruct (failed (trace l init (c_frames c))) eqn:Hfl; [reflexivity|].
    unfold trace in *. rewrite (not_failed_complete true true l (c_frames c) init Hp Hfl), !Z.eqb_refl. reflexivity.
  - intros r Hr. eapply trace_status_nonneg. exact Hr.
  - rewrite app_length. cbn [length].
    assert (Hlen : forall t : list (Z * Z * Z * Z), (length t <= length (concat (map render_rec t)))%nat).
    { induction t as [|[[[a b] c0] d] t IH]; [apply le_n|]. cbn [map concat render_rec length app]. lia. }
    specialize (Hlen (trace l init (c_frames c))). lia.
Qed.

(* ---- the code before the fixes ------------------------------------------------------------- *)

Definition legacy_witness_transport : case :=
  mk_case 3 0 [Chunk 0 40 2 false; Chunk 0 40 3 false; Chunk 0 40 4 false; Chunk 0 40 5 false].
Definition legacy_witness_codec : case := mk_case 5 1000 [Partial 1001 12].

Lemma legacy_transport_refuted :
  valid legacy_witness_transport /\
  render (Legacy.trace_transport (mk_lim 3 0) init (c_frames legacy_witness_transport)) =
    [0; 1; 40; 0;  0; 2; 80; 0;  0; 3; 120; 0;  0; 4; 160; 0;  -1; 0] /\
  oracle legacy_witness_transport
    (render (Legacy.trace_transport (mk_lim 3 0) init (c_frames legacy_witness_transport))) = false.
Proof. split; [unfold valid; cbn [c_mc c_mms c_frames legacy_witness_transport legacy_witness_codec]; repeat split; try reflexivity; lia|]. vm_compute. split; reflexivity. Qed.

Lemma legacy_codec_refuted :
  valid legacy_witness_codec /\
  render (Legacy.trace_codec (mk_lim 5 1000) init (c_frames legacy_witness_codec)) = [1; 0; 0; 12; -1; 0] /\
  oracle legacy_witness_codec
    (render (Legacy.trace_codec (mk_lim 5 1000) init (c_frames legacy_witness_codec))) = false.
Proof. split; [unfold valid; cbn [c_mc c_mms c_frames legacy_witness_transport legacy_witness_codec]; repeat split; try reflexivity; lia|]. vm_compute. split; reflexivity. Qed.

(* the old transport keeps every intermediate chunk: after n of them (any sizes >= 16 up to the
   frame maximum) n chunks are pending, whatever max_chunk_count says *)
Lemma legacy_unbounded l : forall sizes s,
  Forall (fun sz => HDR_SEC <= sz /\ (max_size l = 0 \/ sz <= max_size l)) sizes ->
  let fs := map (fun sz => Chunk 0 sz 0 false) sizes in
  let t := Legacy.trace_transport l s fs in
  length t = length sizes /\
  forall r, nth_error t (pred (length sizes)) = Some r -> (0 < length sizes)%nat ->
            rec_count r = pend_count (pend s) + Z.of_nat (length sizes).
Proof.
  induction sizes as [|sz sizes IH]; intros s Hall; [split; [reflexivity|cbn; lia]|].
  inversion Hall as [|? ? [H16 Hmax] Hall']; subst.
  cbn [map]. unfold Legacy.trace_transport in *. cbn [trace_gen]. unfold step_gen.
  replace ((0 <? max_size l) && (max_size l <? sz)) with false
    by (symmetry; apply andb_false_iff; destruct Hmax; [left; apply Z.ltb_ge; lia|right; apply Z.ltb_ge; lia]).
  change (0 =? 2) with false. replace (sz <? HDR_SEC) with false by (symmetry; apply Z.ltb_ge; lia).
  change (0 =? 1) with false. cbn [andb]. change (S_OK =? S_OK) with true. cbn [is_partial negb andb].
  set (s1 := mk_st (pend s ++ [(sz, 0)]) (last_seq s) false 0).
  destruct (IH s1 Hall') as [Hlen Hcnt]. cbn zeta in Hlen, Hcnt. split; [cbn [length]; rewrite Hlen; reflexivity|].
  intros r Hn _. cbn [length pred] in Hn. destruct sizes as [|sz2 sizes].
  - cbn in Hn. inversion Hn; subst. cbn [rec_count fst snd pend s1]. rewrite pend_count_app.
    change (pend_count [(sz, 0)]) with 1. cbn [length]. lia.
  - cbn [length nth_error] in Hn. rewrite (Hcnt r Hn) by (cbn; lia).
    unfold s1. cbn [pend]. rewrite pend_count_app. change (pend_count [(sz, 0)]) with 1. cbn [length]. lia.
Qed.

Example valid_example :
  valid (mk_case 3 400 [Chunk 0 100 2 true; Chunk 1 120 3 true; Chunk 0 200 4 false; Chunk 0 200 5 false; Chunk 0 24 6 false]) /\
  run (mk_case 3 400 [Chunk 0 100 2 true; Chunk 1 120 3 true; Chunk 0 200 4 false; Chunk 0 200 5 false; Chunk 0 24 6 false]) =
  [0; 1; 100; 0;  0; 0; 0; 0;  0; 1; 200; 0;  0; 2; 400; 0;  10; 0; 0; 0;  -1; 1].
Proof. split; [unfold valid; cbn [c_mc c_mms c_frames]; repeat split; try reflexivity; lia|vm_compute; reflexivity]. Qed.

(* the hypotheses of the theorems above are satisfiable: limits of 3 chunks / 400 bytes, a state
   reached after two intermediate chunks, and a chunk that exceeds the byte limit *)
Example hypotheses_example :
  let l := mk_lim 3 400 in
  let s := fst (step_gen true true l (fst (step_gen true true l init (Chunk 0 150 2 false))) (Chunk 0 200 3 false)) in
  lim_ok l /\ within l (pend s) /\ pend_count (pend s) = 2 /\ pend_bytes (pend s) = 350 /\
  snd (step_gen true true l s (Chunk 0 60 4 false)) = S_TOO_LARGE.
Proof.
  cbn zeta. split; [split; [cbn; lia|right; cbn; lia]|].
  split; [split; right; vm_compute; discriminate|].
  repeat split; vm_compute; reflexivity.
Qed.
