From Coq Require Import List ZArith Bool Lia.
Import ListNotations.
From OV Require Import C15.Model.
Open Scope Z_scope.

Definition rframe (r : frame * Z * list Z) : frame := fst (fst r).
Definition rstatus (r : frame * Z * list Z) : Z := snd (fst r).
Definition rresp (r : frame * Z * list Z) : list Z := snd r.

(* ---- facts about one step ---------------------------------------------------------------- *)

(* every status the model produces is one of the classes, in particular never the end marker *)
Lemma step_status g s f : let '(_, status, _) := step_gen g s f in 0 <= status.
Proof.
  unfold step_gen. destruct (ph s); destruct f; cbn;
    repeat match goal with |- context [if ?c then _ else _] => destruct c end;
    unfold S_OK, S_COMM, S_CHANNEL, S_CLOSED, S_UNEXPECTED, S_URL, S_VERSION, S_OTHER; lia.
Qed.

(* a response is only ever produced together with status OK *)
Lemma step_resp_ok g s f : let '(_, status, resp) := step_gen g s f in resp <> [] -> status = S_OK.
Proof.
  unfold step_gen. destruct (ph s); destruct f; cbn;
    repeat match goal with |- context [if ?c then _ else _] => destruct c end; cbn; congruence.
Qed.

(* ---- the scan holds on every trace of the repaired code ----------------------------------- *)

Lemma resp_eqb_refl l : resp_eqb l l = true.
Proof.
  unfold resp_eqb. rewrite Z.eqb_refl. cbn. induction l as [|x l IH]; cbn; [reflexivity|].
  rewrite Z.eqb_refl. exact IH.
Qed.

(* one step of the repaired code passes the head check and keeps the link between what was
   observed (acked, opened) and the connection state *)
Lemma head_ok s f acked opened :
  (acked = false -> ph s = WaitingHello) -> (opened = false -> issued s = false) ->
  let '(s', status, resp) := step_gen true s f in
  head_check acked opened f status resp = true /\
  (status =? S_OK = true ->
     is_clo f = false /\
     (acked_next acked f status resp = false -> ph s' = WaitingHello) /\
     (opened_next opened f status resp = false -> issued s' = false)).
Proof.
  intros Ha Ho. unfold step_gen.
  destruct s as [p hv iss ch lc]; cbn [ph hello_pv issued chan last_chan finish] in *.
  destruct p.
  - (* WaitingHello *)
    destruct f as [pv b u|r pv|k c|c|]; cbn [is_hel];
      try (split; [destruct acked, opened; reflexivity|intro H; discriminate H]).
    destruct u; cbn [negb]; [|split; [destruct acked, opened; reflexivity|intro H; discriminate H]].
    destruct b; cbn [negb]; [|split; [destruct acked, opened; reflexivity|intro H; discriminate H]].
    destruct (0 <? pv); [split; [destruct acked, opened; reflexivity|intro H; discriminate H]|].
    split; [destruct acked, opened; reflexivity|]. intros _. split; [reflexivity|].
    split; [unfold acked_next; cbn; rewrite orb_true_r; discriminate|].
    unfold opened_next. cbn. rewrite orb_false_r. exact Ho.
  - (* ProcessMessages: a HEL was acknowledged, so acked = true *)
    destruct acked; [|specialize (Ha eq_refl); discriminate Ha].
    destruct f as [pv b u|r pv|k c|c|].
    + split; [destruct opened; reflexivity|intro H; discriminate H].
    + destruct (negb ((if 1000 <=? pv then pv - 1000 else pv) =? hv)).
      * split; [destruct opened; reflexivity|]. intros _. split; [reflexivity|].
        split; [discriminate|]. unfold opened_next. cbn. rewrite orb_false_r. exact Ho.
      * destruct r.
        -- destruct iss; cbn [negb].
           ++ destruct (1000 <=? pv).
              ** split; [destruct opened; reflexivity|]. intros _. split; [reflexivity|].
                 split; [discriminate|]. unfold opened_next. cbn. rewrite orb_false_r. exact Ho.
              ** split; [destruct opened; reflexivity|]. intros _. split; [reflexivity|].
                 split; [discriminate|]. unfold opened_next. cbn. rewrite orb_true_r. discriminate.
           ++ split; [destruct opened; reflexivity|intro H; discriminate H].
        -- destruct (1000 <=? pv).
           ++ split; [destruct opened; reflexivity|]. intros _. split; [reflexivity|].
              split; [discriminate|]. unfold opened_next. cbn. rewrite orb_false_r. exact Ho.
           ++ split; [destruct opened; reflexivity|]. intros _. split; [reflexivity|].
              split; [discriminate|]. unfold opened_next. cbn. rewrite orb_true_r. discriminate.
    + destruct (k =? 2); [split; [destruct opened; reflexivity|intro H; discriminate H]|].
      destruct (negb (ch =? 0) && negb c);
        [split; [destruct opened; reflexivity|intro H; discriminate H]|].
      cbn [andb]. destruct iss; cbn [negb].
      * destruct opened; [|specialize (Ho eq_refl); discriminate Ho].
        split; [reflexivity|]. intros _. split; [reflexivity|]. split; discriminate.
      * split; [destruct opened; reflexivity|intro H; discriminate H].
    + destruct (negb (ch =? 0) && negb c);
        [split; [destruct opened; reflexivity|intro H; discriminate H]|].
      cbn [andb]. destruct iss; cbn [negb];
        (split; [destruct opened; reflexivity|intro H; discriminate H]).
    + split; [destruct opened; reflexivity|intro H; discriminate H].
  - (* Finished *)
    split; [|intro H; discriminate H].
    destruct acked; [|specialize (Ha eq_refl); discriminate Ha].
    destruct f, opened; reflexivity.
Qed.

Lemma scan_trace : forall fs s acked opened,
  (acked = false -> ph s = WaitingHello) ->
  (opened = false -> issued s = false) ->
  scan acked opened (trace_gen true s fs) = true.
Proof.
  induction fs as [|f fs IH]; intros s acked opened Ha Ho; [reflexivity|].
  cbn [trace_gen]. pose proof (head_ok s f acked opened Ha Ho) as H.
  destruct (step_gen true s f) as [[s' status] resp]. destruct H as [Hh Hn].
  cbn [scan]. rewrite Hh.
  destruct (status =? S_OK) eqn:Hs; [|reflexivity].
  destruct (Hn eq_refl) as (Hc & Ha' & Ho'). rewrite Hc. cbn [negb andb].
  rewrite (IH s' _ _ Ha' Ho'). destruct (trace_gen true s' fs); reflexivity.
Qed.

(* ---- traces: shape ------------------------------------------------------------------------ *)

Lemma trace_frames g : forall fs s, exists more, fs = map rframe (trace_gen g s fs) ++ more.
Proof.
  induction fs as [|f fs IH]; intros s; [exists []; reflexivity|].
  cbn [trace_gen]. destruct (step_gen g s f) as [[s' status] resp].
  destruct (status =? S_OK).
  - destruct (IH s') as [more Hm]. exists more. cbn [map app rframe fst]. f_equal. exact Hm.
  - exists fs. reflexivity.
Qed.

Lemma trace_all_ok_length g : forall fs s, all_ok (trace_gen g s fs) = true ->
  length (trace_gen g s fs) = length fs.
Proof.
  induction fs as [|f fs IH]; intros s; [reflexivity|].
  cbn [trace_gen]. destruct (step_gen g s f) as [[s' status] resp].
  cbn [all_ok forallb]. intro H. apply andb_true_iff in H as [H1 H2]. rewrite H1 in *.
  cbn [length]. f_equal. apply IH. exact H2.
Qed.

Lemma trace_status_nonneg g : forall fs s r, In r (trace_gen g s fs) -> 0 <= rstatus r.
Proof.
  induction fs as [|f fs IH]; intros s r; [intros []|].
  cbn [trace_gen]. pose proof (step_status g s f) as Hs.
  destruct (step_gen g s f) as [[s' status] resp].
  intros [<-|Hin]; [exact Hs|]. destruct (status =? S_OK); [eapply IH; exact Hin|destruct Hin].
Qed.

(* rendering and parsing are inverse on traces *)
Lemma parse_render : forall t fs fuel fin,
  (forall r, In r t -> 0 <= rstatus r) ->
  (exists more, fs = map rframe t ++ more) ->
  (length t < fuel)%nat ->
  parse fuel fs (concat (map render_rec t) ++ [-1; fin]) = Some (t, fin).
Proof.
  induction t as [|[[f status] resp] t IH]; intros fs fuel fin Hst [more Hfs] Hf.
  - destruct fuel; [cbn in Hf; lia|]. reflexivity.
  - destruct fuel; [cbn in Hf; lia|].
    cbn [map concat render_rec app parse].
    assert (H0 : 0 <= status) by (apply (Hst (f, status, resp)); left; reflexivity).
    replace (status =? -1) with false by (symmetry; apply Z.eqb_neq; lia).
    subst fs. cbn [map app rframe fst].
    rewrite <- app_assoc.
    replace ((Z.of_nat (length resp) <? 0) ||
             (Z.of_nat (length (resp ++ concat (map render_rec t) ++ [-1; fin])) <? Z.of_nat (length resp)))
      with false
      by (symmetry; apply orb_false_iff; split; apply Z.ltb_ge; rewrite ?app_length; lia).
    rewrite Nat2Z.id, skipn_app, skipn_all, Nat.sub_diag. cbn [skipn app].
    rewrite IH; [|intros r Hr; apply Hst; right; exact Hr|exists more; reflexivity|cbn in Hf; lia].
    rewrite firstn_app, firstn_all, Nat.sub_diag. cbn [firstn]. rewrite app_nil_r. reflexivity.
Qed.

Lemma render_length t : (length t <= length (concat (map render_rec t)))%nat.
Proof.
  induction t as [|[[f status] resp] t IH]; [apply le_n|].
  cbn [map concat render_rec length]. rewrite app_length. cbn [length]. lia.
Qed.

Theorem oracle_trace fs : oracle fs (run fs) = true.
Proof.
  unfold oracle, run, render, trace.
  rewrite parse_render.
  - rewrite (scan_trace fs init false false) by reflexivity. cbn [andb].
    destruct (all_ok (trace_gen true init fs)) eqn:Hok; [|reflexivity].
    rewrite (trace_all_ok_length true fs init Hok), !Z.eqb_refl. reflexivity.
  - intros r Hr. eapply trace_status_nonneg. exact Hr.
  - apply trace_frames.
  - rewrite app_length. pose proof (render_length (trace_gen true init fs)). cbn [length]. lia.
Qed.

(* ---- the natural statements --------------------------------------------------------------- *)

(* a non-HEL first frame closes the connection without any response; nothing more is processed *)
Theorem first_frame_must_be_hello f fs : is_hel f = false ->
  trace (f :: fs) = [(f, S_COMM, [])].
Proof. destruct f; intro H; try discriminate; reflexivity. Qed.

(* generalised trace facts by induction *)
Lemma service_needs_issue : forall fs s i r, nth_error (trace_gen true s fs) i = Some r ->
  is_service (rframe r) = true -> rstatus r = S_OK \/ rresp r <> [] ->
  issued s = true \/
  exists j r', (j < i)%nat /\ nth_error (trace_gen true s fs) j = Some r' /\
               is_opn (rframe r') = true /\ rstatus r' = S_OK /\ rresp r' = [R_OPN].
Proof.
  induction fs as [|f fs IH]; intros s i r Hn Hsv Hok; [destruct i; discriminate|].
  cbn [trace_gen] in *. pose proof (step_resp_ok true s f) as Hro.
  destruct (step_gen true s f) as [[s' status] resp] eqn:Hstep.
  destruct i as [|i].
  - (* the service frame itself is the head: the state must have been issued *)
    cbn in Hn. inversion Hn; subst r. cbn [rframe rstatus rresp fst snd] in *. left.
    assert (Hs0 : status = S_OK) by (destruct Hok as [H|H]; [exact H|exact (Hro H)]).
    subst status. unfold step_gen in Hstep. cbn [andb] in Hstep.
    destruct f as [pv b u|rn pv|k c|c|]; try discriminate Hsv.
    + destruct (ph s); try (discriminate Hstep).
      destruct (k =? 2); [discriminate Hstep|].
      destruct (negb (chan s =? 0) && negb c); [discriminate Hstep|].
      destruct (issued s); [reflexivity|]. cbn [negb] in Hstep. discriminate Hstep.
    + destruct (ph s); try (discriminate Hstep).
      destruct (negb (chan s =? 0) && negb c); [discriminate Hstep|].
      destruct (issued s); [reflexivity|]. cbn [negb] in Hstep. discriminate Hstep.
  - cbn [nth_error] in Hn. destruct (status =? S_OK) eqn:Hs; [|destruct i; discriminate].
    destruct (IH s' i r Hn Hsv Hok) as [Hiss|(j & r' & Hj & Hnj & H1 & H2 & H3)].
    + (* issued after this step: either already before, or this step is the successful OPN *)
      destruct (issued s) eqn:Hi; [left; reflexivity|right].
      exists O, (f, status, resp). split; [lia|]. split; [reflexivity|].
      cbn [rframe rstatus rresp fst snd].
      unfold step_gen in Hstep. destruct (ph s); destruct f;
        repeat match type of Hstep with context [if ?c then _ else _] => destruct c eqn:? end;
        inversion Hstep; subst; cbn [issued finish] in *; try congruence; auto.
    + right. exists (S j), r'. split; [lia|]. cbn [nth_error]. auto.
Qed.

(* no service request is processed (status OK) or answered before an OpenSecureChannel request
   was answered with an OpenSecureChannelResponse earlier on the same connection *)
Theorem no_service_before_open fs i r : nth_error (trace fs) i = Some r ->
  is_service (rframe r) = true -> rstatus r = S_OK \/ rresp r <> [] ->
  exists j r', (j < i)%nat /\ nth_error (trace fs) j = Some r' /\
               is_opn (rframe r') = true /\ rstatus r' = S_OK /\ rresp r' = [R_OPN].
Proof.
  intros Hn Hs Hok. destruct (service_needs_issue fs init i r Hn Hs Hok) as [H|H]; [discriminate|exact H].
Qed.

Lemma resp_needs_ack : forall fs s i r, nth_error (trace_gen true s fs) i = Some r -> rresp r <> [] ->
  ph s = ProcessMessages \/ ph s = Finished \/
  exists j r', (j <= i)%nat /\ nth_error (trace_gen true s fs) j = Some r' /\
               is_hel (rframe r') = true /\ rstatus r' = S_OK /\ rresp r' = [R_ACK].
Proof.
  induction fs as [|f fs IH]; intros s i r Hn Hr; [destruct i; discriminate|].
  cbn [trace_gen] in *. destruct (step_gen true s f) as [[s' status] resp] eqn:Hstep.
  destruct (ph s) eqn:Hp; [|left; reflexivity|right; left; reflexivity].
  right; right.
  (* waiting for the hello: this step either acknowledges a HEL or fails without a response *)
  unfold step_gen in Hstep. rewrite Hp in Hstep.
  destruct f as [pv b u| | | |];
    try (inversion Hstep; subst; destruct i; [cbn in Hn; inversion Hn; subst; cbn in Hr; congruence|
         cbn in Hn; destruct i; discriminate]).
  destruct (negb u); [inversion Hstep; subst; destruct i; [cbn in Hn; inversion Hn; subst; cbn in Hr; congruence|cbn in Hn; destruct i; discriminate]|].
  destruct (negb b); [inversion Hstep; subst; destruct i; [cbn in Hn; inversion Hn; subst; cbn in Hr; congruence|cbn in Hn; destruct i; discriminate]|].
  destruct (0 <? pv); [inversion Hstep; subst; destruct i; [cbn in Hn; inversion Hn; subst; cbn in Hr; congruence|cbn in Hn; destruct i; discriminate]|].
  inversion Hstep; subst. exists O, (FHel pv b u, S_OK, [R_ACK]). split; [lia|]. cbn. auto.
Qed.

(* nothing is answered before a HEL was acknowledged: any response at all is preceded by (or is)
   the ACK to a HEL *)
Theorem nothing_before_hello_ack fs i r : nth_error (trace fs) i = Some r -> rresp r <> [] ->
  exists j r', (j <= i)%nat /\ nth_error (trace fs) j = Some r' /\
               is_hel (rframe r') = true /\ rstatus r' = S_OK /\ rresp r' = [R_ACK].
Proof.
  intros Hn Hr. destruct (resp_needs_ack fs init i r Hn Hr) as [H|[H|H]]; [discriminate|discriminate|exact H].
Qed.

(* a frame that fails is the last one processed, and a CloseSecureChannel always "fails"
   (BadConnectionClosed or a refusal) without a response: nothing is processed after it *)
Lemma failed_is_last g : forall fs s i r, nth_error (trace_gen g s fs) i = Some r ->
  rstatus r <> S_OK -> length (trace_gen g s fs) = S i.
Proof.
  induction fs as [|f fs IH]; intros s i r Hn Hs; [destruct i; discriminate|].
  cbn [trace_gen] in *. destruct (step_gen g s f) as [[s' status] resp].
  destruct i as [|i].
  - cbn in Hn. inversion Hn; subst. cbn [rstatus fst snd] in Hs.
    replace (status =? S_OK) with false by (symmetry; apply Z.eqb_neq; exact Hs). reflexivity.
  - cbn [nth_error] in Hn. destruct (status =? S_OK); [|destruct i; discriminate].
    cbn [length]. f_equal. eapply IH; eauto.
Qed.

Lemma clo_fails : forall fs s i r, nth_error (trace_gen true s fs) i = Some r ->
  is_clo (rframe r) = true -> rstatus r <> S_OK /\ rresp r = [].
Proof.
  induction fs as [|f fs IH]; intros s i r Hn Hc; [destruct i; discriminate|].
  cbn [trace_gen] in *. destruct (step_gen true s f) as [[s' status] resp] eqn:Hstep.
  destruct i as [|i].
  - cbn in Hn. inversion Hn; subst. cbn [rframe rstatus rresp fst snd] in *.
    destruct f; try discriminate. unfold step_gen in Hstep.
    destruct (ph s);
      repeat match type of Hstep with context [if ?c then _ else _] => destruct c end;
      inversion Hstep; subst; split; try reflexivity; discriminate.
  - cbn [nth_error] in Hn. destruct (status =? S_OK); [|destruct i; discriminate]. eapply IH; eauto.
Qed.

Theorem nothing_after_close fs i r : nth_error (trace fs) i = Some r -> is_clo (rframe r) = true ->
  rresp r = [] /\ length (trace fs) = S i.
Proof.
  intros Hn Hc. destruct (clo_fails fs init i r Hn Hc) as [H1 H2]. split; [exact H2|].
  eapply failed_is_last; eauto.
Qed.

Definition legacy_witness : list frame := [FHel 0 true true; FMsg 0 true].
Lemma legacy_refuted :
  render (Legacy.trace legacy_witness) = [0; 1; 1; 0; 1; 3; -1; 0] /\
  oracle legacy_witness (render (Legacy.trace legacy_witness)) = false.
Proof. vm_compute. split; reflexivity. Qed.

Example oracle_example :
  run [FHel 0 true true; FOpn false 0; FMsg 0 true; FClo true; FMsg 0 true] =
  [0; 1; 1; 0; 1; 2; 0; 1; 3; 14; 0; -1; 1].
Proof. vm_compute. reflexivity. Qed.
