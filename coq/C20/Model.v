(* C20 — session activation authenticates the user exactly as configured
   (lib/src/server/state.rs authenticate_endpoint and helpers, server/services/session.rs
    activate_session, server/config.rs ServerEndpoint / ServerUserToken, server/identity_token.rs).

   The decision procedure is modelled as written (branch order, first matching user decides).
   Cryptography is ideal: an encrypted password decrypts iff the named algorithm is the padding it
   was encrypted with and it was encrypted for the session's current nonce (C16 is the byte-level
   theorem behind that); a token signature verifies iff it was made with the key of the presented
   certificate over the current nonce with the algorithm of the X.509 token policy, untouched
   (C17).  Nonces are numbered in the order of first appearance; a successful activation installs
   a nonce never seen before (in [Legacy], sessions on a SecurityPolicy None channel keep the null
   nonce for ever — the code before the fix). *)
From Coq Require Import List ZArith Bool Lia.
Import ListNotations.
Open Scope Z_scope.

Inductive spol := PNone | PBasic128Rsa15 | PBasic256 | PBasic256Sha256 | PAes128 | PAes256.
Definition spol_eqb (a b : spol) : bool :=
  match a, b with
  | PNone, PNone | PBasic128Rsa15, PBasic128Rsa15 | PBasic256, PBasic256
  | PBasic256Sha256, PBasic256Sha256 | PAes128, PAes128 | PAes256, PAes256 => true
  | _, _ => false
  end.

(* user token ids: 0 is ANONYMOUS_USER_TOKEN_ID, n > 0 is the user token "u<n>";
   e_ids is in the iteration order of the BTreeSet *)
Record endpoint := mk_ep { e_path : Z; e_pol : spol; e_mode : Z; e_pwpol : option spol; e_ids : list Z }.
(* ServerUserToken: user, pass, x509.is_some(), thumbprint; names / passwords / certificates are
   numbered, password 0 is the empty string *)
Record user := mk_user { u_id : Z; u_name : Z; u_pass : option Z; u_x509 : bool; u_thumb : option Z }.

Inductive pid := PidAnonymous | PidNone | PidRsa15 | PidOaep | PidX509 | PidOther.
Definition pid_eqb (a b : pid) : bool :=
  match a, b with
  | PidAnonymous, PidAnonymous | PidNone, PidNone | PidRsa15, PidRsa15 | PidOaep, PidOaep
  | PidX509, PidX509 | PidOther, PidOther => true
  | _, _ => false
  end.
Inductive padding := Pkcs1 | OaepSha1 | OaepSha256.
Inductive alg := AlgRsa15 | AlgOaep | AlgOaepSha256 | AlgOther.
Definition alg_names (a : alg) (p : padding) : bool :=
  match a, p with AlgRsa15, Pkcs1 | AlgOaep, OaepSha1 | AlgOaepSha256, OaepSha256 => true | _, _ => false end.
Definition alg_known (a : alg) : bool := match a with AlgOther => false | _ => true end.

(* which nonce a token was made for: the session's nonce at the time, or some other byte string *)
Inductive nsel := NCur | NOther.
Inductive pwform :=
| Plain (pw : Z)                 (* EncryptionAlgorithm null, UTF-8 password *)
| PlainBadUtf8                   (* EncryptionAlgorithm null, password bytes are not UTF-8 *)
| EmptyAlg (pw : Z)              (* EncryptionAlgorithm "" (not null), plain password *)
| Enc (a : alg) (p : padding) (n : nsel) (pw : Z).
(* signing key, RSA-SHA1 (the algorithm of the X.509 token policy)?, nonce, untouched? *)
Inductive sigform := Sig (key : Z) (sha1 : bool) (n : nsel) (intact : bool).
Inductive token :=
| TNull                                            (* empty extension object *)
| TAnon (p : pid)
| TUser (p : pid) (name : option Z) (f : pwform)
| TX509 (p : pid) (cert : Z) (s : sigform)
| TBadCert (p : pid)                               (* X509IdentityToken whose certificate does not parse *)
| TOther.                                          (* any other type of extension object *)

Inductive step := Fresh (t : token) | Replay (j : Z).

Record case := mk_case {
  c_eps : list endpoint; c_users : list user;
  c_path : Z; c_pol : spol; c_mode : Z;           (* the session's endpoint path and its channel *)
  c_steps : list step
}.

(* status classes: 0 Good, 1 BadIdentityTokenInvalid, 2 BadIdentityTokenRejected,
   3 BadUserAccessDenied, 4 BadTcpEndpointUrlInvalid, 5 any other bad status *)

(* ---------- configuration ---------- *)
(* ServerConfig::find_endpoint *)
Definition find_endpoint (eps : list endpoint) (path : Z) (pol : spol) (mode : Z) : option endpoint :=
  find (fun e => (e_path e =? path) && spol_eqb (e_pol e) pol && (e_mode e =? mode)) eps.
Definition lookup (users : list user) (id : Z) : option user := find (fun u => u_id u =? id) users.
Definition supports_anonymous (e : endpoint) : bool := existsb (Z.eqb 0) (e_ids e).
Definition supports_user_pass (users : list user) (e : endpoint) : bool :=
  existsb (fun id => negb (id =? 0) && match lookup users id with Some u => negb (u_x509 u) | None => false end) (e_ids e).
Definition supports_x509 (users : list user) (e : endpoint) : bool :=
  existsb (fun id => negb (id =? 0) && match lookup users id with Some u => u_x509 u | None => false end) (e_ids e).
(* ServerEndpoint::password_security_policy, ServerState::user_pass_security_policy_id *)
Definition pw_policy (e : endpoint) : spol := match e_pwpol e with Some p => p | None => e_pol e end.
Definition user_pass_pid (e : endpoint) : pid :=
  match pw_policy e with PNone => PidNone | PBasic128Rsa15 => PidRsa15 | _ => PidOaep end.

(* ---------- authenticate_endpoint ---------- *)
(* [bound] is the number of the nonce the token was made for (-1: none of the session's), [cur]
   the session's current nonce *)
Definition nonce_of (n : nsel) (bound : Z) : Z := match n with NCur => bound | NOther => -1 end.

(* the password the server works with: inl pw, or inr status class *)
Definition token_password (f : pwform) (bound cur : Z) : Z + Z :=
  match f with
  | Plain pw => inl pw
  | PlainBadUtf8 => inr 5
  | EmptyAlg pw => inl pw
  | Enc a p n pw =>
    if negb (alg_known a) then inr 1
    else if alg_names a p && (nonce_of n bound =? cur) then inl pw else inr 5
  end.

Definition password_ok (u : user) (pw : Z) : bool :=
  match u_pass u with None => pw =? 0 | Some p => p =? pw end.

(* the loop over endpoint.user_token_ids: the first user/password token with that name decides *)
Fixpoint user_loop (users : list user) (name pw : Z) (ids : list Z) : Z :=
  match ids with
  | [] => 3
  | id :: rest =>
    match lookup users id with
    | Some u => if negb (u_x509 u) && (u_name u =? name) then (if password_ok u pw then 0 else 3)
                else user_loop users name pw rest
    | None => user_loop users name pw rest
    end
  end.

Definition auth_user (users : list user) (e : endpoint) (p : pid) (name : option Z) (f : pwform) (bound cur : Z) : Z :=
  if negb (supports_user_pass users e) then 2
  else if negb (pid_eqb p (user_pass_pid e)) then 1
  else match name with
  | None => 1
  | Some nm =>
    match token_password f bound cur with
    | inr cls => cls
    | inl pw => user_loop users nm pw (e_ids e)
    end
  end.

Definition sig_ok (cert : Z) (s : sigform) (bound cur : Z) : bool :=
  match s with Sig key sha1 n intact => (key =? cert) && sha1 && (nonce_of n bound =? cur) && intact end.

Fixpoint thumb_loop (users : list user) (cert : Z) (ids : list Z) : Z :=
  match ids with
  | [] => 1
  | id :: rest =>
    match lookup users id with
    | Some u => match u_thumb u with
                | Some t => if t =? cert then 0 else thumb_loop users cert rest
                | None => thumb_loop users cert rest
                end
    | None => thumb_loop users cert rest
    end
  end.

Definition auth_x509 (users : list user) (e : endpoint) (p : pid) (cert : option Z) (s : sigform) (bound cur : Z) : Z :=
  if negb (supports_x509 users e) then 2
  else if negb (pid_eqb p PidX509) then 2
  else match cert with
  | None => 5                                        (* the certificate does not parse *)
  | Some c => if sig_ok c s bound cur then thumb_loop users c (e_ids e) else 5
  end.

Definition auth_anonymous (e : endpoint) (p : pid) : Z :=
  if negb (pid_eqb p PidAnonymous) then 1
  else if negb (supports_anonymous e) then 2 else 0.

Definition authenticate (c : case) (t : token) (bound cur : Z) : Z :=
  match find_endpoint (c_eps c) (c_path c) (c_pol c) (c_mode c) with
  | None => 4
  | Some e =>
    match t with
    | TNull => auth_anonymous e PidAnonymous
    | TAnon p => auth_anonymous e p
    | TUser p name f => auth_user (c_users c) e p name f bound cur
    | TX509 p cert s => auth_x509 (c_users c) e p (Some cert) s bound cur
    | TBadCert p => auth_x509 (c_users c) e p None (Sig 0 false NOther false) bound cur
    | TOther => 1
    end
  end.

(* ---------- the history: ActivateSession requests on one session ---------- *)
(* state: current nonce, number of nonces issued so far, and for every earlier step the token
   with the nonce it was made for (a replay re-sends exactly that) *)
Fixpoint nth_sent (sent : list (token * Z)) (j : nat) : option (token * Z) :=
  match sent, j with
  | x :: _, O => Some x
  | _ :: r, S j' => nth_sent r j'
  | [], _ => None
  end.

(* [fresh_none]: does an activation on a SecurityPolicy None channel install a new nonce? *)
Fixpoint run_steps (fresh_none : bool) (c : case) (steps : list step) (cur next : Z) (sent : list (token * Z)) : list Z :=
  match steps with
  | [] => []
  | s :: rest =>
    let '(t, bound) := match s with
                       | Fresh t => (t, cur)
                       | Replay j => match nth_sent sent (Z.to_nat j) with Some x => x | None => (TOther, -1) end
                       end in
    let r := authenticate c t bound cur in
    let '(cur', next') := if r =? 0
                          then (if fresh_none || negb (spol_eqb (c_pol c) PNone) then (next, next + 1) else (cur, next))
                          else (cur, next) in
    r :: cur' :: run_steps fresh_none c rest cur' next' (sent ++ [(t, bound)])
  end.

(* CreateSession needs an endpoint with the session's path (any policy); then the nonce of the
   session is number 0 *)
Definition run_with (fresh_none : bool) (c : case) : list Z :=
  if existsb (fun e => e_path e =? c_path c) (c_eps c)
  then 0 :: run_steps fresh_none c (c_steps c) 0 1 []
  else [-14].
Definition run (c : case) : list Z := run_with true c.

Module Legacy.
  (* before the fix the session nonce on a SecurityPolicy None channel was always null *)
  Definition run (c : case) : list Z := run_with false c.
End Legacy.

(* ---------- the property, as a specification of "configured" ---------- *)
Definition the_endpoint (c : case) : option endpoint :=
  find_endpoint (c_eps c) (c_path c) (c_pol c) (c_mode c).

(* the user/password tokens the endpoint lists, in its order *)
Definition ep_users (users : list user) (e : endpoint) : list user :=
  flat_map (fun id => match lookup users id with Some u => [u] | None => [] end) (e_ids e).

(* is (name, pw) a configured user of the endpoint?  where several tokens carry the same user
   name the first one is the configured password for that name *)
Definition configured_user (users : list user) (e : endpoint) (name pw : Z) : bool :=
  match find (fun u => negb (u_x509 u) && (u_name u =? name)) (ep_users users e) with
  | Some u => password_ok u pw
  | None => false
  end.
Definition configured_thumb (users : list user) (e : endpoint) (cert : Z) : bool :=
  existsb (fun u => match u_thumb u with Some t => t =? cert | None => false end) (ep_users users e).

(* the supplied password: plain, or encrypted for the session's current nonce under the padding
   the token names *)
Definition supplied_password (f : pwform) (bound cur : Z) : option Z :=
  match f with
  | Plain pw | EmptyAlg pw => Some pw
  | PlainBadUtf8 => None
  | Enc a p n pw => if alg_names a p && (nonce_of n bound =? cur) then Some pw else None
  end.

(* should this token be accepted? *)
Definition spec_accept (c : case) (t : token) (bound cur : Z) : bool :=
  match the_endpoint c with
  | None => false
  | Some e =>
    match t with
    | TNull => supports_anonymous e
    | TAnon p => pid_eqb p PidAnonymous && supports_anonymous e
    | TUser p (Some name) f =>
      pid_eqb p (user_pass_pid e) &&
      match supplied_password f bound cur with
      | Some pw => configured_user (c_users c) e name pw
      | None => false
      end
    | TUser _ None _ => false
    | TX509 p cert s => pid_eqb p PidX509 && sig_ok cert s bound cur && configured_thumb (c_users c) e cert
    | TBadCert _ | TOther => false
    end
  end.

(* the oracle replays the history on the IMPLEMENTATION's output: step i was accepted iff the
   specification accepts it given the nonces the implementation installed; every acceptance
   installs a nonce never seen before *)
Fixpoint spec_steps (c : case) (steps : list step) (out : list Z) (cur maxn : Z) (sent : list (token * Z)) : bool :=
  match steps, out with
  | [], [] => true
  | s :: rest, r :: cur' :: out' =>
    let '(t, bound) := match s with
                       | Fresh t => (t, cur)
                       | Replay j => match nth_sent sent (Z.to_nat j) with Some x => x | None => (TOther, -1) end
                       end in
    Bool.eqb (r =? 0) (spec_accept c t bound cur) &&
    (if r =? 0 then (maxn <? cur') else (cur' =? cur)) &&
    spec_steps c rest out' cur' (Z.max maxn cur') (sent ++ [(t, bound)])
  | _, _ => false
  end.

Definition oracle (c : case) (out : list Z) : bool :=
  if existsb (fun e => e_path e =? c_path c) (c_eps c)
  then match out with n0 :: out' => (n0 =? 0) && spec_steps c (c_steps c) out' 0 0 [] | [] => false end
  else match out with [r] => r <? 0 | _ => false end.

Definition known (c : case) : Z := 0.

(* user token ids are unique and never the reserved anonymous id; replays refer to earlier steps *)
Fixpoint distinct_ids (us : list user) : bool :=
  match us with
  | [] => true
  | u :: r => negb (existsb (fun v => u_id v =? u_id u) r) && distinct_ids r
  end.
Fixpoint replays_ok (steps : list step) (i : Z) : bool :=
  match steps with
  | [] => true
  | Fresh _ :: r => replays_ok r (i + 1)
  | Replay j :: r => (0 <=? j) && (j <? i) && replays_ok r (i + 1)
  end.
(* a thumbprint is only ever loaded for an X.509 user token (ServerUserToken::read_thumbprint) *)
Definition thumb_only_x509 (u : user) : bool := match u_thumb u with Some _ => u_x509 u | None => true end.
Definition valid (c : case) : bool :=
  distinct_ids (c_users c) && forallb (fun u => 0 <? u_id u) (c_users c) &&
  forallb thumb_only_x509 (c_users c) && replays_ok (c_steps c) 0.
