(* C04 — the calendar arithmetic of Date.v is a bijection between day numbers and valid civil
   dates.  One 400-year era (146097 days) is checked by computation; the Gregorian calendar is
   periodic in eras, which extends the result to every day number. *)
From Coq Require Import String List ZArith Bool Lia.
From OV Require Import C04.Text C04.TextProofs C04.Date.
Import ListNotations.
Open Scope Z_scope.

(* day-of-era [doe] in 0..146096 is day number [doe - 719468]; years of era 0 are 0..400 *)
Definition check_doe (doe : Z) : bool :=
  let '(y, m, d) := civil_from_days (doe - 719468) in
  (days_from_civil y m d =? doe - 719468) && (1 <=? m) && (m <=? 12) && (1 <=? d)
  && (d <=? days_in_month y m) && (0 <=? y) && (y <=? 400)
  && ((146036 <? doe) || (y <=? 399)).

(* 400 blocks of 366 consecutive values cover 0..146399.  (Stated without auxiliary definitions:
   unfolding a definition to this closed boolean would make the kernel evaluate it lazily.) *)
Lemma check_era_true :
  forallb (fun b => forallb (fun i => check_doe (Z.of_nat b * 366 + Z.of_nat i)) (seq 0 366))
          (seq 0 400) = true.
Proof. vm_compute. reflexivity. Qed.

Lemma check_doe_all : forall doe, 0 <= doe < 146097 -> check_doe doe = true.
Proof.
  intros doe H.
  pose proof check_era_true as C. rewrite forallb_forall in C.
  specialize (C (Z.to_nat (doe / 366))).
  assert (I1 : In (Z.to_nat (doe / 366)) (seq 0 400)).
  { apply in_seq. assert (0 <= doe / 366 < 400) by zdm. lia. }
  specialize (C I1). rewrite forallb_forall in C.
  specialize (C (Z.to_nat (doe mod 366))).
  assert (I2 : In (Z.to_nat (doe mod 366)) (seq 0 366)).
  { apply in_seq. assert (0 <= doe mod 366 < 366) by zdm. lia. }
  specialize (C I2).
  rewrite !Z2Nat.id in C by zdm.
  replace (doe / 366 * 366 + doe mod 366) with doe in C by zdm. exact C.
Qed.

(* ---- periodicity -------------------------------------------------------------------------------- *)
Definition shift_year (k : Z) (c : Z * Z * Z) : Z * Z * Z :=
  let '(y, m, d) := c in (y + k, m, d).

Lemma civil_from_days_era : forall z,
  let era := (z + 719468) / 146097 in
  let doe := (z + 719468) mod 146097 in
  civil_from_days z = shift_year (era * 400) (civil_from_days (doe - 719468)).
Proof.
  intros z era doe.
  assert (Hd : 0 <= doe < 146097) by (subst doe; apply Z.mod_pos_bound; lia).
  unfold civil_from_days.
  replace (doe - 719468 + 719468) with doe by lia.
  replace (doe / 146097) with 0 by (symmetry; apply Z.div_small; exact Hd).
  replace (doe - 0 * 146097) with doe by lia.
  replace (z + 719468 - (z + 719468) / 146097 * 146097) with doe
    by (subst doe; rewrite Z.mod_eq by lia; lia).
  fold era. cbv zeta. unfold shift_year.
  set (yoe := (doe - doe / 1460 + doe / 36524 - doe / 146096) / 365).
  set (doy := doe - (365 * yoe + yoe / 4 - yoe / 100)).
  set (mp := (5 * doy + 2) / 153).
  destruct ((if mp <? 10 then mp + 3 else mp - 9) <=? 2); f_equal; f_equal; lia.
Qed.

Lemma days_from_civil_shift : forall y m d k,
  days_from_civil (y + 400 * k) m d = days_from_civil y m d + 146097 * k.
Proof.
  intros y m d k. unfold days_from_civil.
  set (y0 := if m <=? 2 then y - 1 else y).
  replace (if m <=? 2 then y + 400 * k - 1 else y + 400 * k) with (y0 + k * 400)
    by (subst y0; destruct (m <=? 2); lia).
  rewrite Z.div_add by lia. cbv zeta.
  replace (y0 + k * 400 - (y0 / 400 + k) * 400) with (y0 - y0 / 400 * 400) by lia.
  lia.
Qed.

(* ---- the result ------------------------------------------------------------------------------------ *)
Theorem civil_roundtrip : forall z,
  let '(y, m, d) := civil_from_days z in
  days_from_civil y m d = z /\ 1 <= m <= 12 /\ 1 <= d <= days_in_month y m.
Proof.
  intro z.
  pose proof (civil_from_days_era z) as E. cbv zeta in E.
  set (era := (z + 719468) / 146097) in *.
  set (doe := (z + 719468) mod 146097) in *.
  assert (Hd : 0 <= doe < 146097) by (subst doe; apply Z.mod_pos_bound; lia).
  pose proof (check_doe_all doe Hd) as C. unfold check_doe in C.
  rewrite E. destruct (civil_from_days (doe - 719468)) as [[y0 m] d]. unfold shift_year.
  repeat (apply andb_true_iff in C as [C ?]).
  repeat match goal with H : (_ <=? _) = true |- _ => apply Z.leb_le in H end.
  apply Z.eqb_eq in C.
  replace (y0 + era * 400) with (y0 + 400 * era) by lia.
  rewrite days_from_civil_shift, C.
  split; [|split; [lia|]].
  - assert (z + 719468 = 146097 * era + doe) by (subst era doe; apply Z.div_mod; lia). lia.
  - split; [lia|].
    assert (DM : days_in_month (y0 + 400 * era) m = days_in_month y0 m).
    { unfold days_in_month, is_leap.
      replace ((y0 + 400 * era) mod 4) with (y0 mod 4)
        by (replace (y0 + 400 * era) with (y0 + (100 * era) * 4) by lia; rewrite Z.mod_add by lia; reflexivity).
      replace ((y0 + 400 * era) mod 100) with (y0 mod 100)
        by (replace (y0 + 400 * era) with (y0 + (4 * era) * 100) by lia; rewrite Z.mod_add by lia; reflexivity).
      replace ((y0 + 400 * era) mod 400) with (y0 mod 400)
        by (replace (y0 + 400 * era) with (y0 + era * 400) by lia; rewrite Z.mod_add by lia; reflexivity).
      reflexivity. }
    rewrite DM. lia.
Qed.

(* years stay within four digits for the days of 0000-03-01 .. 9999-12-31 *)
Theorem civil_year_range : forall z, -719468 <= z <= 2932896 ->
  let '(y, m, d) := civil_from_days z in 0 <= y <= 9999.
Proof.
  intros z Hz.
  pose proof (civil_from_days_era z) as E. cbv zeta in E.
  set (era := (z + 719468) / 146097) in *.
  set (doe := (z + 719468) mod 146097) in *.
  assert (Hd : 0 <= doe < 146097) by (subst doe; apply Z.mod_pos_bound; lia).
  assert (Hdiv : z + 719468 = 146097 * era + doe) by (subst era doe; apply Z.div_mod; lia).
  pose proof (check_doe_all doe Hd) as C. unfold check_doe in C.
  rewrite E. destruct (civil_from_days (doe - 719468)) as [[y0 m] d]. unfold shift_year.
  apply andb_true_iff in C as [C C8]. repeat (apply andb_true_iff in C as [C ?]).
  repeat match goal with H : (_ <=? _) = true |- _ => apply Z.leb_le in H end.
  assert (0 <= era <= 24) by lia.
  apply orb_true_iff in C8 as [C8 | C8]; [apply Z.ltb_lt in C8 | apply Z.leb_le in C8]; lia.
Qed.
