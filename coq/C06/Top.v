(* C06 — the case language of the correspondence run: conversions / casts (C06/Model.v) and
   histories of comparisons through operator.rs (C06/Compare.v).  No proofs in this file. *)
From Coq Require Import List ZArith Bool.
From OV Require Export C06.Model C06.Compare.
Import ListNotations.
Open Scope Z_scope.

Inductive case :=
| CConv (c : Model.case)
| CCmp (l : list item).

Definition run (c : case) : list Z :=
  match c with CConv c => Model.run c | CCmp l => run_cmp_with gen_cfg l end.
Definition oracle (c : case) (out : list Z) : bool :=
  match c with CConv c => Model.oracle c out | CCmp l => check_items l out end.
Definition known (c : case) : Z := 0.
Definition valid (c : case) : Prop :=
  match c with CConv c => Model.valid c | CCmp l => Forall item_ok l end.
