//! C42: JSON encoding of the built-in types round-trips.
//! Runs the real `serde_json::to_value` / `from_value` (and `to_string` / `from_str`) on generated
//! built-in values, prints the produced JSON tree and the value that came back in canonical form.
//! A second stream feeds hand-mutated JSON trees to the real deserialisers (reader model only).
#[path = "../util.rs"]
mod util;
use opcua::types::*;
use serde_json::Value as J;
use util::*;

// ---------------------------------------------------------------------------------------------
// cases
#[derive(Clone, Debug)]
pub enum Val {
    S(UAString), B(ByteString), G(Guid), D(DateTime), N(NodeId), X(ExpandedNodeId), SC(StatusCode),
    Q(QualifiedName), L(LocalizedText), DV(DataValue), V(Variant), EO(ExtensionObject), DI(DiagnosticInfo),
}
#[derive(Clone, Debug)]
pub enum Tree { Null, Bool(bool), Int(i128), Flt(u64), Str(String), Arr(Vec<Tree>), Obj(Vec<(String, Tree)>) }
pub enum Case { Val(Val), Tree(u8, Tree) }
pub struct P;

// ---------------------------------------------------------------------------------------------
// Coq terms of values
fn t_chars(s: &str) -> String { zlist(s.chars().map(|c| c as i128)) }
fn t_ustr(s: &UAString) -> String { coq_opt(s.value(), |x| t_chars(x)) }
fn t_bstr(b: &ByteString) -> String { coq_opt(&b.value, |x| zbytes(x)) }
fn t_guid(g: &Guid) -> String { zbytes(g.as_bytes()) }
fn t_oz<T: Copy + Into<i128>>(o: &Option<T>) -> String { coq_opt(o, |x| z((*x).into())) }
fn t_ident(i: &Identifier) -> String {
    match i {
        Identifier::Numeric(n) => format!("(INum {})", n),
        Identifier::String(s) => format!("(IStr {})", t_ustr(s)),
        Identifier::Guid(g) => format!("(IGuid {})", t_guid(g)),
        Identifier::ByteString(b) => format!("(IBytes {})", t_bstr(b)),
    }
}
fn t_nodeid(n: &NodeId) -> String { format!("(NodeId {} {})", n.namespace, t_ident(&n.identifier)) }
fn t_xnodeid(x: &ExpandedNodeId) -> String { format!("(XNodeId {} {} {})", t_nodeid(&x.node_id), t_ustr(&x.namespace_uri), x.server_index) }
fn t_qname(q: &QualifiedName) -> String { format!("(QName {} {})", q.namespace_index, t_ustr(&q.name)) }
fn t_ltext(l: &LocalizedText) -> String { format!("(LText {} {})", t_ustr(&l.locale), t_ustr(&l.text)) }
fn t_extobj(e: &ExtensionObject) -> String {
    let b = match &e.body {
        ExtensionObjectEncoding::None => "EONone".to_string(),
        ExtensionObjectEncoding::ByteString(b) => format!("(EOBytes {})", t_bstr(b)),
        ExtensionObjectEncoding::XmlElement(s) => format!("(EOXml {})", t_ustr(s)),
    };
    format!("(ExtObj {} {})", t_nodeid(&e.node_id), b)
}
fn t_diag(d: &DiagnosticInfo) -> String {
    format!("(Diag {} {} {} {} {} {} {})", t_oz(&d.symbolic_id), t_oz(&d.namespace_uri), t_oz(&d.locale), t_oz(&d.localized_text),
        coq_opt(&d.additional_info, |s| t_ustr(s)), coq_opt(&d.inner_status_code, |s| z(s.bits() as i128)),
        coq_opt(&d.inner_diagnostic_info, |b| t_diag(b)))
}
fn t_dvrest(d: &DataValue) -> String {
    format!("(DVRest {} {} {} {} {})", coq_opt(&d.status, |s| z(s.bits() as i128)), coq_opt(&d.source_timestamp, |t| z(t.ticks() as i128)),
        t_oz(&d.source_picoseconds), coq_opt(&d.server_timestamp, |t| z(t.ticks() as i128)), t_oz(&d.server_picoseconds))
}
/// the f64 the JSON layer reads back for an f32 (transcript of the text layer, independent of the crate under test)
fn w_of(f: f32) -> u64 {
    if f.is_nan() { f64::NAN.to_bits() } else if f.is_infinite() { (f as f64).to_bits() }
    else { serde_json::to_value(f).unwrap().as_f64().unwrap().to_bits() }
}
fn t_variant(v: &Variant) -> String {
    match v {
        Variant::Empty => "VEmpty".into(),
        Variant::Boolean(b) => format!("(VBool {})", coq_bool(*b)),
        Variant::SByte(x) => format!("(VSByte {})", z(*x as i128)),
        Variant::Byte(x) => format!("(VByte {})", z(*x as i128)),
        Variant::Int16(x) => format!("(VInt16 {})", z(*x as i128)),
        Variant::UInt16(x) => format!("(VUInt16 {})", z(*x as i128)),
        Variant::Int32(x) => format!("(VInt32 {})", z(*x as i128)),
        Variant::UInt32(x) => format!("(VUInt32 {})", z(*x as i128)),
        Variant::Int64(x) => format!("(VInt64 {})", z(*x as i128)),
        Variant::UInt64(x) => format!("(VUInt64 {})", z(*x as i128)),
        Variant::Float(x) => format!("(VFloat {} {})", x.to_bits(), w_of(*x)),
        Variant::Double(x) => format!("(VDouble {})", x.to_bits()),
        Variant::String(s) => format!("(VString {})", t_ustr(s)),
        Variant::DateTime(t) => format!("(VDateTime {})", z(t.ticks() as i128)),
        Variant::Guid(g) => format!("(VGuid {})", t_guid(g)),
        Variant::ByteString(b) => format!("(VByteString {})", t_bstr(b)),
        Variant::XmlElement(s) => format!("(VXml {})", t_ustr(s)),
        Variant::NodeId(n) => format!("(VNodeId {})", t_nodeid(n)),
        Variant::ExpandedNodeId(x) => format!("(VXNodeId {})", t_xnodeid(x)),
        Variant::StatusCode(s) => format!("(VStatus {})", s.bits()),
        Variant::QualifiedName(q) => format!("(VQName {})", t_qname(q)),
        Variant::LocalizedText(l) => format!("(VLText {})", t_ltext(l)),
        Variant::ExtensionObject(e) => format!("(VExtObj {})", t_extobj(e)),
        Variant::DataValue(d) => format!("(VDataValue {} {})", coq_opt(&d.value, |v| t_variant(v)), t_dvrest(d)),
        Variant::Variant(v) => format!("(VVariant {})", t_variant(v)),
        Variant::DiagnosticInfo(d) => format!("(VDiag {})", t_diag(d)),
        Variant::Array(a) => {
            let vals: Vec<i128> = a.values.iter().map(|v| if let Variant::Int32(x) = v { *x as i128 } else { 0 }).collect();
            format!("(VArray {} {})", zlist(vals), coq_opt(&a.dimensions, |d| zlist(d.iter().map(|x| *x as i128))))
        }
    }
}
fn t_val(v: &Val) -> String {
    match v {
        Val::S(s) => format!("(AString {})", t_ustr(s)),
        Val::B(b) => format!("(ABytes {})", t_bstr(b)),
        Val::G(g) => format!("(AGuid {})", t_guid(g)),
        Val::D(t) => format!("(ADate {})", z(t.ticks() as i128)),
        Val::N(n) => format!("(ANodeId {})", t_nodeid(n)),
        Val::X(x) => format!("(AXNodeId {})", t_xnodeid(x)),
        Val::SC(s) => format!("(AStatus {})", s.bits()),
        Val::Q(q) => format!("(AQName {})", t_qname(q)),
        Val::L(l) => format!("(ALText {})", t_ltext(l)),
        Val::DV(d) => format!("(ADataValue {} {})", coq_opt(&d.value, |v| t_variant(v)), t_dvrest(d)),
        Val::V(v) => format!("(AVariant {})", t_variant(v)),
        Val::EO(e) => format!("(AExtObj {})", t_extobj(e)),
        Val::DI(d) => format!("(ADiag {})", t_diag(d)),
    }
}
fn t_tree(t: &Tree) -> String {
    match t {
        Tree::Null => "TNull".into(),
        Tree::Bool(b) => format!("(TBool {})", coq_bool(*b)),
        Tree::Int(i) => format!("(TNum (NInt {}))", z(*i)),
        Tree::Flt(w) => format!("(TNum (NFlt {}))", w),
        Tree::Str(s) => format!("(TStr {})", t_chars(s)),
        Tree::Arr(l) => format!("(TArr {})", coq_list(l, t_tree)),
        Tree::Obj(fs) => format!("(TObj {})", coq_list(fs, |(k, t)| format!("({}, {})", t_chars(k), t_tree(t)))),
    }
}

// ---------------------------------------------------------------------------------------------
// canonical output encodings (mirror enc_* of Model.v)
fn e_chars(s: &str, o: &mut Vec<i128>) { o.push(s.chars().count() as i128); o.extend(s.chars().map(|c| c as i128)); }
fn e_ustr(s: &UAString, o: &mut Vec<i128>) { match s.value() { Some(x) => e_chars(x, o), None => o.push(-1) } }
fn e_bstr(b: &ByteString, o: &mut Vec<i128>) { match &b.value { Some(x) => { o.push(x.len() as i128); o.extend(x.iter().map(|b| *b as i128)) } None => o.push(-1) } }
fn e_guid(g: &Guid, o: &mut Vec<i128>) { o.extend(g.as_bytes().iter().map(|b| *b as i128)); }
fn e_oz<T: Copy + Into<i128>>(x: &Option<T>, o: &mut Vec<i128>) { match x { Some(v) => { o.push(1); o.push((*v).into()) } None => o.push(0) } }
fn e_nodeid(n: &NodeId, o: &mut Vec<i128>) {
    o.push(n.namespace as i128);
    match &n.identifier {
        Identifier::Numeric(v) => { o.push(0); o.push(*v as i128) }
        Identifier::String(s) => { o.push(1); e_ustr(s, o) }
        Identifier::Guid(g) => { o.push(2); e_guid(g, o) }
        Identifier::ByteString(b) => { o.push(3); e_bstr(b, o) }
    }
}
fn e_xnodeid(x: &ExpandedNodeId, o: &mut Vec<i128>) { e_nodeid(&x.node_id, o); e_ustr(&x.namespace_uri, o); o.push(x.server_index as i128); }
fn e_qname(q: &QualifiedName, o: &mut Vec<i128>) { o.push(q.namespace_index as i128); e_ustr(&q.name, o); }
fn e_ltext(l: &LocalizedText, o: &mut Vec<i128>) { e_ustr(&l.locale, o); e_ustr(&l.text, o); }
fn e_extobj(e: &ExtensionObject, o: &mut Vec<i128>) {
    e_nodeid(&e.node_id, o);
    match &e.body {
        ExtensionObjectEncoding::None => o.push(0),
        ExtensionObjectEncoding::ByteString(b) => { o.push(1); e_bstr(b, o) }
        ExtensionObjectEncoding::XmlElement(s) => { o.push(2); e_ustr(s, o) }
    }
}
fn e_diag(d: &DiagnosticInfo, o: &mut Vec<i128>) {
    e_oz(&d.symbolic_id, o); e_oz(&d.namespace_uri, o); e_oz(&d.locale, o); e_oz(&d.localized_text, o);
    match &d.additional_info { Some(s) => { o.push(1); e_ustr(s, o) } None => o.push(0) }
    e_oz(&d.inner_status_code.map(|s| s.bits()), o);
    match &d.inner_diagnostic_info { Some(b) => { o.push(1); e_diag(b, o) } None => o.push(0) }
}
fn e_dvrest(d: &DataValue, o: &mut Vec<i128>) {
    e_oz(&d.status.map(|s| s.bits()), o); e_oz(&d.source_timestamp.map(|t| t.ticks()), o); e_oz(&d.source_picoseconds, o);
    e_oz(&d.server_timestamp.map(|t| t.ticks()), o); e_oz(&d.server_picoseconds, o);
}
fn e_dvalue(d: &DataValue, o: &mut Vec<i128>) {
    o.push(23);
    match &d.value { Some(v) => { o.push(1); e_variant(v, o) } None => o.push(0) }
    e_dvrest(d, o);
}
fn e_variant(v: &Variant, o: &mut Vec<i128>) {
    match v {
        Variant::Empty => o.push(0),
        Variant::Boolean(b) => { o.push(1); o.push(*b as i128) }
        Variant::SByte(x) => { o.push(2); o.push(*x as i128) }
        Variant::Byte(x) => { o.push(3); o.push(*x as i128) }
        Variant::Int16(x) => { o.push(4); o.push(*x as i128) }
        Variant::UInt16(x) => { o.push(5); o.push(*x as i128) }
        Variant::Int32(x) => { o.push(6); o.push(*x as i128) }
        Variant::UInt32(x) => { o.push(7); o.push(*x as i128) }
        Variant::Int64(x) => { o.push(8); o.push(*x as i128) }
        Variant::UInt64(x) => { o.push(9); o.push(*x as i128) }
        Variant::Float(x) => { o.push(10); o.push(x.to_bits() as i128) }
        Variant::Double(x) => { o.push(11); o.push(x.to_bits() as i128) }
        Variant::String(s) => { o.push(12); e_ustr(s, o) }
        Variant::DateTime(t) => { o.push(13); o.push(t.ticks() as i128) }
        Variant::Guid(g) => { o.push(14); e_guid(g, o) }
        Variant::ByteString(b) => { o.push(15); e_bstr(b, o) }
        Variant::XmlElement(s) => { o.push(16); e_ustr(s, o) }
        Variant::NodeId(n) => { o.push(17); e_nodeid(n, o) }
        Variant::ExpandedNodeId(x) => { o.push(18); e_xnodeid(x, o) }
        Variant::StatusCode(s) => { o.push(19); o.push(s.bits() as i128) }
        Variant::QualifiedName(q) => { o.push(20); e_qname(q, o) }
        Variant::LocalizedText(l) => { o.push(21); e_ltext(l, o) }
        Variant::ExtensionObject(e) => { o.push(22); e_extobj(e, o) }
        Variant::DataValue(d) => e_dvalue(d, o),
        Variant::Variant(v) => { o.push(24); e_variant(v, o) }
        Variant::DiagnosticInfo(d) => { o.push(25); e_diag(d, o) }
        Variant::Array(a) => {
            o.push(26); o.push(a.values.len() as i128);
            o.extend(a.values.iter().map(|v| if let Variant::Int32(x) = v { *x as i128 } else { 0 }));
            match &a.dimensions { Some(d) => { o.push(1); o.push(d.len() as i128); o.extend(d.iter().map(|x| *x as i128)) } None => o.push(0) }
        }
    }
}
fn e_val(v: &Val) -> Vec<i128> {
    let mut o = Vec::new();
    match v {
        Val::S(s) => { o.push(0); e_ustr(s, &mut o) }
        Val::B(b) => { o.push(1); e_bstr(b, &mut o) }
        Val::G(g) => { o.push(2); e_guid(g, &mut o) }
        Val::D(t) => { o.push(3); o.push(t.ticks() as i128) }
        Val::N(n) => { o.push(4); e_nodeid(n, &mut o) }
        Val::X(x) => { o.push(5); e_xnodeid(x, &mut o) }
        Val::SC(s) => { o.push(6); o.push(s.bits() as i128) }
        Val::Q(q) => { o.push(7); e_qname(q, &mut o) }
        Val::L(l) => { o.push(8); e_ltext(l, &mut o) }
        Val::DV(d) => { o.push(9); e_dvalue(d, &mut o) }
        Val::V(v) => { o.push(10); e_variant(v, &mut o) }
        Val::EO(e) => { o.push(11); e_extobj(e, &mut o) }
        Val::DI(d) => { o.push(12); e_diag(d, &mut o) }
    }
    o
}
/// serde_json::Value -> canonical numbers.  A JSON number whose text is an integer is [2, z]; any
/// other number is [3, bits of the f64 serde_json reads from its text].
fn e_json(j: &J, o: &mut Vec<i128>) {
    match j {
        J::Null => o.push(0),
        J::Bool(b) => { o.push(1); o.push(*b as i128) }
        J::Number(n) => {
            let s = n.to_string();
            match s.parse::<i128>() {
                Ok(i) => { o.push(2); o.push(i) }
                Err(_) => { o.push(3); o.push(n.as_f64().map(|f| f.to_bits() as i128).unwrap_or(-1)) }
            }
        }
        J::String(s) => { o.push(4); e_chars(s, o) }
        J::Array(l) => { o.push(5); o.push(l.len() as i128); for x in l { e_json(x, o) } }
        J::Object(m) => { o.push(6); o.push(m.len() as i128); for (k, x) in m { e_chars(k, o); e_json(x, o) } }
    }
}
fn tree_to_json(t: &Tree) -> J {
    match t {
        Tree::Null => J::Null,
        Tree::Bool(b) => J::Bool(*b),
        Tree::Int(i) => serde_json::from_str::<J>(&i.to_string()).unwrap(),
        Tree::Flt(w) => J::Number(serde_json::Number::from_f64(f64::from_bits(*w)).unwrap()),
        Tree::Str(s) => J::String(s.clone()),
        Tree::Arr(l) => J::Array(l.iter().map(tree_to_json).collect()),
        Tree::Obj(fs) => { let mut m = serde_json::Map::new(); for (k, x) in fs { m.insert(k.clone(), tree_to_json(x)); } J::Object(m) }
    }
}
fn json_to_tree(j: &J) -> Tree {
    match j {
        J::Null => Tree::Null,
        J::Bool(b) => Tree::Bool(*b),
        J::Number(n) => match n.to_string().parse::<i128>() { Ok(i) => Tree::Int(i), Err(_) => Tree::Flt(n.as_f64().unwrap().to_bits()) },
        J::String(s) => Tree::Str(s.clone()),
        J::Array(l) => Tree::Arr(l.iter().map(json_to_tree).collect()),
        J::Object(m) => Tree::Obj(m.iter().map(|(k, x)| (k.clone(), json_to_tree(x))).collect()),
    }
}

// ---------------------------------------------------------------------------------------------
// execution
fn same<T>(_: &T, r: Result<T, serde_json::Error>) -> Result<T, serde_json::Error> { r }

macro_rules! roundtrip {
    ($v:expr, $wrap:expr) => {{
        let v = $v;
        match guarded(|| serde_json::to_value(v)) {
            Err(_) => vec![-2],
            Ok(Err(_)) => vec![-3],
            Ok(Ok(j)) => {
                let mut e = Vec::new();
                e_json(&j, &mut e);
                let mut out = vec![1, e.len() as i128];
                out.extend(e);
                let back = guarded(|| same(v, serde_json::from_value(j.clone())));
                // the text layer: the printed text parses to the same tree, and reading the value
                // from the text gives what reading it from the tree gives
                let text = serde_json::to_string(v).ok();
                let text_tree_ok = text.as_ref().and_then(|s| serde_json::from_str::<J>(s).ok()).map(|j2| j2 == j).unwrap_or(false);
                let back2 = text.as_ref().map(|s| same(v, serde_json::from_str(s)));
                match back {
                    Err(_) => out.push(-2),
                    Ok(Err(_)) => {
                        out.push(0);
                        out.push((text_tree_ok && matches!(back2, Some(Err(_)))) as i128);
                    }
                    Ok(Ok(b)) => {
                        out.push(1);
                        let eb = e_val(&$wrap(b.clone()));
                        out.extend(eb.iter().cloned());
                        out.push((b == *v) as i128);
                        let t_ok = match back2 { Some(Ok(b2)) => e_val(&$wrap(b2)) == eb, _ => false };
                        out.push((text_tree_ok && t_ok) as i128);
                    }
                }
                out
            }
        }
    }};
}
macro_rules! read_tree {
    ($j:expr, $t:ty, $wrap:expr) => {{
        match guarded(|| serde_json::from_value::<$t>($j)) {
            Err(_) => vec![-2],
            Ok(Err(_)) => vec![0],
            Ok(Ok(b)) => { let mut o = vec![1]; o.extend(e_val(&$wrap(b))); o }
        }
    }};
}

fn variant_tag(v: &Variant) -> String {
    match v {
        Variant::Empty => "Empty".into(), Variant::Boolean(_) => "Boolean".into(),
        Variant::SByte(_) | Variant::Byte(_) | Variant::Int16(_) | Variant::UInt16(_) | Variant::Int32(_) | Variant::UInt32(_) => "Int<=32".into(),
        Variant::Int64(_) | Variant::UInt64(_) => "Int64".into(),
        Variant::Float(x) => (if x.is_nan() { "Float-nan" } else if x.is_infinite() { "Float-inf" } else { "Float" }).into(),
        Variant::Double(x) => (if x.is_nan() { "Double-nan" } else if x.is_infinite() { "Double-inf" } else { "Double" }).into(),
        Variant::String(_) => "String".into(), Variant::DateTime(_) => "DateTime".into(), Variant::Guid(_) => "Guid".into(),
        Variant::ByteString(_) => "ByteString".into(), Variant::XmlElement(_) => "XmlElement".into(), Variant::NodeId(_) => "NodeId".into(),
        Variant::ExpandedNodeId(_) => "ExpandedNodeId".into(), Variant::StatusCode(_) => "StatusCode".into(),
        Variant::QualifiedName(_) => "QualifiedName".into(), Variant::LocalizedText(_) => "LocalizedText".into(),
        Variant::ExtensionObject(_) => "ExtensionObject".into(),
        Variant::DataValue(d) => format!("DataValue[{}]", d.value.as_ref().map(variant_tag).unwrap_or("-".into())),
        Variant::Variant(v) => format!("Variant[{}]", variant_tag(v)),
        Variant::DiagnosticInfo(_) => "DiagnosticInfo".into(), Variant::Array(_) => "Array".into(),
    }
}
fn short(mut s: String) -> String { if s.len() > 40 { s.truncate(40); s.push_str(".."); } s }

impl Property for P {
    type Case = Case;
    fn fixed(tier: &str) -> Vec<Case> { fixed_cases(tier) }
    fn gen(r: &mut Rng) -> Case { if r.chance(1, 5) { gen_tree_case(r) } else { Case::Val(gen_val(r)) } }
    fn exec(c: &Case) -> Out {
        match c {
            Case::Val(v) => {
                let (tag, out) = match v {
                    Val::S(x) => ("UAString".to_string(), roundtrip!(x, Val::S)),
                    Val::B(x) => ("ByteString".into(), roundtrip!(x, Val::B)),
                    Val::G(x) => ("Guid".into(), roundtrip!(x, Val::G)),
                    Val::D(x) => ("DateTime".into(), roundtrip!(x, Val::D)),
                    Val::N(x) => ("NodeId".into(), roundtrip!(x, Val::N)),
                    Val::X(x) => ("ExpandedNodeId".into(), roundtrip!(x, Val::X)),
                    Val::SC(x) => ("StatusCode".into(), roundtrip!(x, Val::SC)),
                    Val::Q(x) => ("QualifiedName".into(), roundtrip!(x, Val::Q)),
                    Val::L(x) => ("LocalizedText".into(), roundtrip!(x, Val::L)),
                    Val::DV(x) => (short(format!("DataValue[{}]", x.value.as_ref().map(variant_tag).unwrap_or("-".into()))), roundtrip!(x, Val::DV)),
                    Val::V(x) => (short(format!("Variant:{}", variant_tag(x))), roundtrip!(x, Val::V)),
                    Val::EO(x) => ("ExtensionObject".into(), roundtrip!(x, Val::EO)),
                    Val::DI(x) => ("DiagnosticInfo".into(), roundtrip!(x, Val::DI)),
                };
                Out { tag, term: format!("(CVal {})", t_val(v)), out }
            }
            Case::Tree(k, t) => {
                let j = tree_to_json(t);
                let out = match k {
                    0 => read_tree!(j, UAString, Val::S), 1 => read_tree!(j, ByteString, Val::B), 2 => read_tree!(j, Guid, Val::G),
                    3 => read_tree!(j, DateTime, Val::D), 4 => read_tree!(j, NodeId, Val::N), 5 => read_tree!(j, ExpandedNodeId, Val::X),
                    6 => read_tree!(j, StatusCode, Val::SC), 7 => read_tree!(j, QualifiedName, Val::Q), 8 => read_tree!(j, LocalizedText, Val::L),
                    9 => read_tree!(j, DataValue, Val::DV), 10 => read_tree!(j, Variant, Val::V), 11 => read_tree!(j, ExtensionObject, Val::EO),
                    _ => read_tree!(j, DiagnosticInfo, Val::DI),
                };
                Out { tag: format!("tree:kind{}:{}", k, if out[0] == 1 { "accepted" } else { "rejected" }), term: format!("(CTree {} {})", k, t_tree(t)), out }
            }
        }
    }
}

// ---------------------------------------------------------------------------------------------
// generators
const SPECIAL_STRINGS: &[&str] = &[
    "\"", "\\", "/", "a\"b\\c", "\n", "\r\n", "\t", "\u{0}", "\u{1}\u{1f}", "\u{7f}", "\u{80}", "\u{e9}", "\u{2028}\u{2029}", "\u{feff}", "\u{fffd}",
    "\u{ffff}", "\u{10000}", "\u{1F600}", "\u{10ffff}", "null", "true", "false", "NaN", "Infinity", "-Infinity", "0", "-0", "123", "1e5", "1.0",
    "{}", "[]", "{\"Type\":0}", " ", "  lead", "trail  ", "urn:x", "http://opcfoundation.org/UA/", "None", "\\u0041", "\u{d7ff}\u{e000}",
    "a very long string with many characters in it, to make the length two digits and more",
    // strings that look like another JSON form of the same position: numbers, indexes, node ids, times, guids, base64
    "5", "65535", "65536", "4294967295", "4294967296", "-1", "+1", "0x10", "i=5", "ns=2;s=x", "nsu=urn:x;i=5", "svr=1;i=5",
    "2020-01-01T00:00:00.000Z", "1601-01-01T00:00:00Z", "abcdef01-2345-6789-abcd-ef0123456789", "00000000-0000-0000-0000-000000000000", "AQID", "AQ==", "====",
    "Type", "Body", "Namespace", "ByteString", "XmlElement", "<a b=\"c\">&amp;</a>", "en-US",
];
const LENGTHS: &[usize] = &[30, 47, 54, 56, 62, 63, 74, 75, 94, 126, 127, 190, 254, 255, 300];
fn gen_string_raw(r: &mut Rng) -> String {
    if r.chance(1, 40) { let n = *r.pick(LENGTHS) + r.below(3) as usize; return (0..n).map(|i| if i % 17 == 16 { '\u{e9}' } else { (97 + r.below(26)) as u8 as char }).collect(); }
    match r.below(4) {
        0 => r.pick(SPECIAL_STRINGS).to_string(),
        1 => { let n = 1 + r.below(8); (0..n).map(|_| (32 + r.below(95)) as u8 as char).collect() }
        2 => { let a = r.pick(SPECIAL_STRINGS).to_string(); let b = r.pick(SPECIAL_STRINGS); a + b }
        _ => {
            let n = 1 + r.below(6);
            (0..n).map(|_| loop {
                let c = match r.below(5) { 0 => r.below(0x20) as u32, 1 => r.below(0x80) as u32, 2 => r.below(0x800) as u32, 3 => r.below(0x10000) as u32, _ => r.below(0x110000) as u32 };
                if let Some(ch) = char::from_u32(c) { break ch; }
            }).collect()
        }
    }
}
fn gen_ustr(r: &mut Rng) -> UAString {
    match r.below(8) { 0 => UAString::null(), 1 => UAString::from(""), _ => UAString::from(gen_string_raw(r)) }
}
fn gen_bytes_raw(r: &mut Rng) -> Vec<u8> {
    match r.below(4) {
        0 => { let n = 1 + r.below(4); r.bytes(n as usize) }
        1 => { let n = 1 + r.below(12); r.bytes(n as usize) }
        2 => { let n = 1 + r.below(6); let b = *r.pick(&[0u8, 255, 0x3e, 0x3f, 0xfb, 0xff]); vec![b; n as usize] }
        // around the sizes at which an encoder works in blocks or wraps lines (48, 57, 64, 76, 128, 256 ...)
        _ if r.chance(1, 6) => { let n = *r.pick(LENGTHS) + r.below(3) as usize; r.bytes(n) }
        _ => { let n = 1 + r.below(24); r.bytes(n as usize) }
    }
}
fn gen_bstr(r: &mut Rng) -> ByteString {
    match r.below(8) { 0 => ByteString::null(), 1 => ByteString::from(Vec::<u8>::new()), _ => ByteString::from(gen_bytes_raw(r)) }
}
fn gen_guid(r: &mut Rng) -> Guid {
    match r.below(6) {
        0 => Guid::null(),
        1 => Guid::from_bytes([0xff; 16]),
        2 => Guid::from_bytes([0xab, 0xcd, 0xef, 0x01, 0x23, 0x45, 0x67, 0x89, 0x9a, 0xbc, 0xde, 0xf0, 0x0a, 0xa0, 0x0f, 0xf0]),
        _ => { let b = r.bytes(16); let mut a = [0u8; 16]; a.copy_from_slice(&b); Guid::from_bytes(a) }
    }
}
const END_TICKS: i64 = 2650467743990000000;
const TICKS_Y1: i64 = -504911232000000000;
const TICKS_Y10000: i64 = 2650467744000000000;
fn gen_date(r: &mut Rng) -> DateTime {
    let ms = 10_000i64;
    let t = match r.below(14) {
        0 => 0,
        1 => END_TICKS,
        2 => END_TICKS - ms * (1 + r.below(2000) as i64),
        3 => ms * r.below(2000) as i64,
        4 => DateTime::ymd_hms(2000, 2, 29, 23, 59, 59).ticks() + ms * r.below(2000) as i64,  // leap day, around midnight
        5 => DateTime::ymd_hms(1900, 2, 28, 23, 59, 59).ticks() + ms * r.below(2000) as i64,  // not a leap year
        6 => DateTime::ymd_hms(*r.pick(&[1601u16, 1970, 1999, 2000, 2024, 2100, 2400, 9999]), 1 + r.below(12) as u16, 1 + r.below(28) as u16, r.below(24) as u16, r.below(60) as u16, r.below(60) as u16).ticks() + ms * r.below(1000) as i64,
        7 | 8 | 9 | 10 => ms * r.below((END_TICKS / ms) as u64 + 1) as i64,
        // outside the quantifier: sub-millisecond precision, before the epoch, after the end of time
        11 => ms * r.below((END_TICKS / ms) as u64) as i64 + 1 + r.below(9999) as i64,
        12 => -(r.below((-TICKS_Y1) as u64) as i64) - 1,
        _ => END_TICKS + 1 + r.below((TICKS_Y10000 - END_TICKS - 1) as u64) as i64,
    };
    DateTime::from(t)
}
fn gen_u16(r: &mut Rng) -> u16 { match r.below(5) { 0 => 0, 1 => 1, 2 => u16::MAX, _ => r.next() as u16 } }
fn gen_u32(r: &mut Rng) -> u32 { match r.below(6) { 0 => 0, 1 => 1, 2 => u32::MAX, 3 => r.below(1000) as u32, _ => r.next() as u32 } }
fn gen_i32(r: &mut Rng) -> i32 { match r.below(6) { 0 => 0, 1 => -1, 2 => i32::MAX, 3 => i32::MIN, _ => r.next() as i32 } }
fn gen_nodeid(r: &mut Rng) -> NodeId {
    let ns = gen_u16(r);
    match r.below(9) {
        0 | 1 => NodeId::new(ns, gen_u32(r)),
        2 | 3 => NodeId::new(ns, UAString::from(gen_string_raw(r))),
        4 | 5 => NodeId::new(ns, gen_guid(r)),
        6 | 7 => NodeId::new(ns, ByteString::from(gen_bytes_raw(r))),
        // outside the quantifier: empty / null identifiers
        _ => match r.below(4) { 0 => NodeId::new(ns, UAString::null()), 1 => NodeId::new(ns, UAString::from("")), 2 => NodeId::new(ns, ByteString::null()), _ => NodeId::new(ns, ByteString::from(Vec::<u8>::new())) },
    }
}
fn gen_xnodeid(r: &mut Rng) -> ExpandedNodeId {
    let mut n = gen_nodeid(r);
    let uri = if r.chance(1, 2) { UAString::null() } else if r.chance(1, 6) { UAString::from("") } else if r.chance(1, 2) { UAString::from("urn:x") } else { UAString::from(gen_string_raw(r)) };
    // a namespace uri together with a non-zero index is known finding 2: keep it rare
    if !uri.is_null() && !r.chance(1, 6) { n.namespace = 0; }
    ExpandedNodeId { node_id: n, namespace_uri: uri, server_index: gen_u32(r) }
}
const STATUS: &[u32] = &[0, 0x8000_0000, 0x4000_0000, 0x8001_0000, 0x8034_0000, 0x80AB_0000, 0x0000_0480, 0xffff_ffff, 0x002D_0000, 0x7fff_ffff];
fn gen_status(r: &mut Rng) -> StatusCode { StatusCode::from_bits_truncate(if r.chance(1, 2) { *r.pick(STATUS) } else { r.next() as u32 }) }
fn gen_qname(r: &mut Rng) -> QualifiedName { QualifiedName { namespace_index: gen_u16(r), name: gen_ustr(r) } }
fn gen_ltext(r: &mut Rng) -> LocalizedText { LocalizedText { locale: gen_ustr(r), text: gen_ustr(r) } }
fn gen_extobj(r: &mut Rng) -> ExtensionObject {
    let body = match r.below(3) { 0 => ExtensionObjectEncoding::None, 1 => ExtensionObjectEncoding::ByteString(gen_bstr(r)), _ => ExtensionObjectEncoding::XmlElement(gen_ustr(r)) };
    ExtensionObject { node_id: gen_nodeid(r), body }
}
fn gen_oi32(r: &mut Rng) -> Option<i32> { if r.chance(1, 2) { None } else { Some(gen_i32(r)) } }
fn gen_diag(r: &mut Rng, depth: u32) -> DiagnosticInfo {
    DiagnosticInfo {
        symbolic_id: gen_oi32(r), namespace_uri: gen_oi32(r), locale: gen_oi32(r), localized_text: gen_oi32(r),
        additional_info: if r.chance(1, 2) { None } else { Some(gen_ustr(r)) },
        inner_status_code: if r.chance(1, 2) { None } else { Some(gen_status(r)) },
        inner_diagnostic_info: if depth > 0 && r.chance(1, 2) { Some(Box::new(gen_diag(r, depth - 1))) } else { None },
    }
}
const F32S: &[u32] = &[0, 0x8000_0000, 0x7f80_0000, 0xff80_0000, 0x7fc0_0000, 0xffc0_0000, 0x7f80_0001, 0x7fff_ffff, 0x7f7f_ffff, 0xff7f_ffff, 0x7f7f_fffe,
    0x0080_0000, 0x0000_0001, 0x007f_ffff, 0x3dcc_cccd, 0x3f80_0000, 0x4b80_0000, 0x4b80_0001, 0x4b7f_ffff, 0x3eaa_aaab, 0x42f6_e979];
const F64S: &[u64] = &[0, 0x8000_0000_0000_0000, 0x7ff0_0000_0000_0000, 0xfff0_0000_0000_0000, 0x7ff8_0000_0000_0000, 0xfff8_0000_0000_0000, 0x7ff0_0000_0000_0001,
    0x7fff_ffff_ffff_ffff, 0x7fef_ffff_ffff_ffff, 0xffef_ffff_ffff_ffff, 0x0010_0000_0000_0000, 1, 0x000f_ffff_ffff_ffff, 0x3fb9_9999_9999_999a, 0x3ff0_0000_0000_0000,
    0x4340_0000_0000_0000, 0x4340_0000_0000_0001, 0x433f_ffff_ffff_ffff, 0x47ef_ffff_e000_0000, 0x47ef_ffff_f000_0000, 0x36a0_0000_0000_0000];
fn gen_f32(r: &mut Rng) -> f32 {
    match r.below(5) {
        0 => f32::from_bits(*r.pick(F32S)),
        1 => f32::from_bits(r.next() as u32),
        2 => (r.range(-100000, 100000) as f32) / *r.pick(&[1.0f32, 10.0, 100.0, 1000.0, 3.0]),
        3 => f32::from_bits(0x7f7f_ffff - r.below(4) as u32 | ((r.below(2) as u32) << 31)),
        _ => f32::from_bits((r.next() as u32) & 0x807f_ffff | ((*r.pick(&[0u32, 1, 2, 126, 127, 128, 150, 151, 253, 254, 255])) << 23)),
    }
}
fn gen_f64(r: &mut Rng) -> f64 {
    match r.below(5) {
        0 => f64::from_bits(*r.pick(F64S)),
        1 => f64::from_bits(r.next()),
        2 => (r.range(-100000, 100000) as f64) / *r.pick(&[1.0f64, 10.0, 100.0, 1000.0, 3.0]),
        3 => (r.next() >> r.below(64)) as f64 * if r.chance(1, 2) { 1.0 } else { -1.0 },
        _ => f64::from_bits(r.next() & 0x800f_ffff_ffff_ffff | ((*r.pick(&[0u64, 1, 2, 1022, 1023, 1024, 1075, 1076, 2045, 2046, 2047])) << 52)),
    }
}
fn gen_i64(r: &mut Rng) -> i64 {
    match r.below(8) { 0 => 0, 1 => i64::MIN, 2 => i64::MAX, 3 => (1 << 53) + r.range(-2, 2), 4 => -(1 << 53) + r.range(-2, 2), 5 => r.range(-1000, 1000), _ => r.next() as i64 >> r.below(64) }
}
fn gen_u64(r: &mut Rng) -> u64 {
    match r.below(8) { 0 => 0, 1 => u64::MAX, 2 => i64::MAX as u64 + r.below(3), 3 => (1 << 53) + r.below(3), 4 => u64::MAX - r.below(3), 5 => r.below(1000), _ => r.next() >> r.below(64) }
}
fn gen_odate(r: &mut Rng) -> Option<DateTime> { if r.chance(1, 2) { None } else { Some(gen_date(r)) } }
fn gen_ou16(r: &mut Rng) -> Option<u16> { if r.chance(1, 2) { None } else { Some(gen_u16(r)) } }
fn gen_dvalue(r: &mut Rng, depth: u32) -> DataValue {
    DataValue {
        value: if r.chance(1, 4) { None } else { Some(gen_variant(r, depth)) },
        status: if r.chance(1, 2) { None } else { Some(gen_status(r)) },
        source_timestamp: gen_odate(r), source_picoseconds: gen_ou16(r), server_timestamp: gen_odate(r), server_picoseconds: gen_ou16(r),
    }
}
fn gen_array(r: &mut Rng) -> Variant {
    let n = r.below(5) as usize;
    let vals: Vec<i32> = (0..n).map(|_| gen_i32(r)).collect();
    if r.chance(1, 2) { Variant::from(vals) } else {
        let vs: Vec<Variant> = vals.into_iter().map(Variant::from).collect();
        Variant::from(Array { value_type: VariantTypeId::Int32, values: vs, dimensions: Some(vec![1, n as u32]) })
    }
}
fn gen_variant(r: &mut Rng, depth: u32) -> Variant {
    let k = if depth == 0 { r.below(24) } else { r.below(30) };
    match k {
        0 => Variant::Empty,
        1 => Variant::Boolean(r.chance(1, 2)),
        2 => Variant::SByte(*r.pick(&[0i8, -1, 127, -128, 42])),
        3 => Variant::Byte(*r.pick(&[0u8, 1, 255, 128])),
        4 => Variant::Int16(*r.pick(&[0i16, -1, i16::MAX, i16::MIN, 1234])),
        5 => Variant::UInt16(gen_u16(r)),
        6 => Variant::Int32(gen_i32(r)),
        7 => Variant::UInt32(gen_u32(r)),
        8 => Variant::Int64(gen_i64(r)),
        9 => Variant::UInt64(gen_u64(r)),
        10 => Variant::Float(gen_f32(r)),
        11 => Variant::Double(gen_f64(r)),
        12 => Variant::String(gen_ustr(r)),
        13 => Variant::DateTime(Box::new(gen_date(r))),
        14 => Variant::Guid(Box::new(gen_guid(r))),
        15 => Variant::ByteString(gen_bstr(r)),
        16 => Variant::XmlElement(gen_ustr(r)),
        17 => Variant::NodeId(Box::new(gen_nodeid(r))),
        18 => Variant::ExpandedNodeId(Box::new(gen_xnodeid(r))),
        19 => Variant::StatusCode(gen_status(r)),
        20 => Variant::QualifiedName(Box::new(gen_qname(r))),
        21 => Variant::LocalizedText(Box::new(gen_ltext(r))),
        22 => Variant::ExtensionObject(Box::new(gen_extobj(r))),
        23 => Variant::DiagnosticInfo(Box::new(gen_diag(r, 2))),
        24 | 25 => Variant::DataValue(Box::new(gen_dvalue(r, depth - 1))),
        26 | 27 | 28 => Variant::Variant(Box::new(gen_variant(r, depth - 1))),
        _ => if r.chance(1, 3) { gen_array(r) } else { Variant::Float(gen_f32(r)) },
    }
}
fn gen_val(r: &mut Rng) -> Val {
    match r.below(24) {
        0 => Val::S(gen_ustr(r)),
        1 => Val::B(gen_bstr(r)),
        2 => Val::G(gen_guid(r)),
        3 => Val::D(gen_date(r)),
        4 => Val::N(gen_nodeid(r)),
        5 | 6 => Val::X(gen_xnodeid(r)),
        7 => Val::SC(gen_status(r)),
        8 => Val::Q(gen_qname(r)),
        9 => Val::L(gen_ltext(r)),
        10 | 11 | 12 => { let d = r.below(4) as u32; Val::DV(gen_dvalue(r, d)) }
        13 => Val::EO(gen_extobj(r)),
        14 => Val::DI(gen_diag(r, 3)),
        _ => { let d = r.below(5) as u32; Val::V(gen_variant(r, d)) }
    }
}

// mutated trees for the reader model ------------------------------------------------------------
const LEAF_STRINGS: &[&str] = &["", "NaN", "Infinity", "-Infinity", "nan", "+5", "-5", "5", "-0", "007", "9223372036854775808", "-9223372036854775809", "18446744073709551616",
    "None", "ByteString", "AQI=", "AQI", "AQ==", "AR==", "A===", "AQID", "AQ=A", " AQID", "====", "a", "urn:x",
    "2020-01-01T00:00:00Z", "2020-01-01T00:00:00.000Z", "1600-12-31T23:59:59.999Z", "9999-12-31T23:59:59.999Z", "0000-01-01T00:00:00Z", "2020-13-01T00:00:00Z", "2020-01-01T24:00:00Z",
    "ABCDEF01-2345-6789-abcd-ef0123456789", "abcdef0123456789abcdef0123456789", "{abcdef01-2345-6789-abcd-ef0123456789}", "urn:uuid:abcdef01-2345-6789-abcd-ef0123456789",
    "abcdef01-2345-6789-abcd-ef012345678", "abcdef01-2345-6789-abcd-ef01234567890", "abcdef0g-2345-6789-abcd-ef0123456789", "abcdef01x2345-6789-abcd-ef0123456789", "{abcdef01-2345-6789-abcd-ef0123456789)"];
const LEAF_INTS: &[i128] = &[0, 1, -1, 5, 25, 26, 127, 128, -128, -129, 255, 256, 32767, 32768, -32768, -32769, 65535, 65536, 2147483647, 2147483648, -2147483648, -2147483649,
    4294967295, 4294967296, 9007199254740993, 9223372036854775807, 9223372036854775808, -9223372036854775808, -9223372036854775809, 18446744073709551615, 18446744073709551616,
    170141183460469231731687303715884105727, -170141183460469231731687303715884105728, 1 << 100];
const LEAF_FLTS: &[f64] = &[0.0, -0.0, 1.0, 0.5, 1.5, -1.5, 1e39, -1e39, 3.4028235e38, 3.4028235677973366e38, 3.4028235677973362e38, 1e-46, 7e-46, 1e300, 5e-324, 255.0, 65536.0];
fn gen_leaf(r: &mut Rng) -> Tree {
    match r.below(7) {
        0 => Tree::Null,
        1 => Tree::Bool(r.chance(1, 2)),
        2 | 3 => Tree::Int(*r.pick(LEAF_INTS)),
        4 => Tree::Flt(r.pick(LEAF_FLTS).to_bits()),
        _ => Tree::Str(r.pick(LEAF_STRINGS).to_string()),
    }
}
fn count_nodes(t: &Tree) -> usize {
    1 + match t { Tree::Arr(l) => l.iter().map(count_nodes).sum::<usize>(), Tree::Obj(fs) => fs.iter().map(|(_, x)| count_nodes(x)).sum::<usize>(), _ => 0 }
}
/// mutate the `n`-th node (pre-order)
fn mutate_at(t: &mut Tree, n: &mut usize, r: &mut Rng) -> bool {
    if *n == 0 { mutate_node(t, r); return true; }
    *n -= 1;
    match t {
        Tree::Obj(fs) => { for (_, x) in fs.iter_mut() { if mutate_at(x, n, r) { return true; } } false }
        Tree::Arr(l) => { for x in l.iter_mut() { if mutate_at(x, n, r) { return true; } } false }
        _ => false,
    }
}
const EXTRA_KEYS: &[&str] = &["Dimensions", "Body", "Type", "Namespace", "ServerUri", "Id", "Extra", "Value", "AdditionalInfo", "Name", "Uri", "None", "ByteString", "XmlElement"];
fn mutate_node(t: &mut Tree, r: &mut Rng) {
    match t {
        Tree::Obj(fs) if r.chance(3, 4) => {
            match r.below(4) {
                0 if !fs.is_empty() => { let i = r.below(fs.len() as u64) as usize; fs.remove(i); }
                1 if !fs.is_empty() => { let i = r.below(fs.len() as u64) as usize; fs[i].1 = gen_leaf(r); }
                2 => {
                    let k = r.pick(EXTRA_KEYS).to_string();
                    let v = if k == "Dimensions" && r.chance(1, 2) { Tree::Arr(vec![Tree::Int(1)]) } else { gen_leaf(r) };
                    fs.retain(|(k2, _)| *k2 != k);
                    fs.push((k, v));
                    fs.sort_by(|a, b| a.0.cmp(&b.0));
                }
                _ => { if let Some(e) = fs.iter_mut().find(|(k, _)| k == "Type") { e.1 = Tree::Int(r.below(28) as i128); } else { *t = gen_leaf(r); } }
            }
        }
        _ => *t = gen_leaf(r),
    }
}
fn kind_of(v: &Val) -> u8 {
    match v { Val::S(_) => 0, Val::B(_) => 1, Val::G(_) => 2, Val::D(_) => 3, Val::N(_) => 4, Val::X(_) => 5, Val::SC(_) => 6, Val::Q(_) => 7, Val::L(_) => 8, Val::DV(_) => 9, Val::V(_) => 10, Val::EO(_) => 11, Val::DI(_) => 12 }
}
fn val_json(v: &Val) -> Option<J> {
    guarded(|| match v {
        Val::S(x) => serde_json::to_value(x), Val::B(x) => serde_json::to_value(x), Val::G(x) => serde_json::to_value(x), Val::D(x) => serde_json::to_value(x),
        Val::N(x) => serde_json::to_value(x), Val::X(x) => serde_json::to_value(x), Val::SC(x) => serde_json::to_value(x), Val::Q(x) => serde_json::to_value(x),
        Val::L(x) => serde_json::to_value(x), Val::DV(x) => serde_json::to_value(x), Val::V(x) => serde_json::to_value(x), Val::EO(x) => serde_json::to_value(x),
        Val::DI(x) => serde_json::to_value(x),
    }).ok().and_then(|r| r.ok())
}
fn gen_tree_case(r: &mut Rng) -> Case {
    // start from the tree of a real value (every string in it is in the reader model), then mutate
    for _ in 0..20 {
        let v = gen_val(r);
        let k = kind_of(&v);
        if let Some(j) = val_json(&v) {
            let mut t = json_to_tree(&j);
            let m = 1 + r.below(2);
            for _ in 0..m { let mut n = r.below(count_nodes(&t) as u64) as usize; mutate_at(&mut t, &mut n, r); }
            return Case::Tree(k, t);
        }
    }
    Case::Tree(10, Tree::Null)
}

// ---------------------------------------------------------------------------------------------
// corpus
fn nest(n: usize, inner: Variant) -> Variant { let mut v = inner; for _ in 0..n { v = Variant::Variant(Box::new(v)); } v }
fn obj(fs: &[(&str, Tree)]) -> Tree { let mut v: Vec<(String, Tree)> = fs.iter().map(|(k, t)| (k.to_string(), t.clone())).collect(); v.sort_by(|a, b| a.0.cmp(&b.0)); Tree::Obj(v) }
fn fixed_cases(tier: &str) -> Vec<Case> {
    let mut c: Vec<Case> = Vec::new();
    let dv_none = DataValue { value: None, status: None, source_timestamp: None, source_picoseconds: None, server_timestamp: None, server_picoseconds: None };
    let xid = |ns: u16, uri: UAString, srv: u32| ExpandedNodeId { node_id: NodeId::new(ns, 5u32), namespace_uri: uri, server_index: srv };
    // --- witnesses of the repaired defects
    // ExpandedNodeId with a namespace uri: {"Id":5} dropped the uri before the fix
    c.push(Case::Val(Val::X(xid(0, UAString::from("urn:x"), 0))));
    c.push(Case::Val(Val::X(xid(0, UAString::from(""), 9))));
    c.push(Case::Val(Val::V(Variant::ExpandedNodeId(Box::new(xid(0, UAString::from("urn:x"), 1))))));
    // Float f32::MAX / f32::MIN: 3.4028235e38 read as f64 is above `f32::MAX as f64`, rejected before the fix
    c.push(Case::Val(Val::V(Variant::Float(f32::MAX))));
    c.push(Case::Val(Val::V(Variant::Float(f32::MIN))));
    // null XmlElement in a Variant could not be read before the fix
    c.push(Case::Val(Val::V(Variant::XmlElement(XmlElement::null()))));
    // DiagnosticInfo additional_info = Some(null string) came back as None before the fix
    let di_null = DiagnosticInfo { symbolic_id: None, namespace_uri: None, locale: None, localized_text: None, additional_info: Some(UAString::null()), inner_status_code: None, inner_diagnostic_info: None };
    c.push(Case::Val(Val::DI(di_null.clone())));
    c.push(Case::Val(Val::V(Variant::DiagnosticInfo(Box::new(di_null)))));
    // --- known findings
    c.push(Case::Val(Val::V(Variant::from(vec![1i32, 2, 3]))));                      // 1: arrays panic
    c.push(Case::Val(Val::DV(DataValue { value: Some(gen_array(&mut Rng::new(7))), ..dv_none.clone() })));
    c.push(Case::Val(Val::X(xid(3, UAString::from("urn:x"), 0))));                   // 2: uri and index
    c.push(Case::Val(Val::V(nest(126, Variant::Empty))));                            // depth 127: still read from text
    c.push(Case::Val(Val::V(nest(127, Variant::Empty))));                            // 3: depth 128: text refused
    c.push(Case::Val(Val::V(nest(140, Variant::from(1u8)))));
    // --- null / empty / boundaries
    for s in [UAString::null(), UAString::from(""), UAString::from("a\"b\\c\n\u{1F600}\u{0}")] {
        c.push(Case::Val(Val::S(s.clone()))); c.push(Case::Val(Val::V(Variant::String(s.clone())))); c.push(Case::Val(Val::V(Variant::XmlElement(s.clone()))));
        c.push(Case::Val(Val::L(LocalizedText { locale: s.clone(), text: UAString::null() }))); c.push(Case::Val(Val::Q(QualifiedName { namespace_index: 0, name: s })));
    }
    // every special string in every position that carries a string
    for s in SPECIAL_STRINGS {
        let u = UAString::from(*s);
        c.push(Case::Val(Val::S(u.clone())));
        c.push(Case::Val(Val::V(Variant::String(u.clone()))));
        c.push(Case::Val(Val::V(Variant::XmlElement(u.clone()))));
        c.push(Case::Val(Val::L(LocalizedText { locale: u.clone(), text: u.clone() })));
        c.push(Case::Val(Val::Q(QualifiedName { namespace_index: 1, name: u.clone() })));
        c.push(Case::Val(Val::X(ExpandedNodeId { node_id: NodeId::new(0, 7u32), namespace_uri: u.clone(), server_index: 0 })));
        c.push(Case::Val(Val::X(ExpandedNodeId { node_id: NodeId::new(0, UAString::from("x")), namespace_uri: u.clone(), server_index: 2 })));
        c.push(Case::Val(Val::V(Variant::ExpandedNodeId(Box::new(ExpandedNodeId { node_id: NodeId::new(0, Guid::null()), namespace_uri: u.clone(), server_index: 0 })))));
        c.push(Case::Val(Val::EO(ExtensionObject { node_id: NodeId::new(1, 1u32), body: ExtensionObjectEncoding::XmlElement(u.clone()) })));
        c.push(Case::Val(Val::DI(DiagnosticInfo { symbolic_id: None, namespace_uri: None, locale: None, localized_text: None, additional_info: Some(u.clone()), inner_status_code: None, inner_diagnostic_info: None })));
        if !s.is_empty() {
            c.push(Case::Val(Val::N(NodeId::new(2, u.clone()))));
            c.push(Case::Val(Val::X(ExpandedNodeId { node_id: NodeId::new(0, u.clone()), namespace_uri: UAString::from("urn:x"), server_index: 0 })));
            c.push(Case::Val(Val::V(Variant::NodeId(Box::new(NodeId::new(0, u.clone()))))));
        }
    }
    // long values: byte strings and strings around the block sizes of encoders and past small buffers
    for n in [45usize, 47, 48, 49, 56, 57, 58, 63, 64, 65, 75, 76, 77, 96, 127, 128, 129, 255, 256, 257, 1000, 4097] {
        let b = ByteString::from((0..n).map(|i| (i * 7 + n) as u8).collect::<Vec<u8>>());
        c.push(Case::Val(Val::B(b.clone())));
        if n < 300 { c.push(Case::Val(Val::V(Variant::ByteString(b.clone())))); c.push(Case::Val(Val::N(NodeId::new(1, b.clone())))); }
        if n % 8 == 0 { c.push(Case::Val(Val::EO(ExtensionObject { node_id: NodeId::new(0, 1u32), body: ExtensionObjectEncoding::ByteString(b) }))); }
    }
    for n in [127usize, 128, 255, 256, 1000, 4097] {
        let u = UAString::from((0..n).map(|i| if i % 31 == 30 { '\u{1F600}' } else { (97 + i % 26) as u8 as char }).collect::<String>());
        c.push(Case::Val(Val::S(u.clone()))); c.push(Case::Val(Val::V(Variant::String(u.clone()))));
        if n < 300 { c.push(Case::Val(Val::N(NodeId::new(3, u.clone())))); c.push(Case::Val(Val::X(ExpandedNodeId { node_id: NodeId::new(0, 1u32), namespace_uri: u, server_index: 0 }))); }
    }
    for n in 0..8usize {
        let b = ByteString::from((0..n).map(|i| (250 + i) as u8).collect::<Vec<u8>>());
        c.push(Case::Val(Val::B(b.clone()))); c.push(Case::Val(Val::V(Variant::ByteString(b.clone()))));
        if n > 0 { c.push(Case::Val(Val::N(NodeId::new(1, b)))); }
    }
    c.push(Case::Val(Val::B(ByteString::null()))); c.push(Case::Val(Val::V(Variant::ByteString(ByteString::null()))));
    c.push(Case::Val(Val::EO(ExtensionObject { node_id: NodeId::new(0, 0u32), body: ExtensionObjectEncoding::ByteString(ByteString::null()) })));
    c.push(Case::Val(Val::EO(ExtensionObject { node_id: NodeId::new(0, 0u32), body: ExtensionObjectEncoding::XmlElement(XmlElement::null()) })));
    c.push(Case::Val(Val::EO(ExtensionObject::null())));
    for t in [0i64, END_TICKS, END_TICKS - 10_000, 10_000, 1, END_TICKS + 1, -1, TICKS_Y1, TICKS_Y10000 - 1, DateTime::ymd(2000, 2, 29).ticks(), DateTime::ymd(2000, 3, 1).ticks() - 10_000, DateTime::ymd(2100, 3, 1).ticks() - 10_000, DateTime::ymd(1970, 1, 1).ticks()] {
        c.push(Case::Val(Val::D(DateTime::from(t)))); c.push(Case::Val(Val::V(Variant::DateTime(Box::new(DateTime::from(t))))));
    }
    for b in F32S { c.push(Case::Val(Val::V(Variant::Float(f32::from_bits(*b))))); }
    for b in F64S { c.push(Case::Val(Val::V(Variant::Double(f64::from_bits(*b))))); }
    for v in [i64::MIN, i64::MAX, 0, -1, (1 << 53) + 1] { c.push(Case::Val(Val::V(Variant::Int64(v)))); }
    for v in [u64::MAX, 0, (1 << 53) + 1, 1 << 63] { c.push(Case::Val(Val::V(Variant::UInt64(v)))); }
    for s in STATUS { c.push(Case::Val(Val::SC(StatusCode::from_bits_truncate(*s)))); c.push(Case::Val(Val::V(Variant::StatusCode(StatusCode::from_bits_truncate(*s))))); }
    c.push(Case::Val(Val::G(Guid::null()))); c.push(Case::Val(Val::G(Guid::from_bytes([0xff; 16]))));
    // identifiers outside the quantifier
    c.push(Case::Val(Val::N(NodeId::new(2, UAString::null())))); c.push(Case::Val(Val::N(NodeId::new(2, UAString::from("")))));
    c.push(Case::Val(Val::N(NodeId::new(2, ByteString::null())))); c.push(Case::Val(Val::N(NodeId::new(2, ByteString::from(Vec::<u8>::new())))));
    c.push(Case::Val(Val::N(NodeId::new(65535, u32::MAX)))); c.push(Case::Val(Val::X(xid(65535, UAString::null(), u32::MAX))));
    // DataValue: every optional field absent / present, Empty value inside
    c.push(Case::Val(Val::DV(dv_none.clone())));
    c.push(Case::Val(Val::DV(DataValue { value: Some(Variant::Empty), status: Some(StatusCode::Good), source_timestamp: Some(DateTime::epoch()), source_picoseconds: Some(65535), server_timestamp: Some(DateTime::endtimes()), server_picoseconds: Some(0) })));
    c.push(Case::Val(Val::DV(DataValue { value: Some(Variant::DataValue(Box::new(DataValue { value: Some(Variant::String(UAString::null())), ..dv_none.clone() }))), ..dv_none.clone() })));
    c.push(Case::Val(Val::V(nest(3, Variant::DataValue(Box::new(dv_none.clone()))))));
    c.push(Case::Val(Val::V(nest(40, Variant::Double(f64::NAN)))));
    // --- reader model on hand-written trees
    let ty = |n: i128| ("Type", Tree::Int(n));
    let body = |t: Tree| ("Body", t);
    for t in [
        Tree::Null, obj(&[]), obj(&[ty(0), body(Tree::Null)]), obj(&[ty(0), body(Tree::Int(1))]), obj(&[ty(1)]), obj(&[ty(2)]), obj(&[ty(6), body(Tree::Null)]),
        obj(&[ty(6), body(Tree::Flt(1.0f64.to_bits()))]), obj(&[ty(6), body(Tree::Int(2147483648))]), obj(&[ty(8), body(Tree::Str("+5".into()))]), obj(&[ty(9), body(Tree::Str("-0".into()))]),
        obj(&[ty(8)]), obj(&[ty(9), body(Tree::Int(5))]), obj(&[ty(10), body(Tree::Int(1))]), obj(&[ty(10)]), obj(&[ty(11), body(Tree::Str("NaN".into()))]), obj(&[ty(10), body(Tree::Str("NaN".into()))]),
        obj(&[ty(10), body(Tree::Flt(1e39f64.to_bits()))]), obj(&[ty(10), body(Tree::Flt(3.4028235677973362e38f64.to_bits()))]), obj(&[ty(10), body(Tree::Flt(3.4028235677973366e38f64.to_bits()))]),
        obj(&[ty(10), body(Tree::Int(170141183460469231731687303715884105727))]), obj(&[ty(10), body(Tree::Int(-170141183460469231731687303715884105728))]),
        obj(&[ty(11), body(Tree::Int(9007199254740993))]), obj(&[ty(11), body(Tree::Int(1 << 100))]),
        obj(&[ty(12)]), obj(&[ty(15)]), obj(&[ty(16)]), obj(&[ty(13)]), obj(&[ty(14)]), obj(&[ty(17)]), obj(&[ty(19)]), obj(&[ty(19), body(Tree::Int(4294967296))]), obj(&[ty(19), body(Tree::Int(-1))]),
        obj(&[ty(26)]), obj(&[ty(-1)]), obj(&[ty(4294967296)]), obj(&[("Type", Tree::Flt(1.0f64.to_bits()))]), obj(&[body(Tree::Int(1))]),
        obj(&[ty(6), body(Tree::Int(1)), ("Dimensions", Tree::Arr(vec![Tree::Int(1)]))]), obj(&[ty(6), body(Tree::Int(1)), ("Dimensions", Tree::Null)]), obj(&[ty(6), body(Tree::Int(1)), ("Extra", Tree::Int(1))]),
        obj(&[ty(24)]), obj(&[ty(24), body(obj(&[]))]), obj(&[ty(23), body(obj(&[]))]), obj(&[ty(23)]), obj(&[ty(25), body(obj(&[]))]), obj(&[ty(22), body(obj(&[]))]),
        obj(&[ty(20), body(obj(&[("Uri", Tree::Int(1))]))]), obj(&[ty(20), body(obj(&[("Name", Tree::Str("x".into()))]))]), obj(&[ty(21), body(obj(&[]))]),
        Tree::Str("x".into()), Tree::Int(0), Tree::Bool(true),
    ] { c.push(Case::Tree(10, t)); }
    for t in [Tree::Int(-1), Tree::Int(4294967296), Tree::Flt(1.0f64.to_bits()), Tree::Null, Tree::Int(18446744073709551615), Tree::Int(18446744073709551616), Tree::Int(-9223372036854775808), Tree::Int(-9223372036854775809), Tree::Str("0".into())] { c.push(Case::Tree(6, t)); }
    for s in LEAF_STRINGS { for k in [1u8, 2, 3] { c.push(Case::Tree(k, Tree::Str(s.to_string()))); } }
    for t in [
        obj(&[("Id", Tree::Int(5))]), obj(&[("Id", Tree::Int(4294967296 + 7))]), obj(&[("Id", Tree::Int(-1))]), obj(&[("Id", Tree::Null)]), obj(&[]),
        obj(&[("Id", Tree::Int(5)), ("Namespace", Tree::Int(65536))]), obj(&[("Id", Tree::Int(5)), ("Namespace", Tree::Str("urn:x".into()))]), obj(&[("Id", Tree::Int(5)), ("Namespace", Tree::Null)]),
        obj(&[("Id", Tree::Str("x".into())), ("Type", Tree::Int(0))]), obj(&[("Id", Tree::Str("x".into())), ("Type", Tree::Int(1))]), obj(&[("Id", Tree::Str("".into())), ("Type", Tree::Int(1))]),
        obj(&[("Id", Tree::Str("x".into())), ("Type", Tree::Int(4))]), obj(&[("Id", Tree::Str("x".into())), ("Type", Tree::Null)]), obj(&[("Id", Tree::Int(5)), ("ServerUri", Tree::Int(4294967296))]),
        obj(&[("Id", Tree::Int(5)), ("ServerUri", Tree::Str("urn:s".into()))]), obj(&[("Id", Tree::Int(5)), ("ServerUri", Tree::Int(7)), ("Namespace", Tree::Str("".into()))]),
    ] { c.push(Case::Tree(4, t.clone())); c.push(Case::Tree(5, t)); }
    for t in [Tree::Str("None".into()), obj(&[("None", Tree::Null)]), obj(&[("None", Tree::Int(1))]), Tree::Str("ByteString".into()), obj(&[("ByteString", Tree::Null)]), obj(&[("ByteString", Tree::Str("AQI=".into())), ("XmlElement", Tree::Null)]), obj(&[("Other", Tree::Null)]), obj(&[])] {
        c.push(Case::Tree(11, obj(&[("NodeId", obj(&[("Id", Tree::Int(1))])), ("Body", t)])));
    }
    c.push(Case::Tree(11, obj(&[("Body", Tree::Str("None".into()))])));
    c.push(Case::Tree(12, obj(&[("AdditionalInfo", Tree::Null)])));
    c.push(Case::Tree(12, obj(&[("AdditionalInfo", Tree::Int(1))])));
    c.push(Case::Tree(12, obj(&[("InnerDiagnosticInfo", Tree::Null), ("SymbolicId", Tree::Int(2147483648))])));
    c.push(Case::Tree(12, obj(&[("InnerDiagnosticInfo", obj(&[("InnerDiagnosticInfo", obj(&[("Locale", Tree::Int(-2147483648))]))]))])));
    c.push(Case::Tree(9, obj(&[("Value", Tree::Null), ("Status", Tree::Int(-1)), ("SourcePicoseconds", Tree::Int(65536))])));
    c.push(Case::Tree(9, obj(&[("Value", obj(&[ty(0)])), ("Status", Tree::Null), ("SourcePicoseconds", Tree::Null), ("SourceTimestamp", Tree::Null)])));
    c.push(Case::Tree(9, Tree::Null));
    if tier == "thorough" {
        // every f32 exponent with the extreme mantissas, both signs
        for e in 0..=255u32 { for m in [0u32, 1, 0x7f_ffff] { for s in [0u32, 1] { c.push(Case::Val(Val::V(Variant::Float(f32::from_bits(s << 31 | e << 23 | m))))); } } }
        for e in (0..=2047u64).step_by(7) { for m in [0u64, 1, 0xf_ffff_ffff_ffff] { c.push(Case::Val(Val::V(Variant::Double(f64::from_bits(e << 52 | m))))); } }
        // month boundaries of selected years, at 23:59:59.999
        for y in [1601u16, 1700, 1900, 2000, 2023, 2024, 9999] { for m in 1..=12u16 { for d in [1u16, 28] {
            c.push(Case::Val(Val::D(DateTime::from(DateTime::ymd_hms(y, m, d, 23, 59, 59).ticks() + 9_990_000))));
        } } }
    }
    c
}
fn main() { run_main::<P>() }
