(* C01/C02/C03 — byte-level codec library: definitions only (no proofs).

   Bytes are [Z] values 0..255 in a list.  A decoder is a function from the remaining input to
   an outcome (value and rest, an error class, or a panic site) paired with instrumentation:
   the number of nested depth locks successfully held at the deepest point, and the largest
   single allocation requested.  [run] forgets the instrumentation.

   Rust sources: lib/src/types/encoding.rs (read_*/write_*, DecodingOptions, DepthGauge,
   read_array/write_array), string.rs, byte_string.rs, basic_types.rs. *)
From Coq Require Import List ZArith Bool Lia.
Import ListNotations.
Open Scope Z_scope.

Definition bytes := list Z.

(* error classes (the Rust code returns BadDecodingError for nearly all of them; the class is what
   the theorems talk about, the harness only sees "an error") *)
Inductive err := EEof | ENeg | ELimit | EDepth | EInvalid | EUtf8.

Inductive outcome (A : Type) := Ok (a : A) | Err (e : err) | Panic (site : Z).
Arguments Ok {A} a.
Arguments Err {A} e.
Arguments Panic {A} site.

(* DecodingOptions: limits; [max_depth] is DepthGauge::max_depth; [offset_ns] is client_offset in ns *)
Record opts := mk_opts {
  max_str : Z; max_bstr : Z; max_arr : Z; max_msg : Z; max_depth : Z; offset_ns : Z }.

Record stats := mkstats { st_depth : Z; st_alloc : Z }.
Definition st0 := mkstats 0 0.
Definition st_max (a b : stats) :=
  mkstats (Z.max (st_depth a) (st_depth b)) (Z.max (st_alloc a) (st_alloc b)).

Definition M (A : Type) := bytes -> outcome (A * bytes) * stats.

Definition ret {A} (a : A) : M A := fun bs => (Ok (a, bs), st0).
Definition fail {A} (e : err) : M A := fun _ => (Err e, st0).
Definition panic {A} (s : Z) : M A := fun _ => (Panic s, st0).
Definition bind {A B} (m : M A) (f : A -> M B) : M B := fun bs =>
  match m bs with
  | (Ok (a, bs'), s) => match f a bs' with (r, s') => (r, st_max s s') end
  | (Err e, s) => (Err e, s)
  | (Panic p, s) => (Panic p, s)
  end.
Notation "x <- m ;; f" := (bind m (fun x => f)) (at level 61, m at next level, right associativity).

(* the outcome without the instrumentation *)
Definition run {A} (m : M A) (bs : bytes) : outcome (A * bytes) := fst (m bs).

(* vec![0; n] / Vec::with_capacity: record a requested allocation of n bytes *)
Definition alloc (n : Z) : M unit := fun bs => (Ok (tt, bs), mkstats 0 n).

(* one more successfully held DepthLock around the body *)
Definition bump {A} (m : M A) : M A := fun bs =>
  match m bs with (r, s) => (r, mkstats (st_depth s + 1) (st_alloc s)) end.

(* decoding_options.depth_lock()? around [body]; [d] is max_depth - current_depth *)
Definition lock {A} (d : nat) (body : nat -> M A) : M A :=
  match d with O => fail EDepth | S d' => bump (body d') end.

(* stream.read_exact(buf) with buf.len() = n *)
Definition take (n : nat) : M bytes := fun bs =>
  if Nat.ltb (length bs) n then (Err EEof, st0) else (Ok (firstn n bs, skipn n bs), st0).

(* ---- little-endian integers --------------------------------------------------------- *)
Fixpoint le_enc (n : nat) (v : Z) : bytes :=
  match n with O => [] | S n' => v mod 256 :: le_enc n' (v / 256) end.
Fixpoint le_dec (bs : bytes) : Z :=
  match bs with [] => 0 | b :: r => b + 256 * le_dec r end.

Definition wrap (n : nat) (v : Z) : Z := v mod 2 ^ (8 * Z.of_nat n).   (* two's complement bits *)
Definition signed (n : nat) (u : Z) : Z :=
  if u <? 2 ^ (8 * Z.of_nat n - 1) then u else u - 2 ^ (8 * Z.of_nat n).

Definition enc_u (n : nat) (v : Z) : bytes := le_enc n v.
Definition enc_i (n : nat) (v : Z) : bytes := le_enc n (wrap n v).
Definition read_u (n : nat) : M Z := bs <- take n ;; ret (le_dec bs).
Definition read_i (n : nat) : M Z := bs <- take n ;; ret (signed n (le_dec bs)).

Definition in_u (n : nat) (v : Z) : Prop := 0 <= v < 2 ^ (8 * Z.of_nat n).
Definition in_i (n : nat) (v : Z) : Prop := - 2 ^ (8 * Z.of_nat n - 1) <= v < 2 ^ (8 * Z.of_nat n - 1).
Definition is_byte (b : Z) : Prop := 0 <= b < 256.

(* bool: encode 1/0, decode `== 1` *)
Definition enc_bool (b : bool) : bytes := [if b then 1 else 0].
Definition read_bool : M bool := b <- read_u 1 ;; ret (b =? 1).

(* ---- UTF-8 well-formedness (Unicode 15 table 3-7; what String::from_utf8 accepts) ----- *)
Definition btw (lo hi b : Z) : bool := (lo <=? b) && (b <=? hi).
Definition cont (b : Z) : bool := btw 128 191 b.

Fixpoint utf8_valid (bs : bytes) : bool :=
  match bs with
  | [] => true
  | b0 :: r0 =>
    if btw 0 127 b0 then utf8_valid r0 else
    match r0 with
    | [] => false
    | b1 :: r1 =>
      if btw 194 223 b0 then cont b1 && utf8_valid r1 else
      match r1 with
      | [] => false
      | b2 :: r2 =>
        if b0 =? 224 then btw 160 191 b1 && cont b2 && utf8_valid r2 else
        if btw 225 236 b0 || btw 238 239 b0 then cont b1 && cont b2 && utf8_valid r2 else
        if b0 =? 237 then btw 128 159 b1 && cont b2 && utf8_valid r2 else
        match r2 with
        | [] => false
        | b3 :: r3 =>
          if b0 =? 240 then btw 144 191 b1 && cont b2 && cont b3 && utf8_valid r3 else
          if btw 241 243 b0 then cont b1 && cont b2 && cont b3 && utf8_valid r3 else
          if b0 =? 244 then btw 128 143 b1 && cont b2 && cont b3 && utf8_valid r3 else
          false
        end
      end
    end
  end.

(* ---- UAString / ByteString / XmlElement: Option<bytes>, i32 length prefix, -1 = null ---- *)
Definition ustr := option bytes.

Definition enc_ustr (s : ustr) : bytes :=
  match s with
  | None => enc_i 4 (-1)
  | Some bs => enc_i 4 (Z.of_nat (length bs)) ++ bs
  end.
Definition len_ustr (s : ustr) : Z :=
  4 + match s with None => 0 | Some bs => Z.of_nat (length bs) end.

(* UAString::decode (utf8 = true, limit = max_string_length),
   ByteString::decode (utf8 = false, limit = max_byte_string_length) *)
Definition dec_ustr (limit : Z) (utf8 : bool) : M ustr :=
  len <- read_i 4 ;;
  if len =? -1 then ret None
  else if len <? -1 then fail ENeg
  else if limit <? len then fail ELimit
  else _ <- alloc len ;;
       bs <- take (Z.to_nat len) ;;
       if utf8 && negb (utf8_valid bs) then fail EUtf8 else ret (Some bs).

Definition dec_str (o : opts) : M ustr := dec_ustr (max_str o) true.
Definition dec_bstr (o : opts) : M ustr := dec_ustr (max_bstr o) false.

Definition wf_bytes (bs : bytes) : Prop := Forall is_byte bs /\ Z.of_nat (length bs) < 2 ^ 31.
Definition wf_str (s : ustr) : Prop :=
  match s with None => True | Some bs => wf_bytes bs /\ utf8_valid bs = true end.
Definition wf_bstr (s : ustr) : Prop :=
  match s with None => True | Some bs => wf_bytes bs end.
Definition chk_ustr (limit : Z) (s : ustr) : option err :=
  match s with
  | None => None
  | Some bs => if limit <? Z.of_nat (length bs) then Some ELimit else None
  end.

(* ---- arrays: Option<Vec<T>>, read_array / write_array --------------------------------- *)
Fixpoint dec_n {A} (n : nat) (m : M A) : M (list A) :=
  match n with
  | O => ret []
  | S n' => x <- m ;; xs <- dec_n n' m ;; ret (x :: xs)
  end.

Definition enc_array {A} (f : A -> bytes) (v : option (list A)) : bytes :=
  match v with
  | None => enc_i 4 (-1)
  | Some xs => enc_i 4 (Z.of_nat (length xs)) ++ concat (map f xs)
  end.
Definition len_array {A} (f : A -> Z) (v : option (list A)) : Z :=
  4 + match v with None => 0 | Some xs => fold_right (fun x acc => f x + acc) 0 xs end.

(* [esize] = size_of::<T>() for the allocation accounting of Vec::with_capacity(len) *)
Definition dec_array {A} (o : opts) (esize : Z) (m : M A) : M (option (list A)) :=
  len <- read_i 4 ;;
  if len =? -1 then ret None
  else if len <? -1 then fail ENeg
  else if max_arr o <? len then fail ELimit
  else _ <- alloc (len * esize) ;;
       xs <- dec_n (Z.to_nat len) m ;;
       ret (Some xs).

(* first violation among the elements, in decoding order *)
Fixpoint chk_list {A} (f : A -> option err) (xs : list A) : option err :=
  match xs with
  | [] => None
  | x :: r => match f x with Some e => Some e | None => chk_list f r end
  end.
Definition chk_array {A} (o : opts) (f : A -> option err) (v : option (list A)) : option err :=
  match v with
  | None => None
  | Some xs => if max_arr o <? Z.of_nat (length xs) then Some ELimit else chk_list f xs
  end.
Definition seq_chk (a b : option err) : option err :=
  match a with Some e => Some e | None => b end.

(* optional field whose presence is a mask bit *)
Definition dec_opt {A} (present : bool) (m : M A) : M (option A) :=
  if present then (x <- m ;; ret (Some x)) else ret None.
Definition enc_opt {A} (f : A -> bytes) (x : option A) : bytes :=
  match x with Some a => f a | None => [] end.
Definition is_some {A} (x : option A) : bool := match x with Some _ => true | None => false end.
Definition bit (b : bool) (k : Z) : Z := if b then 2 ^ k else 0.

(* ---- the codec record and its law ------------------------------------------------------ *)
Record codec (A : Type) := mk_codec {
  enc : A -> bytes;
  dec : opts -> nat -> M A;        (* options, remaining depth *)
  blen : A -> Z;                   (* byte_len() *)
  wf : A -> Prop;                  (* limit-independent well-formedness *)
  chk : opts -> nat -> A -> option err;   (* first limit / depth violation in decoding order *)
  norm : A -> A }.
Arguments enc {A} c. Arguments dec {A} c. Arguments blen {A} c. Arguments wf {A} c.
Arguments chk {A} c. Arguments norm {A} c.

(* round trip (C01), limit enforcement (C03) and length in one law *)
Definition codec_ok {A} (c : codec A) : Prop :=
  forall a, wf c a ->
    blen c a = Z.of_nat (length (enc c a)) /\
    Forall is_byte (enc c a) /\
    forall o d rest, offset_ns o = 0 ->
      run (dec c o d) (enc c a ++ rest) =
      match chk c o d a with None => Ok (norm c a, rest) | Some e => Err e end.

(* combinators *)
Definition c_pair {A B} (ca : codec A) (cb : codec B) : codec (A * B) :=
  {| enc := fun p => enc ca (fst p) ++ enc cb (snd p);
     dec := fun o d => a <- dec ca o d ;; b <- dec cb o d ;; ret (a, b);
     blen := fun p => blen ca (fst p) + blen cb (snd p);
     wf := fun p => wf ca (fst p) /\ wf cb (snd p);
     chk := fun o d p => seq_chk (chk ca o d (fst p)) (chk cb o d (snd p));
     norm := fun p => (norm ca (fst p), norm cb (snd p)) |}.

Definition c_array {A} (esize : Z) (c : codec A) : codec (option (list A)) :=
  {| enc := enc_array (enc c);
     dec := fun o d => dec_array o esize (dec c o d);
     blen := len_array (blen c);
     wf := fun v => match v with None => True
                    | Some xs => Forall (wf c) xs /\ Z.of_nat (length xs) < 2 ^ 31 end;
     chk := fun o d => chk_array o (chk c o d);
     norm := fun v => match v with None => None | Some xs => Some (map (norm c) xs) end |}.

(* a field list of one value type (generated structs): fields decoded in order *)
Fixpoint enc_fields {A} (cs : list (codec A)) (vs : list A) : bytes :=
  match cs, vs with
  | c :: cs', v :: vs' => enc c v ++ enc_fields cs' vs'
  | _, _ => []
  end.
Fixpoint dec_fields {A} (cs : list (codec A)) (o : opts) (d : nat) : M (list A) :=
  match cs with
  | [] => ret []
  | c :: cs' => v <- dec c o d ;; vs <- dec_fields cs' o d ;; ret (v :: vs)
  end.
Fixpoint len_fields {A} (cs : list (codec A)) (vs : list A) : Z :=
  match cs, vs with
  | c :: cs', v :: vs' => blen c v + len_fields cs' vs'
  | _, _ => 0
  end.
Fixpoint wf_fields {A} (cs : list (codec A)) (vs : list A) : Prop :=
  match cs, vs with
  | [], [] => True
  | c :: cs', v :: vs' => wf c v /\ wf_fields cs' vs'
  | _, _ => False
  end.
Fixpoint chk_fields {A} (cs : list (codec A)) (o : opts) (d : nat) (vs : list A) : option err :=
  match cs, vs with
  | c :: cs', v :: vs' => seq_chk (chk c o d v) (chk_fields cs' o d vs')
  | _, _ => None
  end.
Fixpoint norm_fields {A} (cs : list (codec A)) (vs : list A) : list A :=
  match cs, vs with
  | c :: cs', v :: vs' => norm c v :: norm_fields cs' vs'
  | _, _ => []
  end.
Definition c_struct {A} (cs : list (codec A)) : codec (list A) :=
  {| enc := enc_fields cs; dec := dec_fields cs; blen := len_fields cs;
     wf := wf_fields cs; chk := chk_fields cs; norm := norm_fields cs |}.

(* change of representation: A is seen through B (inj/proj), used to put typed codecs into a
   universal value type *)
Definition c_map {A B} (inj : A -> B) (proj : B -> option A) (dflt : A) (c : codec A) : codec B :=
  let p := fun b => match proj b with Some a => a | None => dflt end in
  {| enc := fun b => enc c (p b);
     dec := fun o d => a <- dec c o d ;; ret (inj a);
     blen := fun b => blen c (p b);
     wf := fun b => exists a, proj b = Some a /\ wf c a;
     chk := fun o d b => chk c o d (p b);
     norm := fun b => inj (norm c (p b)) |}.

(* tagged sum: one tag byte chosen by [tag], payload codec chosen by the tag (unknown tag: error) *)
Definition c_sum {A} (tag : A -> Z) (payload : Z -> option (codec A)) : codec A :=
  let pc := fun a => payload (tag a) in
  {| enc := fun a => tag a :: match pc a with Some c => enc c a | None => [] end;
     dec := fun o d => t <- read_u 1 ;;
                       match payload t with Some c => dec c o d | None => fail EInvalid end;
     blen := fun a => 1 + match pc a with Some c => blen c a | None => 0 end;
     wf := fun a => is_byte (tag a) /\ exists c, pc a = Some c /\ wf c a;
     chk := fun o d a => match pc a with Some c => chk c o d a | None => None end;
     norm := fun a => match pc a with Some c => norm c a | None => a end |}.
