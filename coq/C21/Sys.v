(* Shared system model for C21 / C27 / C40: one session's subscription machinery.

   Source (repository checkout, after the fix: commits)
     lib/src/server/subscriptions/subscriptions.rs   Subscriptions::{tick, enqueue_publish_request,
         expire_stale_publish_requests, process_subscription_acknowledgements,
         find_notification_message, remove_old_unacknowledged_notifications}
     lib/src/server/subscriptions/subscription.rs    Subscription::{tick, update_state,
         handle_state_result, enqueue_notification, tick_monitored_items, create/delete items}
     lib/src/server/subscriptions/monitored_item.rs  MonitoredItem::{new, tick, check_value,
         enqueue_notification_message, all_notifications}
     lib/src/server/services/subscription.rs         async_publish, republish, delete_subscriptions,
         set_publishing_mode
     lib/src/core/handle.rs                          Handle::next

   Conventions: u32 quantities are Z; time is milliseconds since an arbitrary base, an explicit
   parameter; variables of the address space hold Int32 values (Z); HashMap<u32, MonitoredItem> is
   a list in ascending item id (the harness sorts the values of a message by client handle, which
   the driver makes monotone in the item id); BTreeMaps are lists in ascending key order.
   Every Rust panic site that can be reached is an explicit [None] outcome (marker -2 in [run]):
     - "SubscriptionCreated got a notification" (and, before its fix, "SubscriptionExpired got
       a notification")
     - "Notification's sequence number is not sequential"
     - "Publishing interval should have been revised to min interval"
     - `lifetime_counter -= 1` on 0 (overflow checks)
     - `.get_mut(&subscription_id).unwrap()` in Subscriptions::tick
   Not modelled (not reachable from the operations of [op]): event filters, data change filters
   (FilterType::None only), triggering links, resend_data, modify, transfer. *)
From Coq Require Import List ZArith Bool Lia.
Import ListNotations.
Open Scope Z_scope.

Definition U32MAX : Z := 4294967295.
Definition PUBLISH_REQUEST_TIMEOUT : Z := 30000.
Definition MIN_SAMPLING_MS : Z := 100.
Definition MAX_QUEUE : Z := 10.

Definition len {A} (l : list A) : Z := Z.of_nat (length l).
Definition is_nil {A} (l : list A) : bool := match l with [] => true | _ => false end.
Definition is_some {A} (o : option A) : bool := match o with Some _ => true | None => false end.
Definition bind {A B} (o : option A) (f : A -> option B) : option B :=
  match o with Some a => f a | None => None end.

(* chrono: now.signed_duration_since(t).to_std().unwrap_or_default() *)
Definition elapsed (now t : Z) : Z := Z.max 0 (now - t).

(* Handle::next *)
Definition handle_next (n : Z) : Z := if n =? U32MAX then 1 else n + 1.

(* ---------------------------------------------------------------------------------- data *)
Definition datum := (Z * Z * Z)%type.          (* client handle, value, overflow bit *)
(* NotificationMessage: kind 0 keep-alive, 1 data change, 2 status change (BadTimeout) *)
Record msg := mk_msg { m_seq : Z; m_time : Z; m_kind : Z; m_data : list datum }.

(* mode: 0 disabled, 1 sampling, 2 reporting.  samp: -1 or milliseconds *)
Record item := mk_item {
  i_id : Z; i_var : Z; i_mode : Z; i_handle : Z; i_samp : Z; i_discard : bool; i_qsize : Z;
  i_queue : list (Z * Z);                      (* value, overflow bit; oldest first *)
  i_lastsample : Z; i_last : option Z }.

Definition set_queue (it : item) q :=
  mk_item (i_id it) (i_var it) (i_mode it) (i_handle it) (i_samp it) (i_discard it) (i_qsize it)
          q (i_lastsample it) (i_last it).
Definition set_lastsample (it : item) t :=
  mk_item (i_id it) (i_var it) (i_mode it) (i_handle it) (i_samp it) (i_discard it) (i_qsize it)
          (i_queue it) t (i_last it).
Definition set_last (it : item) v :=
  mk_item (i_id it) (i_var it) (i_mode it) (i_handle it) (i_samp it) (i_discard it) (i_qsize it)
          (i_queue it) (i_lastsample it) v.

(* state: 0 closed, 1 creating, 2 normal, 3 late, 4 keep-alive *)
Record sub := mk_sub {
  s_id : Z; s_interval : Z; s_maxlife : Z; s_maxka : Z; s_prio : Z;
  s_items : list item; s_state : Z; s_life : Z; s_ka : Z; s_fms : bool; s_enabled : bool;
  s_seqnext : Z; s_lastseq : Z; s_nextitem : Z; s_lasttime : Z; s_notifs : list msg }.

Definition set_items s v := mk_sub (s_id s) (s_interval s) (s_maxlife s) (s_maxka s) (s_prio s)
  v (s_state s) (s_life s) (s_ka s) (s_fms s) (s_enabled s) (s_seqnext s) (s_lastseq s) (s_nextitem s) (s_lasttime s) (s_notifs s).
Definition set_state s v := mk_sub (s_id s) (s_interval s) (s_maxlife s) (s_maxka s) (s_prio s)
  (s_items s) v (s_life s) (s_ka s) (s_fms s) (s_enabled s) (s_seqnext s) (s_lastseq s) (s_nextitem s) (s_lasttime s) (s_notifs s).
Definition set_life s v := mk_sub (s_id s) (s_interval s) (s_maxlife s) (s_maxka s) (s_prio s)
  (s_items s) (s_state s) v (s_ka s) (s_fms s) (s_enabled s) (s_seqnext s) (s_lastseq s) (s_nextitem s) (s_lasttime s) (s_notifs s).
Definition set_ka s v := mk_sub (s_id s) (s_interval s) (s_maxlife s) (s_maxka s) (s_prio s)
  (s_items s) (s_state s) (s_life s) v (s_fms s) (s_enabled s) (s_seqnext s) (s_lastseq s) (s_nextitem s) (s_lasttime s) (s_notifs s).
Definition set_fms s v := mk_sub (s_id s) (s_interval s) (s_maxlife s) (s_maxka s) (s_prio s)
  (s_items s) (s_state s) (s_life s) (s_ka s) v (s_enabled s) (s_seqnext s) (s_lastseq s) (s_nextitem s) (s_lasttime s) (s_notifs s).
Definition set_enabled s v := mk_sub (s_id s) (s_interval s) (s_maxlife s) (s_maxka s) (s_prio s)
  (s_items s) (s_state s) (s_life s) (s_ka s) (s_fms s) v (s_seqnext s) (s_lastseq s) (s_nextitem s) (s_lasttime s) (s_notifs s).
Definition set_seqnext s v := mk_sub (s_id s) (s_interval s) (s_maxlife s) (s_maxka s) (s_prio s)
  (s_items s) (s_state s) (s_life s) (s_ka s) (s_fms s) (s_enabled s) v (s_lastseq s) (s_nextitem s) (s_lasttime s) (s_notifs s).
Definition set_lastseq s v := mk_sub (s_id s) (s_interval s) (s_maxlife s) (s_maxka s) (s_prio s)
  (s_items s) (s_state s) (s_life s) (s_ka s) (s_fms s) (s_enabled s) (s_seqnext s) v (s_nextitem s) (s_lasttime s) (s_notifs s).
Definition set_nextitem s v := mk_sub (s_id s) (s_interval s) (s_maxlife s) (s_maxka s) (s_prio s)
  (s_items s) (s_state s) (s_life s) (s_ka s) (s_fms s) (s_enabled s) (s_seqnext s) (s_lastseq s) v (s_lasttime s) (s_notifs s).
Definition set_lasttime s v := mk_sub (s_id s) (s_interval s) (s_maxlife s) (s_maxka s) (s_prio s)
  (s_items s) (s_state s) (s_life s) (s_ka s) (s_fms s) (s_enabled s) (s_seqnext s) (s_lastseq s) (s_nextitem s) v (s_notifs s).
Definition set_notifs s v := mk_sub (s_id s) (s_interval s) (s_maxlife s) (s_maxka s) (s_prio s)
  (s_items s) (s_state s) (s_life s) (s_ka s) (s_fms s) (s_enabled s) (s_seqnext s) (s_lastseq s) (s_nextitem s) (s_lasttime s) v.

(* a queued publish request (PublishRequestEntry): request id, client timestamp, timeout hint,
   the results of its acknowledgements *)
Record req := mk_req { q_rid : Z; q_time : Z; q_hint : Z; q_results : list Z }.

(* a response taken from the session's publish response queue *)
Inductive resp :=
| RPub (rid sub more : Z) (avail : list Z) (results : list Z) (m : msg)
| RFault (rid status : Z).

(* status classes *)
Definition ST_GOOD := 0.
Definition ST_SEQ_UNKNOWN := 1.       (* BadSequenceNumberUnknown *)
Definition ST_SUB_INVALID := 2.       (* BadSubscriptionIdInvalid *)
Definition ST_MSG_NOT_AVAILABLE := 3. (* BadMessageNotAvailable *)
Definition ST_TIMEOUT := 4.           (* BadTimeout *)
Definition ST_TOO_MANY := 5.          (* BadTooManyPublishRequests *)
Definition ST_NO_SUB := 6.            (* BadNoSubscription *)
Definition ST_ITEM_INVALID := 7.      (* BadMonitoredItemIdInvalid *)
Definition ST_NODE_UNKNOWN := 8.      (* BadNodeIdUnknown *)

Record sys := mk_sys {
  y_now : Z; y_vars : list Z;
  y_reqs : list req;                           (* publish_request_queue, oldest first *)
  y_subs : list sub;                           (* BTreeMap<u32, Subscription>, ascending id *)
  y_retrans : list (Z * Z * msg);              (* retransmission_queue, ascending (sub, seq) *)
  y_nextsub : Z; y_nextrid : Z }.

Definition set_now y v := mk_sys v (y_vars y) (y_reqs y) (y_subs y) (y_retrans y) (y_nextsub y) (y_nextrid y).
Definition set_vars y v := mk_sys (y_now y) v (y_reqs y) (y_subs y) (y_retrans y) (y_nextsub y) (y_nextrid y).
Definition set_reqs y v := mk_sys (y_now y) (y_vars y) v (y_subs y) (y_retrans y) (y_nextsub y) (y_nextrid y).
Definition set_subs y v := mk_sys (y_now y) (y_vars y) (y_reqs y) v (y_retrans y) (y_nextsub y) (y_nextrid y).
Definition set_retrans y v := mk_sys (y_now y) (y_vars y) (y_reqs y) (y_subs y) v (y_nextsub y) (y_nextrid y).
Definition set_nextsub y v := mk_sys (y_now y) (y_vars y) (y_reqs y) (y_subs y) (y_retrans y) v (y_nextrid y).
Definition set_nextrid y v := mk_sys (y_now y) (y_vars y) (y_reqs y) (y_subs y) (y_retrans y) (y_nextsub y) v.

(* --------------------------------------------------------------------- monitored_item.rs *)

(* MonitoredItem::enqueue_notification_message *)
Definition item_enqueue (it : item) (v : Z) : item :=
  let q := i_queue it in
  if len q =? i_qsize it then
    let q' := if i_discard it then tl q else removelast q in
    let ovf := if 1 <? i_qsize it then 1 else 0 in
    set_queue it (q' ++ [(v, ovf)])
  else set_queue it (q ++ [(v, 0)]).

(* MonitoredItem::check_value / check_for_data_change with FilterType::None on an existing
   Int32 variable; returns (changed, item) *)
Definition check_value (it : item) (vars : list Z) (now : Z) : bool * item :=
  let v := nth (Z.to_nat (i_var it)) vars 0 in
  let changed := match i_last it with Some l => negb (v =? l) | None => true end in
  let it1 := if changed then item_enqueue (set_last it (Some v)) v else it in
  (changed, set_lastsample it1 now).

(* MonitoredItem::tick: 0 NoChange, 1 ValueChanged, 2 ReportValueChanged *)
Definition item_tick (it : item) (vars : list Z) (now : Z) (pie : bool) : Z * item :=
  if i_mode it =? 0 then (0, it)
  else
    let check := if i_samp it <? 0 then pie
                 else if i_samp it =? 0 then true
                 else i_samp it <=? elapsed now (i_lastsample it) in
    if check then
      let first := negb (is_some (i_last it)) in
      let '(changed, it1) := check_value it vars now in
      if first || changed || negb (is_nil (i_queue it1))
      then (if i_mode it =? 2 then 2 else 1, it1) else (0, it1)
    else (0, it).

(* ----------------------------------------------------------------------- subscription.rs *)

(* the loop of tick_monitored_items (no triggering links): ticks every item; when the publishing
   interval elapsed, the queue of every item that reports is drained into the message *)
Fixpoint tick_items_loop (its : list item) (vars : list Z) (now : Z) (pie : bool)
  : list item * list datum :=
  match its with
  | [] => ([], [])
  | it :: r =>
      let '(res, it1) := item_tick it vars now pie in
      let '(it2, d) := if (res =? 2) && pie
                       then (set_queue it1 [], map (fun vo => (i_handle it1, fst vo, snd vo)) (i_queue it1))
                       else (it1, []) in
      let '(r', d') := tick_items_loop r vars now pie in
      (it2 :: r', d ++ d')
  end.

Definition tick_items (s : sub) (vars : list Z) (now : Z) (pie : bool) : option msg * sub :=
  let '(its, d) := tick_items_loop (s_items s) vars now pie in
  let s1 := set_items s its in
  match d with
  | [] => (None, s1)
  | _ => (Some (mk_msg (s_seqnext s1) now 1 d), set_seqnext s1 (handle_next (s_seqnext s1)))
  end.

Inductive action := ANone | AKeepAlive | ANotifs | ACreated | AExpired.

Definition reset_life s := set_life s (s_maxlife s).
Definition reset_ka s := set_ka s (s_maxka s).
(* start_publishing_timer: `lifetime_counter -= 1` on a u32 *)
Definition start_timer s : option sub :=
  if s_life s <=? 0 then None else Some (set_life s (s_life s - 1)).

(* Subscription::update_state, rows of the Part 4 state table as numbered in the code.
   timer = (tick_reason == TickTimerFired); with timer = false the code's own
   "timer expired and received publish request" panic is unreachable because [sub_tick] passes
   pie = false then. *)
Definition update_state (s : sub) (timer na more rq pie : bool) : option (action * sub) :=
  let recv := negb timer in
  let en := s_enabled s in
  let st := s_state s in
  if ((st =? 2) || (st =? 3) || (st =? 4)) && (s_life s =? 1)
  then Some (AExpired, set_state s 0)                                               (* 27 *)
  else if st =? 1 then Some (ACreated, set_fms (set_state s 2) false)              (* 3 *)
  else if st =? 2 then
    if recv && (negb en || (en && negb more)) then Some (ANone, s)                  (* 4 *)
    else if recv && en && more then Some (ANotifs, set_fms (reset_life s) true)     (* 5 *)
    else if pie && rq && en && na then                                              (* 6 *)
      bind (start_timer (reset_life s)) (fun s' => Some (ANotifs, set_fms s' true))
    else if pie && rq && negb (s_fms s) && (negb en || (en && negb na)) then        (* 7 *)
      bind (start_timer (reset_life s)) (fun s' => Some (AKeepAlive, set_fms s' true))
    else if pie && negb rq && (negb (s_fms s) || (en && na)) then                   (* 8 *)
      bind (start_timer s) (fun s' => Some (ANone, set_state s' 3))
    else if pie && s_fms s && (negb en || (en && negb na)) then                     (* 9 *)
      (* after "fix: subscription with keep-alive count 1 expired although publish requests were
         queued": a queued request resets the lifetime counter first *)
      bind (start_timer (if rq then reset_life s else s)) (fun s' => Some (ANone, set_state (reset_ka s') 4))
    else Some (ANone, s)
  else if st =? 3 then
    if recv && en && (na || more)                                                   (* 10 *)
    then Some (ANotifs, set_fms (set_state (reset_life s) 2) true)
    else if recv && (negb en || (en && negb na && negb more))                       (* 11 *)
    then Some (AKeepAlive, set_fms (set_state (reset_life s) 4) true)
    else if pie then bind (start_timer s) (fun s' => Some (ANone, s'))              (* 12 *)
    else Some (ANone, s)
  else if st =? 4 then
    if recv then Some (ANone, s)                                                    (* 13 *)
    else if pie && en && na && rq then                                              (* 14 *)
      bind (start_timer (reset_life s)) (fun s' => Some (ANotifs, set_state (set_fms s' true) 2))
    else if pie && rq && (s_ka s =? 1) && (negb en || (en && negb na)) then         (* 15 *)
      bind (start_timer (reset_life s)) (fun s' => Some (AKeepAlive, reset_ka s'))
    else if pie && (1 <? s_ka s) && (negb en || (en && negb na)) then               (* 16 *)
      bind (start_timer s) (fun s' => Some (ANone, set_ka s' (s_ka s' - 1)))
    else if pie && negb rq && ((s_ka s =? 1) || ((1 <? s_ka s) && en && na)) then   (* 17 *)
      bind (start_timer s) (fun s' => Some (ANone, set_state s' 3))
    else Some (ANone, s)
  else Some (ANone, s).

(* Subscription::enqueue_notification *)
Definition enqueue (s : sub) (m : msg) : option sub :=
  let expected := if s_lastseq s =? U32MAX then 1 else s_lastseq s + 1 in
  if m_seq m =? expected
  then Some (set_notifs (set_lastseq s (m_seq m)) (s_notifs s ++ [m]))
  else None.

(* a message that takes the next sequence number *)
Definition enqueue_fresh (s : sub) (now kind : Z) : option sub :=
  enqueue (set_seqnext s (handle_next (s_seqnext s))) (mk_msg (s_seqnext s) now kind []).

(* Subscription::handle_state_result (after "fix: notifications were dropped when no publish
   request was queued": action None keeps the notification while publishing is enabled) *)
Definition handle_result (s : sub) (now : Z) (a : action) (notif : option msg) : option sub :=
  match a with
  | ANone => match notif with
             | Some n => if s_enabled s then enqueue s n else Some (set_seqnext s (m_seq n))
             | None => Some s
             end
  | AKeepAlive =>
      let s1 := match notif with Some n => set_seqnext s (m_seq n) | None => s end in
      enqueue_fresh s1 now 0
  | ANotifs => match notif with Some n => enqueue s n | None => Some s end
  | ACreated => match notif with Some _ => None | None => Some s end
  | AExpired =>
      (* after "fix: subscription expiry panicked when an item reported in the same cycle":
         the notification of the expiring cycle is discarded, its sequence number reused *)
      let s1 := match notif with Some n => set_seqnext s (m_seq n) | None => s end in
      enqueue_fresh (set_items s1 []) now 2
  end.

(* Subscription::tick.  timer = TickTimerFired, rq = publishing_req_queued; [hr] is
   handle_state_result (an argument so that the code before a fix can be run, see C21 Legacy) *)
Definition sub_tick_g (hr : sub -> Z -> action -> option msg -> option sub)
           (s : sub) (vars : list Z) (now : Z) (timer rq : bool) : option sub :=
  bind (if timer then
          if s_state s =? 1 then Some (true, s)
          else if s_interval s <=? 0 then None
          else if s_interval s <=? elapsed now (s_lasttime s)
               then Some (true, set_lasttime s now) else Some (false, s)
        else Some (false, s))
  (fun ps =>
    let '(pie, s1) := ps in
    let '(notif, s2) := if (s_state s1 =? 0) || (s_state s1 =? 1) then (None, s1)
                        else tick_items s1 vars now pie in
    let na := negb (is_nil (s_notifs s2)) || is_some notif in
    let more := 1 <? len (s_notifs s2) in
    if na || pie || rq then
      bind (update_state s2 timer na more rq pie)
           (fun r => hr (snd r) now (fst r) notif)
    else Some s2).
Definition sub_tick := sub_tick_g handle_result.

(* ---------------------------------------------------------------------- subscriptions.rs *)

Fixpoint find_sub (id : Z) (subs : list sub) : option sub :=
  match subs with
  | [] => None
  | s :: r => if s_id s =? id then Some s else find_sub id r
  end.
Definition has_sub (id : Z) (subs : list sub) : bool := is_some (find_sub id subs).
Fixpoint remove_sub (id : Z) (subs : list sub) : list sub :=
  match subs with
  | [] => []
  | s :: r => if s_id s =? id then r else s :: remove_sub id r
  end.
Fixpoint replace_sub (s' : sub) (subs : list sub) : list sub :=
  match subs with
  | [] => []
  | s :: r => if s_id s =? s_id s' then s' :: r else s :: replace_sub s' r
  end.

(* `subscription_priority.sort_by(|s1, s2| s2.1.cmp(&s1.1))`: stable, descending priority
   (after "fix: subscriptions were served in ascending priority order") *)
Fixpoint ins_prio (x : Z * Z) (l : list (Z * Z)) : list (Z * Z) :=
  match l with
  | [] => [x]
  | y :: r => if snd x <? snd y then y :: ins_prio x r else x :: y :: r
  end.
Definition prio_order (subs : list sub) : list Z :=
  map fst (fold_right ins_prio [] (map (fun s => (s_id s, s_prio s)) subs)).

(* the inner loop of Subscriptions::tick: pair the oldest queued requests with the oldest
   notifications of one subscription *)
Fixpoint pair_up (id : Z) (reqs : list req) (ns : list msg)
  : list (Z * req * msg) * list req * list msg :=
  match reqs, ns with
  | q :: reqs', n :: ns' =>
      let '(tx, r, m) := pair_up id reqs' ns' in ((id, q, n) :: tx, r, m)
  | _, _ => ([], reqs, ns)
  end.

(* The per-subscription tick [stick] and the service order [order] are arguments of the generic
   definitions (suffix _g) so that the code before a fix can be run through the same machinery
   (Module Legacy of C21 / C27) and so that C27's theorems hold for any subscription behaviour. *)
Section Generic.
Variable order : list sub -> list Z.
Variable stick : sub -> list Z -> Z -> bool -> bool -> option sub.

Fixpoint tick_ids_g (ids : list Z) (subs : list sub) (reqs : list req) (vars : list Z) (now : Z)
         (timer : bool) : option (list sub * list req * list (Z * req * msg)) :=
  match ids with
  | [] => Some (subs, reqs, [])
  | id :: r =>
      bind (find_sub id subs) (fun s =>
      bind (stick s vars now timer (negb (is_nil reqs))) (fun s1 =>
        let '(tx, reqs1, ns) := pair_up id reqs (s_notifs s1) in
        let s2 := set_notifs s1 ns in
        let subs1 := if (s_state s2 =? 0) && is_nil ns      (* ready_to_remove *)
                     then remove_sub id subs else replace_sub s2 subs in
        bind (tick_ids_g r subs1 reqs1 vars now timer) (fun res =>
          let '(subs2, reqs2, tx2) := res in Some (subs2, reqs2, tx ++ tx2))))
  end.
End Generic.

(* retransmission queue: BTreeMap<(u32, u32), NotificationMessage> *)
Definition key_lt (a b : Z * Z) : bool := (fst a <? fst b) || ((fst a =? fst b) && (snd a <? snd b)).
Definition key_eq (a b : Z * Z) : bool := (fst a =? fst b) && (snd a =? snd b).
Fixpoint rt_insert (k : Z * Z) (m : msg) (l : list (Z * Z * msg)) : list (Z * Z * msg) :=
  match l with
  | [] => [(k, m)]
  | (k', m') :: r => if key_eq k k' then (k, m) :: r
                     else if key_lt k k' then (k, m) :: (k', m') :: r
                     else (k', m') :: rt_insert k m r
  end.
Fixpoint rt_find (k : Z * Z) (l : list (Z * Z * msg)) : option msg :=
  match l with
  | [] => None
  | (k', m') :: r => if key_eq k k' then Some m' else rt_find k r
  end.
Fixpoint rt_remove (k : Z * Z) (l : list (Z * Z * msg)) : list (Z * Z * msg) :=
  match l with
  | [] => []
  | (k', m') :: r => if key_eq k k' then r else (k', m') :: rt_remove k r
  end.
Definition rt_keys (l : list (Z * Z * msg)) : list (Z * Z) := map fst l.

(* available_sequence_numbers *)
Definition avail_seqs (id : Z) (l : list (Z * Z * msg)) : list Z :=
  map (fun e => snd (fst e)) (filter (fun e => fst (fst e) =? id) l).

(* the transmission loop: oldest first; more_notifications looks at what is still queued *)
Fixpoint transmit (tx : list (Z * req * msg)) (rt : list (Z * Z * msg))
  : list (Z * Z * msg) * list resp :=
  match tx with
  | [] => (rt, [])
  | (id, q, m) :: r =>
      let more := if existsb (fun e => fst (fst e) =? id) r then 1 else 0 in
      let avail := avail_seqs id rt in
      let rt1 := rt_insert (id, m_seq m) m rt in
      let '(rt2, rs) := transmit r rt1 in
      (rt2, RPub (q_rid q) id more avail (q_results q) m :: rs)
  end.

(* remove_old_unacknowledged_notifications *)
Definition purge (subs : list sub) (rt : list (Z * Z * msg)) : list (Z * Z * msg) :=
  let rt1 := filter (fun e => has_sub (fst (fst e)) subs) rt in
  let maxq := 2 * len subs * 2 in
  if maxq <? len rt1 then skipn (Z.to_nat (len rt1 - maxq)) rt1 else rt1.

Section Generic2.
Variable order : list sub -> list Z.
Variable stick : sub -> list Z -> Z -> bool -> bool -> option sub.

(* Subscriptions::tick *)
Definition sys_tick_g (y : sys) (timer : bool) : option (sys * list resp) :=
  bind (tick_ids_g stick (order (y_subs y)) (y_subs y) (y_reqs y) (y_vars y) (y_now y) timer)
  (fun res =>
    let '(subs, reqs, tx) := res in
    let '(rt, rs) := transmit tx (y_retrans y) in
    Some (set_retrans (set_reqs (set_subs y subs) reqs) (purge subs rt), rs)).
End Generic2.

(* expire_stale_publish_requests *)
Definition req_expired (now : Z) (q : req) : bool :=
  let timeout := if (0 <? q_hint q) && (q_hint q <? PUBLISH_REQUEST_TIMEOUT)
                 then q_hint q else PUBLISH_REQUEST_TIMEOUT in
  timeout <? elapsed now (q_time q).
Definition expire (y : sys) : sys * list resp :=
  (set_reqs y (filter (fun q => negb (req_expired (y_now y) q)) (y_reqs y)),
   map (fun q => RFault (q_rid q) ST_TIMEOUT) (filter (req_expired (y_now y)) (y_reqs y))).

(* process_subscription_acknowledgements *)
Fixpoint process_acks (subs : list sub) (acks : list (Z * Z)) (rt : list (Z * Z * msg))
  : list Z * list (Z * Z * msg) :=
  match acks with
  | [] => ([], rt)
  | k :: r =>
      let '(st, rt1) :=
        if has_sub (fst k) subs then
          if is_some (rt_find k rt) then (ST_GOOD, rt_remove k rt) else (ST_SEQ_UNKNOWN, rt)
        else (ST_SUB_INVALID, rt) in
      let '(sts, rt2) := process_acks subs r rt1 in
      (st :: sts, rt2)
  end.

Section Generic3.
Variable tick : sys -> bool -> option (sys * list resp).

(* async_publish + enqueue_publish_request; result: immediate status, responses *)
Definition publish_g (y : sys) (hint : Z) (acks : list (Z * Z)) : option (Z * sys * list resp) :=
  let rid := y_nextrid y in
  let y := set_nextrid y (rid + 1) in
  if is_nil (y_subs y) then Some (ST_NO_SUB, y, [])
  else
    let maxreq := len (y_subs y) * 2 in
    bind (if maxreq <=? len (y_reqs y) then tick y false else Some (y, []))
    (fun r1 =>
      let '(y1, rs1) := r1 in
      if maxreq <=? len (y_reqs y1) then Some (ST_TOO_MANY, y1, rs1)
      else
        let '(results, rt) := process_acks (y_subs y1) acks (y_retrans y1) in
        let y2 := set_reqs (set_retrans y1 rt) (y_reqs y1 ++ [mk_req rid (y_now y1) hint results]) in
        bind (tick y2 false) (fun r2 => Some (ST_GOOD, fst r2, rs1 ++ snd r2))).
End Generic3.

(* MonitoredItem::sanitize_sampling_interval / sanitize_queue_size for integral requests and the
   default limits (min sampling 100 ms, max queue 10) *)
Definition sanitize_samp (s : Z) : Z :=
  if s <? 0 then -1 else if (s =? 0) || (s <? MIN_SAMPLING_MS) then MIN_SAMPLING_MS else s.
Definition sanitize_qsize (q : Z) : Z :=
  if (q =? 0) || (q =? 1) then 1 else if MAX_QUEUE <? q then MAX_QUEUE else q.

(* MonitoredItem::new for a Value attribute without filter *)
Definition new_item (id var mode handle samp qsize : Z) (discard : bool) (now : Z) : item :=
  mk_item id var (if mode =? 0 then 0 else if mode =? 1 then 1 else 2)
          handle (sanitize_samp samp) discard (sanitize_qsize qsize) [] now None.

(* ------------------------------------------------------------------------ operations *)
Inductive op :=
| OWrite (v x : Z)
| OTick (dt : Z)
| OPublish (dt hint : Z) (acks : list (Z * Z))
| OCreateSub (prio interval kac life : Z) (enabled : bool)
| ODeleteSub (sub : Z)
| OCreateItem (sub var mode samp qsize : Z) (discard_oldest : bool)
| ODeleteItem (sub item : Z)
| ORepublish (sub seq : Z)
| OSetPublishing (sub : Z) (enabled : bool).

Record case := mk_case { c_nvars : Z; c_ops : list op }.

(* observation after every operation *)
Record snap := mk_snap {
  sn_subs : list (Z * Z * Z);                  (* id, state, pending notifications *)
  sn_keys : list (Z * Z);                      (* retransmission queue keys *)
  sn_reqs : list Z;                            (* queued request ids, oldest first *)
  sn_pdata : list Z }.                         (* per subscription (same order): how many of the
                                                  pending notifications are data changes *)
Record opres := mk_opres {
  o_status : Z; o_msg : option msg; o_resps : list resp; o_snap : snap }.

Definition snapshot (y : sys) : snap :=
  mk_snap (map (fun s => (s_id s, s_state s, len (s_notifs s))) (y_subs y))
          (rt_keys (y_retrans y))
          (map q_rid (y_reqs y))
          (map (fun s => len (filter (fun m => m_kind m =? 1) (s_notifs s))) (y_subs y)).

Fixpoint set_nth {A} (n : nat) (x : A) (l : list A) : list A :=
  match l, n with
  | [], _ => []
  | _ :: r, O => x :: r
  | a :: r, S n' => a :: set_nth n' x r
  end.

Section Generic4.
Variable tick : sys -> bool -> option (sys * list resp).

(* one operation; opix is the index of the operation in the case (the client handle of an item
   created by it) *)
Definition step_g (y : sys) (opix : Z) (o : op) : option (sys * Z * option msg * list resp) :=
  match o with
  | OWrite v x =>
      if (v <? 0) || (len (y_vars y) <=? v) then Some (y, ST_NODE_UNKNOWN, None, [])
      else Some (set_vars y (set_nth (Z.to_nat v) x (y_vars y)), 0, None, [])
  | OTick dt =>
      let y0 := set_now y (y_now y + dt) in
      let '(y1, rs1) := expire y0 in
      bind (tick y1 true) (fun r => Some (fst r, 0, None, rs1 ++ snd r))
  | OPublish dt hint acks =>
      let y0 := set_now y (y_now y + dt) in
      bind (publish_g tick y0 hint acks) (fun r =>
        let '(st, y1, rs) := r in Some (y1, st, None, rs))
  | OCreateSub prio interval kac life enabled =>
      let id := y_nextsub y in
      let s := mk_sub id interval life kac prio [] 1 life kac false enabled 1 0 1 (y_now y) [] in
      Some (set_nextsub (set_subs y (y_subs y ++ [s])) (id + 1), id, None, [])
  | ODeleteSub id =>
      if has_sub id (y_subs y) then Some (set_subs y (remove_sub id (y_subs y)), ST_GOOD, None, [])
      else Some (y, ST_SUB_INVALID, None, [])
  | OCreateItem id var mode samp qsize discard =>
      match find_sub id (y_subs y) with
      | None => Some (y, - (10 + ST_SUB_INVALID), None, [])
      | Some s =>
          let s := reset_life s in
          if (var <? 0) || (len (y_vars y) <=? var)
          then Some (set_subs y (replace_sub s (y_subs y)), - (10 + ST_NODE_UNKNOWN), None, [])
          else
            let it := new_item (s_nextitem s) var mode opix samp qsize discard (y_now y) in
            let s1 := set_nextitem (set_items s (s_items s ++ [it])) (s_nextitem s + 1) in
            Some (set_subs y (replace_sub s1 (y_subs y)), s_nextitem s, None, [])
      end
  | ODeleteItem id item =>
      match find_sub id (y_subs y) with
      | None => Some (y, ST_SUB_INVALID, None, [])
      | Some s =>
          let s := reset_life s in
          if existsb (fun it => i_id it =? item) (s_items s)
          then Some (set_subs y (replace_sub (set_items s (filter (fun it => negb (i_id it =? item)) (s_items s))) (y_subs y)),
                     ST_GOOD, None, [])
          else Some (set_subs y (replace_sub s (y_subs y)), ST_ITEM_INVALID, None, [])
      end
  | ORepublish id seq =>
      match find_sub id (y_subs y) with
      | None => Some (y, ST_SUB_INVALID, None, [])
      | Some s =>
          match rt_find (id, seq) (y_retrans y) with
          | Some m => Some (set_subs y (replace_sub (reset_life s) (y_subs y)), ST_GOOD, Some m, [])
          | None => Some (y, ST_MSG_NOT_AVAILABLE, None, [])
          end
      end
  | OSetPublishing id enabled =>
      match find_sub id (y_subs y) with
      | None => Some (y, ST_SUB_INVALID, None, [])
      | Some s => Some (set_subs y (replace_sub (reset_life (set_enabled s enabled)) (y_subs y)), ST_GOOD, None, [])
      end
  end.

(* the structured trace: one result per operation, and whether the run ended in a panic *)
Fixpoint run_ops_g (y : sys) (opix : Z) (ops : list op) : list opres * bool :=
  match ops with
  | [] => ([], false)
  | o :: r =>
      match step_g y opix o with
      | None => ([], true)
      | Some (y1, st, m, rs) =>
          let '(tr, p) := run_ops_g y1 (opix + 1) r in
          (mk_opres st m rs (snapshot y1) :: tr, p)
      end
  end.
End Generic4.

Definition init (c : case) : sys :=
  mk_sys 0 (repeat 0 (Z.to_nat (c_nvars c))) [] [] [] 1 1.

(* the code as it is *)
Definition tick_ids := tick_ids_g sub_tick.
Definition sys_tick := sys_tick_g prio_order sub_tick.
Definition publish := publish_g sys_tick.
Definition step := step_g sys_tick.
Definition run_ops := run_ops_g sys_tick.
Definition run_ev (c : case) : list opres * bool := run_ops (init c) 0 (c_ops c).

(* ------------------------------------------------------------------ canonical encoding *)
Definition enc_list {A} (f : A -> list Z) (l : list A) : list Z := len l :: flat_map f l.
Definition enc_z (x : Z) : list Z := [x].
Definition enc_datum (d : datum) : list Z := [fst (fst d); snd (fst d); snd d].
Definition enc_msg (m : msg) : list Z :=
  m_seq m :: m_time m :: m_kind m :: enc_list enc_datum (m_data m).
Definition enc_resp (r : resp) : list Z :=
  match r with
  | RPub rid sub more avail results m =>
      1 :: rid :: sub :: more :: enc_list enc_z avail ++ enc_list enc_z results ++ enc_msg m
  | RFault rid st => [2; rid; st]
  end.
Definition enc_sub3 (t : Z * Z * Z) : list Z := [fst (fst t); snd (fst t); snd t].
Definition enc_key (k : Z * Z) : list Z := [fst k; snd k].
Definition enc_snap (s : snap) : list Z :=
  enc_list enc_sub3 (sn_subs s) ++ enc_list enc_key (sn_keys s) ++ enc_list enc_z (sn_reqs s) ++
  enc_list enc_z (sn_pdata s).
Definition enc_opres (o : opres) : list Z :=
  7 :: o_status o ::
  (match o_msg o with None => [0] | Some m => 1 :: enc_msg m end) ++
  enc_list enc_resp (o_resps o) ++ enc_snap (o_snap o).
Definition enc_trace (t : list opres * bool) : list Z :=
  flat_map enc_opres (fst t) ++ (if snd t then [-2] else []).

Definition run (c : case) : list Z := enc_trace (run_ev c).

(* ------------------------------------------------------------------ decoding (for oracles) *)
Definition parser (A : Type) := list Z -> option (A * list Z).

Fixpoint p_rep {A} (n : nat) (p : parser A) : parser (list A) := fun l =>
  match n with
  | O => Some ([], l)
  | S n' => match p l with
            | None => None
            | Some (a, l1) => match p_rep n' p l1 with
                              | None => None
                              | Some (r, l2) => Some (a :: r, l2)
                              end
            end
  end.
Definition p_list {A} (p : parser A) : parser (list A) := fun l =>
  match l with
  | n :: r => if n <? 0 then None else p_rep (Z.to_nat n) p r
  | [] => None
  end.
Definition p_z : parser Z := fun l => match l with x :: r => Some (x, r) | [] => None end.
Definition p_datum : parser datum := fun l =>
  match l with a :: b :: c :: r => Some ((a, b, c), r) | _ => None end.
Definition p_key : parser (Z * Z) := fun l =>
  match l with a :: b :: r => Some ((a, b), r) | _ => None end.
Definition p_msg : parser msg := fun l =>
  match l with
  | s :: t :: k :: r => match p_list p_datum r with
                        | Some (d, r') => Some (mk_msg s t k d, r')
                        | None => None
                        end
  | _ => None
  end.
Definition p_resp : parser resp := fun l =>
  match l with
  | 1 :: rid :: sub :: more :: r =>
      match p_list p_z r with
      | Some (avail, r1) =>
          match p_list p_z r1 with
          | Some (results, r2) =>
              match p_msg r2 with
              | Some (m, r3) => Some (RPub rid sub more avail results m, r3)
              | None => None
              end
          | None => None
          end
      | None => None
      end
  | 2 :: rid :: st :: r => Some (RFault rid st, r)
  | _ => None
  end.
Definition p_snap : parser snap := fun l =>
  match p_list p_datum l with
  | Some (subs, r1) =>
      match p_list p_key r1 with
      | Some (keys, r2) =>
          match p_list p_z r2 with
          | Some (reqs, r3) =>
              match p_list p_z r3 with
              | Some (pd, r4) => Some (mk_snap subs keys reqs pd, r4)
              | None => None
              end
          | None => None
          end
      | None => None
      end
  | None => None
  end.
Definition p_opres : parser opres := fun l =>
  match l with
  | 7 :: st :: r =>
      match (match r with
             | 0 :: r' => Some (None, r')
             | 1 :: r' => match p_msg r' with Some (m, r'') => Some (Some m, r'') | None => None end
             | _ => None
             end) with
      | Some (om, r1) =>
          match p_list p_resp r1 with
          | Some (rs, r2) =>
              match p_snap r2 with
              | Some (sn, r3) => Some (mk_opres st om rs sn, r3)
              | None => None
              end
          | None => None
          end
      | None => None
      end
  | _ => None
  end.

(* the whole trace; fuel = length of the input (every result consumes at least one number) *)
Fixpoint p_trace (fuel : nat) (l : list Z) : option (list opres * bool) :=
  match l with
  | [] => Some ([], false)
  | [-2] => Some ([], true)
  | _ => match fuel with
         | O => None
         | S f => match p_opres l with
                  | Some (o, r) => match p_trace f r with
                                   | Some (tr, p) => Some (o :: tr, p)
                                   | None => None
                                   end
                  | None => None
                  end
         end
  end.
Definition decode (l : list Z) : option (list opres * bool) := p_trace (length l) l.
