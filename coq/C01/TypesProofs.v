(* The codec law for every type descriptor: built-ins, Variant, DataValue, arrays, field lists
   (generated structures), enumerations, flag sets. *)
From Coq Require Import List ZArith Bool Lia.
Import ListNotations.
From OV Require Import C01.Codec C01.CodecProofs C01.Builtins C01.BuiltinsProofs C01.VariantProofs C01.Types.
Open Scope Z_scope.

Lemma ty_ind' (P : ty -> Prop)
  (HS : forall k, P (TS k)) (HV : P TVar) (HD : P TDV) (HA : forall t, P t -> P (TArr t))
  (HT : forall fs, Forall P fs -> P (TStruct fs))
  (HE : forall w vals, P (TEnum w vals)) (HF : forall w b, P (TFlags w b))
  (HG : forall w vals dflt, P (TEnumD w vals dflt)) :
  forall t, P t.
Proof.
  fix F 1. intros [k| | |t|fs|w vals|w b|w vals dflt].
  - apply HS. - exact HV. - exact HD. - apply HA, F.
  - apply HT. induction fs as [|f fs IH]; constructor; [apply F|exact IH].
  - apply HE. - apply HF. - apply HG.
Qed.

Definition ty_law (t : ty) : Prop := codec_ok (ty_codec t).

Lemma enum_law w z rest : (0 < w)%nat -> (w = 1%nat -> in_u 1 z) -> (w <> 1%nat -> in_i w z) ->
  run (read_enum w) (enc_enum w z ++ rest) = Ok (z, rest).
Proof.
  intros Hw H1 Hn. unfold read_enum, enc_enum.
  destruct w as [|[|w]]; [lia| |].
  - specialize (H1 eq_refl). unfold enc_i. replace (wrap 1 z) with z.
    + apply run_read_u. exact H1.
    + unfold wrap. unfold in_u in H1. cbn in *. rewrite Z.mod_small; lia.
  - apply run_read_i; [lia|]. apply Hn. discriminate.
Qed.

Lemma existsb_in z vals : In z vals -> existsb (Z.eqb z) vals = true.
Proof. intros H. apply existsb_exists. exists z. split; [exact H|apply Z.eqb_refl]. Qed.

(* field lists *)
Fixpoint enc_go (fs : list ty) (vs : list uval) : bytes :=
  match fs, vs with f :: fs', x :: vs' => enc_ty f x ++ enc_go fs' vs' | _, _ => [] end.
Fixpoint len_go (fs : list ty) (vs : list uval) : Z :=
  match fs, vs with f :: fs', x :: vs' => len_ty f x + len_go fs' vs' | _, _ => 0 end.
Fixpoint wf_go (fs : list ty) (vs : list uval) : Prop :=
  match fs, vs with
  | [], [] => True
  | f :: fs', x :: vs' => wf_ty f x /\ wf_go fs' vs'
  | _, _ => False
  end.
Fixpoint chk_go (o : opts) (d : nat) (fs : list ty) (vs : list uval) : option err :=
  match fs, vs with f :: fs', x :: vs' => seq_chk (chk_ty f o d x) (chk_go o d fs' vs') | _, _ => None end.
Fixpoint norm_go (fs : list ty) (vs : list uval) : list uval :=
  match fs, vs with f :: fs', x :: vs' => norm_ty f x :: norm_go fs' vs' | _, _ => [] end.
Fixpoint dec_go (o : opts) (d : nat) (fs : list ty) : M (list uval) :=
  match fs with
  | [] => ret []
  | f :: fs' => x <- dec_ty f o d ;; xs <- dec_go o d fs' ;; ret (x :: xs)
  end.

Lemma struct_unfold fs vs o d :
  enc_ty (TStruct fs) (UT vs) = enc_go fs vs /\ len_ty (TStruct fs) (UT vs) = len_go fs vs /\
  (wf_ty (TStruct fs) (UT vs) = wf_go fs vs) /\ chk_ty (TStruct fs) o d (UT vs) = chk_go o d fs vs /\
  norm_ty (TStruct fs) (UT vs) = UT (norm_go fs vs) /\
  dec_ty (TStruct fs) o d = (vs <- dec_go o d fs ;; ret (UT vs)).
Proof.
  split; [|split; [|split; [|split; [|split]]]].
  - first [reflexivity | revert vs; induction fs as [|f fs IH]; intros [|x vs]; cbn [enc_go]; try reflexivity;
    rewrite <- (IH vs); reflexivity].
  - first [reflexivity | revert vs; induction fs as [|f fs IH]; intros [|x vs]; cbn [len_go]; try reflexivity;
    rewrite <- (IH vs); reflexivity].
  - first [reflexivity | revert vs; induction fs as [|f fs IH]; intros [|x vs]; cbn [wf_go]; try reflexivity;
    rewrite <- (IH vs); reflexivity].
  - revert vs. induction fs as [|f fs IH]; intros [|x vs]; try reflexivity.
    change (chk_go o d (f :: fs) (x :: vs)) with (seq_chk (chk_ty f o d x) (chk_go o d fs vs)).
    rewrite <- (IH vs). reflexivity.
  - revert vs. induction fs as [|f fs IH]; intros [|x vs]; cbn [norm_go]; try reflexivity.
  - enough (E : forall fs, (fix go (fs : list ty) : M (list uval) :=
               match fs with
               | [] => ret []
               | f :: fs' => x <- dec_ty f o d ;; xs <- go fs' ;; ret (x :: xs)
               end) fs = dec_go o d fs).
    { change (dec_ty (TStruct fs) o d) with
        (vs <- (fix go (fs : list ty) : M (list uval) :=
               match fs with
               | [] => ret []
               | f :: fs' => x <- dec_ty f o d ;; xs <- go fs' ;; ret (x :: xs)
               end) fs ;; ret (UT vs)).
      rewrite E. reflexivity. }
    clear. induction fs as [|f fs IH]; [reflexivity|].
    change (dec_go o d (f :: fs)) with (x <- dec_ty f o d ;; xs <- dec_go o d fs ;; ret (x :: xs)).
    rewrite <- IH. reflexivity.
Qed.

Lemma fields_law fs : Forall ty_law fs -> forall vs, wf_go fs vs ->
  len_go fs vs = Z.of_nat (length (enc_go fs vs)) /\
  Forall is_byte (enc_go fs vs) /\
  forall o d rest, offset_ns o = 0 ->
    run (dec_go o d fs) (enc_go fs vs ++ rest) =
    match chk_go o d fs vs with None => Ok (norm_go fs vs, rest) | Some e => Err e end.
Proof.
  induction 1 as [|f fs' Hf Hfs IHfs]; intros vs Hvs.
  - destruct vs; [|contradiction]. split; [reflexivity|]. split; [constructor|]. intros. reflexivity.
  - destruct vs as [|x vs]; [contradiction|]. destruct Hvs as [Hx Hvs].
    destruct (Hf x Hx) as (L1 & B1 & D1). destruct (IHfs vs Hvs) as (L2 & B2 & D2).
    unfold ty_codec in L1, B1, D1. cbn [enc dec blen wf chk norm] in L1, B1, D1.
    cbn [enc_go len_go chk_go norm_go dec_go].
    split; [|split].
    + rewrite app_length, Nat2Z.inj_add. lia.
    + apply Forall_app. split; assumption.
    + intros o d rest Ho. rewrite <- app_assoc, run_bind, D1 by exact Ho.
      destruct (chk_ty f o d x); [reflexivity|]. cbn [seq_chk].
      rewrite run_bind, D2 by exact Ho. destruct (chk_go o d fs' vs); reflexivity.
Qed.

Theorem ty_codec_ok : forall t, codec_ok (ty_codec t).
Proof.
  induction t as [k| | |t IH|fs IH|w vals|w b|w vals dflt] using ty_ind'; intros v Hv;
    unfold ty_codec in *; cbn [enc dec blen wf chk norm] in *.
  - destruct v as [s| | | | |]; try contradiction. cbn [wf_ty] in Hv.
    destruct (scalar_codec_ok k s Hv) as (L & B & D). cbn [scalar_codec enc dec blen wf chk norm] in *.
    split; [exact L|]. split; [exact B|]. intros o d rest Ho. cbn [dec_ty enc_ty chk_ty norm_ty].
    rewrite run_bind, D by exact Ho. destruct (chk_scalar o d s); reflexivity.
  - destruct v as [|x| | | |]; try contradiction. cbn [wf_ty] in Hv.
    destruct (variant_codec_ok x Hv) as (L & B & D). cbn [variant_codec enc dec blen wf chk norm] in *.
    split; [exact L|]. split; [exact B|]. intros o d rest Ho. cbn [dec_ty enc_ty chk_ty norm_ty].
    rewrite run_bind, D by exact Ho. destruct (chk_variant o d x); reflexivity.
  - destruct v as [| |ov r| | |]; try contradiction. cbn [wf_ty] in Hv.
    destruct (dv_codec_ok (ov, r) Hv) as (L & B & D). cbn [dv_codec enc dec blen wf chk norm fst snd] in *.
    split; [exact L|]. split; [exact B|]. intros o d rest Ho. cbn [dec_ty enc_ty chk_ty norm_ty].
    rewrite run_bind, D by exact Ho. unfold chk_dv, norm_dv. cbn [fst snd].
    destruct (chk_variant o d (VDV ov r)); reflexivity.
  - destruct v as [| | |xs| |]; try contradiction. cbn [wf_ty] in Hv.
    destruct (c_array_ok (esize t) (ty_codec t) IH xs Hv) as (L & B & D).
    cbn [c_array ty_codec enc dec blen wf chk norm] in *.
    split; [exact L|]. split; [exact B|]. intros o d rest Ho. cbn [dec_ty enc_ty chk_ty norm_ty].
    rewrite run_bind, D by exact Ho. destruct (chk_array o (chk_ty t o d) xs); reflexivity.
  - destruct v as [| | | |vs|]; try contradiction.
    destruct (struct_unfold fs vs (mk_opts 0 0 0 0 0 0) O) as (E1 & E2 & E3 & _).
    rewrite E3 in Hv. rewrite E1, E2.
    destruct (fields_law fs IH vs Hv) as (L & B & D).
    split; [exact L|]. split; [exact B|]. intros o d rest Ho.
    destruct (struct_unfold fs vs o d) as (_ & _ & _ & E4 & E5 & E6). rewrite E4, E5, E6.
    rewrite run_bind, D by exact Ho. destruct (chk_go o d fs vs); reflexivity.
  - destruct v as [| | | | |z]; try contradiction. cbn [wf_ty] in Hv. destruct Hv as (Hin & Hw & H1 & Hn).
    cbn [enc_ty len_ty dec_ty chk_ty norm_ty]. unfold enc_enum.
    split; [rewrite enc_i_length; reflexivity|]. split; [apply enc_i_bytes|].
    intros o d rest Ho. rewrite run_bind. fold (enc_enum w z). rewrite enum_law by assumption.
    rewrite existsb_in by exact Hin. reflexivity.
  - destruct v as [| | | | |z]; try contradiction. cbn [wf_ty] in Hv. destruct Hv as (Hw & Hz & Hs).
    cbn [enc_ty len_ty dec_ty chk_ty norm_ty]. unfold enc_enum.
    split; [rewrite enc_i_length; reflexivity|]. split; [apply enc_i_bytes|].
    intros o d rest Ho. rewrite run_bind, run_read_i by assumption. rewrite run_ret, Hs. reflexivity.
  - destruct v as [| | | | |z]; try contradiction. cbn [wf_ty] in Hv. destruct Hv as (Hin & Hw & H1 & Hn).
    cbn [enc_ty len_ty dec_ty chk_ty norm_ty]. unfold enc_enum.
    split; [rewrite enc_i_length; reflexivity|]. split; [apply enc_i_bytes|].
    intros o d rest Ho. rewrite run_bind. fold (enc_enum w z). rewrite enum_law by assumption.
    rewrite existsb_in by exact Hin. reflexivity.
Qed.
