(* C02 — decoding arbitrary bytes never panics, overflows the stack or over-allocates:
   correspondence interface.

   A case is a decoder (by number), decoding options and input bytes; deeply nested inputs are
   given in compressed form ([CNest]: a unit repeated n times, then a tail).  The output carries
   the outcome, the bytes consumed, the print of the decoded value, and the two instrumented
   quantities: the number of depth locks held at the deepest point and the largest single
   allocation requested (only when it is at least ALLOC_FLOOR bytes, so that incidental small
   allocations of the implementation do not matter).  No proofs here. *)
From Coq Require Import List ZArith Bool Lia.
Import ListNotations.
From OV Require Export C01.Codec C01.Builtins C01.Types.
From OV Require Import C01.Model.
Open Scope Z_scope.

Inductive case :=
| CBytes (dk : Z) (o : opts) (bs : bytes)
| CNest (dk : Z) (o : opts) (unit : bytes) (n : Z) (tail : bytes)
| CSizes.

(* decoders: 1..25 the built-in with that encoding mask (23 DataValue, 24 Variant);
   30+k read_array of built-in k; 70.. the transport headers; 76 the framing layer (TcpCodec::decode) *)
Inductive decoder := DTy (t : ty) | DMsgHeader | DHello | DAck | DErr | DChunkHeader | DChunk | DFrame.
Definition decoder_of (dk : Z) : decoder :=
  if dk =? 23 then DTy TDV
  else if dk =? 24 then DTy TVar
  else if (1 <=? dk) && (dk <=? 25) then DTy (TS dk)
  else if dk =? 53 then DTy (TArr TDV)
  else if dk =? 54 then DTy (TArr TVar)
  else if (31 <=? dk) && (dk <=? 55) then DTy (TArr (TS (dk - 30)))
  else if dk =? 70 then DMsgHeader
  else if dk =? 71 then DHello
  else if dk =? 72 then DAck
  else if dk =? 73 then DErr
  else if dk =? 74 then DChunkHeader
  else if dk =? 75 then DChunk
  else if dk =? 76 then DFrame
  else if 100 <=? dk then DTy (nth (Z.to_nat (dk - 100)) all_structs (TS 1))   (* generated structures *)
  else DTy (TS 1).

(* TcpCodec::decode (the framing layer) on a receive buffer that holds the input.  [1] stands for
   Ok(None): more bytes are needed and nothing is consumed -- in particular nothing may be reserved
   for a frame whose declared size the limits do not allow; 0 :: print for a frame that was split
   off and decoded.  The size check precedes the completeness check. *)
Definition dec_frame (o : opts) : M (list Z) := fun bs =>
  if zlen bs <=? 8 then (Ok ([1], bs), st0)
  else
    match dec_msg_header (firstn 8 bs) with
    | (Ok (h, _), s) =>
        let mt := nth 0 h 0 in
        let size := nth 1 h 0 in
        if (0 <? max_msg o) && (max_msg o <? size) then (Err ELimit, s)
        else if size <=? zlen bs then
          let n := Z.to_nat size in
          let sub : M (list Z) :=
            if mt =? 1 then dec_hello o
            else if mt =? 2 then dec_ack
            else if mt =? 4 then dec_errmsg o
            else if mt =? 3 then (data <- dec_chunk o ;; ret (zlen data :: data))
            else fail EInvalid in
          match sub (firstn n bs) with
          | (Ok (p, _), s2) => (Ok (0 :: p, skipn n bs), st_max s s2)
          | (Err e, s2) => (Err e, st_max s s2)
          | (Panic k, s2) => (Panic k, st_max s s2)
          end
        else (Ok ([1], bs), s)
    | (Err e, s) => (Err e, s)
    | (Panic k, s) => (Panic k, s)
    end.

(* every decoder as M (list Z): the print of the decoded value *)
Definition decode (dk : Z) (o : opts) : M (list Z) :=
  match decoder_of dk with
  | DTy t => v <- dec_ty t o (depth0 o) ;; ret (pr t v)
  | DMsgHeader => dec_msg_header
  | DHello => dec_hello o
  | DAck => dec_ack
  | DErr => dec_errmsg o
  | DChunkHeader => dec_chunk_header
  | DChunk => data <- dec_chunk o ;; ret (zlen data :: data)
  | DFrame => dec_frame o
  end.

Definition ALLOC_FLOOR : Z := 1024.
Definition floor_alloc (a : Z) : Z := if ALLOC_FLOOR <=? a then a else 0.

Definition case_bytes (c : case) : bytes :=
  match c with
  | CBytes _ _ bs => bs
  | CNest _ _ unit n tail => concat (repeat unit (Z.to_nat n)) ++ tail
  | CSizes => []
  end.

Definition sizes : list Z :=
  map esize_scalar [1; 2; 3; 4; 5; 6; 7; 8; 9; 10; 11; 12; 13; 14; 15; 16; 17; 18; 19; 20; 21; 22; 25]
  ++ [DATAVALUE_SIZE; VARIANT_SIZE].

(* allocation sizes of arrays of generated structures are not modelled (size_of of the structs) *)
Definition tracks_alloc (dk : Z) : bool := dk <? 100.

(* [0; consumed; depth; alloc; len print] ++ print | [-1; depth; alloc] | [-2] panic
   ([-3]: the child process died, only the implementation can produce it) *)
Definition run (c : case) : list Z :=
  match c with
  | CSizes => sizes
  | CBytes dk o _ | CNest dk o _ _ _ =>
      let bs := case_bytes c in
      match decode dk o bs with
      | (Ok (p, rest), s) =>
          [0; zlen bs - zlen rest; st_depth s; if tracks_alloc dk then floor_alloc (st_alloc s) else 0; zlen p] ++ p
      | (Err _, s) => [-1; st_depth s; if tracks_alloc dk then floor_alloc (st_alloc s) else 0]
      | (Panic _, _) => [-2]
      end
  end.

(* the largest allocation the limits allow a decoder to request *)
Definition MAX_ESIZE : Z := 72.
Definition alloc_bound (o : opts) : Z :=
  Z.max (Z.max (max_str o) (max_bstr o))
        (Z.max (max_arr o * MAX_ESIZE) (if 0 <? max_msg o then max_msg o else 2 ^ 32 - 1)).

(* The property: an outcome (value or error), never a panic or a dead process; nesting at most
   max_depth; no allocation request above what the limits allow. *)
Definition oracle (c : case) (out : list Z) : bool :=
  match c with
  | CSizes => true
  | CBytes dk o _ | CNest dk o _ _ _ =>
      match out with
      | 0 :: consumed :: depth :: al :: _ =>
          (0 <=? consumed) && (consumed <=? zlen (case_bytes c))
          && (depth <=? max_depth o) && (al <=? alloc_bound o)
      | [-1; depth; al] => (depth <=? max_depth o) && (al <=? alloc_bound o)
      | _ => false
      end
  end.

Definition known (c : case) : Z := 0.

(* client_offset within the difference of two representable DateTimes *)
Definition valid_opts (o : opts) : Prop :=
  0 <= max_str o /\ 0 <= max_bstr o /\ 0 <= max_arr o /\ 0 <= max_msg o /\ 0 <= max_depth o
  /\ - 2 ^ 64 * 100 <= offset_ns o <= 2 ^ 64 * 100.
Definition valid (c : case) : Prop :=
  match c with
  | CBytes dk o bs => valid_opts o /\ Forall is_byte bs
  | CNest dk o u _ tail => valid_opts o /\ Forall is_byte u /\ Forall is_byte tail
  | CSizes => True
  end.
