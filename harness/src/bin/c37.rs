//! C37: reconnect back-off (client/retry.rs) through the `verif_backoff` hook.
#[path = "../util.rs"]
mod util;
use util::*;
use opcua::client::retry::SessionRetryPolicy;
use std::time::Duration;

pub struct Case { max: Duration, limit: Option<u32>, init: Duration, count0: u32, n: u32 }
pub struct P;

fn ns(d: Duration) -> i128 { d.as_secs() as i128 * 1_000_000_000 + d.subsec_nanos() as i128 }
fn dur(r: &mut Rng) -> Duration {
    match r.below(8) {
        0 => Duration::ZERO,
        1 => Duration::MAX,
        2 => Duration::new(u64::MAX / 2, r.below(1_000_000_000) as u32), // around MAX/2
        3 => Duration::new(u64::MAX / 2 + r.below(3), 999_999_999 - r.below(3) as u32),
        4 => Duration::from_millis(r.below(100_000)),
        5 => Duration::new(r.next() >> r.below(64), r.below(1_000_000_000) as u32),
        6 => Duration::from_nanos(r.below(1000)),
        _ => Duration::from_secs(r.below(3600)),
    }
}

impl Property for P {
    type Case = Case;
    fn fixed(_tier: &str) -> Vec<Case> {
        let ms = Duration::from_millis;
        vec![
            Case { max: ms(30000), limit: Some(10), init: ms(500), count0: 0, n: 12 },
            Case { max: ms(3000), limit: None, init: ms(500), count0: 0, n: 20 },
            Case { max: ms(30000), limit: Some(0), init: ms(500), count0: 0, n: 3 },
            // initial delay above Duration::MAX / 2: `current_sleep * 2` overflowed before the fix
            Case { max: Duration::MAX, limit: Some(3), init: Duration::new(u64::MAX / 2 + 1, 0), count0: 0, n: 4 },
            Case { max: Duration::MAX, limit: None, init: Duration::MAX, count0: 0, n: 4 },
            Case { max: Duration::from_secs(5), limit: None, init: Duration::MAX, count0: 0, n: 4 },
            // unlimited policy after u32::MAX delays: `retry_count += 1` overflowed before the fix
            Case { max: ms(1000), limit: None, init: ms(10), count0: u32::MAX, n: 3 },
            Case { max: ms(1000), limit: None, init: ms(10), count0: u32::MAX - 1, n: 4 },
            Case { max: ms(1000), limit: Some(u32::MAX), init: ms(10), count0: u32::MAX - 2, n: 5 },
            Case { max: Duration::ZERO, limit: Some(4), init: Duration::ZERO, count0: 0, n: 6 },
            Case { max: Duration::ZERO, limit: Some(4), init: ms(7), count0: 0, n: 6 },
        ]
    }
    fn gen(r: &mut Rng) -> Case {
        let limit = match r.below(5) { 0 => None, 1 => Some(r.below(4) as u32), 2 => Some(u32::MAX - r.below(3) as u32), _ => Some(r.below(40) as u32) };
        let count0 = match r.below(6) {
            0 => u32::MAX - r.below(4) as u32,
            1 => limit.map(|l| l.saturating_sub(r.below(3) as u32)).unwrap_or(0),
            _ => 0,
        };
        Case { max: dur(r), limit, init: dur(r), count0, n: 1 + r.below(70) as u32 }
    }
    fn exec(c: &Case) -> Out {
        let policy = SessionRetryPolicy::new(c.max, c.limit, c.init);
        let mut it = policy.verif_backoff(c.count0);
        let mut out = Vec::new();
        for _ in 0..c.n {
            match guarded(|| it.next()) {
                Ok(Some(d)) => out.push(ns(d)),
                Ok(None) => out.push(-1),
                Err(_) => { out.push(-2); break; }
            }
        }
        let tag = format!("{}{}{}",
            if c.limit.is_none() { "unlimited" } else { "limited" },
            if ns(c.init) * 2 > ns(Duration::MAX) { "-hugeinit" } else if c.init > c.max { "-init>max" } else { "" },
            if c.count0 > u32::MAX - 4 { "-countnearmax" } else { "" });
        let term = format!("(mk_case {} {} {} {} {})", z(ns(c.max)), coq_opt(&c.limit, |l| z(*l as i128)), z(ns(c.init)), z(c.count0 as i128), z(c.n as i128));
        Out { tag, term, out }
    }
}
fn main() { run_main::<P>() }
