(* C07 — any message survives chunking and channel security unchanged.
   Correspondence interface: a case describes a sender/receiver pair of channels and a message;
   [run] chunks the message, secures every chunk, passes it through the receiver and reassembles,
   using the shared channel model (Chan.v) with executable stand-ins for AES / RSA (their bytes are
   not observable; only sizes, structure and accept / reject are compared) and, when the case asks
   for byte-exact comparison, the Gallina HMAC-SHA1 / HMAC-SHA256 of C13. *)
From Coq Require Import List ZArith NArith Bool.
Import ListNotations.
From OV Require Export C07.Chan C07.Prims.
Open Scope Z_scope.

(* key pair ids of the stand-ins carry the key size: id = 16 * size + index *)
Definition key_size (k : Z) : Z := k / 16.
Definition toy_rsa_enc (k : Z) (p : policy) (blk : bytes) : bytes :=
  let n := len blk in
  [n mod 256; n / 256; k mod 16] ++ blk ++ rep (key_size k - 3 - n) 0.
Definition toy_rsa_dec (k : Z) (p : policy) (c : bytes) : option bytes :=
  match c with
  | n0 :: n1 :: kt :: rest =>
      let n := n0 + 256 * n1 in
      if (len c =? key_size k) && (kt =? k mod 16) && (n <=? key_size k - 3) && (n <=? len rest)
      then Some (take n rest) else None
  | _ => None
  end.
Definition toy_asign (k : Z) (p : policy) (d : bytes) : bytes := toy_tag (key_size k) (k mod 256 :: d).
Definition toy_averify (k : Z) (p : policy) (d s : bytes) : bool := bytes_eqb (toy_asign k p d) s.
(* a stand-in certificate is the key pair id (4 bytes) followed by zeros *)
Definition toy_cert (k n : Z) : bytes := le32 k ++ rep (n - 4) 0.
Definition toy_cert_key (c : bytes) : option (Z * Z) :=
  match c with
  | a :: b :: c0 :: d :: _ => let k := rd32 a b c0 d in if 0 <? key_size k then Some (k, key_size k) else None
  | _ => None
  end.

Definition toy_prims (exact : bool) : prims :=
  {| p_mac := if exact then hmac_real else toy_mac;
     p_aes_enc := fun _ d => d; p_aes_dec := fun _ d => d;
     p_rsa_enc := toy_rsa_enc; p_rsa_dec := toy_rsa_dec;
     p_asign := toy_asign; p_averify := toy_averify;
     p_cert_key := toy_cert_key; p_utf8 := ascii |}.

(* ---------------- cases ---------------- *)
(* filler: byte i = lo + (a + b*i + i/256) mod m *)
Record fill := mk_fill { f_len : Z; f_a : Z; f_b : Z; f_m : Z; f_lo : Z }.
Fixpoint fill_from (n : nat) (i : Z) (f : fill) : bytes :=
  match n with
  | O => []
  | S k => (f_lo f + (f_a f + f_b f * i + i / 256) mod f_m f) :: fill_from k (i + 1) f
  end.
Definition fill_bytes (f : fill) : bytes := fill_from (Z.to_nat (f_len f)) 0 f.

Record case := mk_case {
  c_policy : policy; c_mode : mode; c_mty : mtype;
  c_max : Z;                      (* max_chunk_size, 0 = no limit *)
  c_chan : Z; c_token : Z; c_seq : Z; c_req : Z;
  c_sks : Z; c_rks : Z;           (* sender / receiver RSA key size in bytes (0 for policy None) *)
  c_certlen : Z;                  (* length of the sender's certificate *)
  c_prefix : bytes; c_fill : fill; c_suffix : bytes;   (* node id + message = prefix ++ filler ++ suffix *)
  c_sigkey : bytes;               (* sender's derived signing key (byte-exact cases) *)
  c_exact : bool;
  c_writer : bool                 (* through the server's MessageWriter whose negotiated send buffer size is c_max *) }.

Definition data_of (c : case) : bytes := c_prefix c ++ fill_bytes (c_fill c) ++ c_suffix c.
Definition skey (c : case) : Z := 16 * c_sks c + 1.
Definition rkey (c : case) : Z := 16 * c_rks c + 2.
Definition rthumb : bytes := rep 20 7.
Definition enckey : bytes := [1; 2; 3].
Definition big_limits : limits := {| lim_string := 16777216; lim_bstring := 16777216 |}.

Definition sender_of (c : case) : sender :=
  {| s_policy := c_policy c; s_mode := c_mode c; s_chan := c_chan c; s_token := c_token c;
     s_cert := toy_cert (skey c) (c_certlen c); s_key := skey c; s_ks := c_sks c;
     s_rthumb := Some rthumb; s_rkey := rkey c; s_rks := c_rks c;
     s_sigkey := c_sigkey c; s_enckey := enckey |}.
Definition receiver_of (c : case) : receiver :=
  {| r_policy := c_policy c; r_mode := c_mode c; r_chan := c_chan c;
     r_thumb := if is_none (c_policy c) then None else Some rthumb;
     r_cert_ks := if is_none (c_policy c) then None else Some (c_rks c);
     r_pkey := if is_none (c_policy c) then None else Some (rkey c, c_rks c);
     r_verkey := if is_none (c_policy c) then None else Some (c_sigkey c, enckey);
     r_limits := big_limits |}.

Definition code {A} (r : res A) : Z := match r with Ok _ => 0 | Err _ => 1 | Panic _ => -2 end.

(* one chunk: plain length, final flag, sequence number, request id, status of apply_security,
   secured length, checksum of the secured bytes (exact cases), status of
   verify_and_remove_security, length of the received chunk, received = sent *)
Definition run_chunk (P : prims) (fx : fixes) (c : case) (plain : bytes) : list Z * option bytes :=
  let S := sender_of c in
  let R := receiver_of c in
  let hdrs := match chunk_info P big_limits plain with
              | Ok inf => [len plain; h_final (i_hdr inf); i_seq inf; i_req inf]
              | _ => [len plain; -1; -1; -1]
              end in
  match apply_security P fx S (c_mty c) plain with
  | Ok sec =>
      let ck := if c_exact c then let '(a, b) := checksum sec in [a; b] else [-1; -1] in
      match fst (recv P fx R sec) with
      | Ok rc => (hdrs ++ [0; len sec] ++ ck ++ [0; len rc; if bytes_eqb rc plain then 1 else 0], Some rc)
      | r => (hdrs ++ [0; len sec] ++ ck ++ [code r; -1; -1], None)
      end
  | r => (hdrs ++ [code r; -1; -1; -1; -1; -1; -1], None)
  end.

Fixpoint run_chunks (P : prims) (fx : fixes) (c : case) (cs : list bytes) : list Z * option (list bytes) :=
  match cs with
  | [] => ([], Some [])
  | p :: rest =>
      let '(o, rc) := run_chunk P fx c p in
      let '(os, rcs) := run_chunks P fx c rest in
      (o ++ os, match rc, rcs with Some x, Some xs => Some (x :: xs) | _, _ => None end)
  end.

(* [wfix]: the writer chunks with the negotiated size (the repaired MessageWriter) *)
Definition chunks_of_case (wfix : bool) (fx : fixes) (c : case) : res (list bytes) :=
  if c_writer c
  then writer_chunks wfix fx (sender_of c) (c_mty c) (c_seq c - 1) (c_req c) (c_max c) (data_of c)
  else encode fx (sender_of c) (c_mty c) (c_seq c) (c_req c) (c_max c) (data_of c).

Definition run_gen (wfix : bool) (fx : fixes) (c : case) : list Z :=
  let P := toy_prims (c_exact c) in
  let S := sender_of c in
  let R := receiver_of c in
  match chunks_of_case wfix fx c with
  | Ok cs =>
      let '(o, rcs) := run_chunks P fx c cs in
      [0; Z.of_nat (length cs)] ++ o ++
      match rcs with
      | Some rcs =>
          (match validate_chunks P fx R (c_seq c) rcs with Ok l => [0; l] | r => [code r; -1] end) ++
          (match decode P R rcs with Ok d => [0; if bytes_eqb d (data_of c) then 1 else 0] | r => [code r; -1] end)
      | None => [-1; -1; -1; -1]
      end
  | r => [code r]
  end.
Definition run_with (fx : fixes) (c : case) : list Z := run_gen true fx c.
Definition run (c : case) : list Z := run_with current c.

(* ---------------- the property as a predicate on an output ---------------- *)
(* header size of a plain chunk, written independently of the model's encoder *)
Definition spec_header_size (c : case) : Z :=
  12 + 8 +
  match c_mty c with
  | OPN => if is_none (c_policy c) then 4 + len (src_uri PNone) + 4 + 4
           else 4 + len (src_uri (c_policy c)) + 4 + c_certlen c + 4 + 20
  | _ => 4
  end.

(* records of 11 numbers per chunk *)
Fixpoint check_chunks (c : case) (n i : Z) (out : list Z) (bodies : Z) : option (Z * list Z) :=
  match out with
  | plen :: fin :: sq :: rq :: sst :: slen :: _ :: _ :: rst :: rlen :: req :: rest =>
      if (sq =? c_seq c + i) && (rq =? c_req c) && (fin =? (if i =? n - 1 then 1 else 0))
         && (sst =? 0) && ((c_max c =? 0) || (slen <=? c_max c))
         && (rst =? 0) && (rlen =? plen) && (req =? 1) && (spec_header_size c <=? plen)
      then if i =? n - 1 then Some (bodies + plen - spec_header_size c, rest)
           else check_chunks c n (i + 1) rest (bodies + plen - spec_header_size c)
      else None
  | _ => None
  end.

Definition oracle (c : case) (out : list Z) : bool :=
  match out with
  | 0 :: n :: rest =>
      (1 <=? n) &&
      match check_chunks c n 0 rest 0 with
      | Some (bodies, [vst; last; dst; eq]) =>
          (bodies =? len (data_of c)) && (vst =? 0) && (last =? c_seq c + n - 1) && (dst =? 0) && (eq =? 1)
      | _ => false
      end
  | _ => false
  end.

Definition known (c : case) : Z := 0.

Definition byte_ok (b : Z) : bool := (0 <=? b) && (b <? 256).
Definition u32_ok (v : Z) : bool := (0 <=? v) && (v <? U32).

Definition validb (c : case) : bool :=
  (* a policy other than None goes with Sign or SignAndEncrypt, None with None *)
  (match c_policy c, c_mode c with
   | PNone, MNone => true
   | PNone, _ => false
   | _, MSign | _, MSignEnc => true
   | _, _ => false
   end)
  && ((c_max c =? 0) || (src_min_chunk <=? c_max c))
  && (negb (c_writer c) || (src_min_chunk <=? c_max c))
  && u32_ok (c_chan c) && u32_ok (c_token c) && u32_ok (c_req c)
  && (0 <=? c_seq c) && (c_seq c + len (data_of c) <? U32)
  && key_ok (c_policy c) (c_sks c) && key_ok (c_policy c) (c_rks c)
  && (is_none (c_policy c) || ((c_sks c <? c_certlen c) && (c_certlen c <=? 4000) && (4 <=? c_certlen c)))
  && forallb byte_ok (c_prefix c) && forallb byte_ok (c_suffix c) && (1 <=? len (c_prefix c))
  && (0 <=? f_len (c_fill c)) && (0 <=? f_lo (c_fill c)) && (1 <=? f_m (c_fill c)) && (f_lo (c_fill c) + f_m (c_fill c) <=? 256)
  && (len (data_of c) <? 16777216).
Definition valid (c : case) : Prop := validb c = true.

(* ---------------- the code before the C07 fix: commits ---------------- *)
Module Legacy.
  Definition upd (fx : fixes) (pad budget opn : bool) : fixes :=
    {| fx_pad_sign := pad; fx_budget := budget; fx_rsa_block := fx_rsa_block fx; fx_null_cert := fx_null_cert fx;
       fx_own_cert := fx_own_cert fx; fx_no_keys := fx_no_keys fx; fx_aes_block := fx_aes_block fx;
       fx_size_sig := fx_size_sig fx; fx_padding := fx_padding fx; fx_seq := fx_seq fx; fx_opn_budget := opn |}.
  (* before "symmetric chunks were padded in Sign mode and padding was never removed by the receiver" *)
  Definition run_padding (c : case) : list Z := run_with (upd current false true true) c.
  (* before "chunk body budget ignored worst-case padding so secured chunks exceeded the negotiated size" *)
  Definition run_budget (c : case) : list Z := run_with (upd current true false true) c.
  (* before "chunk body budget of asymmetric (OpenSecureChannel) chunks ignored RSA block expansion and padding" *)
  Definition run_opn_budget (c : case) : list Z := run_with (upd current true true false) c.
  (* before "server responses were never chunked: the writer ignored the negotiated send buffer size" *)
  Definition run_writer (c : case) : list Z := run_gen false current c.
End Legacy.
