//! C15: not built yet
use crate::util::Args;
pub fn main(_a: &Args) { eprintln!("C15: no harness yet"); std::process::exit(3); }
