#!/usr/bin/env python3
"""C06 translator: extract from lib/src/types/variant.rs

  * the (source type, target type, rule) table of the match arms of `Variant::convert`,
  * the (source type, target type, rule) table of the explicit arms of `Variant::cast`,
  * the comparators / rounding calls of the macros `cast_to_integer!`, `cast_float_to_integer!`
    and `cast_to_bool!`, and the frame of both functions (same-type shortcut, convert-then-cast),

and emit coq/Gen/C06Table.v, which the model (coq/C06/Model.v) interprets.  An arm between two
numeric types (or Boolean / StatusCode) whose right-hand side is not one of the known shapes makes the
translator fail: nothing is guessed."""
import os, re, sys
REPO = os.environ.get("VERIF_REPO", "/repo")
V = os.path.dirname(os.path.dirname(os.path.dirname(os.path.abspath(__file__))))
raw = open(os.path.join(REPO, "lib/src/types/variant.rs"), newline="").read().replace("\r\n", "\n")

TYPES = ["Empty", "Boolean", "SByte", "Byte", "Int16", "UInt16", "Int32", "UInt32", "Int64", "UInt64", "Float",
         "Double", "String", "DateTime", "Guid", "StatusCode", "ByteString", "XmlElement", "QualifiedName",
         "LocalizedText", "NodeId", "ExpandedNodeId", "ExtensionObject", "Variant", "DataValue",
         "DiagnosticInfo", "Array"]
PRIM = {"Boolean": "bool", "SByte": "i8", "Byte": "u8", "Int16": "i16", "UInt16": "u16", "Int32": "i32",
        "UInt32": "u32", "Int64": "i64", "UInt64": "u64", "Float": "f32", "Double": "f64"}
MODELLED = set(PRIM) | {"StatusCode"}


def fail(msg):
    print("c06_convert_table: " + msg)
    sys.exit(1)


def strip(src):
    """remove // comments and the contents of string literals (braces inside them must not count)"""
    out = []
    i, n = 0, len(src)
    while i < n:
        if src.startswith("//", i):
            while i < n and src[i] != "\n":
                i += 1
            continue
        c = src[i]
        if c == '"':
            j = i + 1
            while j < n and src[j] != '"':
                j += 2 if src[j] == "\\" else 1
            out.append('"S"')
            i = j + 1
            continue
        if c == "'" and i + 2 < n and src[i + 2] == "'":     # char literal
            out.append("'c'")
            i += 3
            continue
        out.append(c)
        i += 1
    return "".join(out)


src = strip(raw)
OPEN, CLOSE = "([{", ")]}"


def balanced(text, i):
    """text[i] is an opening bracket; return the index just after its partner"""
    d = 0
    while i < len(text):
        if text[i] in OPEN:
            d += 1
        elif text[i] in CLOSE:
            d -= 1
            if d == 0:
                return i + 1
        i += 1
    fail("unbalanced brackets")


def norm(s):
    return " ".join(s.split())


def fn_body(name):
    m = re.search(r"pub fn %s\(&self, target_type: VariantTypeId\) -> Variant \{" % name, src)
    if not m:
        fail("fn %s not found" % name)
    e = balanced(src, m.end() - 1)
    return src[m.end():e - 1]


def macro_body(name):
    m = re.search(r"macro_rules! %s \{" % name, src)
    if not m:
        fail("macro %s not found" % name)
    e = balanced(src, m.end() - 1)
    return norm(src[m.end():e - 1])


def arms(body):
    """split the inside of a match into (pattern, expression) pairs"""
    res = []
    i, n = 0, len(body)
    while True:
        while i < n and body[i] in " \t\n,":
            i += 1
        if i >= n:
            break
        j, d = i, 0
        while j < n and not (d == 0 and body.startswith("=>", j)):
            if body[j] in OPEN:
                d += 1
            elif body[j] in CLOSE:
                d -= 1
            j += 1
        if j >= n:
            fail("match arm without '=>': " + norm(body[i:i + 80]))
        pat = norm(body[i:j])
        k = j + 2
        while k < n and body[k] in " \t\n":
            k += 1
        if k < n and body[k] == "{":
            e = balanced(body, k)
            expr = body[k:e]
        else:
            e, d = k, 0
            while e < n and not (d == 0 and body[e] == ","):
                if body[e] in OPEN:
                    d += 1
                elif body[e] in CLOSE:
                    d -= 1
                e += 1
            expr = body[k:e]
        res.append((pat, norm(expr)))
        i = e
    return res


def match_on(text, scrutinee):
    """the inside of the first `match <scrutinee> {` in text, with what precedes it; None if absent"""
    m = re.search(r"match %s \{" % re.escape(scrutinee), text)
    if not m:
        return None, None
    e = balanced(text, m.end() - 1)
    return text[:m.start()], text[m.end():e - 1]


def unblock(e):
    """drop redundant outer braces of a block expression"""
    while e.startswith("{") and balanced(e, 0) == len(e):
        e = e[1:-1].strip()
    return e


def source_arms(body):
    pre, inner = match_on(body, "*self")
    if inner is None:
        fail("no 'match *self'")
    res = []
    for pat, expr in arms(inner):
        m = re.match(r"Variant::(\w+)\((?:ref )?(\w+)\)$", pat)
        if not m:
            if pat == "_":
                if unblock(expr) != "Variant::Empty":
                    fail("default source arm is not Variant::Empty: " + expr)
                continue
            fail("source arm not understood: " + pat)
        if m.group(1) not in TYPES:
            fail("unknown source type " + m.group(1))
        res.append((m.group(1), m.group(2), expr))
    return pre, res


def target_arms(s, expr):
    """rows (target, rhs) of the `match target_type` inside one source arm, and the text before it"""
    pre, inner = match_on(expr, "target_type")
    if inner is None:
        if s in MODELLED:
            fail("source arm %s has no 'match target_type'" % s)
        return "", []
    rows = []
    for pat, rhs in arms(inner):
        if pat == "_":
            if unblock(rhs) != "Variant::Empty":
                fail("%s: default target arm is not Variant::Empty: %s" % (s, rhs))
            continue
        m = re.match(r"VariantTypeId::(\w+)$", pat)
        if not m or m.group(1) not in TYPES:
            fail("%s: target arm not understood: %s" % (s, pat))
        rows.append((m.group(1), unblock(rhs)))
    return norm(pre), rows


# ---------------------------------------------------------------- convert
cbody = fn_body("convert")
cpre, csrc = source_arms(cbody)
if norm(cpre) != "if self.type_id() == target_type { return self.clone(); }":
    fail("convert: the same-type shortcut changed: " + norm(cpre))


def convert_rule(s, t, var, pre, rhs):
    if s not in MODELLED or t not in MODELLED:
        return "ROpaque"
    if t == "StatusCode" or t == "Boolean":
        return "ROpaque"
    pt = PRIM[t]
    v = re.escape(var)
    if s == "StatusCode":
        if pre not in ("", "{"):
            fail("convert %s: unexpected statements %s" % (s, pre))
        if rhs == "(%s.bits() as %s).into()" % (var, pt) or (t == "UInt32" and rhs == "%s.bits().into()" % var):
            return "RAs"
        fail("convert %s->%s: arm not understood: %s" % (s, t, rhs))
    if pre not in ("", "{"):
        fail("convert %s: unexpected statements before the match: %s" % (s, pre))
    if re.fullmatch(r"\(%s as %s\)\.into\(\)" % (v, pt), rhs):
        return "RAs"
    if s == "Boolean" and re.fullmatch(r"\(\(%s as u8\) as %s\)\.into\(\)" % (v, pt), rhs):
        return "RAs"
    if re.fullmatch(r"%s::try_from\(%s\)\.map\(\|v\| v\.into\(\)\)\.unwrap_or\(Variant::Empty\)" % (pt, v), rhs):
        return "RTry"
    if re.fullmatch(r"if %s < 0 \{ Variant::Empty \} else \{ \(%s as %s\)\.into\(\) \}" % (v, v, pt), rhs):
        return "RNonNeg"
    fail("convert %s->%s: arm not understood: %s" % (s, t, rhs))


convert_rows = []
for s, var, expr in csrc:
    pre, rows = target_arms(s, expr)
    for t, rhs in rows:
        convert_rows.append((s, t, convert_rule(s, t, var, pre, rhs)))

# ---------------------------------------------------------------- cast
xbody = fn_body("cast")
m = re.fullmatch(r"let result = self\.convert\(target_type\); if result == Variant::Empty \{ (.*) \} else \{ result \}",
                 norm(xbody))
if not m:
    fail("cast: the convert-then-cast frame changed")
xpre, xsrc = source_arms(m.group(1))
if norm(xpre) != "":
    fail("cast: statements before 'match *self'")

ARG = {"{v}": "AV", "f64::round({v})": "ARound", "f32::round({v})": "ARound", "{v}.round()": "ARound",
       "f64::trunc({v} + 0.5)": "ATruncHalf", "f32::trunc({v} + 0.5)": "ATruncHalf"}


def cast_rule(s, t, var, lets, rhs):
    if s not in MODELLED or t not in MODELLED:
        return "XOpaque"
    if t == "StatusCode":
        return "XOpaque"
    ps = "u32" if s == "StatusCode" else PRIM[s]

    def arg(a):
        a = lets.get(a, a)
        for k, r in ARG.items():
            if a == k.replace("{v}", var):
                if r != "AV" and k.startswith("f") and not k.startswith(ps):
                    fail("cast %s->%s: rounding call of the wrong float type: %s" % (s, t, a))
                return r
        if a == "%s as i64" % var:
            return "AAsI64"
        fail("cast %s->%s: macro argument not understood: %s" % (s, t, a))

    if t == "Boolean":
        m = re.fullmatch(r"cast_to_bool!\((.*)\)", rhs)
        if m:
            return "(XBool %s)" % arg(m.group(1))
        fail("cast %s->Boolean: arm not understood: %s" % (s, rhs))
    pt = PRIM[t]
    m = re.fullmatch(r"(cast_to_integer|cast_float_to_integer)!\((.*), (\w+), (\w+)\)", rhs)
    if m:
        if m.group(3) != ps or m.group(4) != pt:
            fail("cast %s->%s: macro called with types (%s, %s)" % (s, t, m.group(3), m.group(4)))
        return "(%s %s)" % ("XInt" if m.group(1) == "cast_to_integer" else "XFloat", arg(m.group(2)))
    if rhs == "(%s as %s).into()" % (var, pt):
        return "XAs"
    if s == "Boolean" and rhs == "Variant::%s(%s::from(%s))" % (t, pt, var):
        return "XAs"
    if s == "StatusCode" and t == "UInt16" and rhs == "(((%s.bits() & 0xffff_0000) >> 16) as u16).into()" % var:
        return "XStatusHi"
    fail("cast %s->%s: arm not understood: %s" % (s, t, rhs))


cast_rows = []
for s, var, expr in xsrc:
    pre, rows = target_arms(s, expr)
    lets = {}
    p = pre.lstrip("{").strip()
    while p:
        m = re.match(r"let (\w+) = ([^;]+); ?", p)
        if not m:
            if s in MODELLED:
                fail("cast %s: statement before the match not understood: %s" % (s, p))
            break
        lets[m.group(1)] = m.group(2)
        p = p[m.end():]
    for t, rhs in rows:
        cast_rows.append((s, t, cast_rule(s, t, var, lets, rhs)))

# ---------------------------------------------------------------- macros
CMP = {"<": "OLt", "<=": "OLe", ">": "OGt", ">=": "OGe"}
C = r"(<=|>=|<|>)"
mb = macro_body("cast_to_integer")
m = re.fullmatch(r"\(\$value: expr, \$from: ident, \$to: ident\) => \{ \{ let valid = if \$value " + C +
                 r" 0 as \$from \{ \$to::MIN != 0 && \$value as i64 " + C + r" \$to::MIN as i64 \} else \{ \$value as u64 " + C +
                 r" \$to::MAX as u64 \}; if !valid \{ Variant::Empty \} else \{ \(\$value as \$to\)\.into\(\) \} \} \}", mb)
if not m:
    fail("macro cast_to_integer changed: " + mb)
int_neg, int_lo, int_hi = (CMP[x] for x in m.groups())
if not re.search(r"macro_rules! cast_float_to_integer \{", src):
    # the pinned code before the fix had no such macro (and no arm can use it): neutral parameters
    if any("XFloat" in r[2] for r in cast_rows):
        fail("cast_float_to_integer! is used but not defined")
    mb = "($value: expr, $from: ident, $to: ident) => {{ if $value >= $to::MIN as $from && $value < ($to::MAX as $from) + 1.0 { ($value as $to).into() } else { Variant::Empty } }};"
else:
    mb = macro_body("cast_float_to_integer")
m = re.fullmatch(r"\(\$value: expr, \$from: ident, \$to: ident\) => \{\{ if \$value " + C + r" \$to::MIN as \$from && \$value " + C +
                 r" \(\$to::MAX as \$from\)( \+ 1\.0)? \{ \(\$value as \$to\)\.into\(\) \} else \{ Variant::Empty \} \}\};", mb)
if not m:
    fail("macro cast_float_to_integer changed: " + mb)
fl_lo, fl_hi, fl_plus = CMP[m.group(1)], CMP[m.group(2)], "true" if m.group(3) else "false"
mb = macro_body("cast_to_bool")
if mb != "($value: expr) => { if $value == 1 { true.into() } else if $value == 0 { false.into() } else { Variant::Empty } };":
    fail("macro cast_to_bool changed: " + mb)


def table(name, rows):
    return "Definition %s : list (ty * ty * %s) :=\n  [ %s ].\n" % (
        name, "crule" if name.startswith("convert") else "xrule",
        ";\n    ".join("(T%s, T%s, %s)" % r for r in rows))


out = "(* GENERATED by tools/translate/c06_convert_table.py from lib/src/types/variant.rs — do not edit *)\n"
out += "From Coq Require Import List ZArith.\nImport ListNotations.\nFrom OV Require Import C06.Types.\n\n"
out += "(* Variant::convert: `if self.type_id() == target_type { return self.clone(); }` is present; one row per\n"
out += "   `VariantTypeId::T => ...` arm under each `Variant::S(v) =>` arm; every pair not listed yields Variant::Empty *)\n"
out += table("convert_rows", convert_rows)
out += "\n(* Variant::cast: `let result = self.convert(target_type); if result == Variant::Empty { match *self {..} } else { result }` *)\n"
out += table("cast_rows", cast_rows)
out += "\n(* cast_to_integer!: if $value <neg> 0 as $from { $to::MIN != 0 && $value as i64 <lo> $to::MIN as i64 }\n"
out += "                     else { $value as u64 <hi> $to::MAX as u64 } *)\n"
out += "Definition int_macro_neg : ord := %s.\nDefinition int_macro_lo : ord := %s.\nDefinition int_macro_hi : ord := %s.\n" % (int_neg, int_lo, int_hi)
out += "\n(* cast_float_to_integer!: if $value <lo> $to::MIN as $from && $value <hi> ($to::MAX as $from) [+ 1.0] *)\n"
out += "Definition float_macro_lo : ord := %s.\nDefinition float_macro_hi : ord := %s.\nDefinition float_macro_plus_one : bool := %s.\n" % (fl_lo, fl_hi, fl_plus)

path = os.path.join(V, "coq/Gen/C06Table.v")
os.makedirs(os.path.dirname(path), exist_ok=True)
try:
    old = open(path).read()
except FileNotFoundError:
    old = None
if old != out:
    open(path, "w").write(out)
print("c06_convert_table: ok (%d convert rows, %d cast rows)" % (len(convert_rows), len(cast_rows)))
