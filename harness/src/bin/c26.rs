//! C26: client timestamps and wall-clock jumps cannot crash subscription processing.
//!
//! A real `Subscriptions` (hook `VerifS1Subscriptions`) with one real `Subscription` holding one real
//! monitored item is driven by a history of
//!   Enq ts hint now : a publish request whose header carries timestamp `ts` (i64 ticks, anything)
//!                     and timeout hint `hint` arrives at server time `now`
//!   Expire now      : expire_stale_publish_requests(now)
//!   Tick now        : tick(now, TickTimerFired)
//! with arbitrary, non-monotonic `now` (ns since 1601-01-01).  Observed per operation: the publish
//! responses (request id, kind) and the private time state (last publishing interval time, the
//! item's last sample time).  In `Hist` cases the item's node is absent from the address space used
//! for ticking (pure time logic, modelled exactly); in `Smoke` cases the node exists and only
//! "no panic" is observed.
#[path = "../util.rs"]
mod util;
use util::*;

use opcua::core::supported_message::SupportedMessage;
use opcua::server::address_space::{variable::Variable, AddressSpace};
use opcua::server::builder::ServerBuilder;
use opcua::server::diagnostics::ServerDiagnostics;
use opcua::server::state::ServerState;
use opcua::server::subscriptions::subscription::Subscription;
use opcua::server::subscriptions::subscriptions::VerifS1Subscriptions;
use opcua::sync::RwLock;
use opcua::types::service_types::{
    MonitoredItemCreateRequest, MonitoringParameters, PublishRequest, ReadValueId, StatusChangeNotification,
    TimestampsToReturn,
};
use opcua::types::status_code::StatusCode;
use opcua::types::*;
use std::sync::{Arc, OnceLock};

#[derive(Clone)]
pub enum Op { Enq(i64, u32, i128), Expire(i128), Tick(i128) }

#[derive(Clone)]
pub struct Case { smoke: bool, prt: i64, kac: u32, life: u32, ivl8: u32, samp8: i64, t0: i128, ops: Vec<Op> }
pub struct P;

const ENDTIMES_NS: i128 = 265046774399000000000;
const Y2024_NS: i128 = 13348540800000000000;
const SEC: i128 = 1_000_000_000;
const MS: i128 = 1_000_000;

fn epoch() -> DateTimeUtc {
    use chrono::TimeZone;
    chrono::Utc.with_ymd_and_hms(1601, 1, 1, 0, 0, 0).unwrap()
}
fn time_of(ns: i128) -> DateTimeUtc {
    let s = ns.div_euclid(SEC) as i64;
    let n = ns.rem_euclid(SEC) as i64;
    epoch() + chrono::Duration::seconds(s) + chrono::Duration::nanoseconds(n)
}
fn ns_of(t: &DateTimeUtc) -> i128 {
    let d = t.signed_duration_since(epoch());
    let s = d.num_seconds();
    let rest = d - chrono::Duration::seconds(s);
    s as i128 * SEC + rest.num_nanoseconds().unwrap() as i128
}

struct Env { server_state: Arc<RwLock<ServerState>>, full: Arc<RwLock<AddressSpace>>, empty: AddressSpace, node: NodeId }
fn env() -> &'static Env {
    static E: OnceLock<Env> = OnceLock::new();
    E.get_or_init(|| {
        let dir = std::env::temp_dir().join(format!("c26-pki-{}", std::process::id()));
        let server = ServerBuilder::new_anonymous("c26").pki_dir(dir.to_str().unwrap()).server().unwrap();
        let full = server.address_space();
        let node = NodeId::new(2, "c26v");
        {
            let mut a = full.write();
            let _ = a.register_namespace("urn:c26");
            let _ = a.add_variables(vec![Variable::new(&node, "c26v", "c26v", 30i32)], &NodeId::objects_folder_id());
        }
        let _ = std::fs::remove_dir_all(&dir);
        Env { server_state: server.server_state(), full, empty: AddressSpace::default(), node }
    })
}

fn classify(m: &SupportedMessage) -> i128 {
    match m {
        SupportedMessage::PublishResponse(r) => match &r.notification_message.notification_data {
            None => 1,
            Some(v) => {
                if v.len() == 1
                    && v[0].node_id == NodeId::from(&ObjectId::StatusChangeNotification_Encoding_DefaultBinary)
                {
                    match v[0].decode_inner::<StatusChangeNotification>(&DecodingOptions::default()) {
                        Ok(s) if s.status == StatusCode::BadTimeout => 2,
                        _ => 3,
                    }
                } else { 3 }
            }
        },
        SupportedMessage::ServiceFault(f) => if f.response_header.service_result == StatusCode::BadTimeout { 8 } else { 4 },
        _ => 7,
    }
}

fn exec_case(c: &Case) -> Vec<i128> {
    let e = env();
    let mut out = Vec::new();
    let t0 = time_of(c.t0);
    let diag = Arc::new(RwLock::new(ServerDiagnostics::default()));
    let mut sub = Subscription::new(diag, 1, true, c.ivl8 as f64 / 8.0, c.life, c.kac, 0);
    sub.verif_s1_set_last_time(t0);
    let samp = if c.samp8 < 0 { -1.0 } else { c.samp8 as f64 / 8.0 };
    {
        let server_state = e.server_state.read();
        let full = e.full.read();
        let req = MonitoredItemCreateRequest {
            item_to_monitor: ReadValueId { node_id: e.node.clone(), attribute_id: AttributeId::Value as u32,
                index_range: UAString::null(), data_encoding: QualifiedName::null() },
            monitoring_mode: MonitoringMode::Reporting,
            requested_parameters: MonitoringParameters { client_handle: 1, sampling_interval: samp,
                filter: ExtensionObject::null(), queue_size: 1, discard_oldest: true },
        };
        let r = sub.create_monitored_items(&server_state, &full, &t0, TimestampsToReturn::Both, &[req]);
        // the case carries the revised interval: it must come back unchanged
        if r.len() != 1 || r[0].status_code != StatusCode::Good || r[0].revised_sampling_interval != samp {
            return vec![-3];
        }
    }
    let mut subs = VerifS1Subscriptions::new(100, c.prt);
    subs.insert(1, sub);
    let full_guard = e.full.read();
    let aspace: &AddressSpace = if c.smoke { &full_guard } else { &e.empty };
    for (i, op) in c.ops.iter().enumerate() {
        let mut err = false;
        let r = match op {
            Op::Enq(ts, hint, now) => guarded(|| {
                let now = time_of(*now);
                let req = PublishRequest {
                    request_header: RequestHeader {
                        authentication_token: NodeId::null(),
                        timestamp: DateTime::from(*ts),
                        request_handle: i as u32,
                        return_diagnostics: DiagnosticBits::empty(),
                        audit_entry_id: UAString::null(),
                        timeout_hint: *hint,
                        additional_header: ExtensionObject::null(),
                    },
                    subscription_acknowledgements: None,
                };
                subs.enqueue_publish_request(&now, i as u32, req, aspace).is_err()
            }),
            Op::Expire(now) => guarded(|| { subs.expire_stale_publish_requests(&time_of(*now)); false }),
            Op::Tick(now) => guarded(|| subs.tick_timer(&time_of(*now), aspace).is_err()),
        };
        match r {
            Err(_) => { out.push(-2); return out; }
            Ok(e) => err = e,
        }
        if c.smoke {
            let _ = subs.take_publish_responses();
            out.push(0);
            continue;
        }
        if let Some(rs) = subs.take_publish_responses() {
            for r in rs.iter() { out.push(r.request_id as i128); out.push(classify(&r.response)); }
        }
        if err { out.push(0); out.push(5); }
        out.push(-9);
        let q = subs.publish_request_queue_len() as i128;
        match subs.get_mut(1) {
            Some(s) => {
                let (st, l, k, f, _e, nq) = s.verif_s1_snapshot();
                let last = ns_of(&s.verif_s1_last_time());
                let il = s.verif_s1_item_last_sample_time(1).map(|t| ns_of(&t)).unwrap_or(-1);
                out.extend_from_slice(&[1, st as i128, l as i128, k as i128, f as i128, nq as i128, q, last, il]);
            }
            None => out.extend_from_slice(&[0, q]),
        }
    }
    out
}

fn gen_case(r: &mut Rng, smoke: bool) -> Case {
    let prt = match r.below(8) { 0 => 0, 1 => 1, 2 => 100, _ => 30000 };
    let kac = 1 + r.below(4) as u32;
    let life = 3 * kac + r.below(6) as u32;
    let ivl8 = *r.pick(&[800u32, 8000, 1, 801, 2400]);
    // the server enforces only a minimum: a client may ask for an interval of 1e15 ms (longer than the clock's
    // range), 1e16 ms (more microseconds than an i64 holds) or 2^60 ms
    let samp8 = if r.chance(1, 8) { *r.pick(&[8_000_000_000_000_000i64, 80_000_000_000_000_000, i64::MAX, 8 * 86_400_000 * 366 * 9000]) } else { *r.pick(&[-8i64, 800, 8000, 801, 4000]) };
    let t0 = match r.below(6) { 0 => 0, 1 => ENDTIMES_NS - 3600 * SEC, _ => Y2024_NS + r.below(1000) as i128 * MS };
    let n = 3 + r.below(25) as usize;
    let mut now = t0;
    let mut ops = Vec::new();
    for _ in 0..n {
        // how the clock moves before this operation
        now = match r.below(12) {
            0 => now - (1 + r.below(20000) as i128) * MS,                  // backwards
            1 => now - 1,                                                  // one ns backwards
            2 => now,
            3 => (now + 3600 * SEC * r.below(48) as i128).min(ENDTIMES_NS), // big jump forward
            4 => (now - 3600 * SEC * r.below(48) as i128).max(0),           // big jump backwards
            5 => if r.chance(1, 4) { 0 } else { now },                     // back to 1601
            6 => if r.chance(1, 4) { ENDTIMES_NS } else { now },
            7 => now + ivl8 as i128 * 125_000 - 1,
            8 => now + ivl8 as i128 * 125_000,
            _ => now + r.below(2500) as i128 * MS + r.below(3) as i128,
        }.clamp(0, ENDTIMES_NS);
        match r.below(10) {
            0..=3 => {
                let nowt = (now / 100) as i64;
                let off = |ms: i128| -> i64 { (nowt as i128 + ms * 10_000).clamp(i64::MIN as i128, i64::MAX as i128) as i64 };
                let ts = match r.below(14) {
                    0 => off(60_000),                         // a minute in the future
                    1 => off(1),
                    2 => off(-(prt as i128)),                 // exactly the timeout ago
                    3 => off(-(prt as i128) - 1),
                    4 => off(-(prt as i128) + 1),
                    5 => 0,                                   // null
                    6 => i64::MAX,
                    7 => i64::MIN,
                    8 => i64::MAX - 1,
                    9 => r.next() as i64,
                    10 => off(-(r.below(60_000) as i128)),
                    11 => nowt + 1,                           // 100 ns in the future
                    _ => nowt,
                };
                let hint = match r.below(8) { 0 => 1, 1 => u32::MAX, 2 => prt.max(0) as u32, 3 => (prt.max(1) - 1) as u32, 4 => 500, _ => 0 };
                ops.push(Op::Enq(ts, hint, now));
            }
            4..=5 => ops.push(Op::Expire(now)),
            _ => ops.push(Op::Tick(now)),
        }
        // stale requests are usually checked right after they could have expired
        if r.chance(1, 4) {
            let d = match r.below(4) { 0 => prt as i128 * MS, 1 => prt as i128 * MS + 1, 2 => 500 * MS + 1, _ => 1 };
            now = (now + d).clamp(0, ENDTIMES_NS);
            ops.push(Op::Expire(now));
        }
    }
    Case { smoke, prt, kac, life, ivl8, samp8, t0, ops }
}

impl Property for P {
    type Case = Case;
    fn fixed(_tier: &str) -> Vec<Case> {
        let b = Y2024_NS;
        let t = |ns: i128| (ns / 100) as i64;
        let base = |ops: Vec<Op>| Case { smoke: false, prt: 30000, kac: 3, life: 9, ivl8: 8000, samp8: 800, t0: b, ops };
        let mut v = vec![
            // the design round's witnesses: a request stamped 60 s in the future panicked
            // expire_stale_publish_requests; a tick 10 s before the previous one panicked
            // test_and_set_publishing_interval_elapsed (both `.to_std().unwrap()`)
            base(vec![Op::Tick(b), Op::Enq(t(b + 60 * SEC), 0, b), Op::Expire(b + SEC), Op::Tick(b + SEC)]),
            base(vec![Op::Tick(b), Op::Tick(b + 2 * SEC), Op::Tick(b - 8 * SEC), Op::Tick(b + 3 * SEC)]),
            // the sampling interval test: the item is sampled at b + 2 s, then the clock steps back
            base(vec![Op::Tick(b), Op::Tick(b + 2 * SEC), Op::Enq(t(b), 0, b + SEC), Op::Tick(b + 2 * SEC + 100 * MS)]),
            // timeout boundaries: exactly the timeout (not expired), one tick more (expired), hint
            base(vec![Op::Tick(b), Op::Enq(t(b), 0, b), Op::Enq(t(b), 500, b), Op::Expire(b + 500 * MS), Op::Expire(b + 500 * MS + 100),
                      Op::Expire(b + 30 * SEC), Op::Expire(b + 30 * SEC + 1)]),
            // null, minimum and maximum timestamps
            base(vec![Op::Tick(b), Op::Enq(0, 0, b), Op::Enq(i64::MAX, 0, b), Op::Expire(b), Op::Enq(i64::MIN, 7, b), Op::Expire(b), Op::Expire(ENDTIMES_NS), Op::Expire(0)]),
            // server clock at the ends of the representable range
            base(vec![Op::Tick(0), Op::Tick(ENDTIMES_NS), Op::Tick(0), Op::Enq(t(b), 0, 0), Op::Expire(0), Op::Expire(ENDTIMES_NS)]),
            // keep-alives are still produced while the clock runs backwards in between
            base(vec![Op::Enq(t(b), 0, b), Op::Tick(b), Op::Tick(b + SEC), Op::Tick(b + SEC - 1), Op::Enq(t(b), 0, b), Op::Tick(b + 2 * SEC), Op::Tick(b + 3 * SEC)]),
        ];
        // item that follows the publishing interval, zero server timeout
        v.push(Case { smoke: false, prt: 0, kac: 1, life: 3, ivl8: 800, samp8: -8, t0: b,
            ops: vec![Op::Tick(b), Op::Enq(t(b), 0, b), Op::Expire(b), Op::Expire(b + 1), Op::Tick(b + 100 * MS), Op::Tick(b + 50 * MS), Op::Tick(b + 200 * MS)] });
        // sampling intervals no clock can ever reach: the item is simply never due again, at either end of the clock
        for samp8 in [8_000_000_000_000_000i64, 80_000_000_000_000_000, i64::MAX] {
            v.push(Case { smoke: false, prt: 30000, kac: 3, life: 9, ivl8: 8000, samp8, t0: b,
                ops: vec![Op::Tick(b), Op::Tick(b + SEC), Op::Tick(ENDTIMES_NS), Op::Tick(0), Op::Tick(b + 2 * SEC)] });
            v.push(Case { smoke: true, prt: 30000, kac: 3, life: 9, ivl8: 8000, samp8, t0: b,
                ops: vec![Op::Tick(b), Op::Tick(b + SEC), Op::Tick(ENDTIMES_NS), Op::Tick(0), Op::Tick(b + 2 * SEC)] });
        }
        // the same witnesses on the real data path
        for i in 0..3 { let mut c = v[i].clone(); c.smoke = true; v.push(c); }
        v
    }
    fn gen(r: &mut Rng) -> Case { let smoke = r.chance(1, 5); gen_case(r, smoke) }
    fn exec(c: &Case) -> Out {
        let out = exec_case(c);
        let mut back = false; let mut future = false; let mut prev = c.t0;
        for o in &c.ops {
            let now = match o { Op::Enq(ts, _, now) => { if *ts as i128 * 100 > *now { future = true; } *now } Op::Expire(n) | Op::Tick(n) => *n };
            if now < prev { back = true; }
            prev = now;
        }
        let tag = format!("{}{}{}", if c.smoke { "smoke" } else { "hist" }, if back { "-backwards" } else { "" }, if future { "-future" } else { "" });
        let ops = coq_list(&c.ops, |o| match o {
            Op::Enq(ts, h, n) => format!("Enq {} {} {}", z(*ts as i128), z(*h as i128), z(*n)),
            Op::Expire(n) => format!("Expire {}", z(*n)),
            Op::Tick(n) => format!("Tick {}", z(*n)),
        });
        let term = format!("({} {} {} {} {} {} {} {})", if c.smoke { "Smoke" } else { "Hist" }, z(c.prt as i128), z(c.kac as i128),
            z(c.life as i128), z(c.ivl8 as i128), z(c.samp8 as i128), z(c.t0), ops);
        Out { tag, term, out }
    }
}
fn main() { run_main::<P>() }
