(* C08 — Modified or foreign secured chunks are never accepted.  Statements only.

   "Never accepted" cannot be a theorem about byte strings and a 20 or 32 byte MAC without a
   cryptographic assumption.  What is proved, for every choice of the primitives:
   coverage  -- an accepted chunk consists, after decryption, of signed data followed by its
               signature, the declared size is the buffer length, and the chunk handed on is a
               prefix of the checked buffer;
   reduction -- an accepted chunk that differs from a chunk the peer sent exhibits a pair
               (data, tag) with verify key data tag = true where data differs from what the peer
               signed: no unforgeability hypothesis is used. *)
From Coq Require Import List ZArith Bool.
Import ListNotations.
From OV Require Import C07.Chan C09.Total C08.Proofs.
From OV Require C08.Model.
Open Scope Z_scope.

(* the declared size of an accepted chunk is the length of the buffer *)
Theorem C08_size : forall P fx r src rc, fst (recv P fx r src) = Ok rc ->
  exists h b0, parse_hdr src = Ok (h, b0) /\ h_size h = len src.
Proof. exact accepted_size. Qed.
Print Assumptions C08_size.

(* coverage, symmetric chunks on a Sign / SignAndEncrypt channel: the checked buffer ([sym_dst]:
   the chunk, or its 16 header bytes followed by the decrypted rest) is exactly signed data ++ tag,
   the tag is the MAC of the signed data under the receiver's verification key, and the chunk
   handed on is a prefix of that buffer with the size field rewritten *)
Theorem C08_sym_coverage : forall P fx, fx_pad_sign fx = true ->
  forall r, secured (r_policy r) (r_mode r) = true -> forall vk dk, r_verkey r = Some (vk, dk) ->
  forall src rc, is_sym_chunk src -> fst (recv P fx r src) = Ok rc ->
  p_mac P (r_policy r) vk (sym_signed P r dk src) = sym_tag P r dk src /\
  sym_dst P r dk src = sym_signed P r dk src ++ sym_tag P r dk src /\
  exists n, rc = take n (set_size (sym_dst P r dk src) n).
Proof. exact sym_coverage. Qed.
Print Assumptions C08_sym_coverage.

(* reduction, symmetric chunks: if [a] is accepted and differs from an accepted chunk [b] of the
   same length (a chunk the peer produced under the channel's keys), then the data over which
   [a]'s MAC verifies is not the data the peer signed in [b].  (Chunks of different lengths differ
   in the size field, which is part of the signed data.)  In SignAndEncrypt mode AES-CBC
   decryption without padding is assumed injective -- it is a bijection on whole blocks. *)
Theorem C08_sym_reduction : forall P fx, fx_pad_sign fx = true ->
  forall r, secured (r_policy r) (r_mode r) = true -> forall vk dk, r_verkey r = Some (vk, dk) ->
  forall a b rca rcb, is_sym_chunk a -> is_sym_chunk b ->
  fst (recv P fx r a) = Ok rca -> fst (recv P fx r b) = Ok rcb -> len a = len b ->
  (r_mode r = MSign \/ (forall c1 c2, p_aes_dec P dk c1 = p_aes_dec P dk c2 -> c1 = c2)) ->
  a <> b ->
  sym_signed P r dk a <> sym_signed P r dk b /\
  p_mac P (r_policy r) vk (sym_signed P r dk a) = sym_tag P r dk a.
Proof. exact sym_reduction. Qed.
Print Assumptions C08_sym_reduction.

(* coverage, asymmetric (OPN) chunks: acceptance means that the certificate carried by the chunk
   parses to a key, the cipher text decrypts block by block under the receiver's private key, and
   the last key-size bytes of the decrypted data are a signature that verifies, under the
   certificate's key, over all the headers and everything decrypted before it; the chunk handed on
   is a prefix of that buffer.  (Whether the certificate is trusted is decided later, by the
   certificate store: C18.) *)
Theorem C08_asym_coverage : forall P fx r src b1 off pol cert thumb rc,
  recv_asym P fx r src b1 off pol cert thumb = Ok rc ->
  exists c vkey vks okey oks plain,
    cert = Some c /\ p_cert_key P c = Some (vkey, vks) /\ r_pkey r = Some (okey, oks) /\
    rsa_decrypt P fx okey oks pol b1 = Ok plain /\
    let dst := take off src ++ plain ++ rep (len b1 - len plain) 0 in
    let sig_off := off + len plain - vks in
    p_averify P vkey pol (take sig_off dst) (slice sig_off (sig_off + vks) dst) = true /\
    exists n, rc = take n (set_size dst n).
Proof. exact asym_accept. Qed.
Print Assumptions C08_asym_coverage.

(* No chunk switches security off: whatever bytes arrive, the policy the receive path leaves the
   channel with is the one it had or a policy other than None (an OPN chunk naming a secured policy),
   so on a Sign / SignAndEncrypt channel every later chunk still goes through the checks above.
   [C08_preamble] is the same for any sequence of chunks fed first (the preamble of the cases). *)
Theorem C08_no_downgrade : forall P fx r src,
  secured (r_policy r) (r_mode r) = true -> secured (snd (recv P fx r src)) (r_mode r) = true.
Proof. exact recv_stays_secured. Qed.
Print Assumptions C08_no_downgrade.

Theorem C08_preamble : forall fx c,
  secured (C09.Model.c_policy (C08.Model.c_recv c)) (C09.Model.c_mode (C08.Model.c_recv c)) = true ->
  secured (C08.Model.pre_policy fx c) (C09.Model.c_mode (C08.Model.c_recv c)) = true.
Proof. intros fx c. apply pre_stays_secured. Qed.
Print Assumptions C08_preamble.

(* Per case of the correspondence run, what can be proved without a cryptographic assumption:
   every chunk gets a status accepted / rejected-with-an-error, never a panic.
   FULL STATEMENT, NOT PROVED (it is false for an adversarially chosen transcript, and true of the
   real primitives only under unforgeability):
     forall c, valid c -> known c = 0 -> oracle c (run c) = true
   i.e. the originals are accepted and every modified / foreign chunk is rejected.  What stands in
   for it: C08_sym_reduction / C08_asym_coverage above, and the sweeps of the correspondence run,
   in which the oracle is evaluated on the implementation's output. *)
Theorem C08_oracle_partial : forall c, C08.Model.valid c -> C08.Model.known c = 0 ->
  statuses_ok (C08.Model.run c) = true.
Proof. intros c Hv _. apply run_statuses. exact Hv. Qed.
Print Assumptions C08_oracle_partial.
