(* C21 — publish responses pair with requests and deliver every data change once.

   Implementation model: the shared system model C21/Sys.v ([run]).

   The oracle is a reference evaluator that knows nothing of the subscription state machine
   (update_state / handle_state_result), keep-alives, sequence-number handling, priorities or
   the request/notification pairing loop.  It keeps, per live subscription, the monitored items
   (with the item-level sampling and queueing rules of monitored_item.rs, which are C24/C25's
   subject and are reused here as the definition of "sampled, minus the discards C24
   specifies") and the list [p_pending] of data-change payloads that were COLLECTED at a
   publishing-interval tick and are not yet delivered.  Against the observed trace it checks:

   (0) the run does not panic;
   (1) pairing: a response answers a request that is queued and not yet answered; a publish
       response answers the OLDEST queued request; after every operation the observed request
       queue is exactly the set of accepted, unanswered requests;
   (2) per subscription the sequence numbers of the delivered notifications strictly increase;
   (3) delivery: every data-change notification delivered for a live subscription carries
       exactly the oldest collected-and-undelivered payload (so: every sampled change exactly
       once, in order); after every operation the number of data notifications waiting in the
       subscription equals the number of collected-and-undelivered payloads (so: nothing is
       dropped on the way, nothing invented); and whenever a publish request is still queued
       after an operation, no live subscription has an undelivered payload (progress).

   Scope of (3), the "alive and enabled" conditions of the statement:
     - a subscription is followed from its creation until it is deleted or observed Closed
       (lifetime expired): from then on nothing is claimed about its data;
     - while publishing is disabled the payload collected at a publishing-interval tick is
       discarded by the code (sequence number rolled back) and the oracle expects exactly that;
       payloads collected while enabled stay deliverable;
     - sampling is as the code does it: an item with sampling interval -1 samples at the ticks at
       which its subscription's publishing interval elapses; an item with its own interval samples at
       any tick (timer or publish request) at which that interval has elapsed since its last
       sample, into its queue, and the queue is collected at the next publishing-interval tick AT
       WHICH THE ITEM SAMPLES OR HAS SAMPLED — DESIGN.md's "second mechanism": a
       publishing-interval tick at which the item's own interval has not elapsed (it sampled a
       moment earlier on a publish-request tick) reports NoChange and leaves the queue for a
       later cycle.  Values are delayed, not lost or duplicated: not a violation, and (3) is
       stated in terms of COLLECTED payloads for that reason.
     - an OPublish that meets a full request queue and is accepted anyway ran two scheduling
       rounds which the observation cannot separate: delivery checking stops there ([z_track]);
       (0)-(2) continue. *)
From Coq Require Import List ZArith Bool Lia.
Import ListNotations.
From OV Require Export C21.Sys.
Open Scope Z_scope.

Record ssub := mk_ssub {
  p_id : Z; p_interval : Z; p_enabled : bool; p_lasttime : Z;
  p_items : list item; p_nextitem : Z;
  p_pending : list (list datum) }.

Record spec := mk_spec {
  z_now : Z; z_vars : list Z; z_subs : list ssub; z_nextsub : Z;
  z_out : list Z;                      (* accepted, unanswered request ids, oldest first *)
  z_nextrid : Z;
  z_lastseq : list (Z * Z);            (* subscription id -> last delivered sequence number *)
  z_before : snap;
  z_track : bool }.

Fixpoint zlist_eqb (a b : list Z) : bool :=
  match a, b with
  | [], [] => true
  | x :: a', y :: b' => (x =? y) && zlist_eqb a' b'
  | _, _ => false
  end.
Definition datum_eqb (a b : datum) : bool :=
  (fst (fst a) =? fst (fst b)) && (snd (fst a) =? snd (fst b)) && (snd a =? snd b).
Fixpoint data_eqb (a b : list datum) : bool :=
  match a, b with
  | [], [] => true
  | x :: a', y :: b' => datum_eqb x y && data_eqb a' b'
  | _, _ => false
  end.

Fixpoint find_ssub (id : Z) (l : list ssub) : option ssub :=
  match l with
  | [] => None
  | s :: r => if p_id s =? id then Some s else find_ssub id r
  end.
Fixpoint replace_ssub (s' : ssub) (l : list ssub) : list ssub :=
  match l with
  | [] => []
  | s :: r => if p_id s =? p_id s' then s' :: r else s :: replace_ssub s' r
  end.
Definition set_p_items (s : ssub) its nextitem :=
  mk_ssub (p_id s) (p_interval s) (p_enabled s) (p_lasttime s) its nextitem (p_pending s).
Definition set_p_pending (s : ssub) p :=
  mk_ssub (p_id s) (p_interval s) (p_enabled s) (p_lasttime s) (p_items s) (p_nextitem s) p.

(* observed state of a subscription in a snapshot, with its position *)
Fixpoint state_in (id : Z) (l : list (Z * Z * Z)) : option Z :=
  match l with
  | [] => None
  | (i, st, _) :: r => if i =? id then Some st else state_in id r
  end.
Fixpoint pdata_in (id : Z) (l : list (Z * Z * Z)) (pd : list Z) : option Z :=
  match l, pd with
  | (i, _, _) :: r, n :: pr => if i =? id then Some n else pdata_in id r pr
  | _, _ => None
  end.

(* is the subscription's item loop run by a tick, given its state before the tick *)
Definition ticks_items (before : snap) (id : Z) : bool :=
  match state_in id (sn_subs before) with
  | Some st => negb ((st =? 0) || (st =? 1))
  | None => false
  end.

(* a timer tick on one subscription: publishing interval, sampling, collection *)
Definition spec_timer (before : snap) (vars : list Z) (now : Z) (s : ssub) : ssub :=
  if ticks_items before (p_id s) then
    let pie := p_interval s <=? elapsed now (p_lasttime s) in
    let lt := if pie then now else p_lasttime s in
    let '(its, d) := tick_items_loop (p_items s) vars now pie in
    mk_ssub (p_id s) (p_interval s) (p_enabled s) lt its (p_nextitem s)
            (match d with
             | [] => p_pending s
             | _ => if p_enabled s then p_pending s ++ [d] else p_pending s
             end)
  else s.

(* a publish-request tick on one subscription: items with their own interval may sample *)
Definition spec_recv (before : snap) (vars : list Z) (now : Z) (s : ssub) : ssub :=
  if ticks_items before (p_id s) then
    set_p_items s (fst (tick_items_loop (p_items s) vars now false)) (p_nextitem s)
  else s.

Definition queue_full (sn : snap) : bool := 2 * len (sn_subs sn) <=? len (sn_reqs sn).

Fixpoint lookup_seq (id : Z) (l : list (Z * Z)) : Z :=
  match l with
  | [] => 0
  | (i, q) :: r => if i =? id then q else lookup_seq id r
  end.

Fixpoint remove_z (x : Z) (l : list Z) : list Z :=
  match l with
  | [] => []
  | y :: r => if x =? y then r else y :: remove_z x r
  end.

(* the operation itself *)
Definition spec_op (z : spec) (opix : Z) (o : op) (r : opres) : spec :=
  let before := z_before z in
  match o with
  | OWrite v x =>
      if (v <? 0) || (len (z_vars z) <=? v) then z
      else mk_spec (z_now z) (set_nth (Z.to_nat v) x (z_vars z)) (z_subs z) (z_nextsub z) (z_out z)
                   (z_nextrid z) (z_lastseq z) before (z_track z)
  | OTick dt =>
      let now := z_now z + dt in
      mk_spec now (z_vars z) (map (spec_timer before (z_vars z) now) (z_subs z)) (z_nextsub z) (z_out z)
              (z_nextrid z) (z_lastseq z) before (z_track z)
  | OPublish dt _ _ =>
      let now := z_now z + dt in
      let rid := z_nextrid z in
      if is_nil (sn_subs before)
      then mk_spec now (z_vars z) (z_subs z) (z_nextsub z) (z_out z) (rid + 1) (z_lastseq z) before (z_track z)
      else
        let accepted := o_status r =? ST_GOOD in
        mk_spec now (z_vars z) (map (spec_recv before (z_vars z) now) (z_subs z)) (z_nextsub z)
                (if accepted then z_out z ++ [rid] else z_out z) (rid + 1) (z_lastseq z) before
                (z_track z && negb (queue_full before && accepted))
  | OCreateSub _ interval _ _ enabled =>
      mk_spec (z_now z) (z_vars z)
              (z_subs z ++ [mk_ssub (z_nextsub z) interval enabled (z_now z) [] 1 []])
              (z_nextsub z + 1) (z_out z) (z_nextrid z) (z_lastseq z) before (z_track z)
  | ODeleteSub id =>
      mk_spec (z_now z) (z_vars z) (filter (fun s => negb (p_id s =? id)) (z_subs z)) (z_nextsub z)
              (z_out z) (z_nextrid z) (z_lastseq z) before (z_track z)
  | OCreateItem id var mode samp qsize discard =>
      match find_ssub id (z_subs z) with
      | Some s =>
          if (var <? 0) || (len (z_vars z) <=? var) then z
          else
            let it := new_item (p_nextitem s) var mode opix samp qsize discard (z_now z) in
            mk_spec (z_now z) (z_vars z)
                    (replace_ssub (set_p_items s (p_items s ++ [it]) (p_nextitem s + 1)) (z_subs z))
                    (z_nextsub z) (z_out z) (z_nextrid z) (z_lastseq z) before (z_track z)
      | None => z
      end
  | ODeleteItem id item =>
      match find_ssub id (z_subs z) with
      | Some s =>
          mk_spec (z_now z) (z_vars z)
                  (replace_ssub (set_p_items s (filter (fun it => negb (i_id it =? item)) (p_items s)) (p_nextitem s)) (z_subs z))
                  (z_nextsub z) (z_out z) (z_nextrid z) (z_lastseq z) before (z_track z)
      | None => z
      end
  | ORepublish _ _ => z
  | OSetPublishing id enabled =>
      match find_ssub id (z_subs z) with
      | Some s =>
          mk_spec (z_now z) (z_vars z)
                  (replace_ssub (mk_ssub (p_id s) (p_interval s) enabled (p_lasttime s) (p_items s) (p_nextitem s) (p_pending s)) (z_subs z))
                  (z_nextsub z) (z_out z) (z_nextrid z) (z_lastseq z) before (z_track z)
      | None => z
      end
  end.

(* the responses, in order: pairing, sequence numbers, payloads *)
Fixpoint spec_resps (rs : list resp) (z : spec) : option spec :=
  match rs with
  | [] => Some z
  | RFault rid _ :: r =>
      if existsb (Z.eqb rid) (z_out z)
      then spec_resps r (mk_spec (z_now z) (z_vars z) (z_subs z) (z_nextsub z) (remove_z rid (z_out z))
                                 (z_nextrid z) (z_lastseq z) (z_before z) (z_track z))
      else None
  | RPub rid sub _ _ _ m :: r =>
      match z_out z with
      | oldest :: out' =>
          if negb (rid =? oldest) then None
          else if negb (lookup_seq sub (z_lastseq z) <? m_seq m) then None
          else
            let lastseq := (sub, m_seq m) :: z_lastseq z in
            if z_track z && (m_kind m =? 1) then
              match find_ssub sub (z_subs z) with
              | Some s =>
                  match p_pending s with
                  | d :: rest =>
                      if data_eqb (m_data m) d
                      then spec_resps r (mk_spec (z_now z) (z_vars z) (replace_ssub (set_p_pending s rest) (z_subs z))
                                                 (z_nextsub z) out' (z_nextrid z) lastseq (z_before z) (z_track z))
                      else None
                  | [] => None
                  end
              | None => spec_resps r (mk_spec (z_now z) (z_vars z) (z_subs z) (z_nextsub z) out'
                                              (z_nextrid z) lastseq (z_before z) (z_track z))
              end
            else spec_resps r (mk_spec (z_now z) (z_vars z) (z_subs z) (z_nextsub z) out'
                                       (z_nextrid z) lastseq (z_before z) (z_track z))
      | [] => None
      end
  end.

(* after the operation: observed queues against the bookkeeping; forget Closed / vanished subs *)
Definition alive_in (after : snap) (s : ssub) : bool :=
  match state_in (p_id s) (sn_subs after) with
  | Some st => negb (st =? 0)
  | None => false
  end.

Definition spec_after (z : spec) (after : snap) : option spec :=
  if negb (zlist_eqb (sn_reqs after) (z_out z)) then None
  else
    let subs := filter (alive_in after) (z_subs z) in
    let counts_ok :=
      forallb (fun s => match pdata_in (p_id s) (sn_subs after) (sn_pdata after) with
                        | Some n => n =? len (p_pending s)
                        | None => false
                        end) subs in
    let progress_ok := is_nil (z_out z) || forallb (fun s => is_nil (p_pending s)) subs in
    if z_track z && negb (counts_ok && progress_ok) then None
    else Some (mk_spec (z_now z) (z_vars z) subs (z_nextsub z) (z_out z) (z_nextrid z) (z_lastseq z)
                       after (z_track z)).

Definition spec_step (z : spec) (opix : Z) (o : op) (r : opres) : option spec :=
  match spec_resps (o_resps r) (spec_op z opix o r) with
  | Some z1 => spec_after z1 (o_snap r)
  | None => None
  end.

Fixpoint spec_trace (z : spec) (opix : Z) (ops : list op) (tr : list opres) : bool :=
  match tr, ops with
  | [], _ => true
  | r :: tr', o :: ops' =>
      match spec_step z opix o r with
      | Some z1 => spec_trace z1 (opix + 1) ops' tr'
      | None => false
      end
  | _ :: _, [] => false
  end.

Definition init_spec (c : case) : spec :=
  mk_spec 0 (repeat 0 (Z.to_nat (c_nvars c))) [] 1 [] 1 [] (mk_snap [] [] [] []) true.

Definition oracle (c : case) (out : list Z) : bool :=
  match decode out with
  | Some (tr, panicked) => negb panicked && spec_trace (init_spec c) 0 (c_ops c) tr
  | None => false
  end.

Definition known (c : case) : Z := 0.

(* well-formed histories: parameters as the services hand them to Subscription::new (revised:
   interval > 0, keep-alive count >= 1, lifetime >= 3 * keep-alive), no clock going backwards,
   and short enough that u32 sequence numbers do not wrap *)
Definition op_ok (o : op) : bool :=
  match o with
  | OTick dt => 0 <=? dt
  | OPublish dt hint _ => (0 <=? dt) && (0 <=? hint)
  | OCreateSub _ interval kac life _ => (1 <=? interval) && (1 <=? kac) && (3 * kac <=? life) && (life <=? U32MAX)
  | _ => true
  end.
Definition valid (c : case) : Prop :=
  forallb op_ok (c_ops c) = true /\ 2 * len (c_ops c) + 2 < U32MAX.

(* ---------------------------------------------------------------- the code before the fixes *)
(* the pinned code: handle_state_result dropped the notification whenever the state machine
   answered "None" (no publish request queued), and panicked when the lifetime ran out in a
   cycle in which an item reported *)
Module Legacy.
  Definition handle_result (s : sub) (now : Z) (a : action) (notif : option msg) : option sub :=
    match a with
    | ANone => match notif with
               | Some n => Some (set_seqnext s (m_seq n))
               | None => Some s
               end
    | AKeepAlive =>
        let s1 := match notif with Some n => set_seqnext s (m_seq n) | None => s end in
        enqueue_fresh s1 now 0
    | ANotifs => match notif with Some n => enqueue s n | None => Some s end
    | ACreated => match notif with Some _ => None | None => Some s end
    | AExpired => match notif with
                  | Some _ => None
                  | None => enqueue_fresh (set_items s []) now 2
                  end
    end.
  Definition sys_tick := sys_tick_g prio_order (sub_tick_g handle_result).
  Definition run (c : case) : list Z := enc_trace (run_ops_g sys_tick (init c) 0 (c_ops c)).
End Legacy.

(* the tree with the pre-landed fix but before "fix: subscription expiry panicked when an item
   reported in the same cycle" *)
Module LegacyExpiry.
  Definition handle_result (s : sub) (now : Z) (a : action) (notif : option msg) : option sub :=
    match a with
    | AExpired => match notif with
                  | Some _ => None
                  | None => enqueue_fresh (set_items s []) now 2
                  end
    | _ => Sys.handle_result s now a notif
    end.
  Definition sys_tick := sys_tick_g prio_order (sub_tick_g handle_result).
  Definition run (c : case) : list Z := enc_trace (run_ops_g sys_tick (init c) 0 (c_ops c)).
End LegacyExpiry.
