//! C30: not built yet
use crate::util::Args;
pub fn main(_a: &Args) { eprintln!("C30: no harness yet"); std::process::exit(3); }
